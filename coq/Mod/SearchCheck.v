(* C17 - comparison helpers for the file search and the raw statement front (harness/props/C17.py,
   evaluated by vm_compute on the cases the implementation ran).  No proofs. *)
From Coq Require Import List String Ascii Bool ZArith Arith.
From LV Require Import Mod.Modules Mod.ModulesCheck Mod.Unpack Mod.UnpackCheck Mod.Front Mod.Search.
Import ListNotations.
Local Open Scope string_scope.

(* os.path.join / os.path.split: (0, a, b, join a b) | (1, p, "", split(p)[0]) *)
Definition check_path (c : nat * string * string * string) : bool :=
  let '(k, a, b, r) := c in
  match k with
  | 0 => String.eqb (path_join a b) r
  | _ => String.eqb (dirname a) r
  end.

(* the class of the exception the implementation raises for a model error:
   0 GrammarError, 1 OSError (file not found), 2 AssertionError, 3 TypeError; EFuel is never observed *)
Definition err_class (e : err) : option nat :=
  match e with
  | EFuel => None
  | ENoModule => Some 1
  | EBasePath | EFoundElsewhere | ETermAbstract => Some 2
  | ESourceType => Some 3
  | _ => Some 0
  end.

Definition gnames_eqb (a b : list gname) : bool := all2 gname_eqb a b.

(* one do_import search: (environment, base_path, dotted_path, observed: joined_path or exception class) *)
Definition resolve_case := (env * base * list string * (gname + nat))%type.

Definition check_resolve (c : resolve_case) : bool :=
  let '(e, b, p, obs) := c in
  match resolve e b p, obs with
  | Ok (n, _), inl n' => gname_eqb n n'
  | Err x, inr k => match err_class x with Some k' => Nat.eqb k k' | None => false end
  | _, _ => false
  end.

(* a whole load through the search: (environment, global_keep_all_tokens, name of the top-level grammar, its
   statement trees, observed: definitions in dict order, ignore names, used_files in order | exception class) *)
Definition fs_case := (env * bool * gname * list raw_stmt * ((list defn * list string * list gname) + nat))%type.

Definition check_load_fs (c : fs_case) : bool :=
  let '(e, gkeep, name, main, obs) := c in
  match load_fs_and_validate IMPORT_DEPTH e gkeep name main, obs with
  | Ok b, inl (ds, ig, used) =>
      all2 defn_eqb (export b) ds && list_eqb (b_ignore b) ig &&
      gnames_eqb (used_files IMPORT_DEPTH e name main []) used
  | Err x, inr k => match err_class x with Some k' => Nat.eqb k k' | None => false end
  | _, _ => false
  end.

(* the raw front against the tuple _unpack_definition returns (mangle = None):
   (statement tree of a definition, observed: the definition | GrammarError) *)
Definition check_unpack_def (c : raw_def * option defn) : bool :=
  let '(r, obs) := c in
  match unpack_def r, obs with
  | Ok d, Some d' => defn_eqb d d'
  | Err EInlineExpand1, None => true
  | _, _ => false
  end.

(* the by-dotted-path model (Modules.load_and_validate on a table keyed by dotted path) and the search model
   agree whenever the table describes the file system (Search_proofs.load_fs_is_load); evaluated on the
   generated programs: (environment, keep, name, statements, table) *)
Definition check_search_vs_table (c : env * bool * gname * list raw_stmt * module_files) : bool :=
  let '(e, gkeep, name, main, fs) := c in
  match unpack_stmts main with
  | Err _ => false
  | Ok ss =>
      match load_fs_and_validate IMPORT_DEPTH e gkeep name main, load_and_validate IMPORT_DEPTH fs gkeep ss with
      | Ok b, Ok b' => all2 defn_eqb (export b) (export b') && list_eqb (b_ignore b) (b_ignore b')
      | Err _, Err _ => true
      | _, _ => false
      end
  end.

(* the small streams in one file (every generated Coq file pays the same start-up cost) *)
Inductive small_case :=
| CMangle (c : list layer * string * string)
| CUnpackImport (c : UnpackCheck.unpack_case)
| CUnpackDef (c : raw_def * option defn)
| CPath (c : nat * string * string * string).

Definition check_small (c : small_case) : bool :=
  match c with
  | CMangle c => check_mangle c
  | CUnpackImport c => UnpackCheck.check_unpack c
  | CUnpackDef c => check_unpack_def c
  | CPath c => check_path c
  end.

Inductive search_case :=
| SResolve (c : resolve_case)
| SLoad (c : fs_case).

Definition check_search (c : search_case) : bool :=
  match c with SResolve c => check_resolve c | SLoad c => check_load_fs c end.
