(* C17 - comparison helpers used by harness/props/C17.py (evaluated by vm_compute on the cases the
   implementation ran).  No proofs. *)
From Coq Require Import List String Ascii Bool ZArith Arith.
From LV Require Import Mod.Modules.
Import ListNotations.
Local Open Scope string_scope.

(* abbreviations used by the generated case files (plain definitions: they unfold to the constructors) *)
Definition V (t : tree) : tree := Nd "value" [t].
Definition R (n : string) : tree := V (Sy false n).
Definition T (n : string) : tree := V (Sy true n).
Definition Lt (s : string) : tree := V (Nd "literal" [Tk s]).
Definition E (l : list tree) : tree := Nd "expansion" l.
Definition X (l : list tree) : tree := Nd "expansions" l.
Definition Rd (n : string) (t : tree) : defn := mkDef n false (Some t) [] (ORule false false None None).
Definition Td (n : string) (t : tree) : defn := mkDef n true (Some t) [] (OTerm 0).

Definition opt_eqb {A} (f : A -> A -> bool) (a b : option A) : bool :=
  match a, b with
  | None, None => true
  | Some x, Some y => f x y
  | _, _ => false
  end.

Definition dopts_eqb (a b : dopts) : bool :=
  match a, b with
  | ORule k e p t, ORule k' e' p' t' =>
      Bool.eqb k k' && Bool.eqb e e' && opt_eqb Z.eqb p p' && opt_eqb String.eqb t t'
  | OTerm p, OTerm p' => Z.eqb p p'
  | _, _ => false
  end.

Definition defn_eqb (a b : defn) : bool :=
  String.eqb (d_name a) (d_name b) && Bool.eqb (d_term a) (d_term b) &&
  opt_eqb tree_eqb (d_tree a) (d_tree b) && list_eqb (d_params a) (d_params b) &&
  dopts_eqb (d_opts a) (d_opts b).

Fixpoint all2 {A} (f : A -> A -> bool) (a b : list A) : bool :=
  match a, b with
  | [], [] => true
  | x :: r, y :: r' => f x y && all2 f r r'
  | _, _ => false
  end.

(* a load case: (files, global_keep_all_tokens, statements of the top-level grammar,
   observed outcome: None = GrammarError, Some (definitions in dict order, ignore names)) *)
Definition load_case := (module_files * bool * list stmt * option (list defn * list string))%type.

Definition IMPORT_DEPTH : nat := 8.

Definition check_load (c : load_case) : bool :=
  let '(fs, gkeep, main, expected) := c in
  match load_and_validate IMPORT_DEPTH fs gkeep main, expected with
  | Ok b, Some (ds, ig) => all2 defn_eqb (export b) ds && list_eqb (b_ignore b) ig
  | Err EFuel, _ => false
  | Err _, None => true
  | _, _ => false
  end.

(* one call of ApplyTemplates.template_usage:
   (created_templates before, the rule_defs entries named `name`, name, args,
    observed: Some (was cached?, appended (name, tree, options) if any, returned name)) *)
Definition tmpl_case :=
  (list string * list rdef * string * list tree * (bool * option (string * tree * dopts) * string))%type.

Definition check_template (c : tmpl_case) : bool :=
  let '(created, rds, name, args, (cached, appended, ret)) := c in
  match template_usage_step created rds name args with
  | Err _ => false
  | Ok (created', rds', ret') =>
      String.eqb ret ret' &&
      Bool.eqb cached (mem ret' created) &&
      match appended, skipn (List.length rds) rds' with
      | None, [] => list_eqb created created'
      | Some (n, t, o), [r] =>
          String.eqb n (r_name r) && tree_eqb t (r_tree r) && list_eqb (created ++ [n])%list created' &&
          match r_params r with [] => true | _ => false end &&
          (* the options the implementation gave the instance: those of the template (modifiers, priority, label) *)
          dopts_eqb o (r_opts r) &&
          match rds with [r0] => dopts_eqb (r_opts r0) (r_opts r) | _ => false end
      | _, _ => false
      end
  end.

(* mangle as a function: (layers innermost first, name, observed) *)
Definition check_mangle (c : list layer * string * string) : bool :=
  let '(ls, s, r) := c in String.eqb (mangle ls s) r.
