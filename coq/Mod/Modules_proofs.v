(* C17 - proofs about the module model (Mod/Modules.v). *)
From Coq Require Import List String Ascii Bool ZArith Arith Lia.
From LV Require Import Mod.Modules.
Import ListNotations.
Local Open Scope string_scope.

(* ------------------------------------------------------------------ strings *)
Lemma app_str_assoc a b c : (a ++ b) ++ c = a ++ (b ++ c).
Proof. induction a; simpl; auto. now rewrite IHa. Qed.

Lemma app_str_inj_l a b c : a ++ b = a ++ c -> b = c.
Proof. induction a; simpl; auto. intros H; inversion H; auto. Qed.

Lemma length_app_str a b : String.length (a ++ b) = String.length a + String.length b.
Proof. induction a; simpl; auto. Qed.

Lemma mem_In x l : mem x l = true <-> In x l.
Proof.
  induction l as [|y r IH]; simpl.
  - split; [discriminate | tauto].
  - rewrite orb_true_iff, IH. destruct (String.eqb_spec x y) as [->|Hne].
    + split; auto.
    + split; intros [H|H]; auto; try discriminate; congruence.
Qed.

Lemma mem_false_In x l : mem x l = false <-> ~ In x l.
Proof. rewrite <- mem_In. destruct (mem x l); split; congruence. Qed.

Lemma dedup_In x l : In x (dedup l) <-> In x l.
Proof.
  induction l as [|y r IH]; simpl; [tauto|].
  destruct (mem y r) eqn:E.
  - rewrite IH. split; auto. intros [<-|H]; auto. now apply mem_In.
  - simpl. rewrite IH. tauto.
Qed.

(* ------------------------------------------------------------------ mangle *)
(* "_" ++ p ++ "__" ++ r = p ++ "__" ++ s' forces s' to start with an underscore *)
Lemma plain_cross p r s' :
  String "_" (p ++ "__" ++ r) = p ++ "__" ++ s' -> exists s'', s' = String "_" s''.
Proof.
  revert r s'. induction p as [|c p IH]; simpl; intros r s' H.
  - inversion H. eauto.
  - inversion H as [[Hc Hr]]. subst c. apply IH in Hr. exact Hr.
Qed.

Lemma plain_under p r : plain p (String "_" r) = String "_" (p ++ "__" ++ r).
Proof. reflexivity. Qed.

Lemma plain_not_under p s :
  (forall r, s <> String "_" r) -> plain p s = p ++ "__" ++ s.
Proof.
  destruct s as [|c r]; simpl; auto. intros H.
  destruct (Ascii.eqb_spec c "_"); auto. subst. now elim (H r).
Qed.

Lemma starts_under_dec s : (exists r, s = String "_" r) \/ (forall r, s <> String "_" r).
Proof.
  destruct s as [|c r]. right; congruence.
  destruct (Ascii.eqb_spec c "_"). left; subst; eauto. right; congruence.
Qed.

(* without aliases, mangling under one prefix is injective - whatever the prefix *)
Theorem plain_injective p s s' : plain p s = plain p s' -> s = s'.
Proof.
  destruct (starts_under_dec s) as [(r & ->)|Hs]; destruct (starts_under_dec s') as [(r' & ->)|Hs'].
  - rewrite !plain_under. intros H. inversion H as [H1].
    apply app_str_inj_l in H1. apply (app_str_inj_l "__") in H1. now subst.
  - rewrite plain_under, (plain_not_under p s') by auto. intros H.
    apply plain_cross in H. destruct H as (s'' & ->). now elim (Hs' s'').
  - rewrite plain_under, (plain_not_under p s) by auto. intros H. symmetry in H.
    apply plain_cross in H. destruct H as (s'' & ->). now elim (Hs s'').
  - rewrite !plain_not_under by auto. intros H.
    apply app_str_inj_l in H. now apply (app_str_inj_l "__") in H.
Qed.

Lemma plain_length p s : String.length (plain p s) = String.length p + 2 + String.length s.
Proof.
  destruct (starts_under_dec s) as [(r & ->)|Hs].
  - rewrite plain_under. simpl. rewrite !length_app_str. simpl. lia.
  - rewrite plain_not_under by auto. rewrite !length_app_str. simpl. lia.
Qed.

(* a private name of an imported module never keeps its own spelling *)
Theorem plain_fresh p s : plain p s <> s.
Proof. intros H. apply (f_equal String.length) in H. rewrite plain_length in H. lia. Qed.

Lemma mangle1_unaliased l s : assoc s (snd l) = None -> mangle1 l s = plain (fst l) s.
Proof. unfold mangle1. now intros ->. Qed.

Lemma mangle1_aliased l s a : assoc s (snd l) = Some a -> mangle1 l s = a.
Proof. unfold mangle1. now intros ->. Qed.

(* mangle collisions inside one module come only from the alias table *)
Theorem mangle1_collision l s s' :
  mangle1 l s = mangle1 l s' -> s <> s' ->
  (exists a, assoc s (snd l) = Some a /\ (assoc s' (snd l) = Some a \/
                                          (assoc s' (snd l) = None /\ a = plain (fst l) s'))) \/
  (exists a, assoc s' (snd l) = Some a /\ assoc s (snd l) = None /\ a = plain (fst l) s).
Proof.
  unfold mangle1. destruct (assoc s (snd l)) as [a|] eqn:E1; destruct (assoc s' (snd l)) as [a'|] eqn:E2; intros H Hne.
  - left. exists a. subst. auto.
  - left. exists a. auto.
  - right. exists a'. auto.
  - apply plain_injective in H. contradiction.
Qed.

Lemma mangle_cons l ls s : mangle (l :: ls) s = mangle ls (mangle1 l s).
Proof. reflexivity. Qed.

Lemma mangle_nil s : mangle [] s = s.
Proof. reflexivity. Qed.

(* ---- different prefixes: a collision needs a literal "__" in a user name ---- *)
Fixpoint has_dunder (s : string) : bool :=
  match s with
  | String a ((String b _) as r) => (Ascii.eqb a "_" && Ascii.eqb b "_") || has_dunder r
  | _ => false
  end.

Definition starts_under (s : string) : bool :=
  match s with String c _ => Ascii.eqb c "_" | _ => false end.

(* the part of a name that follows the optional leading underscore *)
Definition body (s : string) : string :=
  match s with String c r => if Ascii.eqb c "_" then r else s | _ => s end.

Lemma plain_body p s :
  plain p s = (if starts_under s then "_" else "") ++ p ++ "__" ++ body s.
Proof.
  destruct s as [|c r]; simpl; auto. destruct (Ascii.eqb c "_"); reflexivity.
Qed.

Lemma has_dunder_app_r a b : has_dunder b = true -> has_dunder (a ++ b) = true.
Proof.
  induction a as [|c a IH]; simpl; auto. intros H.
  specialize (IH H). destruct (a ++ b) eqn:E; [discriminate|].
  rewrite IH. apply orb_true_r.
Qed.

Lemma has_dunder_mid a b : has_dunder (a ++ "__" ++ b) = true.
Proof. apply has_dunder_app_r. simpl. destruct b; reflexivity. Qed.

(* p ++ x = q ++ y: one of p, q is a prefix of the other *)
Lemma app_str_split p q x y :
  p ++ x = q ++ y -> exists w, (q = p ++ w /\ x = w ++ y) \/ (p = q ++ w /\ y = w ++ x).
Proof.
  revert q. induction p as [|c p IH]; simpl; intros q H.
  - exists q. left. auto.
  - destruct q as [|d q]; simpl in H.
    + exists (String c p). right. auto.
    + inversion H as [[Hc Hr]]. subst d. destruct (IH _ Hr) as (w & [[-> ->]|[-> ->]]).
      * exists w. left. auto.
      * exists w. right. auto.
Qed.

Lemma dunder_overlap w b b' :
  "__" ++ b = w ++ "__" ++ b' -> starts_under b = false -> has_dunder b = false -> w = "".
Proof.
  intros H Hs Hd. destruct w as [|c1 w]; auto. exfalso.
  simpl in H. inversion H as [[Hc1 H1]]. destruct w as [|c2 w].
  - simpl in H1. inversion H1 as [[H2]]. subst b. simpl in Hs. discriminate.
  - simpl in H1. inversion H1 as [[Hc2 H2]]. subst b.
    change (w ++ String "_" (String "_" b')) with (w ++ "__" ++ b') in Hd.
    rewrite has_dunder_mid in Hd. discriminate.
Qed.

Theorem plain_prefix_disjoint p q s s' :
  starts_under p = false -> starts_under q = false ->
  starts_under (body s) = false -> starts_under (body s') = false ->
  has_dunder (body s) = false -> has_dunder (body s') = false ->
  plain p s = plain q s' -> p = q /\ s = s'.
Proof.
  intros Hp Hq Hb Hb' Hd Hd' H.
  assert (Hpq : p = q).
  { rewrite !plain_body in H.
    assert (Hu : starts_under s = starts_under s' /\ p ++ "__" ++ body s = q ++ "__" ++ body s').
    { destruct (starts_under s), (starts_under s'); simpl in H.
      - inversion H; auto.
      - exfalso. destruct q as [|c q]; simpl in *.
        + inversion H.  destruct p; simpl in *; try discriminate.
          * destruct (body s'); simpl in *; discriminate || (inversion H; subst; simpl in *; discriminate).
          * inversion H1. subst. simpl in Hp. discriminate.
        + inversion H. subst c. simpl in Hq. discriminate.
      - exfalso. destruct p as [|c p]; simpl in *.
        + inversion H. destruct q; simpl in *; try discriminate.
          * destruct (body s); simpl in *; discriminate || (inversion H; subst; simpl in *; discriminate).
          * inversion H1. subst. simpl in Hq. discriminate.
        + inversion H. subst c. simpl in Hp. discriminate.
      - auto. }
    destruct Hu as [_ Hu].
    destruct (app_str_split _ _ _ _ Hu) as (w & [[-> Hw]|[-> Hw]]).
    - apply dunder_overlap in Hw; auto. subst. clear. induction p; simpl; congruence.
    - apply dunder_overlap in Hw; auto. subst. clear. induction q; simpl; congruence. }
  subst q. split; auto. now apply plain_injective in H.
Qed.

(* ------------------------------------------------------------------ define / set_def *)
Lemma defined_find n l : defined n l = true <-> exists d, find_def n l = Some d.
Proof. unfold defined. destruct (find_def n l); split; eauto; try discriminate. intros (d & H); discriminate. Qed.

Lemma find_def_name n l d : find_def n l = Some d -> d_name d = n /\ In d l.
Proof.
  induction l as [|x r IH]; simpl; [discriminate|].
  destruct (String.eqb_spec n (d_name x)).
  - intros H; inversion H; subst; auto.
  - intros H. destruct (IH H). auto.
Qed.

Lemma defined_In n l : defined n l = true <-> In n (map d_name l).
Proof.
  unfold defined. induction l as [|x r IH]; simpl.
  - split; [discriminate | tauto].
  - destruct (String.eqb_spec n (d_name x)).
    + split; auto.
    + rewrite IH. split; auto. intros [H|H]; [congruence | auto].
Qed.

Lemma set_def_undefined d l : defined (d_name d) l = false -> set_def d l = (l ++ [d])%list.
Proof.
  unfold defined. induction l as [|x r IH]; simpl; auto.
  destruct (String.eqb_spec (d_name d) (d_name x)); [discriminate|].
  intros H. now rewrite IH.
Qed.

Lemma set_def_names d l : defined (d_name d) l = true -> map d_name (set_def d l) = map d_name l.
Proof.
  unfold defined. induction l as [|x r IH]; simpl; [discriminate|].
  destruct (String.eqb_spec (d_name d) (d_name x)); simpl.
  - now rewrite e.
  - intros H. now rewrite IH.
Qed.

Lemma find_set_def n d l :
  find_def n (set_def d l) = if String.eqb n (d_name d) then Some d else find_def n l.
Proof.
  induction l as [|x r IH]; simpl.
  - destruct (String.eqb n (d_name d)); auto.
  - destruct (String.eqb_spec (d_name d) (d_name x)) as [E|E]; simpl.
    + destruct (String.eqb_spec n (d_name d)) as [E2|E2].
      * reflexivity.
      * destruct (String.eqb_spec n (d_name x)); [congruence | auto].
    + destruct (String.eqb_spec n (d_name x)) as [E3|E3].
      * destruct (String.eqb_spec n (d_name d)); [congruence | auto].
      * exact IH.
Qed.

Definition norm_def (gkeep : bool) (d : defn) : defn :=
  mkDef (d_name d) (d_term d) (d_tree d) (d_params d) (check_options gkeep (d_opts d)).

Lemma define_ok g o d l l' :
  define g o d l = Ok l' ->
  l' = set_def (norm_def g d) l /\ defined (d_name d) l = o /\ String.prefix "__" (d_name d) = false.
Proof.
  unfold define. destruct (defined (d_name d) l) eqn:E; destruct o; simpl; try discriminate;
    destruct (String.prefix "__" (d_name d)); try discriminate; intros H; inversion H; auto.
Qed.

Lemma define_dup g d l : defined (d_name d) l = true -> define g false d l = Err EDup.
Proof. unfold define. now intros ->. Qed.

(* %override: the definition is replaced where it stands, everything else is untouched *)
Theorem override_replaces g d l l' :
  define g true d l = Ok l' ->
  defined (d_name d) l = true /\
  map d_name l' = map d_name l /\
  find_def (d_name d) l' = Some (norm_def g d) /\
  (forall n, n <> d_name d -> find_def n l' = find_def n l).
Proof.
  intros H. apply define_ok in H. destruct H as (-> & Hd & _).
  split; auto. split.
  - apply set_def_names. exact Hd.
  - split.
    + rewrite find_set_def. simpl. now rewrite String.eqb_refl.
    + intros n Hn. rewrite find_set_def. simpl. destruct (String.eqb_spec n (d_name d)); [contradiction | auto].
Qed.

Theorem override_needs_definition g d l : defined (d_name d) l = false -> define g true d l = Err ENoOverride.
Proof. unfold define. now intros ->. Qed.

Lemma list_eqb_eq a b : list_eqb a b = true -> a = b.
Proof.
  revert b. induction a as [|x r IH]; intros [|y r']; simpl; try discriminate; auto.
  rewrite andb_true_iff. intros [H1 H2]. apply String.eqb_eq in H1. subst. f_equal. now apply IH.
Qed.

Lemma list_eqb_refl a : list_eqb a a = true.
Proof. induction a; simpl; auto. now rewrite String.eqb_refl. Qed.

(* %extend: the new alternative is added in front, the old ones all remain *)
Lemma add_alternative_spec exp dd ch :
  add_alternative exp (Nd dd ch) = Nd dd (exp :: ch) /\ incl ch (exp :: ch) /\ In exp (exp :: ch).
Proof. simpl. repeat split; auto with datatypes. Qed.

Theorem extend_is_alternative d l l' :
  extend d l = Ok l' ->
  forall exp, d_tree d = Some exp ->
  exists old base,
    find_def (d_name d) l = Some old /\ d_tree old = Some base /\
    d_term old = d_term d /\ d_params old = d_params d /\
    find_def (d_name d) l' =
      Some (mkDef (d_name old) (d_term old) (Some (add_alternative exp base)) (d_params old) (d_opts old)) /\
    map d_name l' = map d_name l /\
    (forall n, n <> d_name d -> find_def n l' = find_def n l).
Proof.
  unfold extend. intros H exp Hexp.
  destruct (find_def (d_name d) l) as [old|] eqn:Ef; [|discriminate].
  destruct (Bool.eqb (d_term d) (d_term old)) eqn:Ek; simpl in H; [|discriminate].
  destruct (list_eqb (d_params d) (d_params old)) eqn:Ep; simpl in H; [|discriminate].
  destruct (d_tree old) as [base|] eqn:Et; [|discriminate].
  rewrite Hexp in H. inversion H; subst l'; clear H.
  destruct (find_def_name _ _ _ Ef) as [Hn _].
  assert (Hps : d_params old = d_params d) by (symmetry; now apply list_eqb_eq).
  exists old, base. repeat split; auto.
  - symmetry. now apply eqb_prop.
  - rewrite find_set_def. simpl. rewrite Hn. now rewrite String.eqb_refl.
  - apply set_def_names. simpl. rewrite Hn. apply defined_find. eauto.
  - intros n Hne. rewrite find_set_def. simpl. rewrite Hn.
    destruct (String.eqb_spec n (d_name d)); [contradiction | auto].
Qed.

(* ------------------------------------------------------------------ _remove_unused = reachability *)
Inductive Reach (l : list defn) (roots : list string) : string -> Prop :=
| R_root x : In x roots -> Reach l roots x
| R_step x y : Reach l roots x -> In y (rule_deps l x) -> Reach l roots y.

Lemma reach_incl fuel l v x : In x v -> In x (reach fuel l v).
Proof.
  revert v. induction fuel as [|f IH]; simpl; intros v H; auto.
  destruct (dedup _) eqn:E; auto. apply IH. apply in_or_app. now left.
Qed.

Lemma reach_sound l roots fuel v :
  (forall x, In x v -> Reach l roots x) -> forall x, In x (reach fuel l v) -> Reach l roots x.
Proof.
  revert v. induction fuel as [|f IH]; simpl; intros v Hv x Hx; auto.
  destruct (dedup _) as [|n new] eqn:E; auto.
  apply (IH (v ++ n :: new)%list); auto.
  intros y Hy. apply in_app_or in Hy. destruct Hy as [Hy|Hy]; auto.
  rewrite <- E in Hy. apply (proj1 (dedup_In _ _)) in Hy. apply filter_In in Hy. destruct Hy as [Hy _].
  apply in_flat_map in Hy. destruct Hy as (z & Hz & Hyz).
  apply R_step with (x := z); auto.
Qed.

Lemma closed_complete l roots v :
  closed_under l v = true -> (forall x, In x roots -> In x v) ->
  forall x, Reach l roots x -> In x v.
Proof.
  intros Hc Hr x H. induction H as [x Hx|x y Hxy IH Hy]; auto.
  unfold closed_under in Hc. rewrite forallb_forall in Hc. specialize (Hc _ IH).
  rewrite forallb_forall in Hc. apply mem_In. now apply Hc.
Qed.

Theorem remove_unused_is_reachability l used kept :
  remove_unused l used = Ok kept ->
  kept = filter (fun d => mem (d_name d)
                   (reach (List.length used + total_syms l + 1) l (dedup used))) l /\
  (forall d, In d kept <-> In d l /\ Reach l used (d_name d)).
Proof.
  unfold remove_unused. set (v := reach _ l (dedup used)).
  destruct (closed_under l v) eqn:Hc; [|discriminate]. intros H; inversion H; subst kept; clear H.
  split; auto. intros d. rewrite filter_In. rewrite mem_In.
  assert (Hs : forall x, In x v -> Reach l used x).
  { apply reach_sound. intros x Hx. apply (proj1 (dedup_In _ _)) in Hx. now apply R_root. }
  assert (Hk : forall x, Reach l used x -> In x v).
  { apply closed_complete; auto. intros x Hx. apply reach_incl. now apply (proj2 (dedup_In _ _)). }
  split; intros [H1 H2]; split; auto.
Qed.

(* ------------------------------------------------------------------ sequences of plain definitions *)
Definition define_all (g : bool) (ls : list layer) (ds : list defn) (l : list defn) : result (list defn) :=
  fold_left (fun acc d => l' <- acc ;; define g false (mangle_def ls d) l') ds (Ok l).

Lemma define_all_err g ls ds e :
  fold_left (fun acc d => l' <- acc ;; define g false (mangle_def ls d) l') ds (Err e) = Err e.
Proof. induction ds; simpl; auto. Qed.

Lemma define_all_spec g ls ds : forall l l',
  define_all g ls ds l = Ok l' ->
  l' = (l ++ map (fun d => norm_def g (mangle_def ls d)) ds)%list /\
  NoDup (map (fun d => mangle ls (d_name d)) ds) /\
  (forall d, In d ds -> defined (mangle ls (d_name d)) l = false).
Proof.
  unfold define_all. induction ds as [|d ds IH]; simpl; intros l l' H.
  - inversion H. rewrite app_nil_r. repeat split; auto. constructor. intros d [].
  - destruct (define g false (mangle_def ls d) l) as [l1|e] eqn:E.
    2:{ rewrite define_all_err in H. discriminate. }
    apply define_ok in E. destruct E as (-> & Hd & _). simpl in Hd.
    rewrite set_def_undefined in H by (simpl; auto).
    apply IH in H. destruct H as (-> & Hnd & Hfresh).
    split; [now rewrite <- app_assoc|]. split.
    + constructor; auto. intros Hin. apply in_map_iff in Hin. destruct Hin as (d' & Heq & Hd').
      specialize (Hfresh _ Hd'). rewrite Heq in Hfresh.
      assert (defined (mangle ls (d_name d)) (l ++ [norm_def g (mangle_def ls d)]) = true).
      { apply defined_In. rewrite map_app. apply in_or_app. right. simpl. now left. }
      congruence.
    + intros d' [<-|Hd']; auto. specialize (Hfresh _ Hd').
      destruct (defined (mangle ls (d_name d')) l) eqn:E; auto.
      apply defined_In in E.
      assert (defined (mangle ls (d_name d')) (l ++ [norm_def g (mangle_def ls d)]) = true).
      { apply defined_In. rewrite map_app. apply in_or_app. now left. }
      congruence.
Qed.

Lemma NoDup_map_inj {A B} (f : A -> B) l x y :
  NoDup (map f l) -> In x l -> In y l -> f x = f y -> x = y.
Proof.
  induction l as [|a r IH]; simpl; [tauto|]. intros Hnd Hx Hy Hf. inversion Hnd as [|? ? Hn Hr]; subst.
  destruct Hx as [->|Hx], Hy as [->|Hy]; auto.
  - elim Hn. rewrite Hf. now apply in_map.
  - elim Hn. rewrite <- Hf. now apply in_map.
Qed.

(* where the builder accepts a module, the mangle is injective on the names the module defines;
   otherwise _define raises ('defined more than once') *)
Theorem mangle_injective_or_error g ls ds l :
  (exists l', define_all g ls ds l = Ok l' /\
     forall d d', In d ds -> In d' ds -> mangle ls (d_name d) = mangle ls (d_name d') -> d = d') \/
  (exists e, define_all g ls ds l = Err e).
Proof.
  destruct (define_all g ls ds l) as [l'|e] eqn:E; [left|right; eauto].
  exists l'. split; auto. apply define_all_spec in E. destruct E as (_ & Hnd & _).
  intros d d' Hd Hd' Heq.
  apply (NoDup_map_inj (fun d => mangle ls (d_name d)) ds); auto.
Qed.

(* two distinct names of a module that collide under the mangle make the builder fail *)
Corollary mangle_collision_is_error g ls ds l d d' :
  In d ds -> In d' ds -> d_name d <> d_name d' -> mangle ls (d_name d) = mangle ls (d_name d') ->
  exists e, define_all g ls ds l = Err e.
Proof.
  intros Hd Hd' Hne Heq. destruct (mangle_injective_or_error g ls ds l) as [(l' & _ & H)|H]; auto.
  elim Hne. now rewrite (H d d' Hd Hd' Heq).
Qed.

(* ------------------------------------------------------------------ terminals are tree objects *)
Definition same_shape (d d' : defn) : Prop :=
  d_name d' = d_name d /\ d_term d' = d_term d /\ (d_term d = false -> d' = d).

Lemma same_shape_refl1 d : same_shape d d.
Proof. unfold same_shape. auto. Qed.

Lemma alloc_spec d b :
  same_shape d (fst (alloc d b)) /\
  b_defs (snd (alloc d b)) = b_defs b /\ b_ignore (snd (alloc d b)) = b_ignore b /\
  (forall o, o <> b_next b -> hget o (b_heap (snd (alloc d b))) = hget o (b_heap b)).
Proof.
  unfold alloc. destruct (d_term d) eqn:E; destruct (d_tree d); simpl; unfold same_shape; simpl;
    repeat split; auto; try (intros; congruence).
  intros o Ho. destruct (Nat.eqb_spec o (b_next b)); [contradiction | reflexivity].
Qed.

Lemma norm_shape g d d' : same_shape d d' -> same_shape (norm_def g d) (norm_def g d').
Proof.
  intros (N & T & E). unfold same_shape, norm_def; simpl. repeat split; auto.
  intros Ht. now rewrite (E Ht).
Qed.

Lemma define_stmt_spec g o d b b' :
  define_stmt g o d b = Ok b' ->
  exists d', same_shape d d' /\ define g o d' (b_defs b) = Ok (b_defs b') /\ b_ignore b' = b_ignore b.
Proof.
  unfold define_stmt. destruct (alloc d b) as [d' b1] eqn:Ea.
  destruct (alloc_spec d b) as (Hs & Hd & Hi & _). rewrite Ea in Hs, Hd, Hi. simpl in *.
  destruct (define g o d' (b_defs b1)) as [l|] eqn:E; simpl; [|discriminate].
  intros H; inversion H; subst b'; clear H. simpl.
  exists d'. rewrite <- Hd. auto.
Qed.

(* %override of a terminal makes a NEW tree object and leaves every existing object alone: trees that
   already hold the old object (imported terminals built from it) keep seeing the old one (finding F35) *)
Theorem override_term_fresh_object g d b b' t :
  d_term d = true -> d_tree d = Some t -> define_stmt g true d b = Ok b' ->
  b_heap b' = (b_next b, t) :: b_heap b /\
  find_def (d_name d) (b_defs b') =
    Some (norm_def g (mkDef (d_name d) true (Some (Ptr (b_next b))) (d_params d) (d_opts d))).
Proof.
  unfold define_stmt, alloc. intros Ht Hd. rewrite Ht, Hd.
  destruct (define g true _ _) as [l|] eqn:E; simpl; [|discriminate].
  intros H; inversion H; subst b'; clear H. simpl. split; auto.
  apply override_replaces in E. simpl in E. apply E.
Qed.

Lemma hget_hset_same o t h : hget o (hset o t h) = Some t.
Proof.
  induction h as [|[k t'] r IH]; simpl.
  - now rewrite Nat.eqb_refl.
  - destruct (Nat.eqb_spec o k); simpl.
    + subst. now rewrite Nat.eqb_refl.
    + destruct (Nat.eqb_spec o k); [contradiction | exact IH].
Qed.

Lemma hget_hset_other o o' t h : o' <> o -> hget o' (hset o t h) = hget o' h.
Proof.
  intros Hne. induction h as [|[k t'] r IH]; simpl.
  - destruct (Nat.eqb_spec o' o); [contradiction | reflexivity].
  - destruct (Nat.eqb_spec o k); simpl.
    + subst k. destruct (Nat.eqb_spec o' o); [contradiction | reflexivity].
    + destruct (Nat.eqb_spec o' k); auto.
Qed.

(* %extend of a terminal changes the terminal's tree OBJECT in place: the object gets the new
   alternative in front, no other object and no definition changes - so every tree that holds the
   object (a terminal built from this one, also one imported earlier) sees the extension *)
Theorem extend_term_in_place d b b' old o base exp :
  extend_stmt d b = Ok b' ->
  find_def (d_name d) (b_defs b) = Some old -> d_tree old = Some (Ptr o) ->
  hget o (b_heap b) = Some base -> d_tree d = Some exp ->
  hget o (b_heap b') = Some (add_alternative exp base) /\
  (forall o', o' <> o -> hget o' (b_heap b') = hget o' (b_heap b)) /\
  map d_name (b_defs b') = map d_name (b_defs b) /\
  (forall n, option_map d_tree (find_def n (b_defs b')) = option_map d_tree (find_def n (b_defs b))) /\
  b_ignore b' = b_ignore b.
Proof.
  unfold extend_stmt. intros H Hf Ht Hh He.
  destruct (extend d (b_defs b)) as [l|] eqn:E; simpl in H; [|discriminate].
  rewrite Hf, He, Ht, Hh in H. inversion H; subst b'; clear H. simpl.
  split; [apply hget_hset_same|]. split; [intros; now apply hget_hset_other|].
  destruct (extend_is_alternative _ _ _ E exp He) as (old' & base' & Hf' & Hb' & _ & _ & Hnew & Hnames & Hother).
  rewrite Hf in Hf'. inversion Hf'; subst old'. rewrite Ht in Hb'. inversion Hb'; subst base'.
  split; auto. split; auto.
  intros n. destruct (String.eqb_spec n (d_name d)) as [->|Hn].
  - rewrite Hnew, Hf. simpl. now rewrite Ht.
  - now rewrite Hother.
Qed.

Lemma deref_ptr f h o t : hget o h = Some t -> deref (S f) h (Ptr o) = deref f h t.
Proof. simpl. now intros ->. Qed.

(* ------------------------------------------------------------------ do_import *)
Lemma clashes_false a b :
  clashes a b = false -> forall d, In d a -> defined (d_name d) b = false.
Proof.
  unfold clashes. intros H d Hd.
  destruct (defined (d_name d) b) eqn:E; auto.
  assert (existsb (fun d => defined (d_name d) b) a = true) by (apply existsb_exists; eauto). congruence.
Qed.

Theorem do_import_spec loader fs ls b imp b' :
  do_import loader fs ls b imp = Ok b' ->
  let ls' := (join "__" (fst imp), snd imp) :: ls in
  exists ms gb kept,
    lookup_module (fst imp) fs = Some ms /\
    loader (b_next b) ls' ms = Ok gb /\
    (forall d, In d kept <-> In d (b_defs gb) /\
                             Reach (b_defs gb) (map (mangle ls') (map fst (snd imp))) (d_name d)) /\
    (forall d, In d kept -> defined (d_name d) (b_defs b) = false) /\
    b_defs b' = (b_defs b ++ kept)%list /\ b_ignore b' = b_ignore b /\
    b_heap b' = (b_heap b ++ b_heap gb)%list.
Proof.
  unfold do_import. cbv zeta. intros H.
  destruct (lookup_module (fst imp) fs) as [ms|]; [|discriminate].
  destruct (loader _ _ ms) as [gb|] eqn:El; simpl in H; [|discriminate].
  destruct (remove_unused _ _) as [kept|] eqn:Er; simpl in H; [|discriminate].
  destruct (clashes kept (b_defs b)) eqn:Ec; [discriminate|]. inversion H; subst b'; clear H.
  exists ms, gb, kept.
  apply remove_unused_is_reachability in Er. destruct Er as [_ Hr].
  split; auto. split; auto. split; [exact Hr|]. split; [now apply clashes_false|]. repeat split; reflexivity.
Qed.

(* a clash with an existing definition is an error, never a capture *)
Theorem import_clash_is_error loader fs ls b imp ms gb kept d :
  lookup_module (fst imp) fs = Some ms ->
  loader (b_next b) ((join "__" (fst imp), snd imp) :: ls) ms = Ok gb ->
  remove_unused (b_defs gb) (map (mangle ((join "__" (fst imp), snd imp) :: ls)) (map fst (snd imp))) = Ok kept ->
  In d kept -> defined (d_name d) (b_defs b) = true ->
  do_import loader fs ls b imp = Err EClash.
Proof.
  intros Hl Hg Hr Hd Hdef. unfold do_import. rewrite Hl, Hg. simpl. rewrite Hr. simpl.
  assert (clashes kept (b_defs b) = true) as ->; auto.
  unfold clashes. apply existsb_exists. eauto.
Qed.

(* ------------------------------------------------------------------ flat modules *)
Lemma collect_imports_defs k ds acc :
  fold_left (fun acc s => match s with SImport p al => add_import p al acc | _ => acc end)
            (map (SDef k) ds) acc = acc.
Proof. revert acc. induction ds; simpl; auto. Qed.

Lemma apply_stmts_err g ls ss e :
  fold_left (fun acc s => b' <- acc ;; apply_stmt g ls s b') ss (Err e) = Err e.
Proof. induction ss; simpl; auto. Qed.

Lemma apply_defs_spec g ls ds : forall b b',
  apply_stmts g ls (map (SDef KDefine) ds) b = Ok b' ->
  exists ds', Forall2 same_shape (map (mangle_def ls) ds) ds' /\
    b_defs b' = (b_defs b ++ map (norm_def g) ds')%list /\
    NoDup (map (fun d => mangle ls (d_name d)) ds) /\
    (forall d, In d ds -> defined (mangle ls (d_name d)) (b_defs b) = false) /\
    b_ignore b' = b_ignore b.
Proof.
  unfold apply_stmts. induction ds as [|d ds IH]; simpl; intros b b' H.
  - inversion H; subst. exists []. rewrite app_nil_r. repeat split; auto; try constructor. intros d [].
  - destruct (define_stmt g false (mangle_def ls d) b) as [b1|e] eqn:E.
    2:{ rewrite apply_stmts_err in H. discriminate. }
    apply define_stmt_spec in E. destruct E as (d1 & Hs & Hdef & Hi).
    apply define_ok in Hdef. destruct Hdef as (Hb1 & Hd & _).
    destruct Hs as (N & T & Eq). simpl in N.
    rewrite set_def_undefined in Hb1 by (simpl; exact Hd).
    apply IH in H. destruct H as (ds' & Hf & Hdefs & Hnd & Hfresh & Hi').
    exists (d1 :: ds'). split.
    { constructor; auto. unfold same_shape. auto. }
    split. { rewrite Hdefs, Hb1. simpl. now rewrite <- app_assoc. }
    assert (Hlast : defined (mangle ls (d_name d)) (b_defs b1) = true).
    { apply defined_In. rewrite Hb1, map_app. apply in_or_app. right. simpl. left. exact N. }
    split.
    + constructor; auto. intros Hin. apply in_map_iff in Hin. destruct Hin as (d' & Heq & Hd').
      specialize (Hfresh _ Hd'). rewrite Heq in Hfresh. congruence.
    + split; [|congruence].
      intros d' [<-|Hd'].
      * rewrite <- N. exact Hd.
      * specialize (Hfresh _ Hd').
        destruct (defined (mangle ls (d_name d')) (b_defs b)) eqn:E; auto.
        apply defined_In in E.
        assert (defined (mangle ls (d_name d')) (b_defs b1) = true).
        { apply defined_In. rewrite Hb1, map_app. apply in_or_app. now left. }
        congruence.
Qed.

Lemma load_S f fs g ls ss b :
  load (S f) fs g ls ss b =
  (b1 <- fold_left
           (fun acc imp => b' <- acc ;;
                           do_import (fun next ls' ms => load f fs g ls' ms (fresh_builder next)) fs ls b' imp)
           (collect_imports ss) (Ok b) ;;
   b2 <- apply_stmts g ls ss b1 ;;
   h <- resolve_heap (b_defs b2) (b_heap b2) ;;
   Ok (mkB (b_defs b2) (b_ignore b2) h (b_next b2))).
Proof. reflexivity. Qed.

(* resolve_term_references never touches the definitions themselves (only tree objects of terminals) *)
(* loading a module that consists of plain definitions, under a mangle: every definition is the
   renamed one, in the order of the file; rules are exactly mangle_def of the source rule; terminals
   keep name and kind (their tree is an object of the heap) *)
Theorem load_flat_module f fs g ls ds n gb :
  load (S f) fs g ls (map (SDef KDefine) ds) (fresh_builder n) = Ok gb ->
  Forall2 same_shape (map (fun d => norm_def g (mangle_def ls d)) ds) (b_defs gb) /\
  NoDup (map (fun d => mangle ls (d_name d)) ds) /\ b_ignore gb = [].
Proof.
  rewrite load_S. unfold collect_imports. rewrite collect_imports_defs. cbn [fold_left bind].
  destruct (apply_stmts g ls (map (SDef KDefine) ds) (fresh_builder n)) as [b2|] eqn:E; [|discriminate].
  cbn [bind]. destruct (resolve_heap (b_defs b2) (b_heap b2)) as [h|]; [|discriminate]. cbn [bind].
  intros H; inversion H; subst gb; clear H. cbn [b_defs b_ignore].
  apply apply_defs_spec in E. destruct E as (ds' & Hf & Hdefs & Hnd & _ & Hi).
  simpl in Hdefs, Hi. rewrite Hdefs. split; [|split; auto].
  clear -Hf. revert ds' Hf. induction ds as [|d ds IH]; intros ds' Hf; inversion Hf; subst; simpl; constructor.
  - now apply norm_shape.
  - now apply IH.
Qed.

Lemma Forall2_In_r {A B} (R : A -> B -> Prop) l l' y :
  Forall2 R l l' -> In y l' -> exists x, In x l /\ R x y.
Proof.
  induction 1; simpl; [tauto|]. intros [<-|H1]; eauto. destruct (IHForall2 H1) as (x0 & ? & ?). eauto.
Qed.

(* import = inlining: what an import of a flat module contributes is, for rules, exactly
   mangle_def of a rule of the module that is reachable from the imported names (and conversely
   every reachable one is contributed); nothing already defined is captured *)
Theorem import_is_inlining f fs g ls b p al ds b' :
  lookup_module p fs = Some (map (SDef KDefine) ds) ->
  do_import (fun next ls' ms => load (S f) fs g ls' ms (fresh_builder next)) fs ls b (p, al) = Ok b' ->
  let ls' := (join "__" p, al) :: ls in
  exists gdefs kept,
    Forall2 same_shape (map (fun d => norm_def g (mangle_def ls' d)) ds) gdefs /\
    b_defs b' = (b_defs b ++ kept)%list /\
    (forall d', In d' kept <-> In d' gdefs /\ Reach gdefs (map (mangle ls') (map fst al)) (d_name d')) /\
    (forall d', In d' kept -> d_term d' = false ->
        exists d, In d ds /\ d_term d = false /\ d' = norm_def g (mangle_def ls' d)) /\
    (forall d', In d' kept -> defined (d_name d') (b_defs b) = false) /\
    NoDup (map (fun d => mangle ls' (d_name d)) ds).
Proof.
  intros Hl H ls'. apply do_import_spec in H. simpl in H.
  destruct H as (ms & gb & kept & Hl' & Hg & Hk & Hfresh & Hd & _).
  rewrite Hl in Hl'. inversion Hl'; subst ms; clear Hl'.
  apply load_flat_module in Hg. destruct Hg as (Hsh & Hnd & _).
  exists (b_defs gb), kept.
  split; [exact Hsh|]. split; [exact Hd|]. split; [exact Hk|]. split; [|split; [exact Hfresh | exact Hnd]].
  intros d' Hd' Ht. apply Hk in Hd'. destruct Hd' as [Hin _].
  destruct (Forall2_In_r _ _ _ _ Hsh Hin) as (x & Hx & (N & T & E)).
  apply in_map_iff in Hx. destruct Hx as (d & <- & Hd0).
  exists d. simpl in *. split; auto. split; [congruence|]. apply E. congruence.
Qed.

(* no capture: a private name of the module is spelled differently after mangling, and a
   contributed name equal to an existing local one is the EClash error above *)
Theorem no_capture l s : assoc s (snd l) = None -> mangle1 l s <> s.
Proof. intros H. rewrite mangle1_unaliased by auto. apply plain_fresh. Qed.

Theorem local_after_import_is_error g d l : defined (d_name d) l = true -> define g false d l = Err EDup.
Proof. apply define_dup. Qed.

(* ------------------------------------------------------------------ templates *)
Lemma tree_ind' (P : tree -> Prop) :
  (forall d ch, Forall P ch -> P (Nd d ch)) -> (forall b n, P (Sy b n)) -> (forall v, P (Tk v)) ->
  (forall o, P (Ptr o)) -> forall t, P t.
Proof.
  intros Hn Hs Hk Hp. fix IH 1. intros t. destruct t as [d ch|b n|v|o].
  - apply Hn. induction ch as [|c ch IHch]; constructor. apply IH. exact IHch.
  - apply Hs.
  - apply Hk.
  - apply Hp.
Qed.

Lemma map_id_Forall {A} (f : A -> A) l : Forall (fun x => f x = x) l -> map f l = l.
Proof. induction 1; simpl; congruence. Qed.

(* symbols that are not parameters are left alone: a body without parameters is unchanged *)
Theorem subst_fresh names t :
  (forall s, In s (syms t) -> assoc s names = None) -> subst names t = t.
Proof.
  induction t as [d ch IH|b n|v|o] using tree_ind'; simpl; auto. intros Hf.
  assert (Hm : map (subst names) ch = ch).
  { apply map_id_Forall. rewrite Forall_forall in *. intros c Hc. apply IH; auto.
    intros s Hs. apply Hf. apply in_flat_map. eauto. }
  rewrite Hm.
  destruct (String.eqb d "value").
  - destruct ch as [|[ | b n | | ] [|? ?]]; auto.
    rewrite (Hf n); auto. simpl. auto.
  - destruct (String.eqb d "template_usage"); auto.
    destruct ch as [|[ | b n | | ] rest]; auto.
    rewrite (Hf n); auto. simpl. auto.
Qed.

Corollary subst_nil t : subst [] t = t.
Proof. apply subst_fresh. auto. Qed.

(* the two places where a parameter is replaced *)
Lemma subst_value names b p a :
  assoc p names = Some a -> subst names (Nd "value" [Sy b p]) = a.
Proof. simpl. now intros ->. Qed.

Lemma subst_template_head names b p a args :
  assoc p names = Some a ->
  subst names (Nd "template_usage" (Sy b p :: args)) = Nd "template_usage" (a :: map (subst names) args).
Proof. simpl. now intros ->. Qed.

Lemma assoc_In {A} x (l : list (string * A)) a : assoc x l = Some a -> In a (map snd l).
Proof.
  induction l as [|[k v] r IH]; simpl; [discriminate|].
  destruct (String.eqb x k); intros H; [inversion H; auto | auto].
Qed.

(* no capture: every symbol of an instance is a symbol of the template body or of an argument *)
Theorem subst_syms names t s :
  In s (syms (subst names t)) ->
  In s (syms t) \/ exists a, In a (map snd names) /\ In s (syms a).
Proof.
  induction t as [d ch IH|b n|v|o] using tree_ind'; simpl; auto. intros H.
  assert (Hch : In s (flat_map syms (map (subst names) ch)) ->
                In s (flat_map syms ch) \/ exists a, In a (map snd names) /\ In s (syms a)).
  { intros H0. apply in_flat_map in H0. destruct H0 as (c' & Hc' & Hs).
    apply in_map_iff in Hc'. destruct Hc' as (c & <- & Hc).
    rewrite Forall_forall in IH. destruct (IH c Hc Hs) as [H1|H1]; auto.
    left. apply in_flat_map. eauto. }
  destruct (String.eqb d "value").
  - destruct (map (subst names) ch) as [|[ | b n | | ] [|? ?]] eqn:E; try (apply Hch; exact H).
    destruct (assoc n names) as [a|] eqn:Ea; [|apply Hch; exact H].
    right. exists a. split; auto. eapply assoc_In; eauto.
  - destruct (String.eqb d "template_usage"); [|apply Hch; exact H].
    destruct (map (subst names) ch) as [|[ | b n | | ] rest] eqn:E; try (apply Hch; exact H).
    destruct (assoc n names) as [a|] eqn:Ea; [|apply Hch; exact H].
    simpl in H. apply in_app_or in H. destruct H as [H|H].
    + right. exists a. split; auto. eapply assoc_In; eauto.
    + apply Hch. simpl. now right.
Qed.

(* ApplyTemplates.template_usage: a new instance is the substitution of the arguments for the
   parameters in the template's body, is named by template and arguments, carries no parameters
   and the template's options; a second use with the same arguments creates nothing *)
Theorem template_is_substitution created rds name args created' rds' rn :
  template_usage_step created rds name args = Ok (created', rds', rn) ->
  rn = instance_name name args /\
  ((mem rn created = true /\ created' = created /\ rds' = rds) \/
   (mem rn created = false /\ created' = (created ++ [rn])%list /\
    exists r, find_rdef name rds = [r] /\ List.length (r_params r) = List.length args /\
      rds' = (rds ++ [mkR rn [] (subst (zip_dict (r_params r) args []) (r_tree r)) (r_opts r)])%list)).
Proof.
  unfold template_usage_step. destruct (mem (instance_name name args) created) eqn:Em.
  - intros H; inversion H; subst. auto.
  - destruct (find_rdef name rds) as [|r [|? ?]] eqn:Ef; try discriminate.
    destruct (Nat.eqb (List.length (r_params r)) (List.length args)) eqn:El; simpl; [|discriminate].
    intros H; inversion H; subst. split; auto. right. repeat split; auto.
    exists r. repeat split; auto. now apply Nat.eqb_eq.
Qed.

Theorem template_cached_second_use created rds name args created' rds' rn :
  template_usage_step created rds name args = Ok (created', rds', rn) ->
  template_usage_step created' rds' name args = Ok (created', rds', rn).
Proof.
  intros H. destruct (template_is_substitution _ _ _ _ _ _ _ H) as (-> & [(Hm & -> & ->)|(Hm & -> & _)]).
  - unfold template_usage_step. now rewrite Hm.
  - unfold template_usage_step.
    assert (mem (instance_name name args) (created ++ [instance_name name args]) = true) as ->; auto.
    apply mem_In. apply in_or_app. right. now left.
Qed.

(* ------------------------------------------------------------------ instance names *)
Fixpoint has_char (c : ascii) (s : string) : bool :=
  match s with EmptyString => false | String d r => Ascii.eqb c d || has_char c r end.

Lemma split_at_char c a : forall a' b b',
  has_char c a = false -> has_char c a' = false ->
  a ++ String c b = a' ++ String c b' -> a = a' /\ b = b'.
Proof.
  induction a as [|x a IH]; intros [|x' a'] b b'; simpl; intros Ha Ha' H.
  - inversion H; auto.
  - inversion H. subst x'. rewrite Ascii.eqb_refl in Ha'. discriminate.
  - inversion H. subst x. rewrite Ascii.eqb_refl in Ha. discriminate.
  - inversion H. subst x'. apply orb_false_iff in Ha, Ha'.
    destruct (IH a' b b') as [-> ->]; tauto.
Qed.

Lemma app_str_inj_r c : forall a b, a ++ c = b ++ c -> a = b.
Proof.
  induction a as [|x a IH]; intros [|y b]; simpl; intros H; auto.
  - apply (f_equal String.length) in H. simpl in H. rewrite length_app_str in H. lia.
  - apply (f_equal String.length) in H. simpl in H. rewrite length_app_str in H. lia.
  - inversion H. f_equal. now apply IH.
Qed.

Lemma has_char_mid c a b : has_char c (a ++ String c b) = true.
Proof. induction a; simpl. now rewrite Ascii.eqb_refl. rewrite IHa. apply orb_true_r. Qed.

Definition flat_name (s : string) : Prop := has_char "," s = false /\ s <> "".

Lemma join_cons2 sep x y r : join sep (x :: y :: r) = x ++ sep ++ join sep (y :: r).
Proof. reflexivity. Qed.

Lemma join_nonempty x r : x <> "" -> join "," (x :: r) <> "".
Proof.
  destruct r; simpl; auto. intros Hx H. destruct x; simpl in H; [auto | discriminate].
Qed.

Lemma join_inj l : forall l', Forall flat_name l -> Forall flat_name l' -> join "," l = join "," l' -> l = l'.
Proof.
  induction l as [|x r IH]; intros [|x' r'] Hl Hl' H; auto.
  - inversion Hl' as [|? ? [_ Hx] _]; subst. symmetry in H. now apply join_nonempty in H.
  - inversion Hl as [|? ? [_ Hx] _]; subst. now apply join_nonempty in H.
  - inversion Hl as [|? ? [Hc Hx] Hr]; inversion Hl' as [|? ? [Hc' Hx'] Hr']; subst.
    destruct r as [|y r], r' as [|y' r'].
    + simpl in H. now subst.
    + rewrite join_cons2 in H. simpl in H. subst x. rewrite has_char_mid in Hc. discriminate.
    + rewrite join_cons2 in H. simpl in H. subst x'. rewrite has_char_mid in Hc'. discriminate.
    + rewrite !join_cons2 in H. simpl in H. apply split_at_char in H; auto. destruct H as [-> H].
      f_equal. now apply IH.
Qed.

(* the cache key of ApplyTemplates identifies template and arguments (for flat argument names) *)
Theorem instance_name_injective f args f' args' :
  has_char "{" f = false -> has_char "{" f' = false ->
  Forall flat_name (map arg_name args) -> Forall flat_name (map arg_name args') ->
  instance_name f args = instance_name f' args' ->
  f = f' /\ map arg_name args = map arg_name args'.
Proof.
  unfold instance_name. intros Hf Hf' Ha Ha' H. simpl in H.
  apply split_at_char in H; auto. destruct H as [-> H]. split; auto.
  apply app_str_inj_r in H. now apply join_inj.
Qed.

(* the label of a template's instances (template_source) is renamed with the template *)
Theorem template_label_renamed l ls d k e p :
  d_term d = false -> d_opts d = ORule k e p (Some (d_name d)) ->
  d_opts (mangle_def (l :: ls) d) = ORule k e p (Some (d_name (mangle_def (l :: ls) d))).
Proof. intros Ht Ho. unfold mangle_def. simpl. rewrite Ht, Ho. reflexivity. Qed.

Theorem top_level_options_unchanged d : d_opts (mangle_def [] d) = d_opts d.
Proof. unfold mangle_def, mangle_opts. simpl. reflexivity. Qed.
