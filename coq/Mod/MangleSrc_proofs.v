(* C17 - the model's mangle is the function regenerated from lark/load_grammar.py:_get_mangle
   (coq/Gen/Mangle.v, rewritten on every run): the mangle theorems hold of the current source. *)
From Coq Require Import List String Ascii Bool.
From LV Require Import Gen.Mangle Mod.Modules Mod.Modules_proofs.
Import ListNotations.
Local Open Scope string_scope.

Lemma app_str_nil_r s : s ++ "" = s.
Proof. induction s; simpl; congruence. Qed.

Lemma alias_lookup_assoc s al : alias_lookup s al = assoc s al.
Proof. induction al as [|[k v] r IH]; simpl; auto. destruct (String.eqb s k); auto. Qed.

Lemma fmt_under_plain p c r : c = MANGLE_TEST_CHAR -> fmt_under p r = plain p (String c r).
Proof. intros ->. unfold fmt_under. cbn. now rewrite app_str_nil_r. Qed.

Lemma fmt_plain_plain p s : (forall r, s <> String MANGLE_TEST_CHAR r) -> fmt_plain p s = plain p s.
Proof.
  intros H. unfold fmt_plain. rewrite plain_not_under by exact H. cbn. now rewrite app_str_nil_r.
Qed.

(* one import level *)
Theorem mangle1_is_source l s :
  s <> "" -> get_mangle_src (fst l) (snd l) None s = Some (mangle1 l s).
Proof.
  intros Hs. unfold get_mangle_src, mangle1. rewrite alias_lookup_assoc.
  destruct (assoc s (snd l)); auto.
  destruct s as [|c r]; [congruence|].
  destruct (Ascii.eqb_spec c MANGLE_TEST_CHAR) as [E|E].
  - now rewrite (fmt_under_plain _ _ _ E).
  - rewrite fmt_plain_plain; auto. intros r0 H; inversion H; contradiction.
Qed.

(* with the importer's mangle as base_mangle: the chain *)
Theorem mangle_is_source l ls s :
  s <> "" -> get_mangle_src (fst l) (snd l) (Some (mangle ls)) s = Some (mangle (l :: ls) s).
Proof.
  intros Hs. pose proof (mangle1_is_source l s Hs) as H. unfold get_mangle_src in *.
  destruct (match alias_lookup s (snd l) with Some a => Some a | None => _ end); inversion H; subst.
  reflexivity.
Qed.
