(* C17 - what _unpack_import hands to do_import. *)
From Coq Require Import List String Bool.
From LV Require Import Mod.Modules Mod.Modules_proofs Mod.Unpack.
Import ListNotations.
Local Open Scope string_scope.

Lemma assoc_dict_set {A} k (v : A) x l :
  assoc x (dict_set k v l) = if String.eqb x k then Some v else assoc x l.
Proof.
  induction l as [|[k' v'] r IH]; simpl.
  - destruct (String.eqb x k); reflexivity.
  - destruct (String.eqb_spec k k') as [->|Hne]; simpl.
    + destruct (String.eqb x k'); reflexivity.
    + destruct (String.eqb_spec x k') as [->|Hx].
      * destruct (String.eqb_spec k' k); [congruence | reflexivity].
      * exact IH.
Qed.

Lemma identity_fold names : forall acc,
  (forall k v, assoc k acc = Some v -> k = v) ->
  forall k v, assoc k (fold_left (fun acc n => dict_set n n acc) names acc) = Some v -> k = v.
Proof.
  induction names as [|n names IH]; simpl; intros acc Hacc k v H; eauto.
  eapply IH; [|exact H]. intros k0 v0. rewrite assoc_dict_set.
  destruct (String.eqb_spec k0 n); [intros E; inversion E; congruence | apply Hacc].
Qed.

Lemma keys_fold names : forall acc n,
  In n names \/ assoc n acc <> None ->
  assoc n (fold_left (fun acc n => dict_set n n acc) names acc) <> None.
Proof.
  induction names as [|m names IH]; simpl; intros acc n H.
  - destruct H as [[]|H]; auto.
  - apply IH. rewrite assoc_dict_set. destruct (String.eqb_spec n m); [right; discriminate|].
    destruct H as [[E|H]|H]; [congruence | now left | now right].
Qed.

(* %import path (n1, n2, ...): the whole path is the module, every listed name is imported under its
   own name (a multi-import cannot rename) *)
Theorem unpack_names children names :
  exists al, unpack_import children (ANames names) = Some (children, al) /\
    (forall k v, assoc k al = Some v -> k = v) /\
    (forall n, In n names -> assoc n al = Some n).
Proof.
  eexists. split. reflexivity. split.
  - apply identity_fold. simpl. discriminate.
  - intros n Hn.
    destruct (assoc n (fold_left (fun acc n0 => dict_set n0 n0 acc) names [])) as [v|] eqn:E.
    + f_equal. symmetry. eapply identity_fold; [|exact E]. simpl. discriminate.
    + exfalso. eapply keys_fold; [left; exact Hn | exact E].
Qed.

(* %import path.name [-> alias]: the module is the path without its last name; that name is imported,
   under the alias if one is given *)
Theorem unpack_single path name arg :
  path <> [] -> (forall l, arg <> ANames l) ->
  unpack_import (path ++ [name]) arg =
    Some (path, [(name, match arg with AAlias a => a | _ => name end)]).
Proof.
  intros Hp Harg. unfold unpack_import. rewrite rev_app_distr. simpl.
  destruct arg as [|a|l]; try (elim (Harg l); reflexivity);
    (destruct (rev path) as [|x r] eqn:E;
     [apply (f_equal (@rev string)) in E; rewrite rev_involutive in E; simpl in E; contradiction
     | rewrite <- E, rev_involutive; reflexivity]).
Qed.

Theorem unpack_nothing name arg : (forall l, arg <> ANames l) -> unpack_import [name] arg = None.
Proof. intros H. destruct arg as [|a|l]; try reflexivity. elim (H l); reflexivity. Qed.
