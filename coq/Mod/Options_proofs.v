(* C17 - the global option keep_all_tokens (GrammarBuilder.global_keep_all_tokens, an input of the
   model: the `gkeep` argument of load) reaches every definition, also those that arrive through
   %import at any depth: do_import hands it to the builder of the imported module. *)
From Coq Require Import List String Bool Arith.
From LV Require Import Mod.Modules Mod.Modules_proofs.
Import ListNotations.
Local Open Scope string_scope.

(* the definition keeps all tokens (terminals carry no such option) *)
Definition keeps (d : defn) : Prop :=
  match d_opts d with ORule k _ _ _ => k = true | OTerm _ => True end.

Lemma set_def_Forall (P : defn -> Prop) d l : P d -> Forall P l -> Forall P (set_def d l).
Proof.
  intros Hd Hl. induction l as [|x r IH]; simpl. constructor; auto.
  inversion Hl; subst. destruct (String.eqb (d_name d) (d_name x)); constructor; auto.
Qed.

Lemma norm_keeps d : keeps (norm_def true d).
Proof. unfold keeps, norm_def. simpl. destruct (d_opts d); simpl; auto. apply orb_true_r. Qed.

Lemma define_keeps o d l l' : define true o d l = Ok l' -> Forall keeps l -> Forall keeps l'.
Proof.
  intros H Hl. apply define_ok in H. destruct H as (-> & _ & _).
  apply set_def_Forall; auto. apply norm_keeps.
Qed.

Lemma extend_keeps d l l' : extend d l = Ok l' -> Forall keeps l -> Forall keeps l'.
Proof.
  unfold extend. intros H Hl.
  destruct (find_def (d_name d) l) as [old|] eqn:Ef; [|discriminate].
  destruct (find_def_name _ _ _ Ef) as [_ Hin].
  assert (Hold : keeps old) by (rewrite Forall_forall in Hl; auto).
  destruct (negb (Bool.eqb (d_term d) (d_term old))); [discriminate|].
  destruct (negb (list_eqb (d_params d) (d_params old))); [discriminate|].
  destruct (d_tree old); [|discriminate].
  destruct (d_tree d); inversion H; subst; auto.
  apply set_def_Forall; auto.
Qed.

Definition Inv (b : builder) : Prop := Forall keeps (b_defs b).

Lemma alloc_keeps d b :
  d_opts (fst (alloc d b)) = d_opts d /\ d_name (fst (alloc d b)) = d_name d /\
  b_defs (snd (alloc d b)) = b_defs b.
Proof. unfold alloc. destruct (d_term d); destruct (d_tree d); simpl; auto. Qed.

Lemma define_stmt_keeps o d b b' : define_stmt true o d b = Ok b' -> Inv b -> Inv b'.
Proof.
  unfold define_stmt, Inv. destruct (alloc d b) as [d1 b1] eqn:Ea.
  destruct (alloc_keeps d b) as (_ & _ & Hd). rewrite Ea in Hd. simpl in Hd.
  destruct (define true o d1 (b_defs b1)) as [l|] eqn:E; simpl; [|discriminate].
  intros H Hb; inversion H; subst. simpl. eapply define_keeps; eauto. now rewrite Hd.
Qed.

Lemma extend_stmt_keeps d b b' : extend_stmt d b = Ok b' -> Inv b -> Inv b'.
Proof.
  unfold extend_stmt, Inv. destruct (extend d (b_defs b)) as [l|] eqn:E; simpl; [|discriminate].
  intros H Hb. pose proof (extend_keeps _ _ _ E Hb) as Hl.
  destruct (find_def (d_name d) (b_defs b)) as [old|]; [|inversion H; subst; auto].
  destruct (d_tree d); [|inversion H; subst; auto].
  destruct (d_tree old) as [[ | | |o]|]; try (inversion H; subst; auto; fail).
  destruct (hget o (b_heap b)); inversion H; subst; auto.
Qed.

Lemma fold_ok_inv {A} (step : result builder -> A -> result builder) :
  (forall e a, step (Err e) a = Err e) ->
  (forall b a b1, step (Ok b) a = Ok b1 -> Inv b -> Inv b1) ->
  forall l b b', fold_left step l (Ok b) = Ok b' -> Inv b -> Inv b'.
Proof.
  intros Herr Hstep. induction l as [|a l IH]; simpl; intros b b' H Hb.
  - inversion H; subst; auto.
  - destruct (step (Ok b) a) as [b1|e] eqn:E.
    + eapply IH; eauto.
    + assert (Hfold : forall l0, fold_left step l0 (Err e) = Err e).
      { induction l0; simpl; auto. now rewrite Herr. }
      rewrite Hfold in H. discriminate.
Qed.

(* inside an imported module (non-empty import chain: its %ignore statements are not applied) *)
Lemma apply_stmt_keeps ls s b b' : ls <> [] -> apply_stmt true ls s b = Ok b' -> Inv b -> Inv b'.
Proof.
  intros Hls. destruct s as [k d|t|sy|p al]; simpl.
  - destruct k. apply define_stmt_keeps. apply define_stmt_keeps. apply extend_stmt_keeps.
  - destruct ls; [contradiction|]. intros H; inversion H; subst; auto.
  - apply fold_ok_inv.
    + intros e a. reflexivity.
    + intros b0 a b1. simpl. destruct (negb (fst a)); [discriminate|].
      destruct (define true false _ (b_defs b0)) as [l|] eqn:E; simpl; [|discriminate].
      intros H Hb; inversion H; subst. unfold Inv. simpl. eapply define_keeps; eauto.
  - intros H; inversion H; subst; auto.
Qed.

Lemma remove_unused_incl l used kept : remove_unused l used = Ok kept -> incl kept l.
Proof.
  unfold remove_unused. destruct (closed_under l _); [|discriminate]. intros H; inversion H; subst.
  intros d Hd. apply filter_In in Hd. tauto.
Qed.

Lemma do_import_keeps loader fs ls b imp b' :
  (forall n ls' ms gb, ls' <> [] -> loader n ls' ms = Ok gb -> Inv gb) ->
  do_import loader fs ls b imp = Ok b' -> Inv b -> Inv b'.
Proof.
  intros Hl. unfold do_import. cbv zeta.
  destruct (lookup_module (fst imp) fs) as [ms|]; [|discriminate].
  destruct (loader _ _ ms) as [gb|] eqn:E; simpl; [|discriminate].
  destruct (remove_unused _ _) as [kept|] eqn:Er; simpl; [|discriminate].
  destruct (clashes kept (b_defs b)); [discriminate|].
  intros H Hb; inversion H; subst. unfold Inv. simpl. apply Forall_app. split; auto.
  apply Hl in E; [|intros Hc; discriminate Hc]. apply remove_unused_incl in Er. unfold Inv in E. rewrite Forall_forall in *. auto.
Qed.

Theorem load_keeps fs : forall fuel ls ms b b',
  ls <> [] -> load fuel fs true ls ms b = Ok b' -> Inv b -> Inv b'.
Proof.
  induction fuel as [|f IH]; intros ls ms b b' Hls; [discriminate|].
  rewrite load_S.
  destruct (fold_left _ (collect_imports ms) (Ok b)) as [b1|] eqn:E1; cbn [bind]; [|discriminate].
  destruct (apply_stmts true ls ms b1) as [b2|] eqn:E2; cbn [bind]; [|discriminate].
  destruct (resolve_heap (b_defs b2) (b_heap b2)) as [h|]; cbn [bind]; [|discriminate].
  intros H Hb; inversion H; subst. unfold Inv. simpl.
  assert (H1 : Inv b1).
  { revert E1 Hb. apply fold_ok_inv.
    - intros e a. reflexivity.
    - intros b0 a b3. simpl. apply do_import_keeps.
      intros n ls' ms0 gb Hne Hg. eapply IH; eauto. unfold Inv. simpl. constructor. }
  revert E2 H1. unfold apply_stmts. apply fold_ok_inv.
  - intros e a. reflexivity.
  - intros b0 a b3. simpl. now apply apply_stmt_keeps.
Qed.

(* the clause of import = inlining for the option: with keep_all_tokens given to the top-level builder,
   every definition an import adds (imported by name or as a dependency, at any nesting depth) has
   keep_all_tokens set - as it has when the definitions are written out in the top-level grammar *)
Theorem keep_all_reaches_imports f fs ls b imp b' :
  do_import (fun next ls0 ms0 => load f fs true ls0 ms0 (fresh_builder next)) fs ls b imp = Ok b' ->
  exists kept, b_defs b' = (b_defs b ++ kept)%list /\ Forall keeps kept.
Proof.
  intros H. destruct (do_import_spec _ _ _ _ _ _ H) as (ms & gb & kept & _ & Hg & Hk & _ & Hd & _).
  exists kept. split; auto.
  assert (Hinv : Inv gb).
  { eapply load_keeps; eauto. intros Hc; discriminate Hc. unfold Inv. simpl. constructor. }
  unfold Inv in Hinv. rewrite Forall_forall in *. intros d Hd'. apply Hinv. now apply Hk.
Qed.

(* and a locally written rule gets it from the same place (_check_options) *)
Theorem keep_all_local o d l l' : define true o d l = Ok l' -> find_def (d_name d) l' = Some (norm_def true d) /\ keeps (norm_def true d).
Proof.
  intros H. apply define_ok in H. destruct H as (-> & _ & _). split; [|apply norm_keeps].
  rewrite find_set_def. simpl. now rewrite String.eqb_refl.
Qed.
