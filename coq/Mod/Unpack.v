(* C17 - model of GrammarBuilder._unpack_import: from the children of an %import statement (the names
   of the dotted path, and the optional `-> alias` or `(name, ...)` argument) to the module path and
   the alias table that do_import receives.  Definitions only.  (base_path, i.e. where the file is
   searched, is not modelled.) *)
From Coq Require Import List String Bool.
From LV Require Import Mod.Modules.
Import ListNotations.
Local Open Scope string_scope.

Inductive import_arg :=
| ANone                          (* %import a.b.name *)
| AAlias (n : string)            (* %import a.b.name -> n *)
| ANames (l : list string).      (* %import a.b (n1, n2, ...) *)

(* None: GrammarError "Nothing was imported from grammar ..." *)
Definition unpack_import (children : list string) (arg : import_arg)
  : option (list string * list (string * string)) :=
  match arg with
  | ANames names =>
      (* dotted_path = all of the path; aliases = dict(zip(names, names)) *)
      Some (children, fold_left (fun acc n => dict_set n n acc) names [])
  | _ =>
      (* dotted_path = path[:-1]; name = path[-1]; aliases = {name: alias or name} *)
      match rev children with
      | [] => None
      | name :: rpath =>
          match rpath with
          | [] => None
          | _ => Some (rev rpath, [(name, match arg with AAlias a => a | _ => name end)])
          end
      end
  end.
