(* C17 - executable model of lark/load_grammar.py: GrammarBuilder (_define, _extend, _ignore,
   load_grammar, _remove_unused, do_import, validate), _get_mangle, _mangle_definition_tree,
   resolve_term_references, _ReplaceSymbols and ApplyTemplates.template_usage.
   Definitions only (no proofs).  Grammar trees are lark's own definition trees: a node
   (data, children) whose leaves are Symbols (terminal?, name) or Tokens (value). *)
From Coq Require Import List String Ascii Bool ZArith Arith.
Import ListNotations.
Local Open Scope string_scope.

(* ------------------------------------------------------------------ trees *)
Inductive tree :=
| Nd (data : string) (ch : list tree)
| Sy (is_term : bool) (name : string)
| Tk (v : string)
| Ptr (o : nat).     (* a shared tree OBJECT of the builder's heap (the tree of a terminal definition):
                        resolve_term_references puts the referenced terminal's tree object itself into the
                        referring tree, so a later in-place change of that object (%extend) is seen there *)

Fixpoint tree_eqb (a b : tree) {struct a} : bool :=
  match a, b with
  | Nd d ch, Nd d' ch' =>
      String.eqb d d' &&
      (fix go (l l' : list tree) {struct l} : bool :=
         match l, l' with
         | [], [] => true
         | x :: r, y :: r' => tree_eqb x y && go r r'
         | _, _ => false
         end) ch ch'
  | Sy t n, Sy t' n' => Bool.eqb t t' && String.eqb n n'
  | Tk v, Tk v' => String.eqb v v'
  | Ptr o, Ptr o' => Nat.eqb o o'
  | _, _ => false
  end.

(* c.renamed(f) for every Symbol child of every subtree *)
Fixpoint rename_tree (f : string -> string) (t : tree) : tree :=
  match t with
  | Nd d ch => Nd d (map (rename_tree f) ch)
  | Sy b n => Sy b (f n)
  | Tk v => Tk v
  | Ptr o => Ptr o
  end.

(* names of all Symbol leaves (scan_values) *)
Fixpoint syms (t : tree) : list string :=
  match t with
  | Nd _ ch => flat_map syms ch
  | Sy _ n => [n]
  | Tk _ => []
  | Ptr _ => []
  end.

(* _find_used_symbols: Symbol leaves below some 'expansion' node (as a list; the code takes a set) *)
Fixpoint used_symbols (t : tree) : list string :=
  match t with
  | Nd d ch => if String.eqb d "expansion" then flat_map syms ch else flat_map used_symbols ch
  | _ => []
  end.

(* tree.find_data(d): all subtrees labelled d (any depth, including below another match) *)
Fixpoint find_data (d : string) (t : tree) : list tree :=
  match t with
  | Nd d' ch => ((if String.eqb d d' then [t] else []) ++ flat_map (find_data d) ch)%list
  | _ => []
  end.

(* ------------------------------------------------------------------ small helpers *)
Fixpoint mem (x : string) (l : list string) : bool :=
  match l with [] => false | y :: r => String.eqb x y || mem x r end.

Fixpoint assoc {A} (x : string) (l : list (string * A)) : option A :=
  match l with [] => None | (k, v) :: r => if String.eqb x k then Some v else assoc x r end.

(* d[k] = v on an insertion-ordered dict *)
Fixpoint dict_set {A} (k : string) (v : A) (l : list (string * A)) : list (string * A) :=
  match l with
  | [] => [(k, v)]
  | (k', v') :: r => if String.eqb k k' then (k, v) :: r else (k', v') :: dict_set k v r
  end.

Definition dict_update {A} (l upd : list (string * A)) : list (string * A) :=
  fold_left (fun acc kv => dict_set (fst kv) (snd kv) acc) upd l.

Fixpoint join (sep : string) (l : list string) : string :=
  match l with
  | [] => ""
  | [x] => x
  | x :: r => x ++ sep ++ join sep r
  end.

Fixpoint dedup (l : list string) : list string :=
  match l with [] => [] | x :: r => if mem x r then dedup r else x :: dedup r end.

Definition digit (n : nat) : string := String (ascii_of_nat (48 + n)) "".
Fixpoint nat_str_aux (fuel n : nat) (acc : string) : string :=
  match fuel with
  | O => acc
  | S f => let acc' := digit (n mod 10) ++ acc in
           if Nat.eqb (n / 10) 0 then acc' else nat_str_aux f (n / 10) acc'
  end.
Definition nat_str (n : nat) : string := nat_str_aux (S n) n "".

(* ------------------------------------------------------------------ mangling *)
(* one import level: (prefix = '__'.join(dotted_path), aliases) *)
Definition layer := (string * list (string * string))%type.

(* _get_mangle(prefix, aliases) without base_mangle.  s[0] of an empty name would raise;
   names are never empty (RULE / TERMINAL tokens) *)
Definition plain (p s : string) : string :=
  match s with
  | String c r => if Ascii.eqb c "_" then String "_" (p ++ "__" ++ r) else p ++ "__" ++ s
  | EmptyString => p ++ "__" ++ s
  end.

Definition mangle1 (l : layer) (s : string) : string :=
  match assoc s (snd l) with
  | Some a => a
  | None => plain (fst l) s
  end.

(* mangle with base_mangle chain: innermost layer first; [] is `mangle is None` *)
Definition mangle (ls : list layer) (s : string) : string :=
  fold_left (fun s l => mangle1 l s) ls s.

(* ------------------------------------------------------------------ definitions *)
Inductive dopts :=
| ORule (keep_all expand1 : bool) (prio : option Z) (tsrc : option string)
| OTerm (prio : Z).

Record defn := mkDef {
  d_name : string;
  d_term : bool;
  d_tree : option tree;          (* None: %declare *)
  d_params : list string;
  d_opts : dopts }.

Inductive defkind := KDefine | KOverride | KExtend.

Inductive stmt :=
| SDef (k : defkind) (d : defn)                      (* rule / term / %override / %extend, as unpacked by _make_rule_tuple *)
| SIgnore (t : tree)
| SDeclare (syms : list (bool * string))
| SImport (path : list string) (aliases : list (string * string)).   (* result of _unpack_import *)

Inductive err :=
| EDup | ENoOverride | EReserved
| EExtUndefined | EExtKind | EExtParams | EExtAbstract
| EClash | ENoModule | EDeclareRule
| ETermRule | ETermUndefined | ETermAbstract | ETermRecursion
| EParamConflict | EParamDup | ETemplateUndefined | ETemplateArity | ESymUndefined | EIgnoreUndefined
| ETemplateLookup
| EFuel
(* raised by the front end (Mod/Front.v) and by the file search (Mod/Search.v) *)
| ENothingImported     (* _unpack_import: "Nothing was imported from grammar" *)
| EInlineExpand1       (* _make_rule_tuple: "Inlined rules (_rule) cannot use the ?rule modifier." *)
| EBasePath            (* load_grammar: assert base_path == import_base_path (AssertionError) *)
| EFoundElsewhere      (* do_import: assert False after the search failed but ./<grammar_path> exists *)
| ESourceType.         (* do_import: a PackageResource base_path used as a directory (TypeError) *)

Inductive result (A : Type) := Ok (a : A) | Err (e : err).
Arguments Ok {A} a.
Arguments Err {A} e.

Definition bind {A B} (r : result A) (f : A -> result B) : result B :=
  match r with Ok a => f a | Err e => Err e end.
Notation "x <- r ;; k" := (bind r (fun x => k)) (at level 61, r at next level, right associativity).

(* tree objects that are shared by reference: the trees of terminal definitions *)
Definition heap := list (nat * tree).

Fixpoint hget (o : nat) (h : heap) : option tree :=
  match h with [] => None | (k, t) :: r => if Nat.eqb o k then Some t else hget o r end.

Fixpoint hset (o : nat) (t : tree) (h : heap) : heap :=
  match h with
  | [] => [(o, t)]
  | (k, t') :: r => if Nat.eqb o k then (k, t) :: r else (k, t') :: hset o t r
  end.

(* the tree of a terminal definition is `Ptr o` with the content in b_heap; rule trees are held directly
   (they are never shared); b_next is the next unused object id *)
Record builder := mkB { b_defs : list defn; b_ignore : list string; b_heap : heap; b_next : nat }.
Definition fresh_builder (next : nat) := mkB [] [] [] next.
Definition empty_builder := fresh_builder 0.

(* Definition(is_term=True, tree, ...): the tree is a new object *)
Definition alloc (d : defn) (b : builder) : defn * builder :=
  match d_term d, d_tree d with
  | true, Some t =>
      (mkDef (d_name d) true (Some (Ptr (b_next b))) (d_params d) (d_opts d),
       mkB (b_defs b) (b_ignore b) ((b_next b, t) :: b_heap b) (S (b_next b)))
  | _, _ => (d, b)
  end.

Definition with_defs (l : list defn) (b : builder) : builder := mkB l (b_ignore b) (b_heap b) (b_next b).

Fixpoint find_def (name : string) (l : list defn) : option defn :=
  match l with [] => None | d :: r => if String.eqb name (d_name d) then Some d else find_def name r end.

Definition defined (name : string) (l : list defn) : bool :=
  match find_def name l with Some _ => true | None => false end.

(* self._definitions[name] = d : in place when the key exists, else appended *)
Fixpoint set_def (d : defn) (l : list defn) : list defn :=
  match l with
  | [] => [d]
  | x :: r => if String.eqb (d_name d) (d_name x) then d :: r else x :: set_def d r
  end.

(* _check_options *)
Definition check_options (gkeep : bool) (o : dopts) : dopts :=
  match o with
  | ORule k e p t => ORule (k || gkeep) e p t
  | OTerm p => OTerm p
  end.

(* _define *)
Definition define (gkeep : bool) (override : bool) (d : defn) (l : list defn) : result (list defn) :=
  if (if defined (d_name d) l then negb override else false) then Err EDup
  else if (if defined (d_name d) l then false else override) then Err ENoOverride
  else if String.prefix "__" (d_name d) then Err EReserved
  else Ok (set_def (mkDef (d_name d) (d_term d) (d_tree d) (d_params d) (check_options gkeep (d_opts d))) l).

Fixpoint list_eqb (a b : list string) : bool :=
  match a, b with
  | [], [] => true
  | x :: r, y :: r' => String.eqb x y && list_eqb r r'
  | _, _ => false
  end.

(* base.children.insert(0, exp) *)
Definition add_alternative (exp : tree) (base : tree) : tree :=
  match base with
  | Nd d ch => Nd d (exp :: ch)
  | t => t
  end.

(* _extend *)
Definition extend (d : defn) (l : list defn) : result (list defn) :=
  match find_def (d_name d) l with
  | None => Err EExtUndefined
  | Some old =>
      if negb (Bool.eqb (d_term d) (d_term old)) then Err EExtKind
      else if negb (list_eqb (d_params d) (d_params old)) then Err EExtParams
      else match d_tree old, d_tree d with
           | None, _ => Err EExtAbstract
           | Some base, Some exp =>
               Ok (set_def (mkDef (d_name old) (d_term old) (Some (add_alternative exp base))
                                  (d_params old) (d_opts old)) l)
           | Some _, None => Ok l
           end
  end.

(* _ignore (only called at top level) *)
Definition ignore (t : tree) (b : builder) : builder :=
  match t with
  | Nd "expansions" [Nd "expansion" [Nd "value" [Sy true n]]] =>
      mkB (b_defs b) (b_ignore b ++ [n])%list (b_heap b) (b_next b)
  | _ =>
      let name := "__IGNORE_" ++ nat_str (List.length (b_ignore b)) in
      let '(d, b1) := alloc (mkDef name true (Some t) [] (OTerm 0)) b in
      mkB (set_def d (b_defs b1)) (b_ignore b1 ++ [name])%list (b_heap b1) (b_next b1)
  end.

(* _unpack_definition: mangle name, params and every symbol of the body; under a mangle the
   template_source option (tree label of the instances of a template) becomes the mangled name *)
Definition mangle_opts (ls : list layer) (is_term : bool) (newname : string) (o : dopts) : dopts :=
  match ls, is_term, o with
  | _ :: _, false, ORule k e p (Some _) => ORule k e p (Some newname)
  | _, _, _ => o
  end.

Definition mangle_def (ls : list layer) (d : defn) : defn :=
  mkDef (mangle ls (d_name d)) (d_term d) (option_map (rename_tree (mangle ls)) (d_tree d))
        (map (mangle ls) (d_params d)) (mangle_opts ls (d_term d) (mangle ls (d_name d)) (d_opts d)).

(* ------------------------------------------------------------------ _remove_unused *)
Definition rule_deps (l : list defn) (s : string) : list string :=
  match find_def s l with
  | None => []
  | Some d =>
      if d_term d then []
      else match d_tree d with
           | None => []
           | Some t => filter (fun x => negb (mem x (d_params d))) (used_symbols t)
           end
  end.

Fixpoint reach (fuel : nat) (l : list defn) (visited : list string) : list string :=
  match fuel with
  | O => visited
  | S f =>
      let new := dedup (filter (fun x => negb (mem x visited)) (flat_map (rule_deps l) visited)) in
      match new with
      | [] => visited
      | _ => reach f l (visited ++ new)%list
      end
  end.

Definition closed_under (l : list defn) (visited : list string) : bool :=
  forallb (fun s => forallb (fun x => mem x visited) (rule_deps l s)) visited.

Definition total_syms (l : list defn) : nat :=
  fold_right (fun d n => match d_tree d with Some t => List.length (syms t) + n | None => n end) 0 l.

Definition remove_unused (l : list defn) (used : list string) : result (list defn) :=
  let v := reach (List.length used + total_syms l + 1) l (dedup used) in
  if closed_under l v then Ok (filter (fun d => mem (d_name d) v) l) else Err EFuel.

(* ------------------------------------------------------------------ resolve_term_references *)
(* value[Terminal X] -> value[the tree object of X]; terms: the terminal definitions (tree = Ptr o) *)
Fixpoint resolve_pass (terms : list defn) (t : tree) : result tree :=
  match t with
  | Nd d ch =>
      ch' <- (fix go (l : list tree) : result (list tree) :=
                match l with
                | [] => Ok []
                | x :: r => x' <- resolve_pass terms x ;; r' <- go r ;; Ok (x' :: r')
                end) ch ;;
      if String.eqb d "value" then
        match ch with
        | [Sy false _] => Err ETermRule
        | [Sy true n] =>
            match find_def n terms with
            | None => Err ETermUndefined
            | Some x => match d_tree x with None => Err ETermAbstract | Some tx => Ok (Nd d [tx]) end
            end
        | _ => Ok (Nd d ch')
        end
      else Ok (Nd d ch')
  | t => Ok t
  end.

Fixpoint map_result {A B} (f : A -> result B) (l : list A) : result (list B) :=
  match l with
  | [] => Ok []
  | x :: r => x' <- f x ;; r' <- map_result f r ;; Ok (x' :: r')
  end.

Definition memn (x : nat) (l : list nat) : bool := existsb (Nat.eqb x) l.

Fixpoint ptrs (t : tree) : list nat :=
  match t with
  | Nd _ ch => flat_map ptrs ch
  | Ptr o => [o]
  | _ => []
  end.

Definition term_objs (l : list defn) : list nat :=
  flat_map (fun d => match d_term d, d_tree d with true, Some (Ptr o) => [o] | _, _ => [] end) l.

(* the objects reachable from v through the heap *)
Fixpoint reach_objs (fuel : nat) (h : heap) (v : list nat) : list nat :=
  match fuel with
  | O => v
  | S f =>
      let new := filter (fun o => negb (memn o v))
                        (flat_map (fun o => match hget o h with Some t => ptrs t | None => [] end) v) in
      match new with
      | [] => v
      | _ => reach_objs f h (v ++ nodup Nat.eq_dec new)%list
      end
  end.

(* a terminal whose own tree object occurs below one of its children *)
Definition cyclic (h : heap) (o : nat) : bool :=
  match hget o h with
  | Some t => memn o (reach_objs (S (List.length h)) h (ptrs t))
  | None => false
  end.

(* resolve_term_references over the term definitions of the builder: every tree object reachable from
   a terminal definition gets its terminal references replaced by the referenced OBJECT (a pointer),
   so one pass is enough; then the recursion check *)
Definition resolve_heap (l : list defn) (h : heap) : result heap :=
  let terms := filter d_term l in
  let live := reach_objs (S (List.length h)) h (term_objs l) in
  h' <- map_result (fun ot => if memn (fst ot) live
                               then t' <- resolve_pass terms (snd ot) ;; Ok (fst ot, t')
                               else Ok ot) h ;;
  if existsb (cyclic h') (term_objs l) then Err ETermRecursion else Ok h'.

(* a tree with every pointer replaced by the current content of the object (what one sees when the
   tree is traversed) *)
Fixpoint deref (fuel : nat) (h : heap) : tree -> tree :=
  fix go (t : tree) : tree :=
    match t with
    | Nd d ch => Nd d (map go ch)
    | Ptr o => match fuel with
               | O => Ptr o
               | S f => match hget o h with Some t' => deref f h t' | None => Ptr o end
               end
    | t => t
    end.

Definition view (b : builder) (d : defn) : defn :=
  mkDef (d_name d) (d_term d) (option_map (deref (S (List.length (b_heap b))) (b_heap b)) (d_tree d))
        (d_params d) (d_opts d).

(* the definitions as an observer of GrammarBuilder._definitions sees them *)
Definition export (b : builder) : list defn := map (view b) (b_defs b).

(* ------------------------------------------------------------------ load_grammar / do_import *)
Definition module_files := list (list string * list stmt).

Fixpoint lookup_module (p : list string) (fs : module_files) : option (list stmt) :=
  match fs with [] => None | (q, s) :: r => if list_eqb p q then Some s else lookup_module p r end.

(* imports[dotted_path] = aliases, merged with dict.update, in first-occurrence order *)
Fixpoint add_import (p : list string) (al : list (string * string))
         (imps : list (list string * list (string * string))) :=
  match imps with
  | [] => [(p, al)]
  | (q, al') :: r => if list_eqb p q then (q, dict_update al' al) :: r else (q, al') :: add_import p al r
  end.

Definition collect_imports (ss : list stmt) :=
  fold_left (fun acc s => match s with SImport p al => add_import p al acc | _ => acc end) ss [].

Definition define_stmt (gkeep override : bool) (d : defn) (b : builder) : result builder :=
  let '(d', b1) := alloc d b in
  l <- define gkeep override d' (b_defs b1) ;; Ok (with_defs l b1).

(* _extend: for a rule the definition's tree gets the alternative; for a terminal the tree OBJECT is
   changed in place (base.children.insert(0, exp)) - every tree that holds the object sees it *)
Definition extend_stmt (d : defn) (b : builder) : result builder :=
  l <- extend d (b_defs b) ;;
  match find_def (d_name d) (b_defs b), d_tree d with
  | Some old, Some exp =>
      match d_tree old with
      | Some (Ptr o) =>
          match hget o (b_heap b) with
          | Some base => Ok (mkB l (b_ignore b) (hset o (add_alternative exp base) (b_heap b)) (b_next b))
          | None => Err EFuel
          end
      | _ => Ok (with_defs l b)
      end
  | _, _ => Ok (with_defs l b)
  end.

Definition apply_stmt (gkeep : bool) (ls : list layer) (s : stmt) (b : builder) : result builder :=
  match s with
  | SDef KDefine d => define_stmt gkeep false (mangle_def ls d) b
  | SDef KOverride d => define_stmt gkeep true (mangle_def ls d) b
  | SDef KExtend d => extend_stmt (mangle_def ls d) b
  | SIgnore t => match ls with [] => Ok (ignore t b) | _ => Ok b end
  | SDeclare sy =>
      fold_left (fun acc bs =>
                   b' <- acc ;;
                   if negb (fst bs) then Err EDeclareRule
                   else l <- define gkeep false (mkDef (mangle ls (snd bs)) true None [] (OTerm 1)) (b_defs b') ;;
                        Ok (with_defs l b')) sy (Ok b)
  | SImport _ _ => Ok b
  end.

Definition clashes (a b : list defn) : bool := existsb (fun d => defined (d_name d) b) a.

(* do_import, given the function that loads a module text under a mangle into a fresh builder
   (gb = GrammarBuilder(...); gb.load_grammar(text, joined_path, mangle)); the first argument of the
   loader is the first unused object id.  The definitions move over with their tree objects. *)
Definition do_import (loader : nat -> list layer -> list stmt -> result builder) (fs : module_files)
           (ls : list layer) (b : builder) (imp : list string * list (string * string)) : result builder :=
  let ls' := (join "__" (fst imp), snd imp) :: ls in
  match lookup_module (fst imp) fs with
  | None => Err ENoModule
  | Some ms =>
      gb <- loader (b_next b) ls' ms ;;
      kept <- remove_unused (b_defs gb) (map (mangle ls') (map fst (snd imp))) ;;
      if clashes kept (b_defs b) then Err EClash
      else Ok (mkB (b_defs b ++ kept)%list (b_ignore b) (b_heap b ++ b_heap gb)%list (b_next gb))
  end.

Definition apply_stmts (gkeep : bool) (ls : list layer) (ss : list stmt) (b : builder) : result builder :=
  fold_left (fun acc s => b' <- acc ;; apply_stmt gkeep ls s b') ss (Ok b).

(* fuel bounds the import nesting depth *)
Fixpoint load (fuel : nat) (fs : module_files) (gkeep : bool) (ls : list layer) (ss : list stmt)
         (b : builder) : result builder :=
  match fuel with
  | O => Err EFuel
  | S f =>
      b1 <- fold_left
              (fun acc imp => b' <- acc ;;
                              do_import (fun next ls' ms => load f fs gkeep ls' ms (fresh_builder next)) fs ls b' imp)
              (collect_imports ss) (Ok b) ;;
      b2 <- apply_stmts gkeep ls ss b1 ;;
      h <- resolve_heap (b_defs b2) (b_heap b2) ;;
      Ok (mkB (b_defs b2) (b_ignore b2) h (b_next b2))
  end.

(* ------------------------------------------------------------------ validate *)
Fixpoint dup_before (l : list string) : bool :=
  match l with [] => false | x :: r => mem x r || dup_before r end.

Definition validate_def (l : list defn) (d : defn) : result unit :=
  if existsb (fun p => defined p l) (d_params d) then Err EParamConflict
  else if dup_before (d_params d) then Err EParamDup
  else match d_tree d with
       | None => Ok tt
       | Some t =>
           _ <- fold_left
                  (fun acc tu =>
                     _ <- acc ;;
                     match tu with
                     | Nd _ (Sy _ s :: args) =>
                         if mem s (d_params d) then Ok tt
                         else match find_def s l with
                              | None => Err ETemplateUndefined
                              | Some td => if Nat.eqb (List.length args) (List.length (d_params td)) then Ok tt
                                           else Err ETemplateArity
                              end
                     | _ => Ok tt
                     end) (find_data "template_usage" t) (Ok tt) ;;
           if forallb (fun s => defined s l || mem s (d_params d)) (used_symbols t) then Ok tt
           else Err ESymUndefined
       end.

Definition validate (b : builder) : result unit :=
  _ <- fold_left (fun acc d => _ <- acc ;; validate_def (export b) d) (export b) (Ok tt) ;;
  if forallb (fun n => defined n (b_defs b)) (b_ignore b) then Ok tt else Err EIgnoreUndefined.

(* load_grammar(...) followed by build()'s validate *)
Definition load_and_validate (fuel : nat) (fs : module_files) (gkeep : bool) (main : list stmt) : result builder :=
  b <- load fuel fs gkeep [] main empty_builder ;;
  _ <- validate b ;;
  Ok b.

(* ------------------------------------------------------------------ templates *)
(* _ReplaceSymbols.transform (bottom-up, in place) with names = dict(zip(params, args)) *)
Fixpoint subst (names : list (string * tree)) (t : tree) : tree :=
  match t with
  | Nd d ch =>
      let ch' := map (subst names) ch in
      if String.eqb d "value" then
        match ch' with
        | [Sy b n] => match assoc n names with Some a => a | None => Nd d ch' end
        | _ => Nd d ch'
        end
      else if String.eqb d "template_usage" then
        match ch' with
        | Sy b n :: rest => match assoc n names with Some a => Nd d (a :: rest) | None => Nd d ch' end
        | _ => Nd d ch'
        end
      else Nd d ch'
  | t => t
  end.

(* dict(zip(params, args)): later duplicates win *)
Fixpoint zip_dict (ps : list string) (args : list tree) (acc : list (string * tree)) : list (string * tree) :=
  match ps, args with
  | p :: ps', a :: args' => zip_dict ps' args' (dict_set p a acc)
  | _, _ => acc
  end.

Definition arg_name (a : tree) : string :=
  match a with Sy _ n => n | _ => "?" end.

(* "%s{%s}" % (name, ",".join(a.name for a in args)) *)
Definition instance_name (name : string) (args : list tree) : string :=
  name ++ "{" ++ join "," (map arg_name args) ++ "}".

(* a rule_defs entry as ApplyTemplates sees it *)
Record rdef := mkR { r_name : string; r_params : list string; r_tree : tree; r_opts : dopts }.

Definition find_rdef (name : string) (l : list rdef) : list rdef :=
  filter (fun r => String.eqb (r_name r) name) l.

(* ApplyTemplates.template_usage(c): (created_templates', rule_defs', returned NonTerminal name) *)
Definition template_usage_step (created : list string) (rule_defs : list rdef) (name : string) (args : list tree)
  : result (list string * list rdef * string) :=
  let rn := instance_name name args in
  if mem rn created then Ok (created, rule_defs, rn)
  else match find_rdef name rule_defs with
       | [r] =>
           if negb (Nat.eqb (List.length (r_params r)) (List.length args)) then Err ETemplateArity
           else Ok ((created ++ [rn])%list,
                    (rule_defs ++ [mkR rn [] (subst (zip_dict (r_params r) args []) (r_tree r)) (r_opts r)])%list,
                    rn)
       | _ => Err ETemplateLookup
       end.
