(* C17 - templates: the options of an instance, iterated instantiation (ApplyTemplates over all rules). *)
From Coq Require Import List String Ascii Bool ZArith Arith Lia.
From LV Require Import Mod.Modules Mod.Modules_proofs.
Import ListNotations.
Local Open Scope string_scope.

(* the rule created for an instance has the template's options unchanged - keep_all_tokens, expand1,
   priority and the tree label (template_source) - and no parameters *)
Theorem template_instance_keeps_options created rds name args created' rds' rn :
  template_usage_step created rds name args = Ok (created', rds', rn) -> mem rn created = false ->
  exists r inst, find_rdef name rds = [r] /\ rds' = (rds ++ [inst])%list /\
    r_name inst = rn /\ r_params inst = [] /\ r_opts inst = r_opts r /\
    r_tree inst = subst (zip_dict (r_params r) args []) (r_tree r).
Proof.
  intros H Hm. apply template_is_substitution in H. destruct H as (-> & [(Hc & _)|(_ & _ & r & Hf & _ & ->)]).
  - congruence.
  - exists r. eexists. split; [exact Hf|]. split; [reflexivity|]. repeat split.
Qed.

(* ---- %override of a terminal: exactly when it means textual replacement (finding F35) ------------------ *)
(* %override allocates a new tree object and leaves every other object as it was.  So a tree object (e.g. the
   old object o of the overridden terminal) is referenced from the heap after the override iff it was
   referenced before it from an object other than the new one: the terminals built from the old definition -
   resolved when their module was loaded - keep the old text.  Hence override_replaces means textual
   replacement for terminals exactly when no other tree object holds the overridden terminal's object. *)
Theorem override_term_seen_iff_unshared g d b b' t :
  d_term d = true -> d_tree d = Some t -> ptrs t = [] -> define_stmt g true d b = Ok b' ->
  forall o, (exists o' t', hget o' (b_heap b') = Some t' /\ In o (ptrs t')) <->
            (exists o' t', o' <> b_next b /\ hget o' (b_heap b) = Some t' /\ In o (ptrs t')).
Proof.
  intros Ht Hd Hp H o. destruct (override_term_fresh_object g d b b' t Ht Hd H) as [Hh _]. rewrite Hh.
  split.
  - intros (o' & t' & Hg & Hi). simpl in Hg. destruct (Nat.eqb o' (b_next b)) eqn:E.
    + inversion Hg; subst. rewrite Hp in Hi. destruct Hi.
    + apply Nat.eqb_neq in E. eauto.
  - intros (o' & t' & Hn & Hg & Hi). exists o', t'. split; auto. simpl.
    apply Nat.eqb_neq in Hn. now rewrite Hn.
Qed.
