(* C17 - import = inlining, for every module program: loading a module under an import chain is the
   renaming (by the chain's mangle) of loading it on its own.  Simulation proof over Mod/Modules.v. *)
From Coq Require Import List String Ascii Bool ZArith Arith Lia.
From LV Require Import Mod.Modules Mod.Modules_proofs.
Import ListNotations.
Local Open Scope string_scope.

(* ------------------------------------------------------------------ renaming of builder states *)
Definition rn_opts (rho : string -> string) (is_term : bool) (name : string) (o : dopts) : dopts :=
  match is_term, o with
  | false, ORule k e p (Some _) => ORule k e p (Some (rho name))
  | _, _ => o
  end.

Definition rn_def (rho : string -> string) (d : defn) : defn :=
  mkDef (rho (d_name d)) (d_term d) (option_map (rename_tree rho) (d_tree d)) (map rho (d_params d))
        (rn_opts rho (d_term d) (d_name d) (d_opts d)).

Definition rn_heap (rho : string -> string) (h : heap) : heap :=
  map (fun ot => (fst ot, rename_tree rho (snd ot))) h.

Definition rn_builder (rho : string -> string) (b : builder) : builder :=
  mkB (map (rn_def rho) (b_defs b)) (b_ignore b) (rn_heap rho (b_heap b)) (b_next b).

Definition rmap {A B} (f : A -> B) (r : result A) : result B :=
  match r with Ok a => Ok (f a) | Err e => Err e end.

Section Rename.
  Variable rho : string -> string.
  Hypothesis Hinj : forall x y, rho x = rho y -> x = y.
  (* names that are not reserved stay so *)
  Hypothesis Hres : forall x, String.prefix "__" x = false -> String.prefix "__" (rho x) = false.

  Local Notation rd := (rn_def rho).
  Local Notation rt := (rename_tree rho).
  Local Notation rh := (rn_heap rho).
  Local Notation rb := (rn_builder rho).

  Lemma eqb_rho x y : String.eqb (rho x) (rho y) = String.eqb x y.
  Proof.
    destruct (String.eqb_spec x y) as [->|Hne]. apply String.eqb_refl.
    destruct (String.eqb_spec (rho x) (rho y)) as [E|E]; auto. elim Hne. now apply Hinj.
  Qed.

  Lemma find_def_rn n l : find_def (rho n) (map rd l) = option_map rd (find_def n l).
  Proof.
    induction l as [|x r IH]; simpl; auto. rewrite eqb_rho. destruct (String.eqb n (d_name x)); auto.
  Qed.

  Lemma defined_rn n l : defined (rho n) (map rd l) = defined n l.
  Proof. unfold defined. rewrite find_def_rn. destruct (find_def n l); reflexivity. Qed.

  Lemma set_def_rn d l : set_def (rd d) (map rd l) = map rd (set_def d l).
  Proof.
    induction l as [|x r IH]; simpl; auto. rewrite eqb_rho.
    destruct (String.eqb (d_name d) (d_name x)); simpl; auto. now rewrite IH.
  Qed.

  Lemma mem_rn x l : mem (rho x) (map rho l) = mem x l.
  Proof. induction l as [|y r IH]; simpl; auto. now rewrite eqb_rho, IH. Qed.

  Lemma list_eqb_rn a b : list_eqb (map rho a) (map rho b) = list_eqb a b.
  Proof.
    revert b. induction a as [|x r IH]; intros [|y r']; simpl; auto. now rewrite eqb_rho, IH.
  Qed.

  Lemma check_options_rn g t n o : check_options g (rn_opts rho t n o) = rn_opts rho t n (check_options g o).
  Proof. destruct t, o as [k e p [s|]|p]; reflexivity. Qed.

  (* _define *)
  Lemma define_rn g o d l l' :
    define g o d l = Ok l' -> define g o (rd d) (map rd l) = Ok (map rd l').
  Proof.
    intros H. apply define_ok in H. destruct H as (-> & Hd & Hp).
    unfold define. simpl. rewrite defined_rn, Hd, (Hres _ Hp).
    destruct o; simpl; rewrite <- set_def_rn; unfold rn_def, norm_def; simpl; now rewrite check_options_rn.
  Qed.

  Lemma add_alternative_rn e b : add_alternative (rt e) (rt b) = rt (add_alternative e b).
  Proof. destruct b; reflexivity. Qed.

  (* _extend *)
  Lemma extend_rn d l l' : extend d l = Ok l' -> extend (rd d) (map rd l) = Ok (map rd l').
  Proof.
    unfold extend. simpl. rewrite find_def_rn.
    destruct (find_def (d_name d) l) as [old|] eqn:Ef; simpl; [|discriminate].
    rewrite list_eqb_rn.
    destruct (negb (Bool.eqb (d_term d) (d_term old))); [discriminate|].
    destruct (negb (list_eqb (d_params d) (d_params old))); [discriminate|].
    destruct (d_tree old) as [base|]; simpl; [|discriminate].
    destruct (d_tree d) as [e|]; simpl; intros H; inversion H; subst; auto.
    rewrite <- set_def_rn. unfold rn_def; simpl. now rewrite add_alternative_rn.
  Qed.

  (* heap *)
  Lemma hget_rn o h : hget o (rh h) = option_map rt (hget o h).
  Proof. induction h as [|[k t] r IH]; simpl; auto. destruct (Nat.eqb o k); auto. Qed.

  Lemma hset_rn o t h : hset o (rt t) (rh h) = rh (hset o t h).
  Proof.
    induction h as [|[k t'] r IH]; simpl; auto. destruct (Nat.eqb o k); simpl; auto. now rewrite IH.
  Qed.

  Lemma alloc_rn d b : alloc (rd d) (rb b) = (rd (fst (alloc d b)), rb (snd (alloc d b))).
  Proof.
    unfold alloc. simpl. destruct (d_term d) eqn:Et; destruct (d_tree d) as [t|]; simpl; auto.
  Qed.

  Lemma define_stmt_rn g o d b b' :
    define_stmt g o d b = Ok b' -> define_stmt g o (rd d) (rb b) = Ok (rb b').
  Proof.
    unfold define_stmt. rewrite alloc_rn. destruct (alloc d b) as [d1 b1]. simpl.
    destruct (define g o d1 (b_defs b1)) as [l|] eqn:E; simpl; [|discriminate].
    intros H; inversion H; subst. rewrite (define_rn _ _ _ _ _ E). reflexivity.
  Qed.

  Lemma extend_stmt_rn d b b' :
    extend_stmt d b = Ok b' -> extend_stmt (rd d) (rb b) = Ok (rb b').
  Proof.
    unfold extend_stmt. simpl.
    destruct (extend d (b_defs b)) as [l|] eqn:E; simpl; [|discriminate].
    rewrite (extend_rn _ _ _ E). simpl. rewrite find_def_rn.
    destruct (find_def (d_name d) (b_defs b)) as [old|]; simpl.
    2:{ intros H; inversion H; reflexivity. }
    destruct (d_tree d) as [e|]; simpl.
    2:{ intros H; inversion H; reflexivity. }
    destruct (d_tree old) as [[ | | |o]|]; simpl; try (intros H; inversion H; reflexivity).
    rewrite hget_rn. destruct (hget o (b_heap b)) as [base|]; simpl; [|discriminate].
    intros H; inversion H; subst. unfold rn_builder; simpl.
    now rewrite add_alternative_rn, hset_rn.
  Qed.

  (* ---------------------------------------------------------------- _remove_unused *)
  Lemma syms_rn t : syms (rt t) = map rho (syms t).
  Proof.
    induction t as [d ch IH|b n|v|o] using tree_ind'; simpl; auto.
    induction ch as [|c ch IHch]; simpl; auto. inversion IH; subst.
    rewrite map_app. f_equal; auto.
  Qed.

  Lemma flat_map_syms_rn ch : flat_map syms (map rt ch) = map rho (flat_map syms ch).
  Proof. induction ch as [|c ch IH]; simpl; auto. now rewrite map_app, syms_rn, IH. Qed.

  Lemma used_symbols_rn t : used_symbols (rt t) = map rho (used_symbols t).
  Proof.
    induction t as [d ch IH|b n|v|o] using tree_ind'; simpl; auto.
    destruct (String.eqb d "expansion"). apply flat_map_syms_rn.
    induction ch as [|c ch IHch]; simpl; auto. inversion IH; subst.
    rewrite map_app. f_equal; auto.
  Qed.

  Lemma filter_notmem_rn ps us :
    filter (fun x => negb (mem x (map rho ps))) (map rho us) = map rho (filter (fun x => negb (mem x ps)) us).
  Proof.
    induction us as [|u us IH]; simpl; auto. rewrite mem_rn. destruct (mem u ps); simpl; now rewrite IH.
  Qed.

  Lemma rule_deps_rn l s : rule_deps (map rd l) (rho s) = map rho (rule_deps l s).
  Proof.
    unfold rule_deps. rewrite find_def_rn. destruct (find_def s l) as [d|]; simpl; auto.
    destruct (d_term d); auto. destruct (d_tree d) as [t|]; simpl; auto.
    now rewrite used_symbols_rn, filter_notmem_rn.
  Qed.

  Lemma flat_map_deps_rn l v :
    flat_map (rule_deps (map rd l)) (map rho v) = map rho (flat_map (rule_deps l) v).
  Proof. induction v as [|x v IH]; simpl; auto. now rewrite rule_deps_rn, IH, map_app. Qed.

  Lemma dedup_rn l : dedup (map rho l) = map rho (dedup l).
  Proof. induction l as [|x r IH]; simpl; auto. rewrite mem_rn. destruct (mem x r); simpl; now rewrite IH. Qed.

  Lemma reach_rn fuel l : forall v, reach fuel (map rd l) (map rho v) = map rho (reach fuel l v).
  Proof.
    induction fuel as [|f IH]; simpl; intros v; auto.
    rewrite flat_map_deps_rn, filter_notmem_rn, dedup_rn.
    destruct (dedup (filter (fun x => negb (mem x v)) (flat_map (rule_deps l) v))) as [|n new] eqn:E; simpl; auto.
    rewrite <- IH. f_equal. now rewrite map_app.
  Qed.

  Lemma forallb_mem_rn v us : forallb (fun x => mem x (map rho v)) (map rho us) = forallb (fun x => mem x v) us.
  Proof. induction us as [|u us IH]; simpl; auto. now rewrite mem_rn, IH. Qed.

  Lemma closed_under_rn l v : closed_under (map rd l) (map rho v) = closed_under l v.
  Proof.
    unfold closed_under. generalize v at 1 3. intros w. induction v as [|x v IH]; simpl; auto.
    now rewrite rule_deps_rn, forallb_mem_rn, IH.
  Qed.

  Lemma total_syms_rn l : total_syms (map rd l) = total_syms l.
  Proof.
    unfold total_syms. induction l as [|d l IH]; simpl; auto.
    destruct (d_tree d) as [t|]; simpl; auto. now rewrite syms_rn, map_length, IH.
  Qed.

  Lemma filter_kept_rn v l :
    filter (fun d => mem (d_name d) (map rho v)) (map rd l) = map rd (filter (fun d => mem (d_name d) v) l).
  Proof.
    induction l as [|d l IH]; simpl; auto. rewrite mem_rn. destruct (mem (d_name d) v); simpl; now rewrite IH.
  Qed.

  Lemma remove_unused_rn l used :
    remove_unused (map rd l) (map rho used) = rmap (map rd) (remove_unused l used).
  Proof.
    unfold remove_unused. rewrite map_length, total_syms_rn, dedup_rn, reach_rn, closed_under_rn.
    destruct (closed_under l _); simpl; auto. now rewrite filter_kept_rn.
  Qed.

  Lemma clashes_rn a b : clashes (map rd a) (map rd b) = clashes a b.
  Proof. unfold clashes. induction a as [|d a IH]; simpl; auto. now rewrite defined_rn, IH. Qed.

  (* ---------------------------------------------------------------- resolve_term_references *)
  Lemma ptrs_rn t : ptrs (rt t) = ptrs t.
  Proof.
    induction t as [d ch IH|b n|v|o] using tree_ind'; simpl; auto.
    induction ch as [|c ch IHch]; simpl; auto. inversion IH; subst. f_equal; auto.
  Qed.

  Lemma term_objs_rn l : term_objs (map rd l) = term_objs l.
  Proof.
    unfold term_objs. induction l as [|d l IH]; simpl; auto. rewrite IH. f_equal.
    destruct (d_term d); auto. destruct (d_tree d) as [[ | | |o]|]; reflexivity.
  Qed.

  Lemma heap_ptrs_rn h o :
    match hget o (rh h) with Some t => ptrs t | None => [] end =
    match hget o h with Some t => ptrs t | None => [] end.
  Proof. rewrite hget_rn. destruct (hget o h); simpl; auto. apply ptrs_rn. Qed.

  Lemma reach_objs_rn fuel h : forall v, reach_objs fuel (rh h) v = reach_objs fuel h v.
  Proof.
    induction fuel as [|f IH]; simpl; intros v; auto.
    assert (E : flat_map (fun o => match hget o (rh h) with Some t => ptrs t | None => [] end) v =
                flat_map (fun o => match hget o h with Some t => ptrs t | None => [] end) v).
    { apply flat_map_ext. intros o. apply heap_ptrs_rn. }
    rewrite E. destruct (filter _ _); auto.
  Qed.

  Lemma rn_heap_length h : List.length (rh h) = List.length h.
  Proof. apply map_length. Qed.

  Lemma cyclic_rn h o : cyclic (rh h) o = cyclic h o.
  Proof.
    unfold cyclic. rewrite hget_rn. destruct (hget o h) as [t|]; cbn [option_map]; auto.
    now rewrite ptrs_rn, rn_heap_length, reach_objs_rn.
  Qed.

  Lemma filter_term_rn l : filter d_term (map rd l) = map rd (filter d_term l).
  Proof. induction l as [|d l IH]; simpl; auto. destruct (d_term d); simpl; now rewrite IH. Qed.

  Lemma resolve_pass_rn terms t :
    resolve_pass (map rd terms) (rt t) = rmap rt (resolve_pass terms t).
  Proof.
    induction t as [d ch IH|b n|v|o] using tree_ind'; simpl; auto.
    set (go := fix go (l : list tree) : result (list tree) :=
                 match l with
                 | [] => Ok []
                 | x :: r => x' <- resolve_pass terms x ;; r' <- go r ;; Ok (x' :: r')
                 end).
    set (go' := fix go (l : list tree) : result (list tree) :=
                 match l with
                 | [] => Ok []
                 | x :: r => x' <- resolve_pass (map rd terms) x ;; r' <- go r ;; Ok (x' :: r')
                 end).
    assert (Hgo : go' (map rt ch) = rmap (map rt) (go ch)).
    { induction ch as [|c ch IHch]; simpl; auto. inversion IH; subst.
      rewrite H1. destruct (resolve_pass terms c); simpl; auto.
      rewrite IHch by auto. destruct (go ch); simpl; auto. }
    rewrite Hgo. destruct (go ch) as [ch'|e]; simpl; auto.
    destruct (String.eqb d "value"); simpl; auto.
    destruct ch as [|c1 r1]; simpl; auto.
    destruct c1 as [dd cc|b n|v|o]; destruct r1 as [|c2 r2]; simpl; auto; try (destruct b; simpl; auto; fail).
    destruct b; simpl; auto.
    rewrite find_def_rn. destruct (find_def n terms) as [x|]; simpl; auto.
    destruct (d_tree x); simpl; auto.
  Qed.

  Lemma resolve_map_rn terms live h :
    map_result (fun ot => if memn (fst ot) live
                          then t' <- resolve_pass (map rd terms) (snd ot) ;; Ok (fst ot, t')
                          else Ok ot) (rh h) =
    rmap rh (map_result (fun ot => if memn (fst ot) live
                                   then t' <- resolve_pass terms (snd ot) ;; Ok (fst ot, t')
                                   else Ok ot) h).
  Proof.
    induction h as [|[o t] h IH]; simpl; auto.
    destruct (memn o live); simpl.
    - rewrite resolve_pass_rn. destruct (resolve_pass terms t); simpl; auto.
      rewrite IH. destruct (map_result _ h); simpl; auto.
    - rewrite IH. destruct (map_result _ h); simpl; auto.
  Qed.

  Lemma resolve_heap_rn l h : resolve_heap (map rd l) (rh h) = rmap rh (resolve_heap l h).
  Proof.
    unfold resolve_heap. rewrite filter_term_rn, term_objs_rn, rn_heap_length, reach_objs_rn, resolve_map_rn.
    destruct (map_result _ h) as [h'|]; simpl; auto.
    assert (E : existsb (cyclic (rh h')) (term_objs l) = existsb (cyclic h') (term_objs l)).
    { induction (term_objs l); simpl; auto. now rewrite cyclic_rn, IHl0. }
    rewrite E. clear E. destruct (existsb (cyclic h') (term_objs l)); reflexivity.
  Qed.
End Rename.

(* ------------------------------------------------------------------ generic simulation of a fold *)
Lemma fold_ok_sim {A} (f : builder -> builder) (P : A -> Prop)
      (step0 stepR : result builder -> A -> result builder) :
  (forall e a, step0 (Err e) a = Err e) ->
  (forall b a b1, P a -> step0 (Ok b) a = Ok b1 -> stepR (Ok (f b)) a = Ok (f b1)) ->
  forall l b b', Forall P l -> fold_left step0 l (Ok b) = Ok b' -> fold_left stepR l (Ok (f b)) = Ok (f b').
Proof.
  intros Herr Hstep. induction l as [|a l IH]; simpl; intros b b' HP H.
  - inversion H. reflexivity.
  - inversion HP; subst. destruct (step0 (Ok b) a) as [b1|e] eqn:E.
    + rewrite (Hstep _ _ _ H2 E). now apply IH.
    + assert (Hfold : forall l0, fold_left step0 l0 (Err e) = Err e).
      { induction l0; simpl; auto. now rewrite Herr. }
      rewrite Hfold in H. discriminate.
Qed.

Lemma rename_tree_comp f g t : rename_tree f (rename_tree g t) = rename_tree (fun x => f (g x)) t.
Proof.
  induction t as [d ch IH|b n|v|o] using tree_ind'; simpl; auto. f_equal.
  rewrite map_map. apply map_ext_in. intros c Hc. rewrite Forall_forall in IH. now apply IH.
Qed.

Lemma rename_tree_ext f g t : (forall x, f x = g x) -> rename_tree f t = rename_tree g t.
Proof.
  intros E. induction t as [d ch IH|b n|v|o] using tree_ind'; simpl; auto.
  - f_equal. apply map_ext_in. intros c Hc. rewrite Forall_forall in IH. now apply IH.
  - now rewrite E.
Qed.

Definition not_ignore (s : stmt) : Prop := match s with SIgnore _ => False | _ => True end.

Section Chain.
  Variable ls2 : list layer.
  Hypothesis Hne : ls2 <> [].
  Hypothesis Hinj : forall x y, mangle ls2 x = mangle ls2 y -> x = y.
  Hypothesis Hres : forall x, String.prefix "__" x = false -> String.prefix "__" (mangle ls2 x) = false.

  Local Notation rho := (mangle ls2).
  Local Notation rd := (rn_def rho).
  Local Notation rb := (rn_builder rho).

  Lemma mangle_app ls1 x : mangle (ls1 ++ ls2)%list x = rho (mangle ls1 x).
  Proof. unfold mangle. now rewrite fold_left_app. Qed.

  Lemma mangle_def_app ls1 d : mangle_def (ls1 ++ ls2)%list d = rd (mangle_def ls1 d).
  Proof.
    unfold mangle_def, rn_def. simpl. rewrite mangle_app. f_equal.
    - destruct (d_tree d) as [t|]; simpl; auto. f_equal. rewrite rename_tree_comp.
      apply rename_tree_ext. intros x. apply mangle_app.
    - rewrite map_map. apply map_ext. intros x. apply mangle_app.
    - assert (Hnil : exists l r, (ls1 ++ ls2)%list = l :: r).
      { destruct ls1; simpl; eauto. destruct ls2; [contradiction | eauto]. }
      destruct Hnil as (l0 & r0 & ->).
      unfold mangle_opts, rn_opts. destruct (d_term d); destruct (d_opts d) as [k e p [s|]|p]; destruct ls1; reflexivity.
  Qed.

  Lemma rb_with_defs l b : with_defs (map rd l) (rb b) = rb (with_defs l b).
  Proof. reflexivity. Qed.

  Lemma apply_stmt_rn g ls1 s b b' :
    ls1 <> [] \/ not_ignore s ->
    apply_stmt g ls1 s b = Ok b' -> apply_stmt g (ls1 ++ ls2)%list s (rb b) = Ok (rb b').
  Proof.
    intros Hs. destruct s as [k d|t|sy|p al]; simpl.
    - rewrite mangle_def_app. destruct k.
      + apply define_stmt_rn; auto.
      + apply define_stmt_rn; auto.
      + apply extend_stmt_rn; auto.
    - destruct ls1 as [|l1 r1]; simpl.
      + destruct Hs as [Hs|[]]. now elim Hs.
      + intros H; inversion H. reflexivity.
    - refine (fold_ok_sim rb (fun _ => True) _ _ _ _ sy b b' _).
      + intros e a. reflexivity.
      + intros b0 a b1 _. simpl. destruct (negb (fst a)); [discriminate|].
        destruct (define g false _ (b_defs b0)) as [l|] eqn:E; simpl; [|discriminate].
        intros H; inversion H; subst.
        apply (define_rn rho Hinj Hres) in E. unfold rn_def in E at 1. simpl in E.
        rewrite mangle_app. rewrite E. reflexivity.
      + clear. induction sy; constructor; auto.
    - intros H; inversion H. reflexivity.
  Qed.

  Lemma apply_stmts_rn g ls1 ss b b' :
    Forall (fun s => ls1 <> [] \/ not_ignore s) ss ->
    apply_stmts g ls1 ss b = Ok b' -> apply_stmts g (ls1 ++ ls2)%list ss (rb b) = Ok (rb b').
  Proof.
    unfold apply_stmts. intros HP.
    refine (fold_ok_sim rb (fun s => ls1 <> [] \/ not_ignore s) _ _ _ _ ss b b' HP).
    - intros e a. reflexivity.
    - intros b0 a b1 Ha. simpl. now apply apply_stmt_rn.
  Qed.

  Lemma rn_heap_app (h1 h2 : heap) : rn_heap rho (h1 ++ h2)%list = (rn_heap rho h1 ++ rn_heap rho h2)%list.
  Proof. apply map_app. Qed.

  Lemma do_import_rn loader0 loaderR fs ls1 b imp b' :
    (forall n ls' ms gb0, ls' <> [] -> loader0 n ls' ms = Ok gb0 -> loaderR n (ls' ++ ls2)%list ms = Ok (rb gb0)) ->
    do_import loader0 fs ls1 b imp = Ok b' ->
    do_import loaderR fs (ls1 ++ ls2)%list (rb b) imp = Ok (rb b').
  Proof.
    intros Hsim. unfold do_import. cbv zeta.
    destruct (lookup_module (fst imp) fs) as [ms|]; [|discriminate].
    destruct (loader0 (b_next b) ((join "__" (fst imp), snd imp) :: ls1) ms) as [gb0|] eqn:El; simpl; [|discriminate].
    change ((join "__" (fst imp), snd imp) :: (ls1 ++ ls2))%list
      with (((join "__" (fst imp), snd imp) :: ls1) ++ ls2)%list.
    assert (Hcons : (join "__" (fst imp), snd imp) :: ls1 <> []) by (intros Hc; discriminate Hc).
    change (b_next (rb b)) with (b_next b).
    pose proof (Hsim _ _ _ _ Hcons El) as Hx. unfold layer in *. rewrite Hx. clear Hx. simpl.
    assert (Er : map (mangle ((join "__" (fst imp), snd imp) :: (ls1 ++ ls2)%list)) (map fst (snd imp)) =
                 map rho (map (mangle ((join "__" (fst imp), snd imp) :: ls1)) (map fst (snd imp)))).
    { rewrite (map_map (mangle _) rho). apply map_ext. intros x.
      apply (mangle_app ((join "__" (fst imp), snd imp) :: ls1)). }
    unfold layer in *. rewrite Er, (remove_unused_rn rho Hinj).
    destruct (remove_unused (b_defs gb0) _) as [kept|]; simpl; [|discriminate].
    rewrite (clashes_rn rho Hinj). destruct (clashes kept (b_defs b)); [discriminate|].
    intros H; inversion H; subst. unfold rn_builder. simpl. now rewrite map_app, rn_heap_app.
  Qed.

  (* loading a module under the chain ls1 ++ ls2 is the renaming by mangle ls2 of loading it under ls1 *)
  Theorem load_rn fs g : forall fuel ls1 ms b b0,
    ls1 <> [] \/ Forall not_ignore ms ->
    load fuel fs g ls1 ms b = Ok b0 ->
    load fuel fs g (ls1 ++ ls2)%list ms (rb b) = Ok (rb b0).
  Proof.
    induction fuel as [|f IH]; intros ls1 ms b b0 Hig; [discriminate|].
    rewrite !load_S.
    destruct (fold_left _ (collect_imports ms) (Ok b)) as [b1|] eqn:E1; cbn [bind]; [|discriminate].
    assert (E1' : fold_left
              (fun acc imp => b' <- acc ;;
                 do_import (fun next ls' ms0 => load f fs g ls' ms0 (fresh_builder next)) fs (ls1 ++ ls2)%list b' imp)
              (collect_imports ms) (Ok (rb b)) = Ok (rb b1)).
    { revert E1. refine (fold_ok_sim rb (fun _ => True) _ _ _ _ (collect_imports ms) b b1 _).
      - intros e a. reflexivity.
      - intros bb a bb1 _. simpl. apply do_import_rn.
        intros n ls' ms0 gb0 Hls' Hl. apply (IH ls' ms0 (fresh_builder n) gb0); auto.
      - clear. induction (collect_imports ms); constructor; auto. }
    rewrite E1'. cbn [bind].
    destruct (apply_stmts g ls1 ms b1) as [b2|] eqn:E2; cbn [bind]; [|discriminate].
    assert (HP : Forall (fun s => ls1 <> [] \/ not_ignore s) ms).
    { destruct Hig as [Hig|Hig]. clear -Hig. induction ms; constructor; auto.
      eapply Forall_impl; [|exact Hig]. auto. }
    rewrite (apply_stmts_rn _ _ _ _ _ HP E2). cbn [bind].
    change (b_defs (rb b2)) with (map rd (b_defs b2)).
    change (b_heap (rb b2)) with (rn_heap rho (b_heap b2)).
    rewrite (resolve_heap_rn rho Hinj).
    destruct (resolve_heap (b_defs b2) (b_heap b2)) as [h|]; simpl; [|discriminate].
    intros H; inversion H; subst. reflexivity.
  Qed.
End Chain.

(* ------------------------------------------------------------------ %ignore inside an imported module *)
Definition keep_stmt (s : stmt) : bool := match s with SIgnore _ => false | _ => true end.
Definition strip_ignore (ms : list stmt) : list stmt := filter keep_stmt ms.

Lemma strip_not_ignore ms : Forall not_ignore (strip_ignore ms).
Proof.
  unfold strip_ignore. induction ms as [|s ms IH]; simpl; [constructor|].
  destruct s; simpl; auto; constructor; simpl; auto.
Qed.

Lemma collect_imports_strip ms acc :
  fold_left (fun acc s => match s with SImport p al => add_import p al acc | _ => acc end) (strip_ignore ms) acc =
  fold_left (fun acc s => match s with SImport p al => add_import p al acc | _ => acc end) ms acc.
Proof. revert acc. induction ms as [|s ms IH]; simpl; intros acc; auto. destruct s; simpl; auto. Qed.

Lemma apply_stmts_strip g ls ms : ls <> [] -> forall r,
  fold_left (fun acc s => b' <- acc ;; apply_stmt g ls s b') (strip_ignore ms) r =
  fold_left (fun acc s => b' <- acc ;; apply_stmt g ls s b') ms r.
Proof.
  intros Hls. induction ms as [|s ms IH]; simpl; intros r; auto.
  destruct s; simpl; auto.
  rewrite IH. f_equal. destruct r; simpl; auto. destruct ls; [contradiction | reflexivity].
Qed.

(* under an import chain the %ignore statements of a module have no effect *)
Lemma load_strip_ignore fuel fs g ls ms b :
  ls <> [] -> load fuel fs g ls (strip_ignore ms) b = load fuel fs g ls ms b.
Proof.
  intros Hls. destruct fuel as [|f]; auto. rewrite !load_S.
  unfold collect_imports. rewrite collect_imports_strip.
  destruct (fold_left _ _ (Ok b)) as [b1|]; cbn [bind]; auto.
  unfold apply_stmts. now rewrite apply_stmts_strip.
Qed.

(* ------------------------------------------------------------------ when is a chain's mangle injective *)
Definition in_plain_image (p v : string) : bool :=
  String.prefix (p ++ "__") v || String.prefix (String "_" (p ++ "__")) v.

Fixpoint nodup_str (l : list string) : bool :=
  match l with [] => true | x :: r => negb (mem x r) && nodup_str r end.

(* a checkable sufficient condition on one import level (prefix, aliases) *)
Definition layer_ok (l : layer) : bool :=
  match fst l with
  | EmptyString => false
  | String c _ => negb (Ascii.eqb c "_")
  end &&
  nodup_str (map snd (snd l)) &&
  forallb (fun kv => negb (in_plain_image (fst l) (snd kv)) && negb (String.prefix "__" (snd kv))) (snd l).

Lemma prefix_app a b : String.prefix a (a ++ b) = true.
Proof.
  induction a as [|c a IH]; simpl. destruct b; reflexivity.
  destruct (ascii_dec c c); [exact IH | congruence].
Qed.

Lemma plain_in_image p s : in_plain_image p (plain p s) = true.
Proof.
  unfold in_plain_image. destruct (starts_under_dec s) as [(r & ->)|Hs].
  - rewrite plain_under. apply orb_true_iff. right.
    replace (String "_" (p ++ "__" ++ r)) with (String "_" (p ++ "__") ++ r).
    + apply prefix_app.
    + simpl. now rewrite app_str_assoc.
  - rewrite plain_not_under by auto. apply orb_true_iff. left.
    rewrite <- app_str_assoc. apply prefix_app.
Qed.

Lemma nodup_str_NoDup l : nodup_str l = true -> NoDup l.
Proof.
  induction l as [|x r IH]; simpl; [constructor|]. rewrite andb_true_iff, negb_true_iff.
  intros [H1 H2]. constructor; auto. now apply mem_false_In.
Qed.

Lemma assoc_In_pair {A} x (l : list (string * A)) a : assoc x l = Some a -> In (x, a) l.
Proof.
  induction l as [|[k v] r IH]; simpl; [discriminate|].
  destruct (String.eqb_spec x k); intros H; [inversion H; subst; auto | auto].
Qed.

Lemma NoDup_snd_inj {A B} (l : list (A * B)) x y a :
  NoDup (map snd l) -> In (x, a) l -> In (y, a) l -> x = y.
Proof.
  induction l as [|[k v] r IH]; simpl; [tauto|]. intros Hnd Hx Hy. inversion Hnd as [|? ? Hn Hr]; subst.
  destruct Hx as [Hx|Hx], Hy as [Hy|Hy].
  - congruence.
  - inversion Hx; subst. elim Hn. change a with (snd (y, a)). now apply in_map.
  - inversion Hy; subst. elim Hn. change a with (snd (x, a)). now apply in_map.
  - eauto.
Qed.

Lemma layer_ok_inj l : layer_ok l = true -> forall x y, mangle1 l x = mangle1 l y -> x = y.
Proof.
  unfold layer_ok. rewrite !andb_true_iff. intros [[_ Hnd] Hall] x y.
  apply nodup_str_NoDup in Hnd. rewrite forallb_forall in Hall.
  unfold mangle1. destruct (assoc x (snd l)) as [a|] eqn:Ex; destruct (assoc y (snd l)) as [a'|] eqn:Ey; intros H.
  - subst a'. apply assoc_In_pair in Ex, Ey. eapply NoDup_snd_inj; eauto.
  - apply assoc_In_pair in Ex. specialize (Hall _ Ex). simpl in Hall. subst a.
    rewrite plain_in_image in Hall. discriminate.
  - apply assoc_In_pair in Ey. specialize (Hall _ Ey). simpl in Hall. subst a'.
    rewrite plain_in_image in Hall. discriminate.
  - now apply plain_injective in H.
Qed.

Lemma prefix_dunder_first a s : a <> "_"%char -> String.prefix "__" (String a s) = false.
Proof. intros Ha. cbn [String.prefix]. destruct (ascii_dec "_" a); [congruence | reflexivity]. Qed.

Lemma prefix_dunder_second b s : b <> "_"%char -> String.prefix "__" (String "_" (String b s)) = false.
Proof.
  intros Hb. cbn [String.prefix]. destruct (ascii_dec "_" "_"); [|reflexivity].
  destruct (ascii_dec "_" b); [congruence | reflexivity].
Qed.

Lemma layer_ok_res l : layer_ok l = true ->
  forall x, String.prefix "__" x = false -> String.prefix "__" (mangle1 l x) = false.
Proof.
  unfold layer_ok. rewrite !andb_true_iff. intros [[Hp _] Hall] x Hx.
  rewrite forallb_forall in Hall. unfold mangle1.
  destruct (assoc x (snd l)) as [a|] eqn:Ex.
  - apply assoc_In_pair in Ex. specialize (Hall _ Ex). simpl in Hall.
    rewrite andb_true_iff, !negb_true_iff in Hall. tauto.
  - destruct (fst l) as [|c p]; [discriminate|]. rewrite negb_true_iff in Hp.
    assert (Hc : c <> "_"%char) by (intros ->; rewrite Ascii.eqb_refl in Hp; discriminate).
    destruct (starts_under_dec x) as [(r & ->)|Hs].
    + rewrite plain_under. simpl append. now apply prefix_dunder_second.
    + rewrite plain_not_under by auto. simpl append. now apply prefix_dunder_first.
Qed.

Lemma chain_ok ls : forallb layer_ok ls = true ->
  (forall x y, mangle ls x = mangle ls y -> x = y) /\
  (forall x, String.prefix "__" x = false -> String.prefix "__" (mangle ls x) = false).
Proof.
  induction ls as [|l ls IH]; cbn [forallb].
  - intros _. split; auto.
  - rewrite andb_true_iff. intros [Hl Hls]. destruct (IH Hls) as [Hi Hr]. split.
    + intros x y H. rewrite !mangle_cons in H. apply Hi in H. now apply (layer_ok_inj l Hl).
    + intros x Hx. rewrite mangle_cons. apply Hr. now apply (layer_ok_res l Hl).
Qed.

(* ------------------------------------------------------------------ import = inlining, every module *)
Theorem import_is_inlining_full f fs g ls b p al ms gb0 b' :
  let ls' := (join "__" p, al) :: ls in
  forallb layer_ok ls' = true ->
  lookup_module p fs = Some ms ->
  (* the module loaded on its own (its %ignore statements aside: lark does not apply them on import) *)
  load f fs g [] (strip_ignore ms) (fresh_builder (b_next b)) = Ok gb0 ->
  do_import (fun next ls0 ms0 => load f fs g ls0 ms0 (fresh_builder next)) fs ls b (p, al) = Ok b' ->
  exists kept0,
    remove_unused (b_defs gb0) (map fst al) = Ok kept0 /\
    (forall d, In d kept0 <-> In d (b_defs gb0) /\ Reach (b_defs gb0) (map fst al) (d_name d)) /\
    b_defs b' = (b_defs b ++ map (rn_def (mangle ls')) kept0)%list /\
    b_heap b' = (b_heap b ++ rn_heap (mangle ls') (b_heap gb0))%list /\
    b_ignore b' = b_ignore b /\ b_next b' = b_next gb0 /\
    (forall d, In d kept0 -> defined (mangle ls' (d_name d)) (b_defs b) = false).
Proof.
  intros ls' Hok Hl Hload H.
  destruct (chain_ok ls' Hok) as [Hinj Hres].
  assert (Hne : ls' <> []) by (intros Hc; discriminate Hc).
  pose proof (load_rn ls' Hne Hinj Hres fs g f [] (strip_ignore ms) (fresh_builder (b_next b)) gb0
                      (or_intror (strip_not_ignore ms)) Hload) as Hsim.
  simpl app in Hsim. change (rn_builder (mangle ls') (fresh_builder (b_next b))) with (fresh_builder (b_next b)) in Hsim.
  rewrite (load_strip_ignore f fs g ls' ms _ Hne) in Hsim.
  unfold do_import in H. cbv zeta in H. simpl fst in H. simpl snd in H. rewrite Hl in H.
  fold ls' in H. rewrite Hsim in H. cbn [bind] in H.
  change (b_defs (rn_builder (mangle ls') gb0)) with (map (rn_def (mangle ls')) (b_defs gb0)) in H.
  rewrite (remove_unused_rn (mangle ls') Hinj) in H.
  destruct (remove_unused (b_defs gb0) (map fst al)) as [kept0|] eqn:Er; simpl in H; [|discriminate].
  destruct (clashes _ (b_defs b)) eqn:Ec; [discriminate|]. inversion H; subst b'; clear H. simpl.
  exists kept0. split; auto. split.
  { apply remove_unused_is_reachability in Er. apply Er. }
  repeat split; auto.
  intros d Hd. apply (clashes_false _ _ Ec (rn_def (mangle ls') d)). now apply in_map.
Qed.
