(* C17 - renaming of non-terminals in a context-free grammar (Cfg/Grammar.v) and derivation
   trees with labels.  Definitions only. *)
From Coq Require Import List Arith Bool.
From LV Require Import Cfg.Grammar.
Import ListNotations.

Definition rename_sym (rho : nat -> nat) (s : symbol) : symbol :=
  match s with T t => T t | NT a => NT (rho a) end.

Definition rename_rule (rho : nat -> nat) (r : rule) : rule :=
  mkRule (rho (lhs r)) (map (rename_sym rho) (rhs r)).

Definition rename_grammar (rho : nat -> nat) (G : grammar) : grammar := map (rename_rule rho) G.

(* non-terminals mentioned by a sentential form / a grammar *)
Fixpoint nts (ss : list symbol) : list nat :=
  match ss with
  | [] => []
  | T _ :: r => nts r
  | NT a :: r => a :: nts r
  end.

Definition grammar_nts (G : grammar) : list nat := flat_map (fun r => lhs r :: nts (rhs r)) G.

(* derivation trees: a leaf carries the matched token, a node the rule that was applied *)
Inductive dtree (tok : Type) :=
| Leaf (t : nat) (k : tok)
| Node (a : nat) (r : rule) (ch : list (dtree tok)).
Arguments Leaf {tok} t k.
Arguments Node {tok} a r ch.

Fixpoint yield {tok} (t : dtree tok) : list tok :=
  match t with
  | Leaf _ k => [k]
  | Node _ _ ch => flat_map yield ch
  end.

Fixpoint rename_dtree {tok} (rho : nat -> nat) (t : dtree tok) : dtree tok :=
  match t with
  | Leaf a k => Leaf a k
  | Node a r ch => Node (rho a) (rename_rule rho r) (map (rename_dtree rho) ch)
  end.

Section Trees.
  Variable G : grammar.
  Variable tok : Type.
  Variable tmatch : nat -> tok -> bool.

  Inductive tree_of : symbol -> dtree tok -> Prop :=
  | to_leaf t k : tmatch t k = true -> tree_of (T t) (Leaf t k)
  | to_node a r ch : In r G -> lhs r = a -> forest_of (rhs r) ch -> tree_of (NT a) (Node a r ch)
  with forest_of : list symbol -> list (dtree tok) -> Prop :=
  | fo_nil : forest_of [] []
  | fo_cons s ss t ts : tree_of s t -> forest_of ss ts -> forest_of (s :: ss) (t :: ts).
End Trees.
