(* C17 - which file an %import denotes: GrammarBuilder.do_import's search over
   import_paths + [base_path] + [stdlib_loader], FromPackageLoader.__call__, the base_path computed by
   _unpack_import from the name of the importing grammar, over an abstract file system; and
   load_grammar as a whole (load_fs) on top of it: the statement trees of every file as lark's front
   end returns them (Mod/Front.v), the builder operations of Mod/Modules.v.  Definitions only. *)
From Coq Require Import List String Ascii Bool ZArith Arith.
From LV Require Import Mod.Modules Mod.Unpack Mod.Front.
Import ListNotations.
Local Open Scope string_scope.

(* ------------------------------------------------------------------ posixpath *)
Definition is_slash (c : ascii) : bool := Ascii.eqb c "/".

Fixpoint ends_slash (s : string) : bool :=
  match s with
  | EmptyString => false
  | String c EmptyString => is_slash c
  | String _ r => ends_slash r
  end.

(* os.path.join(a, b) for b not starting with "/" (b is built from identifiers) *)
Definition path_join (a b : string) : string :=
  match a with
  | EmptyString => b
  | _ => if ends_slash a then a ++ b else a ++ "/" ++ b
  end.

(* p[:p.rfind('/') + 1] *)
Fixpoint head_to_last_slash (s : string) : option string :=
  match s with
  | EmptyString => None
  | String c r =>
      match head_to_last_slash r with
      | Some h => Some (String c h)
      | None => if is_slash c then Some (String c EmptyString) else None
      end
  end.

Fixpoint all_slashes (s : string) : bool :=
  match s with EmptyString => true | String c r => is_slash c && all_slashes r end.

Fixpoint rstrip_slash (s : string) : string :=
  match s with
  | EmptyString => EmptyString
  | String c r =>
      match rstrip_slash r with
      | EmptyString => if is_slash c then EmptyString else String c EmptyString
      | r' => String c r'
      end
  end.

(* os.path.split(p)[0] *)
Definition dirname (p : string) : string :=
  match head_to_last_slash p with
  | None => EmptyString
  | Some h => if all_slashes h then h else rstrip_slash h
  end.

(* what the operating system makes of a path: relative to the current directory, repeated slashes are one *)
Fixpoint collapse (s : string) : string :=
  match s with
  | EmptyString => EmptyString
  | String c r =>
      match r with
      | String c' _ => if is_slash c && is_slash c' then collapse r else String c (collapse r)
      | EmptyString => String c EmptyString
      end
  end.

Definition is_abs (p : string) : bool := match p with String c _ => is_slash c | _ => false end.

Definition canon (cwd p : string) : string := collapse (if is_abs p then p else cwd ++ "/" ++ p).

(* ------------------------------------------------------------------ sources, names, base paths *)
(* an entry of import_paths: a directory, or FromPackageLoader(pkg_name, search_paths) *)
Inductive source :=
| SrcDir (d : string)
| SrcPkg (pkg : string) (search : list string).

(* grammar_name / joined_path: a string (file path, "<string>", ...) or a PackageResource *)
Inductive gname :=
| GName (s : string)
| GRes (pkg path : string).

(* base_path: None, a directory, or PackageResource(pkg, directory) *)
Inductive base :=
| BNone
| BDir (d : string)
| BRes (pkg d : string).

Definition base_eqb (a b : base) : bool :=
  match a, b with
  | BNone, BNone => true
  | BDir d, BDir d' => String.eqb d d'
  | BRes p d, BRes p' d' => String.eqb p p' && String.eqb d d'
  | _, _ => false
  end.

Record env := mkEnv {
  e_files : list (string * list raw_stmt);            (* regular files: canonical absolute path -> parsed content *)
  e_data : list ((string * string) * list raw_stmt);  (* package data: (package, collapsed path inside it) *)
  e_cwd : string;
  e_main : option string;                             (* os.path.abspath(sys.modules['__main__'].__file__) *)
  e_paths : list source;                              (* GrammarBuilder.import_paths *)
  e_std : source }.                                   (* stdlib_loader *)

Definition EXT : string := ".lark".
Definition STDLIB : source := SrcPkg "lark" ["grammars"].

Fixpoint assoc_file (p : string) (l : list (string * list raw_stmt)) : option (list raw_stmt) :=
  match l with [] => None | (k, v) :: r => if String.eqb p k then Some v else assoc_file p r end.

Fixpoint assoc_data (pkg p : string) (l : list ((string * string) * list raw_stmt)) : option (list raw_stmt) :=
  match l with
  | [] => None
  | ((k1, k2), v) :: r => if String.eqb pkg k1 && String.eqb p k2 then Some v else assoc_data pkg p r
  end.

(* open(path).read() followed by _parse_grammar *)
Definition read_file (e : env) (p : string) : option (list raw_stmt) := assoc_file (canon (e_cwd e) p) (e_files e).
(* pkgutil.get_data(pkg, path) *)
Definition read_data (e : env) (pkg p : string) : option (list raw_stmt) := assoc_data pkg (collapse p) (e_data e).

(* _unpack_import: the base path of an import statement of the grammar called `name` *)
Definition base_of (e : env) (name : gname) (rel : bool) : base :=
  if negb rel then BNone
  else match name with
       | GRes pkg p => BRes pkg (dirname p)
       | GName s =>
           if String.eqb s "<string>" then
             match e_main e with
             | Some f => BDir (dirname f)
             | None => BDir (e_cwd e)
             end
           else BDir (dirname s)
       end.

(* os.path.join of the names of dotted_path, + EXT *)
Definition grammar_path (p : list string) : string := join "/" p ++ EXT.

(* one element of to_try: an import path, or the base path itself *)
Inductive candidate :=
| CSrc (s : source)
| CBase (b : base).

Inductive attempt :=
| Found (name : gname) (content : list raw_stmt)
| Skip                      (* IOError: continue *)
| Crash.                    (* os.path.join(PackageResource, ...): TypeError *)

(* FromPackageLoader.__call__(base_path, grammar_path) *)
Fixpoint try_pkg (e : env) (pkg : string) (dirs : list string) (gp : string) : attempt :=
  match dirs with
  | [] => Skip
  | d :: r =>
      let full := path_join d gp in
      match read_data e pkg full with
      | Some c => Found (GRes pkg full) c
      | None => try_pkg e pkg r gp
      end
  end.

Definition call_loader (e : env) (pkg : string) (search : list string) (b : base) (gp : string) : attempt :=
  match b with
  | BNone => try_pkg e pkg search gp
  | BRes pkg' d => if String.eqb pkg' pkg then try_pkg e pkg [d] gp else Skip
  | BDir _ => Skip
  end.

Definition try_dir (e : env) (d gp : string) : attempt :=
  let j := path_join d gp in
  match read_file e j with Some c => Found (GName j) c | None => Skip end.

Definition try_candidate (e : env) (b : base) (gp : string) (c : candidate) : attempt :=
  match c with
  | CSrc (SrcDir d) => try_dir e d gp
  | CSrc (SrcPkg pkg search) => call_loader e pkg search b gp
  | CBase (BDir d) => try_dir e d gp
  | CBase (BRes _ _) => Crash
  | CBase BNone => Skip
  end.

(* to_try = self.import_paths + ([base_path] if base_path is not None else []) + [stdlib_loader] *)
Definition to_try (e : env) (b : base) : list candidate :=
  (map CSrc (e_paths e) ++ (match b with BNone => [] | _ => [CBase b] end) ++ [CSrc (e_std e)])%list.

Fixpoint first_found (e : env) (b : base) (gp : string) (cs : list candidate) : attempt :=
  match cs with
  | [] => Skip
  | c :: r =>
      match try_candidate e b gp c with
      | Skip => first_found e b gp r
      | a => a
      end
  end.

(* the for ... else of do_import: which file (and under which name) the dotted path denotes *)
Definition resolve (e : env) (b : base) (p : list string) : result (gname * list raw_stmt) :=
  let gp := grammar_path p in
  match first_found e b gp (to_try e b) with
  | Found n c => Ok (n, c)
  | Crash => Err ESourceType
  | Skip =>
      (* open(grammar_path): FileNotFoundError, unless the file is in the current directory: assert False *)
      match read_file e gp with Some _ => Err EFoundElsewhere | None => Err ENoModule end
  end.

(* ------------------------------------------------------------------ load_grammar with the search *)
(* fuel bounds the import nesting depth.  do_import of Mod/Modules.v is used as it stands: its table
   holds the one module the search found, its loader loads that file under its own name *)
Fixpoint load_fs (fuel : nat) (e : env) (gkeep : bool) (ls : list layer) (name : gname) (rs : list raw_stmt)
         (b : builder) : result builder :=
  match fuel with
  | O => Err EFuel
  | S f =>
      imps <- collect_imports_b base_eqb (base_of e name) rs ;;
      b1 <- fold_left
              (fun acc imp =>
                 b' <- acc ;;
                 let '(p, (bs, al)) := imp in
                 nc <- resolve e bs p ;;
                 do_import (fun next ls' _ => load_fs f e gkeep ls' (fst nc) (snd nc) (fresh_builder next))
                           [(p, [])] ls b' (p, al))
              imps (Ok b) ;;
      b2 <- apply_raws gkeep ls rs b1 ;;
      h <- resolve_heap (b_defs b2) (b_heap b2) ;;
      Ok (mkB (b_defs b2) (b_ignore b2) h (b_next b2))
  end.

Definition load_fs_and_validate (fuel : nat) (e : env) (gkeep : bool) (name : gname) (main : list raw_stmt)
  : result builder :=
  b <- load_fs fuel e gkeep [] name main empty_builder ;;
  _ <- validate b ;;
  Ok b.

(* used_files after a successful load: the names of the files read, in order of first use *)
Definition gname_eqb (a b : gname) : bool :=
  match a, b with
  | GName s, GName s' => String.eqb s s'
  | GRes p s, GRes p' s' => String.eqb p p' && String.eqb s s'
  | _, _ => false
  end.

Fixpoint add_used (n : gname) (l : list gname) : list gname :=
  match l with
  | [] => [n]
  | x :: r => if gname_eqb n x then l else x :: add_used n r
  end.

Fixpoint used_files (fuel : nat) (e : env) (name : gname) (rs : list raw_stmt) (acc : list gname) : list gname :=
  match fuel with
  | O => acc
  | S f =>
      match collect_imports_b base_eqb (base_of e name) rs with
      | Err _ => acc
      | Ok imps =>
          fold_left (fun acc imp =>
                       let '(p, (bs, _)) := imp in
                       match resolve e bs p with
                       | Ok (n, c) => used_files f e n c (add_used n acc)
                       | Err _ => acc
                       end) imps acc
      end
  end.

(* ------------------------------------------------------------------ the by-dotted-path view *)
(* a table `fs` of Modules.module_files describes the file system along the imports of a grammar when
   every dotted path reached denotes - wherever it is imported from - the file whose statements fs gives *)
Fixpoint coherent (fuel : nat) (e : env) (fs : module_files) (name : gname) (rs : list raw_stmt) : Prop :=
  match fuel with
  | O => True
  | S f =>
      exists imps ss, collect_imports_b base_eqb (base_of e name) rs = Ok imps /\
        unpack_stmts rs = Ok ss /\
        Forall (fun imp : import_entry base =>
                  exists n c ss', resolve e (fst (snd imp)) (fst imp) = Ok (n, c) /\
                    unpack_stmts c = Ok ss' /\ lookup_module (fst imp) fs = Some ss' /\
                    coherent f e fs n c) imps
  end.
