(* C17 - the statement level of GrammarBuilder.load_grammar: the statement trees as _parse_grammar
   returns them (raw_stmt: 'rule' / 'term' / 'override' / 'extend' / 'ignore' / 'declare' / 'import'
   with the children lark's .lark parser produced), _make_rule_tuple, the terminal branch of
   _unpack_definition, _unpack_import (Mod/Unpack.v) and the dispatch loop of load_grammar.
   (The mangling half of _unpack_definition is Modules.mangle_def.)  Definitions only. *)
From Coq Require Import List String Ascii Bool ZArith.
From LV Require Import Mod.Modules Mod.Unpack.
Import ListNotations.
Local Open Scope string_scope.

(* Tree('rule', [rule_modifiers, RULE, template_params, priority, expansions])
   Tree('term', [TERMINAL, (NUMBER,) expansions]) *)
Inductive raw_def :=
| RawRule (mods : option string)          (* children of rule_modifiers: none or the RULE_MODIFIERS token *)
          (name : string) (params : list string)
          (prio : option Z)               (* children of priority: none or int(NUMBER) *)
          (exp : tree)
| RawTerm (name : string) (prio : option Z) (exp : tree).

Inductive raw_stmt :=
| RDefine (d : raw_def)
| ROverride (d : raw_def)
| RExtend (d : raw_def)
| RIgnore (t : tree)
| RDeclare (syms : list (bool * string))                           (* (is Terminal, name) *)
| RImport (rel : bool) (path : list string) (arg : import_arg).    (* import_rel / import_lib, names of the path node *)

(* stmt.data / the label of the definition tree below %override, %extend *)
Definition def_data (d : raw_def) : string :=
  match d with RawRule _ _ _ _ _ => "rule" | RawTerm _ _ _ => "term" end.

Definition stmt_data (r : raw_stmt) : string :=
  match r with
  | RDefine d => def_data d
  | ROverride _ => "override"
  | RExtend _ => "extend"
  | RIgnore _ => "ignore"
  | RDeclare _ => "declare"
  | RImport _ _ _ => "import"
  end.

Fixpoint has_chr (c : ascii) (s : string) : bool :=
  match s with EmptyString => false | String c' r => Ascii.eqb c c' || has_chr c r end.

(* grammar.TOKEN_DEFAULT_PRIORITY *)
Definition TOKEN_DEFAULT_PRIORITY : Z := 0%Z.

(* _make_rule_tuple *)
Definition make_rule_tuple (mods : option string) (name : string) (params : list string) (prio : option Z)
           (exp : tree) : result defn :=
  let expand1 := match mods with Some m => has_chr "?" m | None => false end in
  let keep := match mods with Some m => has_chr "!" m | None => false end in
  if expand1 && String.prefix "_" name then Err EInlineExpand1
  else Ok (mkDef name false (Some exp) params
                 (ORule keep expand1 prio (match params with [] => None | _ => Some name end))).

(* _unpack_definition before mangling: (name, is_term, exp, params, opts) *)
Definition unpack_def (d : raw_def) : result defn :=
  match d with
  | RawRule mods name params prio exp => make_rule_tuple mods name params prio exp
  | RawTerm name prio exp =>
      Ok (mkDef name true (Some exp) []
                (OTerm (match prio with Some p => p | None => TOKEN_DEFAULT_PRIORITY end)))
  end.

(* the second loop of load_grammar for one statement: unpack, then the builder operation *)
Definition apply_raw (gkeep : bool) (ls : list layer) (r : raw_stmt) (b : builder) : result builder :=
  match r with
  | RDefine d => d' <- unpack_def d ;; apply_stmt gkeep ls (SDef KDefine d') b
  | ROverride d => d' <- unpack_def d ;; apply_stmt gkeep ls (SDef KOverride d') b
  | RExtend d => d' <- unpack_def d ;; apply_stmt gkeep ls (SDef KExtend d') b
  | RIgnore t => apply_stmt gkeep ls (SIgnore t) b
  | RDeclare sy => apply_stmt gkeep ls (SDeclare sy) b
  | RImport _ _ _ => Ok b
  end.

Definition apply_raws (gkeep : bool) (ls : list layer) (rs : list raw_stmt) (b : builder) : result builder :=
  fold_left (fun acc r => b' <- acc ;; apply_raw gkeep ls r b') rs (Ok b).

(* the same statements as Modules.stmt (what the by-dotted-path model Modules.load starts from) *)
Definition unpack_stmt (r : raw_stmt) : result stmt :=
  match r with
  | RDefine d => d' <- unpack_def d ;; Ok (SDef KDefine d')
  | ROverride d => d' <- unpack_def d ;; Ok (SDef KOverride d')
  | RExtend d => d' <- unpack_def d ;; Ok (SDef KExtend d')
  | RIgnore t => Ok (SIgnore t)
  | RDeclare sy => Ok (SDeclare sy)
  | RImport _ path arg =>
      match unpack_import path arg with
      | Some (p, al) => Ok (SImport p al)
      | None => Err ENothingImported
      end
  end.

Definition unpack_stmts (rs : list raw_stmt) : result (list stmt) := map_result unpack_stmt rs.

(* ---- the first loop of load_grammar: imports[dotted_path] = (base_path, aliases) ----------------------
   `B` is the type of base paths; base_of tells the base path of an import statement (it depends only on
   import_lib / import_rel and on the name of the grammar being loaded) *)
Section Imports.
  Variable B : Type.
  Variable B_eqb : B -> B -> bool.

  Definition import_entry := (list string * (B * list (string * string)))%type.

  (* try: import_base_path, import_aliases = imports[dotted_path]; assert base_path == import_base_path;
          import_aliases.update(aliases)
     except KeyError: imports[dotted_path] = base_path, aliases *)
  Fixpoint add_import_b (p : list string) (base : B) (al : list (string * string)) (imps : list import_entry)
    : result (list import_entry) :=
    match imps with
    | [] => Ok [(p, (base, al))]
    | (q, (base', al')) :: r =>
        if list_eqb p q then
          if B_eqb base base' then Ok ((q, (base', dict_update al' al)) :: r) else Err EBasePath
        else r' <- add_import_b p base al r ;; Ok ((q, (base', al')) :: r')
    end.

  Definition collect_imports_b (base_of : bool -> B) (rs : list raw_stmt) : result (list import_entry) :=
    fold_left (fun acc r =>
                 imps <- acc ;;
                 match r with
                 | RImport rel path arg =>
                     match unpack_import path arg with
                     | None => Err ENothingImported
                     | Some (p, al) => add_import_b p (base_of rel) al imps
                     end
                 | _ => Ok imps
                 end) rs (Ok []).
End Imports.
Arguments add_import_b {B}.
Arguments collect_imports_b {B}.
