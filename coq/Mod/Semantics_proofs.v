(* C17 - semantic reading of import = inlining on the BNF-like fragment: the grammar contributed by an
   import is the renaming of the module's own grammar, hence same language and same derivation trees
   (Mod/Rename_proofs.v); and inside any importing grammar that does not redefine the imported names the
   imported names keep exactly that language. *)
From Coq Require Import List String Ascii Bool Arith Lia.
From LV Require Import Cfg.Grammar Mod.Rename Mod.Rename_proofs Mod.Modules Mod.Modules_proofs
  Mod.Inline_proofs Mod.Compile.
Import ListNotations.
Local Open Scope string_scope.

Lemma mapM_map {A B C} (f : B -> option C) (g : A -> B) l : mapM f (map g l) = mapM (fun x => f (g x)) l.
Proof. induction l as [|x r IH]; simpl; auto. now rewrite IH. Qed.

Lemma mapM_ext_in {A B} (f g : A -> option B) l : (forall x, In x l -> f x = g x) -> mapM f l = mapM g l.
Proof.
  induction l as [|x r IH]; simpl; auto. intros H. rewrite (H x) by auto. rewrite IH; auto.
Qed.

Lemma mapM_option_map {A B C} (f : A -> option B) (h : B -> C) l :
  mapM (fun x => option_map h (f x)) l = option_map (map h) (mapM f l).
Proof.
  induction l as [|x r IH]; simpl; auto. rewrite IH.
  destruct (f x); simpl; auto. destruct (mapM f r); reflexivity.
Qed.

Lemma mapM_In {A B} (f : A -> option B) l l' y :
  mapM f l = Some l' -> In y l' -> exists x, In x l /\ f x = Some y.
Proof.
  revert l'. induction l as [|x r IH]; simpl; intros l' H Hy.
  - inversion H; subst. destruct Hy.
  - destruct (f x) as [y0|] eqn:E; [|discriminate]. destruct (mapM f r) as [ys|]; [|discriminate].
    inversion H; subst. destruct Hy as [<-|Hy]; eauto.
    destruct (IH ys eq_refl Hy) as (x0 & ? & ?). eauto.
Qed.

Section Semantics.
  Variable num : string -> nat.
  Variable unnum : nat -> string.
  Hypothesis unnum_num : forall s, unnum (num s) = s.
  Variable rho : string -> string.
  Hypothesis Hinj : forall x y, rho x = rho y -> x = y.
  (* the lexer gives the renamed terminal the token class of the original one (its definition is the
     same pattern under another name) *)
  Variables tnum tnum' : string -> nat.
  Hypothesis Htnum : forall x, tnum' (rho x) = tnum x.

  Definition rho' (n : nat) : nat := num (rho (unnum n)).
  Definition names (n : nat) : Prop := exists s, n = num s.

  Lemma num_inj x y : num x = num y -> x = y.
  Proof. intros H. apply (f_equal unnum) in H. now rewrite !unnum_num in H. Qed.

  Lemma rho'_num x : rho' (num x) = num (rho x).
  Proof. unfold rho'. now rewrite unnum_num. Qed.

  Lemma rho'_inj : inj_on names rho'.
  Proof.
    intros a b (x & ->) (y & ->). rewrite !rho'_num. intros H. apply num_inj in H. apply Hinj in H. now subst.
  Qed.

  Lemma sym_of_rn t :
    sym_of num tnum' (rename_tree rho t) = option_map (rename_sym rho') (sym_of num tnum t).
  Proof.
    destruct t as [d ch|b n|v|o]; simpl; auto.
    destruct ch as [|[dd cc|b n|v|o] [|c2 r2]]; simpl; auto.
    destruct (String.eqb d "value"); simpl; auto.
    destruct b; simpl. now rewrite Htnum. now rewrite rho'_num.
  Qed.

  Lemma alt_of_rn t :
    alt_of num tnum' (rename_tree rho t) = option_map (map (rename_sym rho')) (alt_of num tnum t).
  Proof.
    destruct t as [d ch|b n|v|o]; simpl; auto.
    destruct (String.eqb d "expansion"); simpl; auto.
    rewrite mapM_map. rewrite <- mapM_option_map. apply mapM_ext_in. intros x _. apply sym_of_rn.
  Qed.

  Lemma rules_of_rn d :
    rules_of num tnum' (rn_def rho d) = option_map (map (rename_rule rho')) (rules_of num tnum d).
  Proof.
    unfold rules_of. simpl. destruct (d_term d); simpl; auto.
    destruct (d_params d) as [|p ps]; simpl; auto.
    destruct (d_tree d) as [[dd alts|b n|v|o]|]; simpl; auto.
    destruct (String.eqb dd "expansions"); simpl; auto.
    rewrite mapM_map.
    rewrite (mapM_ext_in _ (fun x => option_map (map (rename_sym rho')) (alt_of num tnum x)))
      by (intros x _; apply alt_of_rn).
    rewrite mapM_option_map. destruct (mapM (alt_of num tnum) alts) as [as_|]; simpl; auto.
    f_equal. rewrite !map_map. apply map_ext. intros a. unfold rename_rule. simpl. now rewrite rho'_num.
  Qed.

  (* the renamed definitions compile to the renamed grammar *)
  Theorem compile_rn l :
    compile num tnum' (map (rn_def rho) l) = option_map (rename_grammar rho') (compile num tnum l).
  Proof.
    unfold compile. rewrite mapM_map.
    rewrite (mapM_ext_in _ (fun d => option_map (map (rename_rule rho')) (rules_of num tnum d)))
      by (intros x _; apply rules_of_rn).
    rewrite mapM_option_map. destruct (mapM (rules_of num tnum) l) as [rs|]; simpl; auto.
    f_equal. unfold rename_grammar. now rewrite List.concat_map.
  Qed.

  (* every non-terminal of a compiled grammar is the number of a name *)
  Lemma sym_of_names t s : sym_of num tnum t = Some s -> forall a, In a (nts [s]) -> names a.
  Proof.
    destruct t as [d ch|b n|v|o]; simpl; try discriminate.
    destruct ch as [|[dd cc|b n|v|o] [|c2 r2]]; try discriminate.
    destruct (String.eqb d "value"); [|discriminate]. intros H; inversion H; subst.
    destruct b; simpl; intros a []; subst. now exists n. tauto.
  Qed.

  Lemma alt_of_names t ss : alt_of num tnum t = Some ss -> forall a, In a (nts ss) -> names a.
  Proof.
    destruct t as [d ch|b n|v|o]; simpl; try discriminate.
    destruct (String.eqb d "expansion"); [|discriminate].
    revert ss. induction ch as [|c ch IH]; simpl; intros ss H a Ha.
    - inversion H; subst. destruct Ha.
    - destruct (sym_of num tnum c) as [s|] eqn:Es; [|discriminate].
      destruct (mapM (sym_of num tnum) ch) as [ss'|]; [|discriminate]. inversion H; subst.
      change (s :: ss') with ([s] ++ ss')%list in Ha. rewrite nts_app in Ha. apply in_app_or in Ha.
      destruct Ha as [Ha|Ha]; [eapply sym_of_names; eauto | eapply (IH ss' eq_refl); eauto].
  Qed.

  Lemma compile_names l G : compile num tnum l = Some G -> forall a, In a (grammar_nts G) -> names a.
  Proof.
    unfold compile. destruct (mapM (rules_of num tnum) l) as [rs|] eqn:E; simpl; [|discriminate].
    intros H a Ha; inversion H; subst; clear H.
    unfold grammar_nts in Ha. apply in_flat_map in Ha. destruct Ha as (r & Hr & Ha).
    apply List.in_concat in Hr. destruct Hr as (rl & Hrl & Hr).
    destruct (mapM_In _ _ _ _ E Hrl) as (d & _ & Hd).
    unfold rules_of in Hd. destruct (d_term d). { inversion Hd; subst. destruct Hr. }
    destruct (d_params d); [|discriminate]. destruct (d_tree d) as [[dd alts|?|?|?]|]; try discriminate.
    destruct (String.eqb dd "expansions"); [|discriminate].
    destruct (mapM (alt_of num tnum) alts) as [as_|] eqn:Ea; [|discriminate]. inversion Hd; subst; clear Hd.
    apply in_map_iff in Hr. destruct Hr as (ss & <- & Hss). simpl in Ha.
    destruct Ha as [<-|Ha]. now exists (d_name d).
    destruct (mapM_In _ _ _ _ Ea Hss) as (t & _ & Ht). eapply alt_of_names; eauto.
  Qed.

  (* ---- the grammar contributed by an import is the module's own grammar, renamed: same language,
          same derivation trees *)
  Section Language.
    Variable tok : Type.
    Variable tmatch : nat -> tok -> bool.

    Theorem contributed_language kept0 G0 :
      compile num tnum kept0 = Some G0 ->
      exists Gc, compile num tnum' (map (rn_def rho) kept0) = Some Gc /\ Gc = rename_grammar rho' G0 /\
        forall X w, sentence Gc tok tmatch (num (rho X)) w <-> sentence G0 tok tmatch (num X) w.
    Proof.
      intros H. exists (rename_grammar rho' G0). rewrite compile_rn, H. simpl. repeat split; auto.
      - rewrite <- rho'_num.
        apply (sentence_rename G0 tok tmatch rho' names rho'_inj (compile_names _ _ H)). now exists X.
      - rewrite <- rho'_num.
        apply (sentence_rename G0 tok tmatch rho' names rho'_inj (compile_names _ _ H)). now exists X.
    Qed.

    Theorem contributed_trees kept0 G0 X :
      compile num tnum kept0 = Some G0 ->
      (forall t, tree_of G0 tok tmatch (NT (num X)) t ->
                 tree_of (rename_grammar rho' G0) tok tmatch (NT (num (rho X))) (rename_dtree rho' t) /\
                 yield (rename_dtree rho' t) = yield t) /\
      (forall t', tree_of (rename_grammar rho' G0) tok tmatch (NT (num (rho X))) t' ->
                  exists t, tree_of G0 tok tmatch (NT (num X)) t /\ t' = rename_dtree rho' t /\ yield t' = yield t).
    Proof.
      intros H. rewrite <- rho'_num.
      apply (trees_rename G0 tok tmatch rho' names rho'_inj (compile_names _ _ H)). now exists X.
    Qed.

    (* ---- a closed sub-grammar keeps its language inside any grammar that does not add rules for
            its non-terminals *)
    Lemma derives_incl G G' ss w :
      incl G G' -> derives G tok tmatch ss w -> derives G' tok tmatch ss w.
    Proof. intros Hi. induction 1; econstructor; eauto. Qed.

    Lemma derives_closed_sub G Gc :
      incl Gc G ->
      (forall r, In r G -> In (lhs r) (map lhs Gc) -> In r Gc) ->
      (forall r a, In r Gc -> In a (nts (rhs r)) -> In a (map lhs Gc)) ->
      forall ss w, derives G tok tmatch ss w -> (forall a, In a (nts ss) -> In a (map lhs Gc)) ->
                   derives Gc tok tmatch ss w.
    Proof.
      intros Hincl Honly Hclosed. induction 1 as [|t k ss w Hm Hd IH|a r ss w1 w2 Hin Hl Hd1 IH1 Hd2 IH2]; intros HC.
      - constructor.
      - constructor; auto.
      - assert (Hr : In r Gc). { apply Honly; auto. rewrite Hl. apply HC. simpl. now left. }
        apply d_nt with (r := r); auto.
        + apply IH1. intros b Hb. eapply Hclosed; eauto.
        + apply IH2. intros b Hb. apply HC. simpl. now right.
    Qed.

    (* the semantic corollary: inside an importing grammar G that contains the contributed rules and has
       no other rule for the contributed names (no later %extend/%override of them), an imported name
       rho X has exactly the language X has in the module's own (closed) grammar G0 *)
    Theorem imported_language kept0 G0 G :
      compile num tnum kept0 = Some G0 ->
      (forall r a, In r G0 -> In a (nts (rhs r)) -> In a (map lhs G0)) ->
      let Gc := rename_grammar rho' G0 in
      incl Gc G ->
      (forall r, In r G -> In (lhs r) (map lhs Gc) -> In r Gc) ->
      forall X w, In (num X) (map lhs G0) ->
        (sentence G tok tmatch (num (rho X)) w <-> sentence G0 tok tmatch (num X) w).
    Proof.
      intros Hc Hclosed Gc Hincl Honly X w HX.
      assert (Hcl' : forall r a, In r Gc -> In a (nts (rhs r)) -> In a (map lhs Gc)).
      { intros r a Hr Ha. unfold Gc, rename_grammar in Hr. apply in_map_iff in Hr.
        destruct Hr as (r0 & <- & Hr0). simpl in Ha.
        assert (Hn : forall ss, nts (map (rename_sym rho') ss) = map rho' (nts ss)).
        { induction ss as [|[t|x] ss IHs]; simpl; auto. now rewrite IHs. }
        rewrite Hn in Ha. apply in_map_iff in Ha. destruct Ha as (a0 & <- & Ha0).
        specialize (Hclosed _ _ Hr0 Ha0). apply in_map_iff in Hclosed. destruct Hclosed as (r1 & <- & Hr1).
        apply in_map_iff. exists (rename_rule rho' r1). split; auto. unfold Gc, rename_grammar. now apply in_map. }
      assert (HXc : In (num (rho X)) (map lhs Gc)).
      { apply in_map_iff in HX. destruct HX as (r & Hr & Hin). apply in_map_iff.
        exists (rename_rule rho' r). split. simpl. now rewrite Hr, rho'_num. unfold Gc, rename_grammar. now apply in_map. }
      destruct (contributed_language kept0 G0 Hc) as (Gc' & _ & -> & Hlang). fold Gc in Hlang.
      rewrite <- Hlang. unfold sentence. split.
      - intros H. eapply derives_closed_sub; eauto. simpl. intros a [<-|[]]. exact HXc.
      - apply derives_incl. exact Hincl.
    Qed.
  End Language.
End Semantics.

(* numberings of names exist *)
Lemma unnum_fuel_num s : forall fuel, num_of s <= fuel -> unnum_fuel fuel (num_of s) = s.
Proof.
  induction s as [|c r IH]; intros fuel H.
  - destruct fuel; reflexivity.
  - cbn [num_of] in *. destruct fuel as [|f]; [lia|]. cbn [unnum_fuel].
    pose proof (Ascii.nat_ascii_bounded c) as Hb.
    rewrite Nat.mod_add by lia. rewrite Nat.mod_small by lia.
    rewrite Nat.div_add by lia. rewrite Nat.div_small by lia. simpl plus.
    rewrite Ascii.ascii_nat_embedding. f_equal. apply IH. lia.
Qed.

Theorem numbering_exists : forall s, unnum_of (num_of s) = s.
Proof. intros s. apply unnum_fuel_num. lia. Qed.
