(* C13 - Interactive parser: forks independent, accepts() exact, resume equals parse.
   Property theorems only: each is closed by [exact] of a lemma proved in Inter/IDriver_proofs.v about the
   model Inter/Heap.v + Inter/IDriver.v: heap form of the LALR value stack over an abstract parse table,
   with the child lists, the Meta objects (PropagatePositions = Pos.MetaSpan.propagate written in place)
   and the lexer threads as heap cells.  The copy defaults and the two repaired copy shapes (F25, F26)
   are regenerated / pinned from the source (Gen/InterHoles.v -> ICheck.impl_now). *)
From Coq Require Import List Arith Bool ZArith.
From LV Require Pos.MetaSpan.
From LV Require Import Inter.Heap Inter.IDriver Inter.Heap_proofs Inter.IDriver_proofs Inter.ICheck Gen.InterHoles.
From LV Require Import Gen.LalrHoles LR.DriverGen Inter.IGen Inter.IGen_proofs.
Import ListNotations.

(* Feeding the tokens one at a time through InteractiveParser.feed_token and then feed_eof() is
   _Parser.parse_from_state on the same tokens (same heap, stacks and outcome), from any state. *)
Theorem C13_feed_eq_parse k T E toks H ss vs :
  Forall (fun t => fst t <> END) toks ->
  hfeed_all k T E H ss vs toks = hparse_from k T E H ss vs toks.
Proof. exact (feed_eq_parse k T E toks H ss vs). Qed.
Print Assumptions C13_feed_eq_parse.

(* After any sequence of feed_token / one step of iter_parse / copy / as_immutable / as_mutable / immutable
   feed_token / accepts / resume_parse on any of the parsers created so far, in which explicit copies are
   deep and implicit ones use the code as the translator found it (impl_now):
   (1) every observation (outcomes, state stacks, accepts sets) is the one made on immutable trees;
   (2) no two parsers reach a common child list, Meta object or lexer thread (wowns = pairwise disjoint
       footprints, no sharing);
   (3) the stacks of parser j read off the heap - trees with all their metas - and the position of its
       lexer thread (which is also the one resume_parse() reads) are those of a fresh parser that went
       through j's own history (lineages os), whatever was done to the other forks in between. *)
Theorem C13_fork_separation k T E input os :
  Forall all_deep os ->
  let w := fst (wrun impl_now k T E input (world0 T) os) in
  snd (wrun impl_now k T E input (world0 T) os) = snd (prun k T E input (pworld0 T) os) /\
  exists pps F,
    wowns (w_heap w) pps (w_ps w) F /\
    forall j p, nth_error (w_ps w) j = Some p ->
      exists h, nth_error (lineages os) j = Some h /\
                p_imm p = fst h /\ p_sl p = p_lt p /\
                (p_ss p, read_stack (w_heap w) p, lget (w_heap w) (p_lt p)) = preplay k T E input (snd h).
Proof. exact (fork_separation k T E input os). Qed.
Print Assumptions C13_fork_separation.

(* ... and a history "tokens, then $END" whose parse succeeds ends with the stacks (the top of the value
   stack is the result, metas included) of Lark.parse on those tokens. *)
Theorem C13_fork_result_eq_parse k T E input toks ss ts :
  Forall (fun t => fst t <> END) toks ->
  pparse k T E toks = (ss, ts, KResult) ->
  preplay k T E input (map (fun t => EFeed (fst t) (snd t)) toks ++ [EFeed END 0]) = (ss, ts, 0).
Proof. exact (fork_result_eq_parse k T E input toks ss ts). Qed.
Print Assumptions C13_fork_result_eq_parse.

(* A feed with callbacks = {} writes no existing list, Meta or lexer object: the heap afterwards is the
   old heap plus new cells. *)
Theorem C13_trial_feed_pure k T H ss vs ty id e :
  exists ext, rH (hfeed k T env_none H ss vs ty id e) = H ++ ext.
Proof. exact (trial_feed_pure k T H ss vs ty id e). Qed.
Print Assumptions C13_trial_feed_pure.

(* t is in accepts() exactly when feeding a token of type t to a deep copy of the parser, with the real
   callbacks, does not raise. *)
Theorem C13_accepts_exact k T E H p ts f t id :
  table_wf T -> owns H ts (p_vs p) f ->
  let c := copy_parser impl_now true H p in
  In t (snd (accepts_loop impl_now k T H p (choices T p))) <->
  kind_ok (rkd (hifeed k T E (fst c) (p_ss (snd c)) (p_vs (snd c)) t id)) = true.
Proof. exact (accepts_exact k T E H p ts f t id). Qed.
Print Assumptions C13_accepts_exact.

(* the hypothesis on the table holds for every table given as data (the form the harness exports) *)
Theorem C13_accepts_exact_table acts gotos rules s0 e0 : table_wf (mk_table acts gotos rules s0 e0).
Proof. exact (mk_table_wf acts gotos rules s0 e0). Qed.
Print Assumptions C13_accepts_exact_table.

(* parse() stops at the unexpected token with the state st_e it reached (reductions done under that
   look-ahead included); resume_parse() from st_e on the rest is the token-by-token feed of the rest
   followed by $END from st_e. *)
Theorem C13_resume_eq_parse_rest k T E pre bad rest H ss vs H1 ss1 vs1 He sse vse :
  Forall (fun t => fst t <> END) rest ->
  hfeeds k T E H ss vs pre = (H1, ss1, vs1, KShift) ->
  hfeed k T E H1 ss1 vs1 (fst bad) (snd bad) false = (He, sse, vse, KError) ->
  hparse_from k T E H ss vs (pre ++ bad :: rest) = (He, sse, vse, KError) /\
  hparse_from k T E He sse vse rest = hfeed_all k T E He sse vse rest.
Proof. exact (resume_eq_parse_rest k T E pre bad rest H ss vs H1 ss1 vs1 He sse vse). Qed.
Print Assumptions C13_resume_eq_parse_rest.

(* resume_parse() on any fork, at any point of any fork tree: it reads the fork's own lexer, from the
   fork's own position, and is parse_from_state of what is left there, from the stacks of the fork's
   own history. *)
Theorem C13_resume_on_fork k T E input os j p h :
  Forall all_deep os ->
  let w := fst (wrun impl_now k T E input (world0 T) os) in
  nth_error (w_ps w) j = Some p -> nth_error (lineages os) j = Some h ->
  let '(ss, ts, pos) := preplay k T E input (snd h) in
  snd (wstep impl_now k T E input w (OResume j)) =
  ObsFeed j (qkd (pparse_from k T E ss ts (skipn pos input))) (qss (pparse_from k T E ss ts (skipn pos input))).
Proof. exact (fork_resume k T E input os j p h). Qed.
Print Assumptions C13_resume_on_fork.

(* The code as read from the source: copies deep by default, Tree.__deepcopy__ copies the Meta, copy()
   rebinds parser_state.lexer; so every operation list that never passes deepcopy_values=False
   explicitly satisfies the hypothesis of C13_fork_separation. *)
Definition uses_default (o : op) : Prop :=
  match o with OCopy _ d => d = InterHoles.interactive_copy_default \/ d = true | _ => True end.
Theorem C13_default_copies_are_deep :
  impl_now = impl_fixed /\ InterHoles.parser_state_copy_default = true /\
  forall os, Forall uses_default os -> Forall all_deep os.
Proof.
  split; [reflexivity|]. split; [reflexivity|].
  intros os h. induction h as [|o os ho _ IH]; constructor; auto.
  destruct o as [| | i [|] | | | |]; simpl in *; auto. destruct ho; discriminate.
Qed.
Print Assumptions C13_default_copies_are_deep.

(* ---- Round 12: tie by regeneration.  translator/gen_lalr.py pins the skeletons of ParserState.feed_token / copy,
   InteractiveParser.feed_token / copy / accepts / iter_parse / exhaust_lexer / feed_eof / resume_parse / __eq__,
   ImmutableInteractiveParser (all four methods, and that it defines no others), LexerThread.__copy__ and
   LexerState.__copy__, and regenerates what the model decides with: every condition and slice bound of feed_token,
   the is_end flag, and per constructor argument of each copy whether it is shared, copied or deep-copied
   (Gen/LalrHoles.v).  Inter/IGen.v is the skeleton over these regenerated terms. *)

(* the control of feed_token (state stack, outcome) of the model is the regenerated control on every table that
   never shifts a terminal into the end state - checked by no_end_shift_b on every table lark builds in the streams *)
Theorem C13_feed_control_regenerated T k ss ty is_end :
  no_end_shift T ->
  gcfeed k T (rev ss) ty is_end = (rev (fst (cfeed k T ss ty is_end)), snd (cfeed k T ss ty is_end)).
Proof. exact (fun NE => gcfeed_eq_cfeed T NE k ss ty is_end). Qed.
Print Assumptions C13_feed_control_regenerated.

Theorem C13_feed_control_regenerated_table acts gotos rules s0 e0 :
  no_end_shift_b acts e0 = true -> no_end_shift (mk_table acts gotos rules s0 e0).
Proof. exact (no_end_shift_b_sound acts gotos rules s0 e0). Qed.
Print Assumptions C13_feed_control_regenerated_table.

(* the values handed to the callback and the values left (lastn / droplast in hfeed and pfeed) are the regenerated
   slices value_stack[-size:] / del value_stack[-size:] under the regenerated `if size:` guard; the is_end flag of
   InteractiveParser.feed_token (hifeed / pifeed: ty =? END) is the regenerated comparison *)
Theorem C13_value_slices_regenerated (is_end : bool) (n e : nat) (vs : list value) (ty : nat) :
  gvalues_popped is_end n e vs = lastn n vs /\ gvalues_left is_end n e vs = droplast n vs /\
  ip_feed_is_end (Z.of_nat ty) (Z.of_nat END) = (ty =? END).
Proof. exact (conj (gvalues_popped_eq is_end n e vs) (conj (gvalues_left_eq is_end n e vs) (ip_is_end_eq ty))). Qed.
Print Assumptions C13_value_slices_regenerated.

(* InteractiveParser.copy assembled from the regenerated field descriptors is the model's copy_parser; no copy shares
   its state stack, its value-stack list or its lexer position with the original; deepcopy_values=True is a deepcopy
   of the value stack; both translators read the same defaults; accepts() uses shallow trial cursors *)
Theorem C13_copy_regenerated deep H p :
  gcopy_parser (im_meta impl_now) deep H p = Some (copy_parser impl_now deep H p) /\
  (forall d, fresh (ps_copy_state_stack d) = true) /\ (forall d, fresh (ps_copy_value_stack d) = true) /\
  ps_copy_value_stack true = Deep /\ ps_copy_value_stack false = Shallow /\
  fresh ip_copy_lexer_thread = true /\ fresh lt_copy_state = true /\ fresh ls_copy_line_ctr = true /\
  ip_copy_default = interactive_copy_default /\ ip_accepts_trial_deep = false /\ im_deep impl_now = ip_copy_default.
Proof.
  exact (conj (gcopy_eq_copy deep H p)
    (match copy_shape with
     | conj a (conj b (conj c (conj d (conj e (conj f (conj g _)))))) =>
       conj a (conj b (conj c (conj d (conj e (conj f (conj g
         (match copy_defaults_agree with
          | conj u (conj _ (conj _ (conj x y))) => conj u (conj x y)
          end)))))))
     end)).
Qed.
Print Assumptions C13_copy_regenerated.

(* ---------------------------------------------------------------------------------------------------
   Why the default must be deep.  lark's table and callbacks for
     start: _l      _l: _l A | A
   (rule 1 is the in-place ChildFilterLALR path).  Feed a1 a2, fork with deepcopy_values=False, feed a3 to
   the original and a4 to the fork, then $END to both. *)
Definition wit_table : table :=
  mk_table [(0, [(1, Shift 1); (0, Reduce 0)]); (1, [(1, Reduce 1); (0, Reduce 1)]); (2, [(1, Shift 4)]);
            (3, []); (4, [(1, Reduce 2); (0, Reduce 2)])]
           [(0, []); (1, []); (2, [(0, 3); (1, 0)]); (3, []); (4, [])]
           [(0, 1); (1, 2); (1, 1)] 2 3.
Definition wit_rules : list (nat * nat) := [(0, 1); (1, 2); (1, 1)].
Definition wit_env : cbenv :=
  mk_env wit_rules [mk_cbdata 1 false (Some ([(0, true, 0)], 0));
                    mk_cbdata 2 false (Some ([(0, true, 0); (1, false, 0)], 0));
                    mk_cbdata 2 false None] false [].
Definition wit_ops (deep : bool) : list op :=
  [OFeed 0 1 1; OFeed 0 1 2; OCopy 0 deep; OFeed 0 1 3; OFeed 1 1 4; OFeed 0 0 0; OFeed 1 0 0].
Definition dummy_parser : parser := {| p_imm := false; p_ss := []; p_vs := []; p_lt := 0; p_sl := 0 |}.
(* what parser j looks like at the end, and what its own history says it should look like *)
Definition seen (I : impl) T E input os (j : nat) : list nat * list ptree * nat :=
  let w := fst (wrun I FUEL T E input (world0 T) os) in
  let p := nth j (w_ps w) dummy_parser in
  (p_ss p, read_stack (w_heap w) p, lget (w_heap w) (p_lt p)).
Definition own_history T E input os (j : nat) : list nat * list ptree * nat :=
  preplay FUEL T E input (snd (nth j (lineages os) (false, []))).
Definition result_of (st : list nat * list ptree * nat) : ptree := last (snd (fst st)) PNone.

Theorem C13_shallow_fork_aliasing_refuted :
  exists T E input os j, ~ Forall all_deep os /\ j < length (lineages os) /\
    seen impl_fixed T E input os j <> own_history T E input os j.
Proof.
  exists wit_table, wit_env, [], (wit_ops false), 1. split; [|split].
  - intros h. inversion h as [|? ? _ h1]; subst. inversion h1 as [|? ? _ h2]; subst.
    inversion h2 as [|? ? h3 _]; subst. exact h3.
  - vm_compute. auto.
  - vm_compute. discriminate.
Qed.
Print Assumptions C13_shallow_fork_aliasing_refuted.

(* ---------------------------------------------------------------------------------------------------
   F25 (repaired): Tree.__deepcopy__ used to pass meta=self._meta.  lark's table and callbacks for
     start: x     ?x: e _S | e _S _T     e:          (propagate_positions=True)
   on the text ";1   !2": feed ";1", fork twice (deep copies), $END to the first fork, "!2" then $END to
   the second.  With the old code the `e` tree of the second fork carries the end position of ";1" (the
   first fork wrote the shared Meta; `if not hasattr(res_meta, 'end_line')` then skips the write). *)
Definition f25_table : table :=
  mk_table [(0, [(1, Shift 2)]); (1, []); (2, [(2, Shift 5); (0, Reduce 1)]); (3, [(0, Reduce 0)]);
            (4, [(1, Reduce 3)]); (5, [(0, Reduce 2)])]
           [(0, []); (1, []); (2, []); (3, []); (4, [(2, 0); (0, 1); (1, 3)]); (5, [])]
           [(0, 1); (1, 2); (1, 3); (2, 0)] 4 1.
Definition f25_env : cbenv :=
  mk_env [(0, 1); (1, 2); (1, 3); (2, 0)]
         [mk_cbdata 1 false None; mk_cbdata 2 true (Some ([(0, false, 0)], 0));
          mk_cbdata 2 true (Some ([(0, false, 0)], 0)); mk_cbdata 3 false None]
         true [mk_tp 1 (mk_trip 0 1 1) (mk_trip 2 1 3); mk_tp 2 (mk_trip 5 1 6) (mk_trip 7 1 8)].
Definition f25_ops : list op :=
  [OFeed 0 1 1; OCopy 0 true; OCopy 0 true; OFeed 1 0 0; OFeed 2 2 2; OFeed 2 0 0].
Definition impl_shared_meta : impl := {| im_deep := true; im_meta := false; im_lex := true |}.

Theorem C13_shared_meta_refuted :
  exists T E input os j, Forall all_deep os /\ j < length (lineages os) /\
    seen impl_shared_meta T E input os j <> own_history T E input os j /\
    seen impl_fixed T E input os j = own_history T E input os j.
Proof.
  exists f25_table, f25_env, [], f25_ops, 2. split; [|split; [|split]].
  - repeat constructor.
  - vm_compute. auto.
  - vm_compute. discriminate.
  - vm_compute. reflexivity.
Qed.
Print Assumptions C13_shared_meta_refuted.

(* ---------------------------------------------------------------------------------------------------
   F26 (repaired): InteractiveParser.copy used to leave parser_state.lexer pointing at the original's
   thread.  lark's table for   start: A B C   on the text "a1 b2 c3": fork, fork.resume_parse() (correct
   result), then original.resume_parse(): with the old code the original's thread is already at the end
   and it raises UnexpectedToken($END). *)
Definition f26_table : table :=
  mk_table [(0, [(1, Shift 2)]); (1, [(3, Shift 3)]); (2, [(2, Shift 1)]); (3, [(0, Reduce 0)]); (4, [])]
           [(0, [(0, 4)]); (1, []); (2, []); (3, []); (4, [])] [(0, 3)] 0 4.
Definition f26_env : cbenv := mk_env [(0, 3)] [mk_cbdata 1 false None] false [].
Definition f26_input : list (nat * nat) := [(1, 1); (2, 2); (3, 3)].
Definition f26_ops : list op := [OCopy 0 true; OResume 1; OResume 0].
Definition impl_shared_lexer : impl := {| im_deep := true; im_meta := true; im_lex := false |}.

Theorem C13_resume_shared_lexer_refuted :
  exists T E input os, Forall all_deep os /\
    snd (wrun impl_shared_lexer FUEL T E input (world0 T) os) <> snd (prun FUEL T E input (pworld0 T) os) /\
    snd (wrun impl_fixed FUEL T E input (world0 T) os) = snd (prun FUEL T E input (pworld0 T) os).
Proof.
  exists f26_table, f26_env, f26_input, f26_ops. split; [|split].
  - repeat constructor.
  - vm_compute. discriminate.
  - vm_compute. reflexivity.
Qed.
Print Assumptions C13_resume_shared_lexer_refuted.

(* non-vacuity and the concrete values: with the deep default each fork ends with the parse of its own
   tokens; with the shallow copy both forks end with a1 a2 a2 a3 a4 (what lark produces too: the harness'
   shallow-model stream); the F25 witness under the old code has end (2,1,3) on the `e` node of fork 2
   where its own history (and the repaired code) has (7,1,8); the F26 witness ends in KError / KResult. *)
Example C13_example_deep :
  seen impl_fixed wit_table wit_env [] (wit_ops true) 0 = own_history wit_table wit_env [] (wit_ops true) 0 /\
  seen impl_fixed wit_table wit_env [] (wit_ops true) 1 = own_history wit_table wit_env [] (wit_ops true) 1 /\
  result_of (own_history wit_table wit_env [] (wit_ops true) 1)
    = PNode 1 empty_meta [PTok 1 1; PTok 1 2; PTok 1 4] /\
  result_of (seen impl_fixed wit_table wit_env [] (wit_ops false) 1)
    = PNode 1 empty_meta [PTok 1 1; PTok 1 2; PTok 1 2; PTok 1 3; PTok 1 4] /\
  result_of (seen impl_shared_meta f25_table f25_env [] f25_ops 2)
    = PNode 1 (mk_meta (Some (mk_trip 0 1 1)) (Some (mk_trip 7 1 8)) (Some (mk_trip 0 1 1)) (Some (mk_trip 7 1 8)))
        [PNode 3 (mk_meta (Some (mk_trip 0 1 1)) (Some (mk_trip 2 1 3)) (Some (mk_trip 0 1 1)) (Some (mk_trip 7 1 8))) []] /\
  result_of (own_history f25_table f25_env [] f25_ops 2)
    = PNode 1 (mk_meta (Some (mk_trip 0 1 1)) (Some (mk_trip 7 1 8)) (Some (mk_trip 0 1 1)) (Some (mk_trip 7 1 8)))
        [PNode 3 (mk_meta (Some (mk_trip 0 1 1)) (Some (mk_trip 7 1 8)) (Some (mk_trip 0 1 1)) (Some (mk_trip 7 1 8))) []] /\
  snd (wrun impl_shared_lexer FUEL f26_table f26_env f26_input (world0 f26_table) f26_ops)
    = [ObsNew 1; ObsFeed 1 KResult [4; 0]; ObsFeed 0 KError [0]] /\
  snd (wrun impl_fixed FUEL f26_table f26_env f26_input (world0 f26_table) f26_ops)
    = [ObsNew 1; ObsFeed 1 KResult [4; 0]; ObsFeed 0 KResult [4; 0]] /\
  Forall all_deep (wit_ops true) /\ table_wf wit_table.
Proof.
  repeat split; try (vm_compute; reflexivity).
  - repeat constructor.
  - apply (mk_table_wf _ _ _ _ _ s t).
  - apply (mk_table_wf _ _ _ _ _ s t).
Qed.

(* non-vacuity of the regenerated control: on lark's table of the aliasing witness the regenerated control shifts,
   reduces through the in-place rule and accepts exactly as the model does, and the table passes no_end_shift_b *)
Example C13_example_regenerated :
  no_end_shift_b [(0, [(1, Shift 1); (0, Reduce 0)]); (1, [(1, Reduce 1); (0, Reduce 1)]); (2, [(1, Shift 4)]);
                  (3, []); (4, [(1, Reduce 2); (0, Reduce 2)])] 3 = true /\
  gcfeed 50 wit_table [2] 1 false = ([2; 4], KShift) /\
  gcfeed 50 wit_table [2; 4] 1 false = ([2; 0; 1], KShift) /\
  gcfeed 50 wit_table [2; 0; 1] 0 true = ([2; 3], KResult) /\
  gcfeed 50 wit_table [2] 0 true = ([2], KError) /\
  gvalues_popped false 2 3 [VNone; VTok 1 1; VTok 1 2] = [VTok 1 1; VTok 1 2] /\
  gvalues_popped false 0 3 [VNone; VTok 1 1] = [] /\ gvalues_left false 0 3 [VNone; VTok 1 1] = [VNone; VTok 1 1].
Proof. vm_compute. repeat split; reflexivity. Qed.
