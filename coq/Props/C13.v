(* C13 - Interactive parser: forks independent, accepts() exact, resume equals parse.
   Property theorems only: each is closed by [exact] of a lemma proved in Inter/IDriver_proofs.v about the
   model Inter/Heap.v + Inter/IDriver.v (heap form of the LALR value stack over an abstract parse table),
   whose copy defaults are regenerated from lark/parsers/lalr_interactive_parser.py (Gen/InterHoles.v). *)
From Coq Require Import List Arith Bool.
From LV Require Import Inter.Heap Inter.IDriver Inter.Heap_proofs Inter.IDriver_proofs Inter.ICheck Gen.InterHoles.
Import ListNotations.

(* Feeding the tokens one at a time through InteractiveParser.feed_token and then feed_eof() is
   _Parser.parse_from_state on the same tokens (same heap, stacks and outcome), from any state. *)
Theorem C13_feed_eq_parse k T cb toks H ss vs :
  Forall (fun t => fst t <> END) toks ->
  hfeed_all k T cb H ss vs toks = hparse_from k T cb H ss vs toks.
Proof. exact (feed_eq_parse k T cb toks H ss vs). Qed.
Print Assumptions C13_feed_eq_parse.

(* After any sequence of feed_token / copy / as_immutable / as_mutable / immutable feed_token / accepts /
   resume_parse on any of the parsers created so far, in which explicit copies are deep and implicit ones
   use the regenerated default:
   (1) every observation (outcomes, state stacks, accepts sets) is the one made on immutable trees;
   (2) no two parsers reach a common child list (wowns = pairwise disjoint footprints, no sharing);
   (3) the stacks of parser j, read off the heap, are those of a fresh parser that went through j's own
       history (lineages os), whatever was done to the other forks in between. *)
Theorem C13_fork_separation k T cb os :
  Forall all_deep os ->
  let w := fst (wrun InterHoles.interactive_copy_default k T cb (world0 T) os) in
  snd (wrun InterHoles.interactive_copy_default k T cb (world0 T) os) = snd (prun k T cb (pworld0 T) os) /\
  exists pps F,
    wowns (w_heap w) pps (w_ps w) F /\
    forall j p, nth_error (w_ps w) j = Some p ->
      exists h, nth_error (lineages os) j = Some h /\
                p_imm p = fst h /\
                (p_ss p, read_stack (w_heap w) p) = preplay k T cb (snd h).
Proof. exact (fork_separation k T cb os). Qed.
Print Assumptions C13_fork_separation.

(* ... and a history "tokens, then $END" whose parse succeeds ends with the stacks (the top of the value
   stack is the result) of Lark.parse on those tokens. *)
Theorem C13_fork_result_eq_parse k T cb toks ss ts :
  Forall (fun t => fst t <> END) toks ->
  pparse k T cb toks = (ss, ts, KResult) ->
  preplay k T cb (map (fun t => EFeed (fst t) (snd t)) toks ++ [EFeed END 0]) = (ss, ts).
Proof. exact (fork_result_eq_parse k T cb toks ss ts). Qed.
Print Assumptions C13_fork_result_eq_parse.

(* A feed with callbacks = {} writes no existing list object: the heap afterwards is the old heap plus
   new cells. *)
Theorem C13_trial_feed_pure k T H ss vs ty id e :
  exists ext, rH (hfeed k T (fun _ => cb_none) H ss vs ty id e) = H ++ ext.
Proof. exact (trial_feed_pure k T H ss vs ty id e). Qed.
Print Assumptions C13_trial_feed_pure.

(* t is in accepts() exactly when feeding a token of type t to a deep copy of the parser, with the real
   callbacks, does not raise. *)
Theorem C13_accepts_exact k T cb H p ts f t id :
  table_wf T -> owns H ts (p_vs p) f ->
  let c := copy_parser true H p in
  In t (snd (accepts_loop InterHoles.interactive_copy_default k T H p (choices T p))) <->
  kind_ok (rkd (hifeed k T cb (fst c) (p_ss (snd c)) (p_vs (snd c)) t id)) = true.
Proof. exact (accepts_exact k T cb H p ts f t id). Qed.
Print Assumptions C13_accepts_exact.

(* the hypothesis on the table holds for every table given as data (the form the harness exports) *)
Theorem C13_accepts_exact_table acts gotos rules s0 e0 : table_wf (mk_table acts gotos rules s0 e0).
Proof. exact (mk_table_wf acts gotos rules s0 e0). Qed.
Print Assumptions C13_accepts_exact_table.

(* parse() stops at the unexpected token with the state st_e it reached (reductions done under that
   look-ahead included); resume_parse() from st_e on the rest is the token-by-token feed of the rest
   followed by $END from st_e. *)
Theorem C13_resume_eq_parse_rest k T cb pre bad rest H ss vs H1 ss1 vs1 He sse vse :
  Forall (fun t => fst t <> END) rest ->
  hfeeds k T cb H ss vs pre = (H1, ss1, vs1, KShift) ->
  hfeed k T cb H1 ss1 vs1 (fst bad) (snd bad) false = (He, sse, vse, KError) ->
  hparse_from k T cb H ss vs (pre ++ bad :: rest) = (He, sse, vse, KError) /\
  hparse_from k T cb He sse vse rest = hfeed_all k T cb He sse vse rest.
Proof. exact (resume_eq_parse_rest k T cb pre bad rest H ss vs H1 ss1 vs1 He sse vse). Qed.
Print Assumptions C13_resume_eq_parse_rest.

(* The defaults read from the source are deep, so every operation list that never passes
   deepcopy_values=False explicitly satisfies the hypothesis of C13_fork_separation. *)
Definition uses_default (o : op) : Prop :=
  match o with OCopy _ d => d = InterHoles.interactive_copy_default \/ d = true | _ => True end.
Theorem C13_default_copies_are_deep :
  InterHoles.interactive_copy_default = true /\ InterHoles.parser_state_copy_default = true /\
  forall os, Forall uses_default os -> Forall all_deep os.
Proof.
  split; [reflexivity|]. split; [reflexivity|].
  intros os h. induction h as [|o os ho _ IH]; constructor; auto.
  destruct o as [| i [|] | | | |]; simpl in *; auto. destruct ho; discriminate.
Qed.
Print Assumptions C13_default_copies_are_deep.

(* Why the default must be deep.  lark's table and callbacks for
     start: _l      _l: _l A | A
   (rule 1 is the in-place ChildFilterLALR path).  Feed a1 a2, fork with deepcopy_values=False, feed a3 to
   the original and a4 to the fork, then $END to both. *)
Definition wit_table : table :=
  mk_table [(0, [(1, Shift 1); (0, Reduce 0)]); (1, [(1, Reduce 1); (0, Reduce 1)]); (2, [(1, Shift 4)]);
            (3, []); (4, [(1, Reduce 2); (0, Reduce 2)])]
           [(0, []); (1, []); (2, [(0, 3); (1, 0)]); (3, []); (4, [])]
           [(0, 1); (1, 2); (1, 1)] 2 3.
Definition wit_rules : list (nat * nat) := [(0, 1); (1, 2); (1, 1)].
Definition wit_cb : nat -> cbshape :=
  mk_cb wit_rules [mk_cbdata 1 false (Some ([(0, true, 0)], 0));
                   mk_cbdata 2 false (Some ([(0, true, 0); (1, false, 0)], 0));
                   mk_cbdata 2 false None].
Definition wit_ops (deep : bool) : list op :=
  [OFeed 0 1 1; OFeed 0 1 2; OCopy 0 deep; OFeed 0 1 3; OFeed 1 1 4; OFeed 0 0 0; OFeed 1 0 0].
Definition wit_result (deep : bool) (j : nat) : option ptree :=
  let w := fst (wrun true FUEL wit_table wit_cb (world0 wit_table) (wit_ops deep)) in
  match nth_error (w_ps w) j with
  | Some p => Some (last (read_stack (w_heap w) p) PNone)
  | None => None
  end.
Definition wit_parse (toks : list (nat * nat)) : ptree :=
  let '(_, ts, _) := pparse FUEL wit_table wit_cb toks in last ts PNone.

Theorem C13_shallow_fork_aliasing_refuted :
  exists T cb os j, ~ Forall all_deep os /\
    let w := fst (wrun true FUEL T cb (world0 T) os) in
    exists p h, nth_error (w_ps w) j = Some p /\ nth_error (lineages os) j = Some h /\
                (p_ss p, read_stack (w_heap w) p) <> preplay FUEL T cb (snd h).
Proof.
  exists wit_table, wit_cb, (wit_ops false), 1. split.
  - intros h. inversion h as [|? ? _ h1]; subst. inversion h1 as [|? ? _ h2]; subst.
    inversion h2 as [|? ? h3 _]; subst. exact h3.
  - cbv zeta.
    exists (nth 1 (w_ps (fst (wrun true FUEL wit_table wit_cb (world0 wit_table) (wit_ops false))))
                {| p_imm := false; p_ss := []; p_vs := [] |}),
           (nth 1 (lineages (wit_ops false)) (false, [])).
    split; [vm_compute; reflexivity|]. split; [vm_compute; reflexivity|]. vm_compute. discriminate.
Qed.
Print Assumptions C13_shallow_fork_aliasing_refuted.

(* the same history with the default (deep) copy: each fork ends with the parse of its own tokens; with
   the shallow copy both forks end with a1 a2 a2 a3 a4 (what lark produces too: replayed by the harness) *)
Example C13_example_deep :
  wit_result true 0 = Some (wit_parse [(1, 1); (1, 2); (1, 3)]) /\
  wit_result true 1 = Some (wit_parse [(1, 1); (1, 2); (1, 4)]) /\
  wit_parse [(1, 1); (1, 2); (1, 4)] = PNode 1 [PTok 1 1; PTok 1 2; PTok 1 4] /\
  wit_result false 1 = Some (PNode 1 [PTok 1 1; PTok 1 2; PTok 1 2; PTok 1 3; PTok 1 4]) /\
  wit_result false 0 = Some (PNode 1 [PTok 1 1; PTok 1 2; PTok 1 2; PTok 1 3; PTok 1 4]) /\
  Forall all_deep (wit_ops true) /\ table_wf wit_table.
Proof.
  repeat split; try (vm_compute; reflexivity).
  - repeat constructor.
  - apply (mk_table_wf _ _ _ _ _ s t).
  - apply (mk_table_wf _ _ _ _ _ s t).
Qed.
