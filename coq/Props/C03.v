(* C03 - Returned tree is the documented shaping of a derivation; engines agree.
   Property theorems only; proofs are in Shape/Chain_proofs.v and Shape/Shape_proofs.v.
   Model: Shape/Chain.v (parse_tree_builder.py as coded), specification: Shape/Spec.v. *)
From Coq Require Import String Ascii List Bool Arith.
From LV Require Import Base.Prelude Shape.Chain Shape.Spec Shape.Chain_proofs Shape.Shape_proofs
  Shape.Ebnf Shape.Ebnf_proofs Cfg.Grammar Forest.Sppf Forest.Prio Forest.ExplicitBuild
  Shape.EarleyLeg Shape.EarleyLeg_proofs Shape.Cnf Shape.Cnf_proofs Shape.CykParse Shape.CykParse_proofs Shape.CnfLink Shape.CnfLink_proofs Shape.CnfClosure_proofs Shape.ToCnf_proofs Shape.Engines.
Import ListNotations.
Local Open Scope string_scope.

(* The callback lark composes for a rule (maybe_create_child_filter with its to_include indices
   and '0'.split None counts, ChildFilter*, ExpandSingleChild, in create_callback's order) is the
   documented shaping of one rule application, for every rule record, configuration, node type
   (trees, or values of an embedded transformer) and children list of the rule's arity. *)
Theorem C03_chain_spec (X : Type) (none : X) (kids : X -> option (list X))
        (user : string -> option (list X -> X)) (mk : string -> list X -> X) r mp amb ch :
  rule_wf r mp = true -> length ch = length (r_exp r) ->
  run_callback X none kids user mk r mp amb ch = Ok (spec_rule X none kids user mk r mp ch).
Proof. exact (chain_spec X none kids user mk r mp amb ch). Qed.
Print Assumptions C03_chain_spec.

(* ... and the only other outcome is the construction-time assertion on empty_indices *)
Theorem C03_chain_assert (X : Type) (none : X) (kids : X -> option (list X))
        (user : string -> option (list X -> X)) (mk : string -> list X -> X) r mp amb ch :
  rule_wf r mp = false -> run_callback X none kids user mk r mp amb ch = AssertFail.
Proof. exact (chain_assert X none kids user mk r mp amb ch). Qed.
Print Assumptions C03_chain_assert.

(* the "optimised" LALR filter (`filtered = children[i].children` when filtered is empty)
   computes the same list as the copying ChildFilter *)
Theorem C03_lalr_filters_copy (X : Type) (none : X) (kids : X -> option (list X)) ti ch f :
  run_cflalr X none kids ti ch f = run_cf X none kids ti ch f.
Proof. exact (run_cflalr_eq X none kids ti ch f). Qed.
Print Assumptions C03_lalr_filters_copy.

(* a run of k `_EMPTY` marks (untaken [..]) contributes exactly k None values, in place *)
Theorem C03_placeholders_count (X : Type) (none : X) (kids : X -> option (list X)) ka k m exp ch :
  spec_walk X none kids ka (repeat true k ++ m) exp ch
  = lift_app (Some (repeat none k)) (spec_walk X none kids ka m exp ch).
Proof. exact (spec_walk_lead X none kids ka k m exp ch). Qed.
Print Assumptions C03_placeholders_count.

(* FindRuleSize (sum over a sequence, max over alternatives, as coded) is the number of symbols
   kept by the longest alternative of the bracketed expression *)
Theorem C03_find_rule_size ka e : wf_ebnf e = true -> frs ka e = longest ka e.
Proof. exact (frs_longest_alternative ka e). Qed.
Print Assumptions C03_find_rule_size.

(* [e] adds exactly one alternative: frs(e) `_EMPTY` markers, i.e. an empty expansion whose
   empty_indices are frs(e) times True - which C03_placeholders_count turns into frs(e) Nones *)
Theorem C03_maybe_untaken ka e :
  alts (maybe ka e) = (alts e ++ [repeat IEmpty (frs ka e)])%list /\
  empty_indices_of (repeat IEmpty (frs ka e)) = repeat true (frs ka e) /\
  expansion_of (repeat IEmpty (frs ka e)) = [].
Proof. exact (maybe_untaken ka e). Qed.
Print Assumptions C03_maybe_untaken.

(* the induction the LALR driver performs: post-order shift/reduce with the rule's callback at
   every reduction builds exactly [shape] of the derivation tree it followed *)
Theorem C03_lalr_builds_shape mp d : wf_dtree mp d = true ->
  lalr_run mp (postorder d) = option_map (fun v => [v]) (shape mp d).
Proof. exact (lalr_builds_shape mp d). Qed.
Print Assumptions C03_lalr_builds_shape.

(* shaping a well-formed derivation never fails (no AttributeError on a spliced child) *)
Theorem C03_shape_total mp d : wf_dtree mp d = true -> exists t, shape mp d = Some t.
Proof. exact (shape_total mp d). Qed.
Print Assumptions C03_shape_total.

(* Earley, ambiguity='resolve'.  [s] is the forest (sharing unfolded) rooted at (start, i, j), an
   unfolding of the forest F as built, whose families all have the local form of an add_family
   call (C04 layer A).  ForestToParseTree in resolve mode, calling lark's chain callback of the rule
   at every completed family it keeps (EarleyLeg.earley_resolve), returns exactly [shape] of one
   derivation stored in the forest (the one C05 characterises), and that derivation is a
   well-formed derivation of the compiled grammar whose lexemes tile the input from i to j.
   Rule ids are indices into the table of rule records; nt_ix / t_ix number the symbol names. *)
Theorem C03_earley_resolve_is_shape_of_derivation
        (rules : list rrec) (mp : bool) (nt_ix t_ix : string -> nat)
        (F : nlabel EarleyLeg.lexeme -> family EarleyLeg.lexeme -> Prop) tlen occurs s a i j :
  Forall (fun r => rule_wf r mp = true /\ inline_ok r = true) rules ->
  (forall x y, nt_ix x = nt_ix y -> x = y) -> (forall x y, t_ix x = t_ix y -> x = y) ->
  (forall lbl f, F lbl f -> fam_ok (cfg_grammar rules nt_ix t_ix) EarleyLeg.lexeme (lx_match t_ix) tlen occurs lbl f) ->
  wfb s = true -> unf rules nt_ix t_ix F s (NSym EarleyLeg.lexeme a i j) ->
  exists t,
    resolve s = [t] /\
    wfd (cfg_grammar rules nt_ix t_ix) EarleyLeg.lexeme (lx_match t_ix) (to_dt rules nt_ix t_ix t) (NT a) /\
    tiles EarleyLeg.lexeme tlen occurs i j (yield EarleyLeg.lexeme (to_dt rules nt_ix t_ix t)) /\
    wf_dtree mp (to_dtree rules t) = true /\
    earley_resolve rules mp s = option_map (fun v => [v]) (shape mp (to_dtree rules t)).
Proof.
  intros Ht Hn Htx HF. exact (earley_resolve_is_shape_of_derivation rules mp Ht nt_ix t_ix Hn Htx F tlen occurs HF s a i j).
Qed.
Print Assumptions C03_earley_resolve_is_shape_of_derivation.

(* CYK.  [cnf_of] applies TERM, BIN and UNIT to a derivation tree (the CNF pre-image); [revert] is
   revert_cnf with unroll_unit_skiprule, [to_otree] is Parser._to_tree (original rule = the alias).
   Every derivation of the original grammar has a CNF pre-image with the same yield whose
   reversion is that derivation, and the tree CYK returns for that parse (rule callbacks applied
   bottom-up) is [shape] of the derivation. *)
Theorem C03_cnf_roundtrip_partial rules d : wf_otree rules d = true ->
  to_otree (revert (cnf_of rules d)) = Some d /\ cyield (cnf_of rules d) = oyield d.
Proof. exact (fun H => conj (cnf_roundtrip_complete rules d H) (cnf_roundtrip_yield rules d H)). Qed.
Print Assumptions C03_cnf_roundtrip_partial.

Theorem C03_cyk_is_shape rules mp d :
  Forall (fun r => rule_wf r mp = true /\ inline_ok r = true) rules ->
  wf_otree rules d = true ->
  cyk_result rules mp (cnf_of rules d) = shape mp (o_dtree rules d).
Proof. exact (fun Ht => cyk_is_shape rules mp Ht d). Qed.
Print Assumptions C03_cyk_is_shape.

(* (1) grammar level - every tree cyk._parse can build over the rules of
   to_cnf(G) is the pre-image of a derivation of G, and every pre-image is such a tree.  Proved in round 10
   (C03_cnf_roundtrip below); additionally on every run the harness compares lark's CNF grammar with [to_cnf] (as sets) and checks,
   for every CYK parse, that lark's CNF tree equals [cnf_of] of the reverted derivation, so the
   theorems above apply to each observed parse. *)
Definition C03_cnf_roundtrip_full_statement : Prop :=
  forall rules fuel g, to_cnf fuel rules = Ok g ->
    (forall c n, cder g c (CN (NOrig n)) ->
       exists d, wf_otree rules d = true /\ c = cnf_of rules d /\ to_otree (revert c) = Some d /\ oyield d = cyield c) /\
    (forall rid ch, wf_otree rules (ONode rid ch) = true ->
       Forall (fun r => r_exp r <> []) rules ->
       cder g (cnf_of rules (ONode rid ch)) (CN (NOrig (r_origin (rule_n rules rid))))).

(* cyk._parse (Shape/CykParse.v: the chart cell of a span computed from the cells of the shorter spans in
   the loop order of _parse, first recorded tree per non-terminal kept - all weights equal).
   Soundness, completeness and the unambiguous case of the chart, for ANY CNF-shaped grammar g. *)
Theorem C03_cyk_chart_sound g w start t :
  cyk_parse g w start = Some t -> cder g t (CN (NOrig start)) /\ cyield t = w.
Proof. exact (cyk_parse_sound g w start t). Qed.
Print Assumptions C03_cyk_chart_sound.

Theorem C03_cyk_chart_complete g w start c :
  (forall r, In r g -> cnf_shape r = true) ->
  cder g c (CN (NOrig start)) -> cyield c = w -> exists t, cyk_parse g w start = Some t.
Proof. exact (fun H => cyk_parse_complete g w start H c). Qed.
Print Assumptions C03_cyk_chart_complete.

Theorem C03_cyk_chart_unique g w start c :
  (forall r, In r g -> cnf_shape r = true) ->
  cder g c (CN (NOrig start)) -> cyield c = w ->
  (forall c', cder g c' (CN (NOrig start)) -> cyield c' = w -> c' = c) ->
  cyk_parse g w start = Some c.
Proof. exact (fun H => cyk_parse_unique g w start H c). Qed.
Print Assumptions C03_cyk_chart_unique.

(* The link between the CNF grammar and the original one, i.e. the two halves of
   C03_cnf_roundtrip_full_statement for one grammar g = to_cnf(G) (proved: C03_cnf_link, C03_cnf_roundtrip; also checked on
   every run: set equality of lark's CNF grammar with the model, pre-image equality of every parse) *)
Definition cnf_link_sound (rules : list rrec) (g : list crule) : Prop :=
  forall c n, cder g c (CN (NOrig n)) -> exists d, wf_otree rules d = true /\ c = cnf_of rules d.
Definition cnf_link_complete (rules : list rrec) (g : list crule) : Prop :=
  forall rid ch, wf_otree rules (ONode rid ch) = true ->
    cder g (cnf_of rules (ONode rid ch)) (CN (NOrig (r_origin (rule_n rules rid)))).

(* oroot_is: Shape/Engines.v *)

(* With the link, the whole CYK engine: what Lark(parser='cyk').parse returns is shape of a derivation of
   the input from the start symbol; every sentence is accepted; a sentence with one derivation gets it. *)
Theorem C03_cyk_returns_shape_of_derivation rules mp g w start c :
  Forall (fun r => rule_wf r mp = true /\ inline_ok r = true) rules ->
  cnf_link_sound rules g ->
  cyk_parse g w start = Some c ->
  exists d, wf_otree rules d = true /\ oroot_is rules start d /\ oyield d = w /\
            cyk_result rules mp c = shape mp (o_dtree rules d).
Proof.
  intros Ht Hl Hp. destruct (cyk_parse_sound g w start c Hp) as [Hd Hy].
  destruct (Hl _ _ Hd) as (d & Hwf & ->). exists d. split; [exact Hwf|]. split; [|split].
  - destruct d as [ty v|rid ch]; [inversion Hd|]. unfold cnf_of in Hd.
    destruct (cnf_parts rules (ONode rid ch)) as [[rhs kids] sk]. inversion Hd; subst. simpl. congruence.
  - rewrite <- (cnf_roundtrip_yield rules d Hwf). exact Hy.
  - exact (cyk_is_shape rules mp Ht d Hwf).
Qed.
Print Assumptions C03_cyk_returns_shape_of_derivation.

Theorem C03_cyk_accepts_sentences rules g start rid ch :
  (forall r, In r g -> cnf_shape r = true) -> cnf_link_complete rules g ->
  wf_otree rules (ONode rid ch) = true -> r_origin (rule_n rules rid) = start ->
  exists c, cyk_parse g (oyield (ONode rid ch)) start = Some c.
Proof.
  intros Hs Hl Hwf Ho. eapply (cyk_parse_complete g _ start Hs (cnf_of rules (ONode rid ch))).
  - rewrite <- Ho. apply Hl. exact Hwf.
  - apply cnf_roundtrip_yield. exact Hwf.
Qed.
Print Assumptions C03_cyk_accepts_sentences.

Theorem C03_cyk_unambiguous rules mp g start d :
  Forall (fun r => rule_wf r mp = true /\ inline_ok r = true) rules ->
  (forall r, In r g -> cnf_shape r = true) -> cnf_link_sound rules g -> cnf_link_complete rules g ->
  wf_otree rules d = true -> oroot_is rules start d ->
  (forall d', wf_otree rules d' = true -> oroot_is rules start d' -> oyield d' = oyield d -> d' = d) ->
  cyk_parse g (oyield d) start = Some (cnf_of rules d) /\
  cyk_result rules mp (cnf_of rules d) = shape mp (o_dtree rules d).
Proof.
  intros Ht Hs Hls Hlc Hwf Hr Hu. split; [|exact (cyk_is_shape rules mp Ht d Hwf)].
  destruct d as [ty v|rid ch]; [destruct Hr|]. simpl in Hr.
  destruct (C03_cyk_accepts_sentences rules g start rid ch Hs Hlc Hwf Hr) as [c Hc].
  destruct (C03_cyk_returns_shape_of_derivation rules mp g _ start c Ht Hls Hc) as (d' & Hw' & Hr' & Hy' & _).
  destruct (cyk_parse_sound g _ start c Hc) as [Hd _]. destruct (Hls _ _ Hd) as (d2 & Hw2 & ->).
  assert (d2 = ONode rid ch).
  { apply Hu; auto.
    - destruct d2 as [ty v|rid2 ch2]; [inversion Hd|]. unfold cnf_of in Hd.
      destruct (cnf_parts rules (ONode rid2 ch2)) as [[rhs kids] sk]. inversion Hd; subst. simpl. congruence.
    - rewrite <- (cnf_roundtrip_yield rules d2 Hw2). apply (cyk_parse_sound g _ start _ Hc). }
  subst d2. exact Hc.
Qed.
Print Assumptions C03_cyk_unambiguous.

(* Round 9: the link is proved.  [closure_check rules g] is a decidable statement about one CNF grammar: every
   rule of g is canonical (a term rule of a termified rule, a split rule of a rule with >= 3 symbols, or the head
   of a non-unit rule reached through a chain of unit rules, carrying that chain as its skipped list), g contains
   every enumerated canonical rule, and the unit rules are acyclic.  Over such a grammar the CNF derivations from
   original non-terminals are exactly the pre-images of the derivations of G. *)
Theorem C03_cnf_link rules g : closure_check rules g = true -> cnf_link_sound rules g /\ cnf_link_complete rules g.
Proof.
  intros H. destruct (closure_check_sound rules g H) as [Hs Hc]. split.
  - intros c n Hd. exact (link_sound rules g Hs c n Hd).
  - intros rid ch Hwf. exact (link_complete rules g Hc rid ch Hwf).
Qed.
Print Assumptions C03_cnf_link.

(* ... so the CYK engine theorems hold for every grammar that passes the check *)
Theorem C03_cyk_engine rules mp g start :
  Forall (fun r => rule_wf r mp = true /\ inline_ok r = true) rules ->
  (forall r, In r g -> cnf_shape r = true) -> closure_check rules g = true ->
  (forall w c, cyk_parse g w start = Some c ->
     exists d, wf_otree rules d = true /\ oroot_is rules start d /\ oyield d = w /\
               cyk_result rules mp c = shape mp (o_dtree rules d)) /\
  (forall rid ch, wf_otree rules (ONode rid ch) = true -> r_origin (rule_n rules rid) = start ->
     exists c, cyk_parse g (oyield (ONode rid ch)) start = Some c) /\
  (forall d, wf_otree rules d = true -> oroot_is rules start d ->
     (forall d', wf_otree rules d' = true -> oroot_is rules start d' -> oyield d' = oyield d -> d' = d) ->
     cyk_parse g (oyield d) start = Some (cnf_of rules d) /\
     cyk_result rules mp (cnf_of rules d) = shape mp (o_dtree rules d)).
Proof.
  intros Ht Hs Hcc. destruct (C03_cnf_link rules g Hcc) as [Hls Hlc]. split; [|split].
  - intros w c. exact (C03_cyk_returns_shape_of_derivation rules mp g w start c Ht Hls).
  - intros rid ch. exact (C03_cyk_accepts_sentences rules g start rid ch Hs Hlc).
  - intros d. exact (C03_cyk_unambiguous rules mp g start d Ht Hs Hls Hlc).
Qed.
Print Assumptions C03_cyk_engine.

(* Round 10: the passes of to_cnf are proved to produce exactly the characterised rules.  TERM and BIN: direct
   membership lemmas (in_term_step, in_g0); UNIT: the loop invariant [inv] (every rule is a term rule, a split rule
   or the head of a partial chain of unit rules; every full chain has a prefix whose head is present) is preserved
   by _remove_unit_rule (remove_unit_inv) and becomes the characterisation when no unit rule is left (inv_exit).
   No acyclicity assumption: the statement is about runs in which the loop terminates (to_cnf .. = Ok g); on
   cyclic unit rules lark's loop does not terminate (Lark(grammar, parser='cyk') hangs: see the report). *)
Theorem C03_to_cnf_closure rules fuel g : to_cnf fuel rules = Ok g -> unit_closure_spec rules g.
Proof. exact (to_cnf_closure rules fuel g). Qed.
Print Assumptions C03_to_cnf_closure.

Theorem C03_to_cnf_shape rules fuel g :
  to_cnf fuel rules = Ok g -> (forall rid, rid < length rules -> exp_of rules rid <> []) ->
  forall r, In r g -> cnf_shape r = true.
Proof. exact (to_cnf_shape rules fuel g). Qed.
Print Assumptions C03_to_cnf_shape.

(* cnf_roundtrip, both directions, for the grammar to_cnf builds (the former C03_cnf_roundtrip_full_statement) *)
Theorem C03_cnf_roundtrip rules fuel g : to_cnf fuel rules = Ok g ->
  (forall c n, cder g c (CN (NOrig n)) ->
     exists d, wf_otree rules d = true /\ c = cnf_of rules d /\ to_otree (revert c) = Some d /\ oyield d = cyield c) /\
  (forall rid ch, wf_otree rules (ONode rid ch) = true ->
     cder g (cnf_of rules (ONode rid ch)) (CN (NOrig (r_origin (rule_n rules rid))))).
Proof.
  intros H. destruct (to_cnf_closure rules fuel g H) as [Hs Hc]. split.
  - intros c n Hd. destruct (link_sound rules g Hs c n Hd) as (d & Hw & ->). exists d. repeat split; auto.
    + apply cnf_roundtrip_complete. exact Hw.
    + symmetry. apply cnf_roundtrip_yield. exact Hw.
  - intros rid ch Hwf. exact (link_complete rules g Hc rid ch Hwf).
Qed.
Print Assumptions C03_cnf_roundtrip.

(* the CYK engine, for the grammar to_cnf builds from a rule table without empty rules: no hypothesis left *)
Theorem C03_cyk_engine_to_cnf rules mp fuel g start :
  Forall (fun r => rule_wf r mp = true /\ inline_ok r = true) rules ->
  (forall rid, rid < length rules -> exp_of rules rid <> []) ->
  to_cnf fuel rules = Ok g ->
  (forall w c, cyk_parse g w start = Some c ->
     exists d, wf_otree rules d = true /\ oroot_is rules start d /\ oyield d = w /\
               cyk_result rules mp c = shape mp (o_dtree rules d)) /\
  (forall rid ch, wf_otree rules (ONode rid ch) = true -> r_origin (rule_n rules rid) = start ->
     exists c, cyk_parse g (oyield (ONode rid ch)) start = Some c) /\
  (forall d, wf_otree rules d = true -> oroot_is rules start d ->
     (forall d', wf_otree rules d' = true -> oroot_is rules start d' -> oyield d' = oyield d -> d' = d) ->
     cyk_parse g (oyield d) start = Some (cnf_of rules d) /\
     cyk_result rules mp (cnf_of rules d) = shape mp (o_dtree rules d)).
Proof.
  intros Ht Hne H. destruct (to_cnf_closure rules fuel g H) as [Hs Hc].
  assert (Hls : cnf_link_sound rules g) by (intros c n Hd; exact (link_sound rules g Hs c n Hd)).
  assert (Hlc : cnf_link_complete rules g) by (intros rid ch Hwf; exact (link_complete rules g Hc rid ch Hwf)).
  pose proof (to_cnf_shape rules fuel g H Hne) as Hsh. split; [|split].
  - intros w c. exact (C03_cyk_returns_shape_of_derivation rules mp g w start c Ht Hls).
  - intros rid ch. exact (C03_cyk_accepts_sentences rules g start rid ch Hsh Hlc).
  - intros d. exact (C03_cyk_unambiguous rules mp g start d Ht Hsh Hls Hlc).
Qed.
Print Assumptions C03_cyk_engine_to_cnf.

(* engines agree: whatever derivation d of the input the engines follow, each returns shape(d):
   LALR's value-stack driver along d, CYK on the CNF pre-image of d, Earley's resolve-mode walk on a
   forest whose selected derivation is d.  With a unique derivation of the input these are the same
   d.  _partial: that LALR's table driver follows a derivation of the input is C02's driver
   theorem; for CYK the chart (the C03_cyk_chart theorems) and the link between the CNF grammar and G (C03_cnf_link) are
   proved and to_cnf is proved to build such a grammar (C03_to_cnf_closure), so C03_cyk_engine_to_cnf has no
   hypothesis left for CYK; that lark's SPPF is an unfolding of
   a forest of add_family-shaped families whose stored derivations are all derivations is C04
   layer A (C03_earley_resolve_is_shape_of_derivation composes it). *)
Theorem C03_engines_agree_partial rules mp d s ts :
  Forall (fun r => rule_wf r mp = true /\ inline_ok r = true) rules ->
  wf_otree rules d = true ->
  resolve s = [ts] -> to_dtree rules ts = o_dtree rules d ->
  exists t, shape mp (o_dtree rules d) = Some t /\
    lalr_run mp (postorder (o_dtree rules d)) = Some [t] /\
    cyk_result rules mp (cnf_of rules d) = Some t /\
    earley_resolve rules mp s = Some [t].
Proof.
  intros Ht Hwf Hr Hd.
  pose proof (wf_otree_dtree rules mp Ht d Hwf) as Hwd.
  destruct (shape_total mp _ Hwd) as [t Hs]. exists t. split; [exact Hs|]. split; [|split].
  - rewrite (lalr_builds_shape mp _ Hwd), Hs. reflexivity.
  - rewrite (cyk_is_shape rules mp Ht d Hwf). exact Hs.
  - unfold earley_resolve. rewrite (proj1 (resolve_cb_bridge stree (chain_cb rules mp) Tok pkey) s).
    fold (resolve s). rewrite Hr. cbn [map all_some].
    rewrite (EarleyLeg_proofs.eval_chain_shape rules mp ts) by (rewrite Hd; exact Hwd). rewrite Hd, Hs. reflexivity.
Qed.
Print Assumptions C03_engines_agree_partial.

(* Non-vacuity: `?a: _x "," [B] c -> no alias`, with an inlined child, a filtered token, an
   untaken placeholder before the last symbol. *)
Definition ex_rule : rrec :=
  mkR "a" [mkSym false "_x" false; mkSym true "COMMA" true; mkSym false "c" false] None None false true
      [false; false; true; false].

Example C03_example_rule :
  rule_wf ex_rule true = true /\
  tree_callback ex_rule true false [Tr "_x" [Tok "A" "a"]; Tok "COMMA" ","; Tr "c" []]
  = Ok (Some (Tr "a" [Tok "A" "a"; NoneV; Tr "c" []])) /\
  tree_callback ex_rule false false [Tr "_x" []; Tok "COMMA" ","; Tr "c" []] = Ok (Some (Tr "c" [])).
Proof. repeat split; vm_compute; reflexivity. Qed.

(* [A "x" | _r B C]: longest alternative keeps 2 symbols (`"x"` and `_r` are not kept) *)
Example C03_example_size :
  let e := EAlt [ESeq [ESym (mkSym true "A" false); ESym (mkSym true "X" true)];
                 ESeq [ESym (mkSym false "_r" false); ESym (mkSym true "B" false); ESym (mkSym true "C" false)]] in
  wf_ebnf e = true /\ frs false e = 2 /\ frs true e = 2 /\ longest false e = 2.
Proof. repeat split; vm_compute; reflexivity. Qed.

Definition ex_x : rrec := mkR "_x" [mkSym true "A" false] None None false false [].
Definition ex_c : rrec := mkR "c" [] None None false false [].
Definition ex_deriv : Spec.dtree :=
  Spec.DNode ex_rule [Spec.DNode ex_x [DTok "A" "a"]; DTok "COMMA" ","; Spec.DNode ex_c []].

Example C03_example_derivation :
  wf_dtree true ex_deriv = true /\
  shape true ex_deriv = Some (Tr "a" [Tok "A" "a"; NoneV; Tr "c" []]) /\
  lalr_run true (postorder ex_deriv) = Some [Tr "a" [Tok "A" "a"; NoneV; Tr "c" []]].
Proof. repeat split; vm_compute; reflexivity. Qed.

(* ======================= Round 12 ======================================================================= *)
From Coq Require Import ZArith.
From LV Require Import Gen.ShapeHoles Shape.GenTie Shape.GenTie_proofs Shape.ValueDriver Shape.ValueDriver_proofs Shape.Engines_proofs
  Forest.ExplicitAlgBuild Forest.GraphResolve Earley.Alg Cfg.Analysis.
From LV Require LR.Driver LR.Automaton LR.Lalr_complete.

(* The conditions of Shape/Chain.v are the ones REGENERATED from lark/parse_tree_builder.py on this run
   (coq/Gen/ShapeHoles.v; translator/gen_shape.py pins the bodies of the three ChildFilter*.__call__,
   ExpandSingleChild.__call__, maybe_create_child_filter, _init_builders and create_callback and fails closed):
   _should_expand, the inclusion test `keep_all_tokens or not (sym.is_term and sym.filter_out)`, the test that
   decides whether a filter is created and which class, the wrapper order of _init_builders with the
   `expand1 and not alias` test, the callback name `alias or template_source or origin`, and the
   `len(children) == 1` test of ExpandSingleChild. *)
Theorem C03_conditions_are_source (X : Type) none kids (nb : builder X) r mp amb exp ka ei ch :
  maybe_create_child_filter exp ka amb ei = maybe_create_child_filter_g exp ka amb ei /\
  wrapper_chain r mp amb = wrapper_chain_g r mp amb /\
  Some (cb_name r) = g_cb_name (r_alias r) (r_tsrc r) (r_origin r) /\
  apply_wrapper X none kids WExpand1 nb ch = expand_single_g X nb ch.
Proof.
  exact (conj (child_filter_is_source exp ka amb ei) (conj (wrapper_chain_is_source r mp amb)
        (conj (cb_name_is_source r) (expand_single_is_source X none kids nb ch)))).
Qed.
Print Assumptions C03_conditions_are_source.

(* The LALR engine with the real value stack: ParserState.feed_token keeps what the callbacks return; on every table
   and input that is the bottom-up evaluation of the derivation tree LR/Driver keeps (control flow depends on the
   state stack only). *)
Theorem C03_value_stack_driver (tok X : Type) ttype (cb : Grammar.rule -> list X -> X) (tokf : tok -> X) P fuel w e :
  vparse tok ttype X cb tokf P fuel w e = omap tok X cb tokf (Driver.parse tok ttype P fuel w e).
Proof. exact (vparse_sim tok ttype X cb tokf P fuel w e). Qed.
Print Assumptions C03_value_stack_driver.

(* ForestToParseTree(resolve) calling the callbacks while it walks the graph forest = the walk, then the callbacks
   bottom-up on the derivation it selects *)
Theorem C03_resolve_walk_callbacks (tok : Type) teqb (X : Type) (cb : Grammar.rule -> list X -> X) (tokf : tok -> X) fams order fuel path lbl :
  gres_cb tok teqb X cb tokf fams order fuel path lbl
  = option_map (map (evald tok X cb tokf)) (gres tok teqb fams order fuel path lbl).
Proof. exact (gres_cb_spec tok teqb X cb tokf fams order fuel path lbl). Qed.
Print Assumptions C03_resolve_walk_callbacks.

(* ENGINES AGREE.  A table of compiled rules (construction assertions hold), injective numbering of the symbol names,
   and a derivation d (by rule index) that is the ONLY derivation of its yield from the start symbol
   (Engines.unique_derivation).  Then the three whole model pipelines return the same tree, Spec.shape of d:
     LALR   the table LR/Automaton.compute_lalr builds for G + ($root -> start), if it is conflict-free
            (= the grammar is supported by the LALR engine), driven by feed_token with the real value stack and the
            per-rule callbacks (some fuel suffices);
     Earley Earley/Alg with the add_family log, then the resolve walk on the label-keyed graph with callbacks, for
            EVERY order of the packed children (whatever priorities / sort keys say);
     CYK    to_cnf (if it terminates: no unit cycle) on a table without empty rules (= supported by CYK), the chart,
            revert_cnf, callbacks.
   Remaining hypotheses and why: conflict-freeness and the CYK side conditions are "the engine supports the grammar";
   e is the $END token; the numbering is the harness' choice.  Lexing (token list from text), priorities in the CYK
   chart (weights) and the dynamic Earley lexers are outside this statement. *)
Theorem C03_engines_agree rules mp nt_ix t_ix start_name d
        prio rootnt tEND lfuel A rel LA R qe e cfuel g order :
  Forall (fun r => rule_wf r mp = true /\ inline_ok r = true) rules ->
  (forall a b, nt_ix a = nt_ix b -> a = b) -> (forall a b, t_ix a = t_ix b -> a = b) ->
  unique_derivation rules start_name d ->
  let G := cfg_grammar rules nt_ix t_ix in
  let start := nt_ix start_name in
  Automaton.compute_lalr (G ++ [Grammar.mkRule rootnt [NT start]]) prio [length G] tEND lfuel = Automaton.ATable A rel LA R ->
  (forall r, In r G -> ~ In (NT rootnt) (Grammar.rhs r)) -> start <> rootnt ->
  Automaton.end_state (G ++ [Grammar.mkRule rootnt [NT start]]) [length G] A 0 = Some qe ->
  Lalr_complete.conflict_free A LA -> ttype t_ix e = tEND ->
  (forall rid, rid < length rules -> exp_of rules rid <> []) -> to_cnf cfuel rules = Ok g ->
  (forall l fs f, In f (order l fs) <-> In f fs) ->
  exists t, shape mp (o_dtree rules d) = Some t /\
    (exists f, lalr_engine rules mp nt_ix t_ix (Driver.ptable_of_rows R 0 qe) f (oyield d) e = Some t) /\
    earley_engine rules mp nt_ix t_ix order start (oyield d) = Some t /\
    cyk_engine rules mp cfuel start_name (oyield d) = Some t.
Proof.
  cbv zeta. intros Ht Hn Htx Hu HT Hfresh Hne Hqe Hcf He Hnonempty Hcnf Hperm.
  destruct (shape_total mp _ (wf_otree_dtree rules mp Ht d (proj1 Hu))) as [t Hs]. exists t. split; [exact Hs|].
  split; [|split].
  - destruct (lalr_leg rules mp nt_ix t_ix Hn Htx Ht start_name d Hu prio rootnt tEND lfuel A rel LA R qe e HT Hfresh Hne Hqe Hcf He)
      as [f Hf]. exists f. rewrite Hf. exact Hs.
  - rewrite (earley_leg rules mp nt_ix t_ix Hn Htx Ht start_name d Hu order Hperm). exact Hs.
  - unfold cyk_engine. rewrite Hcnf.
    destruct (C03_cyk_engine_to_cnf rules mp cfuel g start_name Ht Hnonempty Hcnf) as (_ & _ & H3).
    destruct Hu as (Hwf & Hr & Huniq). destruct (H3 d Hwf Hr Huniq) as [Hp Hc]. rewrite Hp, Hc. exact Hs.
Qed.
Print Assumptions C03_engines_agree.

(* Executable instance: `s: a "," c`, `?a: A`, `c: B` on the tokens A "," B - the three pipelines are evaluated
   (table construction, Earley run with its family log, resolve walk, to_cnf, chart) and return the tree
   s(A:x, c(B:y)), which is Spec.shape of the derivation [rule 0 [rule 1 [A]; ","; rule 2 [B]]]. *)
Definition eg_rules : list rrec :=
  [mkR "s" [mkSym false "a" false; mkSym true "COMMA" true; mkSym false "c" false] None None false false [];
   mkR "a" [mkSym true "A" false] None None false true [];
   mkR "c" [mkSym true "B" false] None None false false []].
Definition eg_nt (n : string) : nat := if String.eqb n "s" then 1 else if String.eqb n "a" then 2 else if String.eqb n "c" then 3 else 4.
Definition eg_t (n : string) : nat := if String.eqb n "A" then 1 else if String.eqb n "COMMA" then 2 else if String.eqb n "B" then 3 else 0.
Definition eg_d : otree := ONode 0 [ONode 1 [OLeaf "A" "x"]; OLeaf "COMMA" ","; ONode 2 [OLeaf "B" "y"]].
Definition eg_G := cfg_grammar eg_rules eg_nt eg_t.

Definition eg_lalr : bool * option stree :=
  match Automaton.compute_lalr (eg_G ++ [Grammar.mkRule 0 [NT 1]]) (repeat 0%Z 4) [3] 0 200 with
  | Automaton.ATable A rel LA R =>
      match Automaton.end_state (eg_G ++ [Grammar.mkRule 0 [NT 1]]) [3] A 0 with
      | Some qe => (Lalr_complete.conflict_free_b A LA,
                    lalr_engine eg_rules true eg_nt eg_t (Driver.ptable_of_rows R 0 qe) 50 (oyield eg_d) ("$END", ""))
      | None => (false, None)
      end
  | _ => (false, None)
  end.

Example C03_engines_example :
  (wf_otree eg_rules eg_d, shape true (o_dtree eg_rules eg_d), eg_lalr,
   earley_engine eg_rules true eg_nt eg_t (fun _ fs => fs) 1 (oyield eg_d),
   cyk_engine eg_rules true 50 "s" (oyield eg_d))
  = (true, Some (Tr "s" [Tok "A" "x"; Tr "c" [Tok "B" "y"]]), (true, Some (Tr "s" [Tok "A" "x"; Tr "c" [Tok "B" "y"]])),
     Some (Tr "s" [Tok "A" "x"; Tr "c" [Tok "B" "y"]]), Some (Tr "s" [Tok "A" "x"; Tr "c" [Tok "B" "y"]])).
Proof. vm_compute. reflexivity. Qed.
