(* C02 - LALR(1): conflicts reported, accepted language sound and (conflict-free) exact.
   Property theorems only; each is closed by [exact] of a lemma of LR/Driver_proofs.v or
   LR/Automaton_proofs.v about the models LR/Driver.v (ParserState.feed_token) and
   LR/Automaton.v (lalr_analysis.py). *)
From Coq Require Import List Arith Bool ZArith.
From LV Require Import Cfg.Grammar LR.Driver LR.Driver_proofs LR.Automaton LR.Automaton_proofs LR.Automaton_wf LR.Automaton_la LR.Automaton_complete LR.La_complete LR.Lalr_complete LR.Lr1Merge LR.Lr1Merge_proofs LR.Lr1Merge_converse LR.Digraph LR.Digraph_proofs Gen.LalrHoles LR.DriverGen LR.DriverGen_proofs.
Import ListNotations.

(* "accepts only sentences", for EVERY table in which a reduce by r is only offered in states
   all of whose access paths end with rhs r (wf_table) - whatever the look-ahead sets and
   whatever conflict resolution produced them.  The returned value is a derivation tree
   whose yield is the input. *)
Theorem C02_driver_sound (tok : Type) (ttype : tok -> nat) (G : grammar) (P : ptable) (start : nat)
        (fuel : nat) (w : list tok) (end_tok : tok) (t : dtree tok) :
  wf_table G P start ->
  parse tok ttype P fuel w end_tok = Accepted t ->
  wf_tree tok ttype G t /\ root tok ttype t = NT start /\ yield tok t = w /\
  derives G tok (tmatch tok ttype) [NT start] w.
Proof. exact (fun W => driver_sound tok ttype G P start W fuel w end_tok t). Qed.
Print Assumptions C02_driver_sound.

(* Translation validation: a concrete table (lark's own, exported) annotated with LR(0) item
   sets that passes the boolean certificate checker accepts only sentences.  The checker is
   evaluated by vm_compute on every table lark builds in the correspondence streams. *)
Theorem C02_certified_table_sound (G : grammar) (R : rows) (q0 qe start : nat)
        (IT : list (state * list (rule * nat))) (fuel : nat) (w : list nat) (t : dtree nat) :
  check_table G R q0 qe start IT = true ->
  parse nat (fun k => k) (ptable_of_rows R q0 qe) fuel w 0 = Accepted t ->
  yield nat t = w /\ derives G nat (tmatch nat (fun k => k)) [NT start] w.
Proof.
  exact (fun C H =>
    let S := driver_sound nat (fun k => k) G (ptable_of_rows R q0 qe) start
               (wf_items_table G (ptable_of_rows R q0 qe) start (items_of IT)
                  (check_table_sound G R q0 qe start IT C)) fuel w 0 t H in
    conj (proj1 (proj2 (proj2 S))) (proj2 (proj2 (proj2 S)))).
Qed.
Print Assumptions C02_certified_table_sound.

(* lr0_suffix: under the local item certificate, every item (A -> alpha . beta) of a state
   reached by a path spelling gamma has alpha as a suffix of gamma (stacks are top-first). *)
Theorem C02_lr0_suffix (G : grammar) (P : ptable) (start : nat) (items : state -> list (rule * nat)) :
  wf_items G P start items ->
  forall ss g, path P ss g -> forall q ss', ss = q :: ss' -> forall r d, In (r, d) (items q) ->
  firstn d g = rev (firstn d (rhs r)).
Proof. exact (lr0_suffix G P start items). Qed.
Print Assumptions C02_lr0_suffix.

(* a rejection leaves a well-formed configuration whose consumed input is a prefix of the
   input: reductions performed before UnexpectedToken never lose or invent tokens *)
Theorem C02_error_keeps_prefix (tok : Type) (ttype : tok -> nat) (G : grammar) (P : ptable) (start : nat)
        (fuel : nat) (w : list tok) (c : config tok) :
  wf_table G P start ->
  feed_all tok ttype P fuel (init_config P) w = Unexpected c ->
  cfg_ok tok ttype G P c /\ exists w1 w2, w = w1 ++ w2 /\ consumed tok (vstack c) = w1.
Proof. exact (fun W => driver_error_prefix tok ttype G P start W fuel w c). Qed.
Print Assumptions C02_error_keeps_prefix.

(* ---- the table construction (model of compute_lalr1_states) ---- *)

(* shift/reduce conflicts are resolved as shift: a transition on X always yields the Shift
   entry of the row, whatever the look-ahead sets contain *)
Theorem C02_shift_preferred (rules : list rule) (prio : list Z) (A : lr0) (LA : list (nat * nat * nat))
        (q : nat) (X : symbol) (q' : nat) :
  trans A q X = Some q' -> assoc_sym X (row rules prio A LA q) = Some (Shift q').
Proof. exact (shift_preferred rules prio A LA q X q'). Qed.
Print Assumptions C02_shift_preferred.

(* a Reduce entry stands only where the state has no transition on that terminal, and it is
   the rule decided for that look-ahead terminal *)
Theorem C02_reduce_only_without_shift (rules : list rule) (prio : list Z) (A : lr0) (LA : list (nat * nat * nat))
        (q : nat) (X : symbol) (r : rule) :
  assoc_sym X (row rules prio A LA q) = Some (Reduce r) ->
  trans A q X = None /\ exists s i, X = T s /\ r = rule_at rules i /\ In s (la_terms LA q) /\ decide prio (la_rules LA q s) = Use i.
Proof. exact (reduce_only_without_shift rules prio A LA q X r). Qed.
Print Assumptions C02_reduce_only_without_shift.

(* reduce/reduce: the rule used for a look-ahead terminal is the one with STRICTLY greatest
   priority among the competing rules; there is a collision iff no such rule exists *)
Theorem C02_rr_resolution (prio : list Z) (rs : list nat) :
  NoDup rs -> rs <> [] ->
  (forall r, decide prio rs = Use r <-> strict_max prio rs r) /\
      (decide prio rs = Collision <-> ~ exists r, strict_max prio rs r).
Proof. exact (fun ND NE => conj (fun r => decide_use prio rs r ND NE) (decide_collision prio rs ND NE)). Qed.
Print Assumptions C02_rr_resolution.

(* GrammarError (AConflict) iff some state has a look-ahead terminal with competing rules and
   no strict priority winner; otherwise the table is built and every look-ahead has a winner *)
Theorem C02_conflict_iff (rules : list rule) (prio : list Z) (roots : list nat) (tEND fuel : nat) :
  match compute_lalr rules prio roots tEND fuel with
  | AConflict A rel LA cs =>
      cs <> [] /\ LA = la_triples rel /\
      forall q s rs, In (q, s, rs) cs <->
        q < nstates A /\ In s (la_terms LA q) /\ rs = la_rules LA q s /\ ~ exists r, strict_max prio rs r
  | ATable A rel LA R =>
      LA = la_triples rel /\ R = table_rows rules prio A LA /\
      forall q s, q < nstates A -> In s (la_terms LA q) -> exists r, strict_max prio (la_rules LA q s) r
  | AFuel => True
  end.
Proof. exact (conflict_iff rules prio roots tEND fuel). Qed.
Print Assumptions C02_conflict_iff.

(* la_closure: the model's Read sets are the LEAST solution of  Read x = DR x U U{Read y | x reads y},
   its Follow sets the least solution of  Follow x = Read x U U{Follow y | x includes y}
   (least_solution = solves the equations and lies below every other solution), and the
   look-ahead triples are exactly the unions of Follow over lookback. *)
Theorem C02_la_closure (rules : list rule) (roots : list nat) (tEND : nat) (A : lr0) :
  let rel := compute_relations rules roots tEND A in
  least_solution (r_nts rel) (r_reads rel) (r_dr rel) (read_sets rel) /\
  least_solution (r_nts rel) (r_includes rel) (read_sets rel) (follow_sets rel) /\
  forall q s r, In (q, s, r) (la_triples rel) <->
                exists i, i < length (r_nts rel) /\ In (q, r) (nth i (r_lookback rel) []) /\ M (follow_sets rel) i s.
Proof. exact (la_closure rules roots tEND A). Qed.
Print Assumptions C02_la_closure.

(* For EVERY grammar: whenever the model of lalr_analysis.py builds a table (no collision,
   any number of shift/reduce or priority-resolved reduce/reduce conflicts), that table with
   the model's item sets satisfies the certificate ... *)
Theorem C02_model_table_wf (rules : list rule) (prio : list Z) (roots : list nat) (tEND fuel : nat)
        (A : lr0) (rel : relations) (LA : list (nat * nat * nat)) (R : rows)
        (i r0 rootnt start qe : nat) :
  compute_lalr rules prio roots tEND fuel = ATable A rel LA R ->
  NoDup roots -> (forall r, In r roots -> r < length rules) ->
  nth_error roots i = Some r0 -> rule_at rules r0 = mkRule rootnt [NT start] ->
  (forall r, In r rules -> ~ In (NT rootnt) (rhs r)) ->
  end_state rules roots A i = Some qe ->
  wf_items rules (model_ptable R i qe) start (model_items rules A).
Proof. exact (fun H1 H2 H3 => model_wf_items rules prio roots tEND fuel A rel LA R H1 H2 H3 i r0 rootnt start qe). Qed.
Print Assumptions C02_model_table_wf.

(* ... hence the model driver on the model table accepts only sentences of the user's
   grammar G (single start symbol, lark's rule order G ++ [$root -> start]). *)
Theorem C02_model_table_sound (G : grammar) (prio : list Z) (rootnt start tEND fuel : nat)
        (A : lr0) (rel : relations) (LA : list (nat * nat * nat)) (R : rows) (qe fuel' : nat)
        (w : list nat) (t : dtree nat) :
  compute_lalr (G ++ [mkRule rootnt [NT start]]) prio [length G] tEND fuel = ATable A rel LA R ->
  (forall r, In r G -> ~ In (NT rootnt) (rhs r)) -> start <> rootnt ->
  end_state (G ++ [mkRule rootnt [NT start]]) [length G] A 0 = Some qe ->
  parse nat (fun k => k) (ptable_of_rows R 0 qe) fuel' w tEND = Accepted t ->
  yield nat t = w /\ derives G nat (tmatch nat (fun k => k)) [NT start] w.
Proof. exact (model_table_sound_user G prio rootnt start tEND fuel A rel LA R qe fuel' w t). Qed.
Print Assumptions C02_model_table_sound.

(* la_complete (tree form of  "S' =>rm* alpha A a z  implies  a in Follow(goto*(q0, alpha), A)"):
   if rule i (started at the non-terminal transition y, with a in Follow y) has the child c at
   state q = goto*(fst y, pre), then the token that follows the child's yield - the first token
   of the later siblings' yields, or a if they are all empty - is in Follow (q, c) ... *)
Theorem C02_la_complete_child (rules : list rule) (tEND fuel : nat) (A : lr0) (r0 : nat)
        (y : ntrans) (i : nat) (pre : list symbol) (c : nat) (post : list symbol) (q a : nat)
        (cs : list (dtree nat)) :
  build_lr0 rules [r0] fuel = Some A ->
  In y (nt_transitions rules A) -> In (i, 0) (closure_of A (fst y)) -> lhs (rule_at rules i) = snd y ->
  rhs (rule_at rules i) = pre ++ NT c :: post -> goto_star A (fst y) pre = Some q ->
  wf_forest nat (fun k => k) rules cs -> map (root nat (fun k => k)) cs = post ->
  FollowOf rules tEND A r0 y a ->
  FollowOf rules tEND A r0 (q, c) (hd a (flat_map (yield nat) cs)).
Proof. exact (fun HB => la_complete_child rules tEND fuel A r0 HB y i pre c post q a cs). Qed.
Print Assumptions C02_la_complete_child.

(* ... and a itself is a look-ahead of the reduction by rule i in the state after its body *)
Theorem C02_la_complete_reduce (rules : list rule) (tEND fuel : nat) (A : lr0) (r0 : nat)
        (y : ntrans) (i qn a : nat) :
  build_lr0 rules [r0] fuel = Some A ->
  In y (nt_transitions rules A) -> In (i, 0) (closure_of A (fst y)) -> lhs (rule_at rules i) = snd y ->
  goto_star A (fst y) (rhs (rule_at rules i)) = Some qn -> FollowOf rules tEND A r0 y a ->
  In (qn, a, i) (la_triples (compute_relations rules [r0] tEND A)).
Proof. exact (fun HB => la_complete_reduce rules tEND fuel A r0 HB y i qn a). Qed.
Print Assumptions C02_la_complete_reduce.

(* Completeness: when the model's table has no shift/reduce and no reduce/reduce conflict
   (conflict_free: a look-ahead terminal of a state has no transition there and at most one
   rule), the model driver accepts EVERY sentence of the user's grammar.  Together with
   C02_model_table_sound: accepted language = language of the grammar. *)
Theorem C02_complete (G : grammar) (prio : list Z) (rootnt start tEND fuel : nat)
        (A : lr0) (rel : relations) (LA : list (nat * nat * nat)) (R : rows) (qe : nat) (w : list nat) :
  compute_lalr (G ++ [mkRule rootnt [NT start]]) prio [length G] tEND fuel = ATable A rel LA R ->
  (forall r, In r G -> ~ In (NT rootnt) (rhs r)) -> start <> rootnt ->
  end_state (G ++ [mkRule rootnt [NT start]]) [length G] A 0 = Some qe ->
  conflict_free A LA ->
  derives G nat (tmatch nat (fun k => k)) [NT start] w ->
  exists f t, parse nat (fun k => k) (ptable_of_rows R 0 qe) f w tEND = Accepted t.
Proof. exact (model_complete_user G prio rootnt start tEND fuel A rel LA R qe w). Qed.
Print Assumptions C02_complete.

(* the NULLABLE set of the model contains every symbol list deriving the empty string,
   closures are closed under prediction, and goto is total on a finished automaton *)
Theorem C02_automaton_complete (rules : list rule) (roots : list nat) (fuel : nat) (A : lr0) :
  build_lr0 rules roots fuel = Some A -> NoDup roots ->
  (forall ss, derives rules nat (tmatch nat (fun k => k)) ss [] -> forallb (nullable rules) ss = true) /\
  (forall K it b i, In it (closure rules K) -> next_sym rules it = Some (NT b) -> i < length rules ->
                    lhs (rule_at rules i) = b -> In (i, 0) (closure rules K)) /\
  (forall q X, q < nstates A -> In X (next_syms rules (closure_of A q)) -> exists q', trans A q X = Some q').
Proof.
  exact (fun HB ND => conj (fun ss H => nullable_complete rules nat _ ss [] H eq_refl)
                           (conj (closure_predicts rules) (trans_total rules roots fuel A HB ND))).
Qed.
Print Assumptions C02_automaton_complete.

(* ---- the look-ahead sets and the canonical LR(1) construction ("the LALR(1) automaton") ----
   Canonical LR(1) is specified inductively, path-wise (LR/Lr1Merge_proofs.v): the item
   [rule i, dot d, look-ahead a] is valid for the symbol string g - initial item [$root -> . start, $END],
   goto, closure with FIRST of the remainder followed by the parent's look-ahead.  The LALR(1)
   look-ahead set of a complete item in the LR(0) state q is the union over all g with goto*(0,g) = q.
   Inclusion 1 (every grammar): every canonical LR(1) look-ahead is a look-ahead of the model. *)
Theorem C02_lr1_subset_la (rules : list rule) (tEND fuel : nat) (A : lr0) (r0 rootnt start : nat)
        (g : list symbol) (i a q : nat) :
  build_lr0 rules [r0] fuel = Some A ->
  rule_at rules r0 = mkRule rootnt [NT start] ->
  lr1_valid rules r0 tEND g i (length (rhs (rule_at rules i))) a -> i <> r0 ->
  goto_star A 0 g = Some q ->
  In (q, a, i) (la_triples (compute_relations rules [r0] tEND A)).
Proof. exact (fun HB Hr0 => lr1_subset_la rules tEND fuel A r0 rootnt start HB Hr0 g i a q). Qed.
Print Assumptions C02_lr1_subset_la.

(* ... and the same for the EXECUTABLE canonical LR(1) construction of LR/Lr1Merge.v (FIRST by
   bounded iteration, closure to a fixed point, fuelled BFS): every state it reaches consists of
   valid items for one symbol string g, so each of its complete-item look-aheads is a look-ahead
   of the model at the LR(0) state goto*(0, g), whose item set contains the state's core. *)
Theorem C02_lr1_exec_subset_la (rules : list rule) (tEND fuel : nat) (A : lr0) (r0 rootnt start fuel1 : nat)
        (S1 : list (list item1)) (J : list item1) :
  build_lr0 rules [r0] fuel = Some A -> r0 < length rules ->
  rule_at rules r0 = mkRule rootnt [NT start] ->
  states1 rules r0 tEND fuel1 = Some S1 -> In J S1 ->
  exists g, forall i a, In (i, length (rhs (rule_at rules i)), a) J -> i <> r0 ->
    exists q, goto_star A 0 g = Some q /\
              (forall it, In it J -> In (fst it) (closure_of A q)) /\
              In (q, a, i) (la_triples (compute_relations rules [r0] tEND A)).
Proof. exact (exec_lr1_subset_la rules tEND fuel A r0 rootnt start fuel1 S1 J). Qed.
Print Assumptions C02_lr1_exec_subset_la.

(* Inclusion 2 - the full statement (proved below as C02_la_subset_lr1).  It needs productive rule bodies: with a
   non-productive symbol after the dot the DeRemer-Pennello sets are strictly larger than the
   canonical LR(1) ones (found by the search: start: D | C a C | A a; a: b start b; b: a a).
   It is validated on every run, inside Coq: check_lr1 (LR/Lr1Merge.v) evaluates the executable
   canonical-LR(1)-merge construction and the model's look-ahead sets by vm_compute on every
   reduced grammar of the streams and compares them set by set. *)
Definition C02_la_subset_lr1_full_statement : Prop :=
  forall (rules : list rule) (tEND fuel : nat) (A : lr0) (r0 rootnt start : nat) (q a i : nat),
  build_lr0 rules [r0] fuel = Some A ->
  rule_at rules r0 = mkRule rootnt [NT start] ->
  (forall r, In r rules -> ~ In (NT rootnt) (rhs r)) ->
  (forall r d, In r rules -> exists u, derives rules nat (tmatch nat (fun k => k)) (skipn d (rhs r)) u) ->
  In (q, a, i) (la_triples (compute_relations rules [r0] tEND A)) ->
  exists g, goto_star A 0 g = Some q /\ lr1_valid rules r0 tEND g i (length (rhs (rule_at rules i))) a.

(* Round 9: inclusion 2 is now a theorem (the round-8 full statement, proved as stated; its
   freshness hypothesis is not even needed).  Route (LR/Lr1Merge_converse.v): leastness of Read and
   Follow (C02_la_closure) is used as an induction principle.
     C02_read_witness    t in Read(p,A)  : an LR(0) item of p with the dot before A has t in the
                         inductive FIRST of its remainder, or (p,A) = (0,start) and t = $END
                         (holds for every grammar);
     C02_follow_witness  t in Follow(p,A): for SOME symbol string g leading to p there is a valid
                         LR(1) item [B -> alpha . A beta, u] for g with t in FIRST(beta u)
                         (needs: every LR(0) state is reached by some string, and - productivity -
                         every LR(0) item of the state reached by g is LR(1)-valid for g);
   lookback then advances the initial item [A -> . w, t] over w. *)
Theorem C02_read_witness (rules : list rule) (tEND fuel : nat) (A : lr0) (r0 rootnt start : nat) (k t : nat) (x : ntrans) :
  build_lr0 rules [r0] fuel = Some A -> r0 < length rules ->
  rule_at rules r0 = mkRule rootnt [NT start] ->
  M (read_sets (compute_relations rules [r0] tEND A)) k t ->
  nth_error (nt_transitions rules A) k = Some x ->
  R0' rules tEND A start x t.
Proof. exact (fun HB Hv Hr0 Hm => read_witness rules tEND fuel A r0 rootnt start HB Hv Hr0 k t Hm x). Qed.
Print Assumptions C02_read_witness.

Theorem C02_follow_witness (rules : list rule) (tEND fuel : nat) (A : lr0) (r0 rootnt start : nat) (k t : nat) (x : ntrans) :
  build_lr0 rules [r0] fuel = Some A -> r0 < length rules ->
  rule_at rules r0 = mkRule rootnt [NT start] ->
  (forall r d, In r rules -> exists u, derives rules nat (tmatch nat (fun k => k)) (skipn d (rhs r)) u) ->
  M (follow_sets (compute_relations rules [r0] tEND A)) k t ->
  nth_error (nt_transitions rules A) k = Some x ->
  W rules tEND A r0 x t.
Proof. exact (fun HB Hv Hr0 Hp Hm => follow_witness rules tEND fuel A r0 rootnt start HB Hv Hr0 Hp k t Hm x). Qed.
Print Assumptions C02_follow_witness.

Theorem C02_la_subset_lr1 : C02_la_subset_lr1_full_statement.
Proof.
  exact (fun rules tEND fuel A r0 rootnt start q a i HB Hr0 _ Hp =>
           la_subset_lr1 rules tEND fuel A r0 rootnt start HB (root_index_valid rules r0 rootnt start Hr0) Hr0 Hp q a i).
Qed.
Print Assumptions C02_la_subset_lr1.

(* The clause "the set of token types the parser can consume next is that of the LALR(1) automaton":
   for grammars with productive rule bodies the model's look-ahead set of every non-root rule in
   every LR(0) state is EXACTLY the union, over the symbol strings leading to that state, of the
   canonical LR(1) look-aheads of the complete item. *)
Theorem C02_la_is_lalr1 (rules : list rule) (tEND fuel : nat) (A : lr0) (r0 rootnt start q a i : nat) :
  build_lr0 rules [r0] fuel = Some A ->
  rule_at rules r0 = mkRule rootnt [NT start] ->
  (forall r d, In r rules -> exists u, derives rules nat (tmatch nat (fun k => k)) (skipn d (rhs r)) u) ->
  i <> r0 ->
  (In (q, a, i) (la_triples (compute_relations rules [r0] tEND A)) <->
   exists g, goto_star A 0 g = Some q /\ lr1_valid rules r0 tEND g i (length (rhs (rule_at rules i))) a).
Proof. exact (la_is_lalr1 rules tEND fuel A r0 rootnt start q a i). Qed.
Print Assumptions C02_la_is_lalr1.

(* ---- Round 10: digraph() / traverse() AS CODED (LR/Digraph.v: stack S, index map N, F as a map
   from nodes to cells of a heap of set objects, low-link update, SCC pop, aliasing F[x] = G[x]) ----
   For every ACYCLIC relation (rk strictly decreasing along edges, bounded by the number of nodes),
   one set object per node: the coded algorithm terminates within its fuel (n+1 nested calls), no
   assert fails, every node ends in its own cell, and F x is EXACTLY the least solution [ls] of
   F x = G x U U{F y | y in R x} - sound and complete. *)
Theorem C02_digraph_coded_acyclic (n : nat) (R G : list (list nat)) (rk : nat -> nat) :
  length G = n ->
  (forall x y, In y (nth x R []) -> y < n) -> (forall x y, In y (nth x R []) -> rk y < rk x) ->
  (forall x, x < n -> rk x < S n) ->
  exists F H, digraph_coded n R (seq 0 n) G = Some (F, H) /\
              length F = n /\ length H = n /\
              (forall x, x < n -> nth x F None = Some x) /\
              forall x, x < n -> forall t, In t (fset F H x) <-> ls R G x t.
Proof. exact (digraph_coded_acyclic n R G rk). Qed.
Print Assumptions C02_digraph_coded_acyclic.

(* compute_lookaheads as coded = two calls, the second one receiving the first one's F (same cells,
   same heap) as its G: for acyclic reads and includes the Follow sets computed by the CODE are the
   least solution over the Read sets computed by the code, which are the least solution over DR -
   i.e. exactly what C02_la_closure states for the specification-level model. *)
Theorem C02_digraph_twice_acyclic (n : nat) (R1 R2 G : list (list nat)) (rk1 rk2 : nat -> nat) :
  length G = n ->
  (forall x y, In y (nth x R1 []) -> y < n) -> (forall x y, In y (nth x R1 []) -> rk1 y < rk1 x) ->
  (forall x, x < n -> rk1 x < S n) ->
  (forall x y, In y (nth x R2 []) -> y < n) -> (forall x y, In y (nth x R2 []) -> rk2 y < rk2 x) ->
  (forall x, x < n -> rk2 x < S n) ->
  exists H1 F1' F2,
    digraph_twice n R1 R2 G = Some (F1', F2) /\ length H1 = n /\
    (forall x, x < n -> forall t, In t (nth x H1 []) <-> ls R1 G x t) /\
    (forall x, x < n -> forall t, In t (nth x F2 []) <-> ls R2 H1 x t).
Proof. exact (digraph_twice_acyclic n R1 R2 G rk1 rk2). Qed.
Print Assumptions C02_digraph_twice_acyclic.

(* With a cycle in the first relation the code is NOT the least solution: nodes 0,1 form a reads-cycle
   and share one Read set object; the second call's update for node 0 (0 includes 2) is visible
   through node 1.  lark computes the same as the coded model (stream digraph-coded-twice). *)
Example C02_digraph_twice_aliasing_refuted :
  digraph_twice 3 [[1]; [0]; []] [[2]; []; []] [[0]; [1]; [2]]
  = Some ([[0; 1; 2]; [0; 1; 2]; [2]], [[0; 1; 2]; [0; 1; 2]; [2]]) /\
  ~ ls [[2]; []; []] [[0; 1]; [0; 1]; [2]] 1 2.
Proof. exact digraph_twice_aliasing_refuted. Qed.

(* NOT PROVED (open, kept as full statements): for ARBITRARY relations (cycles, hence non-trivial SCCs,
   low-link updates and the pop loop) - (a) one call with one object per node computes exactly the
   least solution; (b) with any aliasing the least solution is still CONTAINED in the result (the
   direction completeness of the parser needs).  Both are validated per run on random cyclic graphs by
   the single-call stream (coded = specification closure = lark).  Missing lemma: the Tarjan stack
   invariant "when N[x] = d after the loop, the nodes above x on S are exactly the SCC of x and the
   cell of x holds the union of G over everything reachable from x". *)
Definition C02_digraph_coded_exact_full_statement : Prop :=
  forall (n : nat) (R G : list (list nat)), length G = n ->
  (forall x y, In y (nth x R []) -> y < n) ->
  exists F H, digraph_coded n R (seq 0 n) G = Some (F, H) /\
              forall x, x < n -> forall t, In t (fset F H x) <-> ls R G x t.

Definition C02_digraph_complete_full_statement : Prop :=
  forall (n : nat) (R : list (list nat)) (gc : list nat) (H0 : list (list nat)),
  length gc = n -> (forall x, x < n -> nth x gc 0 < length H0) ->
  (forall x y, In y (nth x R []) -> y < n) ->
  exists F H, digraph_coded n R gc H0 = Some (F, H) /\
              forall x, x < n -> forall t, ls R (map (fun c => nth c H0 []) gc) x t -> In t (fset F H x).

(* ---- Round 12: the hand models are tied to the source by REGENERATION, not only by correspondence ----
   translator/gen_lalr.py pins the statement skeleton of ParserState.feed_token, _Parser.parse_from_state and
   LALR_Analyzer.compute_lalr1_states and translates every decision condition of these functions (both asserts
   before a shift, `action is Shift`, the `if size:` guard, the three slice bounds, the assert on the goto entry,
   `is_end and state_stack[-1] == end_state`, the is_end flags; `len(rules) > 1`, reverse=True,
   `best[0] > second_best[0]`, `la in actions`, `if reduce_reduce`) to Gallina on every run (Gen/LalrHoles.v).
   LR/DriverGen.v is the pinned skeleton over these regenerated terms, with Python's list semantics (stacks with
   the top LAST, negative slice bounds, clipping).  The theorems say that the hand models every other C02 / C08 /
   C14 theorem is about compute the same thing - for every table, configuration, token, fuel. *)
Theorem C02_feed_token_regenerated (tok : Type) (ttype : tok -> nat) (P : ptable) (fuel : nat)
        (c : config tok) (k : tok) (is_end : bool) :
  gfeed tok ttype P fuel (cfg_py tok c) k is_end = out_py tok (feed tok ttype P fuel c k is_end).
Proof. exact (gfeed_eq_feed tok ttype P fuel c k is_end). Qed.
Print Assumptions C02_feed_token_regenerated.

Theorem C02_parse_from_state_regenerated (tok : Type) (ttype : tok -> nat) (P : ptable) (fuel : nat)
        (w : list tok) (end_tok : tok) :
  gparse tok ttype P fuel w end_tok = out_py tok (parse tok ttype P fuel w end_tok) /\
  pfs_end_type_is_END = true /\ ip_eof_type_is_END = true /\ pfs_loop_is_end = false /\ pfs_end_is_end = true.
Proof. exact (conj (gparse_eq_parse tok ttype P fuel w end_tok) end_token_pinned). Qed.
Print Assumptions C02_parse_from_state_regenerated.

Theorem C02_conflict_resolution_regenerated (rules : list rule) (prio : list Z) (roots : list nat) (tEND fuel : nat) :
  gcompute_lalr rules prio roots tEND fuel = compute_lalr rules prio roots tEND fuel /\
  (forall rs, gdecide prio rs = decide prio rs) /\
  (forall A LA q, grow rules prio A LA q = row rules prio A LA q) /\
  rr_prio_default = 0%Z.
Proof.
  exact (conj (gcompute_lalr_eq rules prio roots tEND fuel)
          (conj (gdecide_eq_decide prio)
            (conj (fun A LA q => grow_eq_row rules prio A LA q) prio_default_pinned))).
Qed.
Print Assumptions C02_conflict_resolution_regenerated.

(* Non-vacuity: the grammar of finding F13 (LALR(1), shared core {b: B., e2: B.}):
     start: a E | c | Y e2 D    a: Y b    c: Y a D    b: B    e2: B
   terminals $END=0 E=1 Y=2 D=3 B=4; non-terminals start=0 a=1 c=2 b=3 e2=4 $root=5.
   The model builds a table without collision, the table with the model's own item sets
   passes the certificate, "y b d" is accepted with a derivation tree of that yield, "y d" is
   rejected with nothing consumed beyond "y", and the state after "y b" reduces b on E and e2 on D. *)
Definition ex_rules : list rule :=
  [ mkRule 0 [NT 1; T 1]; mkRule 0 [NT 2]; mkRule 0 [T 2; NT 4; T 3]; mkRule 1 [T 2; NT 3];
    mkRule 2 [T 2; NT 1; T 3]; mkRule 3 [T 4]; mkRule 4 [T 4]; mkRule 5 [NT 0] ].

Example C02_example :
  match compute_lalr ex_rules (repeat 0%Z 8) [7] 0 100 with
  | ATable A rel LA R =>
      match end_state ex_rules [7] A 0 with
      | Some qe =>
          check_table (firstn 7 ex_rules) R 0 qe 0 (items_annot ex_rules A) = true /\
          (exists t, parse nat (fun k => k) (ptable_of_rows R 0 qe) 50 [2; 4; 3] 0 = Accepted t /\
                     yield nat t = [2; 4; 3]) /\
          (exists c, feed_all nat (fun k => k) (ptable_of_rows R 0 qe) 50 (init_config (ptable_of_rows R 0 qe)) [2; 3]
                     = Unexpected c /\ consumed nat (vstack c) = [2]) /\
          (exists c, feed_all nat (fun k => k) (ptable_of_rows R 0 qe) 50 (init_config (ptable_of_rows R 0 qe)) [2; 4]
                     = Shifted c /\
                     rows_action R (hd 0 (sstack c)) (T 1) = Some (Reduce (mkRule 3 [T 4])) /\
                     rows_action R (hd 0 (sstack c)) (T 3) = Some (Reduce (mkRule 4 [T 4])) /\
                     rows_action R (hd 0 (sstack c)) (T 0) = None) /\
          conflict_free_b A LA = true /\
          length (kernels A) >= 10
      | None => False
      end
  | _ => False
  end.
Proof. vm_compute. repeat split; try reflexivity; try (eexists; repeat split; reflexivity); repeat constructor. Qed.

(* Non-vacuity of the regenerated driver: on the table of C02_example the skeleton-over-regenerated-conditions
   driver accepts "y b d" (Python-order stacks), rejects "y d" with the stack [0; state after y], and the
   regenerated resolution picks the strictly greatest priority / reports a tie. *)
Example C02_example_regenerated :
  match compute_lalr ex_rules (repeat 0%Z 8) [7] 0 100 with
  | ATable A rel LA R =>
      match end_state ex_rules [7] A 0 with
      | Some qe =>
          (exists t, gparse nat (fun k => k) (ptable_of_rows R 0 qe) 50 [2; 4; 3] 0 = GAccepted t /\ yield nat t = [2; 4; 3]) /\
          (exists c, gfeed_all nat (fun k => k) (ptable_of_rows R 0 qe) 50 (ginit nat (ptable_of_rows R 0 qe)) [2; 3]
                     = GUnexpected c /\ length (g_states c) = 2 /\ hd 1 (g_states c) = 0) /\
          gcompute_lalr ex_rules (repeat 0%Z 8) [7] 0 100 = ATable A rel LA R
      | None => False
      end
  | _ => False
  end /\
  gdecide [1%Z; 3%Z; 2%Z] [0; 1; 2] = Use 1 /\ gdecide [3%Z; 3%Z; 2%Z] [0; 1; 2] = Collision /\ gdecide [] [4] = Use 4.
Proof. vm_compute. repeat split; try reflexivity; eexists; repeat split; reflexivity. Qed.
