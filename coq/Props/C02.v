(* C02 - LALR(1): conflicts reported, accepted language sound and (conflict-free) exact.
   Property theorems only; each is closed by [exact] of a lemma of LR/Driver_proofs.v or
   LR/Automaton_proofs.v about the models LR/Driver.v (ParserState.feed_token) and
   LR/Automaton.v (lalr_analysis.py). *)
From Coq Require Import List Arith Bool ZArith.
From LV Require Import Cfg.Grammar LR.Driver LR.Driver_proofs.
Import ListNotations.

(* "accepts only sentences", for EVERY table in which a reduce by r is only offered in states
   all of whose access paths end with rhs r (wf_table) - whatever the look-ahead sets and
   whatever conflict resolution produced them.  The returned value is a derivation tree
   whose yield is the input. *)
Theorem C02_driver_sound (tok : Type) (ttype : tok -> nat) (G : grammar) (P : ptable) (start : nat)
        (fuel : nat) (w : list tok) (end_tok : tok) (t : dtree tok) :
  wf_table G P start ->
  parse tok ttype P fuel w end_tok = Accepted t ->
  wf_tree tok ttype G t /\ root tok ttype t = NT start /\ yield tok t = w /\
  derives G tok (tmatch tok ttype) [NT start] w.
Proof. exact (fun W => driver_sound tok ttype G P start W fuel w end_tok t). Qed.
Print Assumptions C02_driver_sound.

(* Translation validation: a concrete table (lark's own, exported) annotated with LR(0) item
   sets that passes the boolean certificate checker accepts only sentences.  The checker is
   evaluated by vm_compute on every table lark builds in the correspondence streams. *)
Theorem C02_certified_table_sound (G : grammar) (R : rows) (q0 qe start : nat)
        (IT : list (state * list (rule * nat))) (fuel : nat) (w : list nat) (t : dtree nat) :
  check_table G R q0 qe start IT = true ->
  parse nat (fun k => k) (ptable_of_rows R q0 qe) fuel w 0 = Accepted t ->
  yield nat t = w /\ derives G nat (tmatch nat (fun k => k)) [NT start] w.
Proof.
  exact (fun C H =>
    let S := driver_sound nat (fun k => k) G (ptable_of_rows R q0 qe) start
               (wf_items_table G (ptable_of_rows R q0 qe) start (items_of IT)
                  (check_table_sound G R q0 qe start IT C)) fuel w 0 t H in
    conj (proj1 (proj2 (proj2 S))) (proj2 (proj2 (proj2 S)))).
Qed.
Print Assumptions C02_certified_table_sound.

(* lr0_suffix: under the local item certificate, every item (A -> alpha . beta) of a state
   reached by a path spelling gamma has alpha as a suffix of gamma (stacks are top-first). *)
Theorem C02_lr0_suffix (G : grammar) (P : ptable) (start : nat) (items : state -> list (rule * nat)) :
  wf_items G P start items ->
  forall ss g, path P ss g -> forall q ss', ss = q :: ss' -> forall r d, In (r, d) (items q) ->
  firstn d g = rev (firstn d (rhs r)).
Proof. exact (lr0_suffix G P start items). Qed.
Print Assumptions C02_lr0_suffix.

(* a rejection leaves a well-formed configuration whose consumed input is a prefix of the
   input: reductions performed before UnexpectedToken never lose or invent tokens *)
Theorem C02_error_keeps_prefix (tok : Type) (ttype : tok -> nat) (G : grammar) (P : ptable) (start : nat)
        (fuel : nat) (w : list tok) (c : config tok) :
  wf_table G P start ->
  feed_all tok ttype P fuel (init_config P) w = Unexpected c ->
  cfg_ok tok ttype G P c /\ exists w1 w2, w = w1 ++ w2 /\ consumed tok (vstack c) = w1.
Proof. exact (fun W => driver_error_prefix tok ttype G P start W fuel w c). Qed.
Print Assumptions C02_error_keeps_prefix.
