(* C07 - Lexer tiles the input by documented precedence; contextual refines basic.
   Property theorems only: each is closed by [exact] of a lemma proved under coq/Lex about the
   model Lex/Lexer.v (sort key regenerated from lark/lexer.py into Gen/LexerSortKey.v).
   The regex engine is the oracle  m : term -> text -> pos -> option nat. *)
From Coq Require Import ZArith List Bool String Ascii Arith Sorted Permutation.
From LV Require Import Base.Prelude Lex.LexerBase Gen.LexerSortKey Lex.Lexer
     Lex.LexerOrder_proofs Lex.Lexer_proofs Lex.Unless_proofs Lex.Contextual_proofs
     Lex.LexerTop_proofs Lex.LexerExample_proofs.
Import ListNotations.

(* The key tuple of BasicLexer.__init__ (as regenerated) is the documented order - higher
   priority, then longer maximal width, then longer pattern, then name - and the sort returns a
   permutation of the terminals that is strongly sorted for it. *)
Theorem C07_sort_documented_order :
  (forall a b, term_leb a b = true <-> doc_le a b) /\
  (forall l, Permutation l (sort_terms l) /\ StronglySorted doc_le (sort_terms l)).
Proof. exact (conj term_leb_doc (fun l => conj (sort_perm l) (sort_sorted l))). Qed.
Print Assumptions C07_sort_documented_order.

(* Tiling: the matches of the built lexer (ignored ones included) are consecutive from 0,
   non-empty, each is the scanner's answer at its start; they cover the text, or stop at a
   position q where no terminal of the scanner matches. *)
Theorem C07_lex_tiling m cok text terms ign L rs e :
  (forall t p n, m t text p = Some n -> (0 < n)%nat) ->
  (forall t p n, m t text p = Some n -> (p + n <= String.length text)%nat) ->
  make_lexer m cok terms ign = Some L ->
  lex_raw m text (S (String.length text)) (lx_mres L) 0 = (rs, e) ->
  Forall (scanned m text (lx_mres L)) rs /\
  match e with
  | AtEOF => tiled 0 rs (String.length text)
  | ErrAt q => tiled 0 rs q /\ (q < String.length text)%nat /\
               forall t, In t (List.concat (lx_mres L)) -> m t text q = None
  | NoFuel => False
  end.
Proof. exact (lexer_tiling m cok text terms ign L rs e). Qed.
Print Assumptions C07_lex_tiling.

(* First in the documented order: whatever the chunking of the alternation (any compile oracle
   that depends only on the number of alternatives), the chosen terminal precedes every
   terminal of the scanner that matches at p. *)
Theorem C07_scanner_first m cok text terms ign L p t n :
  cok_monotone cok -> make_lexer m cok terms ign = Some L ->
  scan m text (lx_mres L) p = Some (t, n) ->
  In t (scanner_terms m (sort_terms terms)) /\ m t text p = Some n /\
  forall u, In u (scanner_terms m (sort_terms terms)) -> m u text p <> None -> doc_le t u.
Proof. exact (lexer_first_documented m cok text terms ign L p t n). Qed.
Print Assumptions C07_scanner_first.

(* Chunking: the compiled alternations are consecutive slices of the terminal list; nothing is
   lost when the compile oracle depends only on the number of alternatives (in general a suffix
   survives: what was accumulated before a later failure is dropped by the code). *)
Theorem C07_chunks_concat cok fuel k ts mres :
  build_mres cok fuel k ts = Some mres ->
  (exists dropped, ts = dropped ++ List.concat mres) /\
  (cok_monotone cok -> List.concat mres = ts).
Proof.
  exact (fun H => conj (build_mres_suffix cok fuel k ts mres H)
                       (fun Hm => build_mres_concat cok Hm fuel k ts mres H)).
Qed.
Print Assumptions C07_chunks_concat.

(* The keyword rule: the reported type is the chosen terminal's name, unless that terminal is
   a regexp and some same-priority string terminal, whose text the regexp matches in full,
   equals the token's value (case-folded iff flag i): then it is the first such string. *)
Theorem C07_unless_keyword m L X v :
  (tre X = false -> report m L X v = tname X) /\
  ((forall K, keyword_of m L X K -> str_full K v = false) -> report m L X v = tname X) /\
  (forall pre K post, tre X = true -> L = pre ++ K :: post -> keyword_of m L X K ->
     str_full K v = true ->
     (forall K', In K' pre -> keyword_of m L X K' -> str_full K' v = false) ->
     report m L X v = tname K) /\
  (report m L X v <> tname X ->
     exists K, report m L X v = tname K /\ tre X = true /\ keyword_of m L X K /\ str_full K v = true) /\
  (forall K, str_full K v = true <->
     if ci_of K then lower_str (tvalue K) = lower_str v else tvalue K = v).
Proof. exact (unless_keyword m L X v). Qed.
Print Assumptions C07_unless_keyword.

(* Removing the embedded string terminals from the scanner changes no token, when embedding is
   semantic, regexps do not overlap and keywords are isolated among same-priority strings. *)
Theorem C07_unless_removal m text st ign mresA mresB fuel p rsA eA rsB eB :
  uniq_names st -> StronglySorted doc_le st ->
  str_oracle m text st -> bounded_oracle m text st -> embedding_semantic m text st ->
  regexps_disjoint m text st -> keywords_isolated m text st st -> ignore_agrees m st ign ->
  List.concat mresA = st -> List.concat mresB = scanner_terms m st ->
  lex_raw m text fuel mresA p = (rsA, eA) ->
  lex_raw m text fuel mresB p = (rsB, eB) ->
  emit m text st ign rsB = emit m text st ign rsA /\ eB = eA.
Proof.
  exact (fun H1 H2 H3 H4 H5 H6 H7 H8 =>
           removal_lex m text st ign H1 H2 H3 H4 H5 H6 H7 H8 mresA mresB fuel p rsA eA rsB eB).
Qed.
Print Assumptions C07_unless_removal.

(* ... and without isolation it does change one (finding F14) *)
Theorem C07_unless_removal_unconditional_refuted :
  let st := sort_terms f14_terms in
  obs_at f14_m "if" st st [] 0 = Some ("A"%string, 2, false) /\
  obs_at f14_m "if" st (scanner_terms f14_m st) [] 0 = Some ("B"%string, 2, false).
Proof. exact removal_without_isolation_refuted. Qed.
Print Assumptions C07_unless_removal_unconditional_refuted.

(* Contextual refines basic: if the basic lexer tokenises the whole text and the parser (abstract:
   accept sets and a step function that only consumes accepted types) accepts the token types,
   the contextual lexer yields the same tokens - under non-overlapping regexps, semantic
   embedding, and, in every state, keywords isolated among the state's same-priority strings
   (this excludes finding F15: a string terminal that extends a keyword). *)
Theorem C07_contextual_refines_basic m cok text (pstate : Type) accepts step terms ign always
        root ts (sf s0 : pstate) :
  (forall l, cok l = true) ->
  uniq_names terms ->
  str_oracle m text (sort_terms terms) ->
  bounded_oracle m text (sort_terms terms) ->
  (forall t p n, In t (sort_terms terms) -> m t text p = Some n -> (0 < n)%nat) ->
  embedding_semantic m text (sort_terms terms) ->
  regexps_disjoint m text (sort_terms terms) ->
  ignore_agrees m (sort_terms terms) ign ->
  (forall s, keywords_isolated m text (sort_terms terms)
               (sort_terms (sub_terms pstate accepts terms ign always s))) ->
  (forall s a s', step s a = Some s' -> In a (accepts s)) ->
  make_lexer m cok terms ign = Some root ->
  lex_from m text root 0 = (ts, AtEOF) ->
  run pstate step s0 (map ktype ts) = Some sf ->
  forall fuel, (List.length ts < fuel)%nat ->
  ctx_lex m cok text pstate accepts step fuel terms ign always root s0 0 = (ts, CEOF).
Proof.
  exact (fun Hc Hu Hs Hb Hp He Hd Hi Hk Ha =>
           contextual_refines_basic m cok text Hc pstate accepts step terms ign always
                                    Hu Hs Hb Hp He Hd Hi Hk Ha root ts sf s0).
Qed.
Print Assumptions C07_contextual_refines_basic.

Theorem C07_contextual_without_isolation_refuted :
  exists root ts,
    make_lexer f15_m ex_cok f15_terms [] = Some root /\
    lex_from f15_m f15_text root 0 = (ts, AtEOF) /\
    run nat f15_step 0 (map ktype ts) = Some 4 /\
    map ktype ts = ["IF"; "LP"; "NAME"; "RP"]%string /\
    map ktype (fst (ctx_lex f15_m ex_cok f15_text nat f15_accepts f15_step 6 f15_terms [] [] root 0 0))
      = ["IFP"%string].
Proof. exact contextual_without_isolation_refuted. Qed.
Print Assumptions C07_contextual_without_isolation_refuted.

(* Non-vacuity: NAME: /[a-z]+/  IF: "if"  WS: / +/ (ignored) on "if x", with the oracle a real
   function, meets every hypothesis above (uniqueness, string oracle, bounds, semantic embedding,
   disjoint regexps, isolation, ignore agreement, parser discipline); the first parser state
   accepts IF but not NAME, so the keyword has to win in the sub-lexer by itself. *)
Example C07_example :
  uniq_names ex_terms /\ str_oracle ex_m ex_text ex_st /\ bounded_oracle ex_m ex_text ex_st /\
  embedding_semantic ex_m ex_text ex_st /\ regexps_disjoint ex_m ex_text ex_st /\
  keywords_isolated ex_m ex_text ex_st ex_st /\ ignore_agrees ex_m ex_st ex_ign /\
  lex_from ex_m ex_text ex_root 0 = ([mkTok "IF" 0 2; mkTok "NAME" 3 1], AtEOF) /\
  ctx_lex ex_m ex_cok ex_text nat ex_accepts ex_step 3 ex_terms ex_ign [] ex_root 0 0
    = ([mkTok "IF" 0 2; mkTok "NAME" 3 1], CEOF).
Proof.
  exact (conj ex_uniq (conj ex_str (conj ex_bound (conj ex_sem (conj ex_disj (conj ex_iso_st
        (conj ex_ign_agrees (conj ex_basic ex_contextual_by_theorem)))))))).
Qed.
Print Assumptions C07_example.
