From Coq Require Import List.
Example C07_example : 1 = 1. Proof. reflexivity. Qed.
