(* C07 - Lexer tiles the input by documented precedence; contextual refines basic.
   Property theorems only: each is closed by [exact] of a lemma proved under coq/Lex about the
   model Lex/Lexer.v (sort key regenerated from lark/lexer.py into Gen/LexerSortKey.v).
   The regex engine is the oracle  m : term -> text -> pos -> option nat. *)
From Coq Require Import ZArith List Bool String Ascii Arith Sorted Permutation.
From LV Require Import Base.Prelude Lex.LexerBase Gen.LexerSortKey Lex.Lexer
     Lex.LexerOrder_proofs Lex.Lexer_proofs Lex.Unless_proofs Lex.Contextual_proofs
     Lex.LexerTop_proofs Lex.LexerExample_proofs
     Cfg.Grammar LR.Driver Lex.FlagsBase Gen.LexerHoles Lex.Holes_proofs Lex.Alt Lex.Alt_proofs
     Lex.ContextualLR Lex.ContextualLR_proofs.
Import ListNotations.

(* The key tuple of BasicLexer.__init__ (as regenerated) is the documented order - higher
   priority, then longer maximal width, then longer pattern, then name - and the sort returns a
   permutation of the terminals that is strongly sorted for it. *)
Theorem C07_sort_documented_order :
  (forall a b, term_leb a b = true <-> doc_le a b) /\
  (forall l, Permutation l (sort_terms l) /\ StronglySorted doc_le (sort_terms l)).
Proof. exact (conj term_leb_doc (fun l => conj (sort_perm l) (sort_sorted l))). Qed.
Print Assumptions C07_sort_documented_order.

(* Tiling: the matches of the built lexer (ignored ones included) are consecutive from 0,
   non-empty, each is the scanner's answer at its start; they cover the text, or stop at a
   position q where no terminal of the scanner matches. *)
Theorem C07_lex_tiling m cok text terms ign L rs e :
  (forall t p n, m t text p = Some n -> (0 < n)%nat) ->
  (forall t p n, m t text p = Some n -> (p + n <= String.length text)%nat) ->
  make_lexer m cok terms ign = Some L ->
  lex_raw m text (S (String.length text)) (lx_mres L) 0 = (rs, e) ->
  Forall (scanned m text (lx_mres L)) rs /\
  match e with
  | AtEOF => tiled 0 rs (String.length text)
  | ErrAt q => tiled 0 rs q /\ (q < String.length text)%nat /\
               forall t, In t (List.concat (lx_mres L)) -> m t text q = None
  | NoFuel => False
  end.
Proof. exact (lexer_tiling m cok text terms ign L rs e). Qed.
Print Assumptions C07_lex_tiling.

(* First in the documented order: whatever the chunking of the alternation (any compile oracle
   that depends only on the number of alternatives), the chosen terminal precedes every
   terminal of the scanner that matches at p. *)
Theorem C07_scanner_first m cok text terms ign L p t n :
  cok_monotone cok -> make_lexer m cok terms ign = Some L ->
  scan m text (lx_mres L) p = Some (t, n) ->
  In t (scanner_terms m (sort_terms terms)) /\ m t text p = Some n /\
  forall u, In u (scanner_terms m (sort_terms terms)) -> m u text p <> None -> doc_le t u.
Proof. exact (lexer_first_documented m cok text terms ign L p t n). Qed.
Print Assumptions C07_scanner_first.

(* Chunking: the compiled alternations are consecutive slices of the terminal list; nothing is
   lost when the compile oracle depends only on the number of alternatives (in general a suffix
   survives: what was accumulated before a later failure is dropped by the code). *)
Theorem C07_chunks_concat cok fuel k ts mres :
  build_mres cok fuel k ts = Some mres ->
  (exists dropped, ts = dropped ++ List.concat mres) /\
  (cok_monotone cok -> List.concat mres = ts).
Proof.
  exact (fun H => conj (build_mres_suffix cok fuel k ts mres H)
                       (fun Hm => build_mres_concat cok Hm fuel k ts mres H)).
Qed.
Print Assumptions C07_chunks_concat.

(* The keyword rule: the reported type is the chosen terminal's name, unless that terminal is
   a regexp and some same-priority string terminal, whose text the regexp matches in full,
   equals the token's value (case-folded iff flag i): then it is the first such string. *)
Theorem C07_unless_keyword fold m L X v :
  (tre X = false -> report fold m L X v = tname X) /\
  ((forall K, keyword_of m L X K -> str_full fold K v = false) -> report fold m L X v = tname X) /\
  (forall pre K post, tre X = true -> L = pre ++ K :: post -> keyword_of m L X K ->
     str_full fold K v = true ->
     (forall K', In K' pre -> keyword_of m L X K' -> str_full fold K' v = false) ->
     report fold m L X v = tname K) /\
  (report fold m L X v <> tname X ->
     exists K, report fold m L X v = tname K /\ tre X = true /\ keyword_of m L X K /\ str_full fold K v = true) /\
  (forall K, str_full fold K v = true <->
     if ci_of K then fold_str fold (tvalue K) = fold_str fold v else tvalue K = v).
Proof. exact (unless_keyword fold m L X v). Qed.
Print Assumptions C07_unless_keyword.

(* Removing the embedded string terminals from the scanner changes no token, when embedding is
   semantic, regexps do not overlap and keywords are isolated among same-priority strings. *)
Theorem C07_unless_removal fold m text st ign mresA mresB fuel p rsA eA rsB eB :
  uniq_names st -> StronglySorted doc_le st ->
  str_oracle fold m text st -> bounded_oracle m text st -> embedding_semantic m text st ->
  regexps_disjoint m text st -> keywords_isolated m text st st -> ignore_agrees m st ign ->
  List.concat mresA = st -> List.concat mresB = scanner_terms m st ->
  lex_raw m text fuel mresA p = (rsA, eA) ->
  lex_raw m text fuel mresB p = (rsB, eB) ->
  emit fold m text st ign rsB = emit fold m text st ign rsA /\ eB = eA.
Proof.
  exact (fun H1 H2 H3 H4 H5 H6 H7 H8 =>
           removal_lex fold m text st ign H1 H2 H3 H4 H5 H6 H7 H8 mresA mresB fuel p rsA eA rsB eB).
Qed.
Print Assumptions C07_unless_removal.

(* ... and without isolation it does change one (finding F14) *)
Theorem C07_unless_removal_unconditional_refuted :
  let st := sort_terms f14_terms in
  obs_at lower f14_m "if" st st [] 0 = Some ("A"%string, 2, false) /\
  obs_at lower f14_m "if" st (scanner_terms f14_m st) [] 0 = Some ("B"%string, 2, false).
Proof. exact removal_without_isolation_refuted. Qed.
Print Assumptions C07_unless_removal_unconditional_refuted.

(* Contextual refines basic: if the basic lexer tokenises the whole text and the parser (abstract:
   accept sets and a step function that only consumes accepted types) accepts the token types,
   the contextual lexer yields the same tokens - under non-overlapping regexps, semantic
   embedding, and, in every state, keywords isolated among the state's same-priority strings
   (this excludes finding F15: a string terminal that extends a keyword). *)
Theorem C07_contextual_refines_basic fold m cok text (pstate : Type) accepts step terms ign always
        root ts (sf s0 : pstate) :
  (forall l, cok l = true) ->
  uniq_names terms ->
  str_oracle fold m text (sort_terms terms) ->
  bounded_oracle m text (sort_terms terms) ->
  (forall t p n, In t (sort_terms terms) -> m t text p = Some n -> (0 < n)%nat) ->
  embedding_semantic m text (sort_terms terms) ->
  regexps_disjoint m text (sort_terms terms) ->
  ignore_agrees m (sort_terms terms) ign ->
  (forall s, keywords_isolated m text (sort_terms terms)
               (sort_terms (sub_terms pstate accepts terms ign always s))) ->
  (forall s t s', step s t = Some s' -> In (ktype t) (accepts s)) ->
  make_lexer m cok terms ign = Some root ->
  lex_from fold m text root 0 = (ts, AtEOF) ->
  run pstate step s0 ts = Some sf ->
  forall fuel, (List.length ts < fuel)%nat ->
  ctx_lex fold m cok text pstate accepts step fuel terms ign always root s0 0 = (ts, CEOF).
Proof.
  exact (fun Hc Hu Hs Hb Hp He Hd Hi Hk Ha =>
           contextual_refines_basic fold m cok text Hc pstate accepts step terms ign always
                                    Hu Hs Hb Hp He Hd Hi Hk Ha root ts sf s0).
Qed.
Print Assumptions C07_contextual_refines_basic.

Theorem C07_contextual_without_isolation_refuted :
  exists root ts,
    make_lexer f15_m ex_cok f15_terms [] = Some root /\
    lex_from lower f15_m f15_text root 0 = (ts, AtEOF) /\
    run nat f15_step 0 ts = Some 4 /\
    map ktype ts = ["IF"; "LP"; "NAME"; "RP"]%string /\
    map ktype (fst (ctx_lex lower f15_m ex_cok f15_text nat f15_accepts f15_step 6 f15_terms [] [] root 0 0))
      = ["IFP"%string].
Proof. exact contextual_without_isolation_refuted. Qed.
Print Assumptions C07_contextual_without_isolation_refuted.

(* Non-vacuity: NAME: /[a-z]+/  IF: "if"  WS: / +/ (ignored) on "if x", with the oracle a real
   function, meets every hypothesis above (uniqueness, string oracle, bounds, semantic embedding,
   disjoint regexps, isolation, ignore agreement, parser discipline); the first parser state
   accepts IF but not NAME, so the keyword has to win in the sub-lexer by itself. *)
Example C07_example :
  uniq_names ex_terms /\ str_oracle lower ex_m ex_text ex_st /\ bounded_oracle ex_m ex_text ex_st /\
  embedding_semantic ex_m ex_text ex_st /\ regexps_disjoint ex_m ex_text ex_st /\
  keywords_isolated ex_m ex_text ex_st ex_st /\ ignore_agrees ex_m ex_st ex_ign /\
  lex_from lower ex_m ex_text ex_root 0 = ([mkTok "IF" 0 2; mkTok "NAME" 3 1], AtEOF) /\
  ctx_lex lower ex_m ex_cok ex_text nat ex_accepts ex_step 3 ex_terms ex_ign [] ex_root 0 0
    = ([mkTok "IF" 0 2; mkTok "NAME" 3 1], CEOF).
Proof.
  exact (conj ex_uniq (conj ex_str (conj ex_bound (conj ex_sem (conj ex_disj (conj ex_iso_st
        (conj ex_ign_agrees (conj ex_basic ex_contextual_by_theorem)))))))).
Qed.
Print Assumptions C07_example.

(* ------------------------------------------------------------------------------------ round 12 *)

(* The Scanner OBJECT (Scanner.__init__ / _build_mres / match) over opaque compiled alternations:
   amatch c text p = (lastgroup, len(group(0))) of the alternation compiled from chunk c.  Under the
   single assumption "an alternation of named groups reports the first alternative, in order, that
   matches by itself, with that alternative's own match" (alt_first_assumption; validated against
   Python's re on every run), whatever the chunking: the reported name is that of the first
   terminal, in the documented order, of the scanner's terminals that match at p; and the scanner
   fails exactly where none of them matches. *)
Theorem C07_scanner_first_alt m amatch cok terms ign L text p :
  alt_first_assumption m amatch -> cok_monotone cok -> make_lexer m cok terms ign = Some L ->
  (forall nm n, sc_match amatch (lx_mres L) text p = Some (nm, n) ->
     exists t, tname t = nm /\
       In t (scanner_terms m (sort_terms terms)) /\ m t text p = Some n /\
       forall u, In u (scanner_terms m (sort_terms terms)) -> m u text p <> None -> doc_le t u) /\
  (sc_match amatch (lx_mres L) text p = None <->
     forall u, In u (scanner_terms m (sort_terms terms)) -> m u text p = None) /\
  sc_match amatch (lx_mres L) text p = named (scan m text (lx_mres L) p).
Proof.
  exact (fun Ha Hm HL =>
           conj (fun nm n => scanner_object_first m amatch cok Ha terms ign L text p nm n Hm HL)
                (conj (scanner_object_none m amatch cok Ha terms ign L text p Hm HL)
                      (sc_match_scan m amatch Ha (lx_mres L) text p))).
Qed.
Print Assumptions C07_scanner_first_alt.

(* UnlessCallback over its own Scanner object (Scanner(unless, ...).fullmatch): under the
   assumption that fullmatch of an alternation of string patterns reports the first string equal
   to the value, the callback re-types exactly as the model's report - or the callback's scanner
   could not be compiled at all. *)
Theorem C07_unless_callback_object fold m afull cok terms X v :
  alt_full_assumption fold afull -> cok_monotone cok ->
  match report_o m afull cok terms X v with
  | Some r => r = report fold m terms X v
  | None => scanner_mres cok (unless_of m terms X) = None
  end.
Proof. exact (fun Hf Hm => report_object fold m afull cok Hf terms X v Hm). Qed.
Print Assumptions C07_unless_callback_object.

(* Both assumptions are theorems about a backtracking engine (each pattern = the ordered list of
   match lengths it tries): nothing follows the alternation in Scanner.match, so the first
   candidate of the first alternative that has one wins; in Scanner.fullmatch the end anchor
   follows, and for single-candidate alternatives (string terminals) the first string equal to
   the value wins. *)
Theorem C07_alt_assumption_backtracking fold cand :
  alt_first_assumption (m_of cand) (fun c text p => named (alt_match_bt cand c text p)) /\
  ((forall K v, tre K = false -> cand K v 0 = cand_str fold K v 0) ->
   alt_full_assumption fold
     (fun c v => option_map (fun x : term * nat => tname (fst x)) (alt_full_bt cand c v))).
Proof. exact (alt_assumptions_backtracking fold cand). Qed.
Print Assumptions C07_alt_assumption_backtracking.

(* ... and "first alternative that matches by itself" is false as soon as something follows the
   alternation: A: "a", B: "ab", value "ab" - A matches by itself at 0, fullmatch reports B. *)
Theorem C07_alt_first_with_continuation_refuted :
  let cand := cand_str lower in
  first_some (fun t => m_of cand t "ab"%string 0) [altA; altB] = Some (altA, 1) /\
  alt_full_bt cand [altA; altB] "ab"%string = Some (altB, 2).
Proof. exact alt_first_with_continuation_refuted. Qed.
Print Assumptions C07_alt_first_with_continuation_refuted.

(* The conditions and sizes regenerated from lark/lexer.py (Gen/LexerHoles.v: _create_unless,
   Scanner.__init__/_build_mres, PatternStr widths, the zero-width rejection, next_token,
   ContextualLexer.__init__) are those of the model. *)
Theorem C07_code_conditions :
  (forall m R K, is_unless m R K =
     negb (h_unless_skip (tprio K) (tprio R)) &&
     match m R (tvalue K) 0 with Some n => Nat.eqb n (String.length (tvalue K)) | None => false end) /\
  (forall m terms R, embedded_of m terms R =
     filter (fun K => h_embed_flags (tflags K) (tflags R)) (unless_of m terms R)) /\
  (forall cok ts, scanner_mres cok ts =
     build_mres cok (S (S (List.length ts))) (Z.to_nat (h_init_size (Z.of_nat (List.length ts)))) ts) /\
  (forall cok f k ts, build_mres cok (S f) k ts =
     match build_loop cok (S (List.length ts)) (Z.to_nat (h_chunk_take (Z.of_nat k))) ts [] with
     | LDone mres => Some mres
     | LRetry rest => build_mres cok f (Z.to_nat (h_retry_size (Z.of_nat k))) rest
     | LFuel => None
     end) /\
  (forall k, h_chunk_take k = k /\ h_chunk_drop k = k) /\
  (forall K, h_str_max_width (tvlen K) = tvlen K /\ h_str_min_width (tvlen K) = tvlen K) /\
  (forall w, h_zero_width w = true <-> w = 0%Z) /\
  (forall m text fuel L p, next_token m text (S fuel) L p =
     if negb (h_lx_more (Z.of_nat p) (Z.of_nat (String.length text))) then NEOF else
     match scan m text (lx_mres L) p with
     | None => NErr p
     | Some (t, n) =>
         let r := mkRaw t p n in
         if h_emit (ignored (lx_ign L) r) then NTok r else next_token m text fuel L (p + n)
     end) /\
  (forall i cb, h_emit i = true -> h_make_token i cb = true) /\
  (forall (pstate : Type) (accepts : pstate -> list string) terms ign always s,
     sub_terms pstate accepts terms ign always s =
     filter (fun t => h_sub_keep (mem_string (tname t) (accepts s)) (mem_string (tname t) ign)
                                 (mem_string (tname t) always)) terms).
Proof.
  exact (conj hole_unless_prio (conj hole_embedded_of (conj hole_scanner_mres (conj hole_build_mres
        (conj hole_chunk (conj hole_str_width (conj hole_zero_width (conj hole_next_token
        (conj hole_make_token hole_sub_terms))))))))).
Qed.
Print Assumptions C07_code_conditions.

(* Contextual refines basic ON THE MODEL PARSE TABLE: the parser is LR/Driver.v on a concrete table
   R (rows keyed by terminal numbers = indices in conf.terminals); the accept set of a parser
   state is the key set of its table row, one parser step is one feed_token.  If the basic lexer
   tokenises the text and the driver returns a tree for those tokens, then the contextual lexer
   - per-row sub-lexers over accepts + ignore + always_accept - yields the same tokens and the
   interleaved lex/parse run returns the same tree. *)
Theorem C07_contextual_refines_basic_instantiated fold m cok text terms ign always R q0 qe dfuel
        root ts tree end_tok :
  rows_known terms R = true ->
  (forall l, cok l = true) ->
  uniq_names terms ->
  str_oracle fold m text (sort_terms terms) ->
  bounded_oracle m text (sort_terms terms) ->
  (forall t p n, In t (sort_terms terms) -> m t text p = Some n -> (0 < n)%nat) ->
  embedding_semantic m text (sort_terms terms) ->
  regexps_disjoint m text (sort_terms terms) ->
  ignore_agrees m (sort_terms terms) ign ->
  (forall c : config tok, keywords_isolated m text (sort_terms terms)
               (sort_terms (sub_terms (config tok) (lr_accepts terms R) terms ign always c))) ->
  make_lexer m cok terms ign = Some root ->
  lex_from fold m text root 0 = (ts, AtEOF) ->
  parse tok (ContextualLR.ttype terms) (ContextualLR.P R q0 qe) dfuel ts end_tok = Accepted tree ->
  forall fuel, (List.length ts < fuel)%nat ->
  ctx_lex fold m cok text (config tok) (lr_accepts terms R) (lr_step terms R q0 qe dfuel) fuel
          terms ign always root (init_config (ContextualLR.P R q0 qe)) 0 = (ts, CEOF) /\
  ctx_parse fold m cok text terms ign always R q0 qe dfuel fuel root end_tok = CxTree tree.
Proof.
  exact (fun Hk Hc Hu Hs Hb Hp He Hd Hi Hiso =>
           contextual_refines_basic_lr fold m cok text terms ign always R q0 qe dfuel
                                       Hk Hc Hu Hs Hb Hp He Hd Hi Hiso root ts tree end_tok).
Qed.
Print Assumptions C07_contextual_refines_basic_instantiated.

(* ContextualLexer.__init__: lexers shared through lexer_by_tokens[frozenset(accepts)] - every
   state gets exactly the lexer it would build from its own accept set (the lexer depends on the
   accept SET only), and a lexer is built anew exactly for the first state of each accept set. *)
Theorem C07_sublexers_shared m cok terms ign always states :
  map (fun x => (fst (fst x), snd (fst x))) (build_lexers m cok terms ign always states []) =
  map (fun qa : state * list string => (fst qa, lexer_for m cok terms ign always (snd qa))) states /\
  (forall a b, set_eqb a b = true ->
     lexer_for m cok terms ign always a = lexer_for m cok terms ign always b) /\
  (forall (pstate : Type) (accepts : pstate -> list string) s,
     sub_lexer m cok pstate accepts terms ign always s = lexer_for m cok terms ign always (accepts s)).
Proof.
  exact (conj (build_lexers_spec m cok terms ign always states [] (fun k L H => match H with end))
              (conj (lexer_for_set m cok terms ign always)
                    (sub_lexer_is_lexer_for m cok terms ign always))).
Qed.
Print Assumptions C07_sublexers_shared.

(* Non-vacuity of the round-12 statements: start: IF NAME on "if x" with lark's table; the
   instantiated theorem applies (same tokens, same tree); the three rows accept different
   terminals; the Scanner object answered by a backtracking engine picks NAME at 0 and its unless
   callback re-types "if" to IF. *)
Example C07_example_instantiated :
  rows_known ex_terms ex_rows = true /\
  parse tok (ContextualLR.ttype ex_terms) (ContextualLR.P ex_rows 0 3) 5
        [mkTok "IF" 0 2; mkTok "NAME" 3 1] ex_end = Accepted ex_tree /\
  ctx_parse lower ex_m ex_cok ex_text ex_terms ex_ign [] ex_rows 0 3 5 3 ex_root ex_end = CxTree ex_tree /\
  (row_accepts ex_terms ex_rows 0 = ["IF"%string] /\ row_accepts ex_terms ex_rows 1 = ["NAME"%string] /\
   row_accepts ex_terms ex_rows 2 = ["$END"%string]) /\
  (sc_match (fun c txt p => named (alt_match_bt ex_cand c txt p)) (lx_mres ex_root) ex_text 0 = Some ("NAME"%string, 2) /\
   report_o ex_m (fun c v => option_map (fun x : term * nat => tname (fst x)) (alt_full_bt ex_cand c v)) ex_cok
            ex_st NAME "if" = Some "IF"%string).
Proof.
  exact (conj ex_rows_known (conj ex_lr_parse (conj (proj2 ex_contextual_lr_by_theorem)
        (conj ex_lr_rows_differ ex_scanner_object)))).
Qed.
Print Assumptions C07_example_instantiated.
