(* C16 - Embedded transformer equals transforming afterwards; variants agree.
   Property theorems only; proofs are in Shape/Transform_proofs.v, InPlace_proofs.v, Log_proofs.v.
   Model: Shape/Transform.v (visitors.py traversals as coded, call logs) over Shape/Chain.v. *)
From Coq Require Import String Ascii List Bool Arith Permutation.
From LV Require Import Base.Prelude Shape.Chain Shape.Spec Shape.Shape_proofs Shape.Transform
  Shape.Transform_proofs Shape.InPlace_proofs Shape.Log_proofs Shape.ChainCheck.
Import ListNotations.
Local Open Scope string_scope.

(* For callbacks attached to non-underscore rule names, aliases, template names and terminals:
   building with the callbacks spliced into the per-rule chain (and terminal callbacks applied at
   shift time iff visit_tokens is on) equals transforming the shaped tree afterwards with the same
   visit_tokens setting, for every derivation. *)
Theorem C16_embedded_eq_posthoc T (visit_tokens : bool) mp d :
  (forall n, starts_us n = true -> on_rule T n = None) ->
  wf_dtree mp d = true ->
  embedded T visit_tokens mp d = option_map (tr T visit_tokens) (shape mp d).
Proof. exact (fun H => embedded_eq_posthoc T visit_tokens H mp d). Qed.
Print Assumptions C16_embedded_eq_posthoc.

(* ... where "building" is what the LALR driver does: post-order shift/reduce with the wrapped
   user callbacks as coded in create_callback *)
Theorem C16_embedded_driver T (visit_tokens : bool) mp d : wf_dtree mp d = true ->
  embedded_run T visit_tokens mp (postorder d) = option_map (fun v => [v]) (embedded T visit_tokens mp d).
Proof. exact (driver_builds value VNone vkids (on_rule T) VTree (visit_tok T visit_tokens) mp d). Qed.
Print Assumptions C16_embedded_driver.

(* Transformer, Transformer_NonRecursive (fuel = size of the tree suffices), Transformer_InPlace
   and Transformer_InPlaceRecursive return the same value on every tree, for both settings of the
   constructor option visit_tokens (False: tokens are left untouched, no terminal callback runs) *)
Theorem C16_variants_equal T (visit_tokens : bool) n ch :
  let t := Tr n ch in
  exists l1 l2 l3 l4,
    transform_rec T visit_tokens t = (tr T visit_tokens t, l1) /\
    transform_nr T visit_tokens t = Some (tr T visit_tokens t, l2) /\
    transform_ip T visit_tokens t = Some (tr T visit_tokens t, l3) /\
    transform_ipr T visit_tokens t = (tr T visit_tokens t, l4).
Proof. exact (variants_equal visit_tokens T n ch). Qed.
Print Assumptions C16_variants_equal.

(* each call log is a permutation of the duplicate-free list of tree/token nodes, and the entry
   of a child precedes the entry of its parent *)
Theorem C16_calls_once_children_first T (visit_tokens : bool) n ch :
  let t := Tr n ch in
  NoDup (node_paths visit_tokens [] t) /\
  once_children_first visit_tokens t (snd (transform_rec T visit_tokens t)) /\
  (forall v lg, transform_nr T visit_tokens t = Some (v, lg) -> once_children_first visit_tokens t lg) /\
  (forall v lg, transform_ip T visit_tokens t = Some (v, lg) -> once_children_first visit_tokens t lg) /\
  once_children_first visit_tokens t (snd (transform_ipr T visit_tokens t)).
Proof. exact (calls_once_children_first visit_tokens T n ch). Qed.
Print Assumptions C16_calls_once_children_first.

(* Non-vacuity: a concrete tree and derivation under a symbolic transformer *)
Definition ex_T := sym_T [("a", "a"); ("c", "c")] [("A", "A")].
Definition ex_tree := Tr "a" [Tok "A" "1"; Tr "_x" [Tok "B" "2"; NoneV]; Tr "c" []].
Definition ex_r := mkR "a" [mkSym false "_x" false; mkSym true "COMMA" true; mkSym false "c" false] None None
                       false true [false; false; true; false].
Definition ex_d := DNode ex_r [DNode (mkR "_x" [mkSym true "A" false] None None false false []) [DTok "A" "a"];
                               DTok "COMMA" ","; DNode (mkR "c" [] None None false false []) []].

Example C16_example :
  (forall n, starts_us n = true -> on_rule ex_T n = None) /\
  transform_ip ex_T true ex_tree
  = Some (VUser "a" [VUser "A" [VTok "A" "1"]; VTree "_x" [VTok "B" "2"; VNone]; VUser "c" []],
          [[1; 0]; [0]; [1]; [2]; []]) /\
  transform_nr ex_T true ex_tree
  = Some (VUser "a" [VUser "A" [VTok "A" "1"]; VTree "_x" [VTok "B" "2"; VNone]; VUser "c" []],
          [[0]; [1; 0]; [1]; [2]; []]) /\
  (* visit_tokens=False: the terminal callback A is not called and not logged *)
  transform_nr ex_T false ex_tree
  = Some (VUser "a" [VTok "A" "1"; VTree "_x" [VTok "B" "2"; VNone]; VUser "c" []], [[1]; [2]; []]) /\
  transform_ip ex_T false ex_tree
  = Some (VUser "a" [VTok "A" "1"; VTree "_x" [VTok "B" "2"; VNone]; VUser "c" []], [[1]; [2]; []]) /\
  wf_dtree true ex_d = true /\
  embedded ex_T true true ex_d = Some (VUser "a" [VUser "A" [VTok "A" "a"]; VNone; VUser "c" []]).
Proof.
  split; [|repeat split; vm_compute; reflexivity].
  intros n H. unfold ex_T, sym_T. simpl.
  destruct n as [|c n]; [discriminate|]. simpl in H. apply Ascii.eqb_eq in H. subst c.
  destruct n as [|c' n']; reflexivity.
Qed.

(* ======================= Round 12 ======================================================================= *)
From LV Require Import Gen.ShapeHoles Shape.GenTie Shape.GenTie_proofs Shape.Lookup Shape.Lookup_proofs
  Shape.VArgs Shape.VArgs_proofs Shape.InPlaceDag Shape.InPlaceDag_proofs.

(* The conditions of the traversal models are the ones REGENERATED from lark/visitors.py and
   lark/parser_frontends.py on this run (coq/Gen/ShapeHoles.v; the bodies of _call_userfunc, _call_userfunc_token,
   _transform_children, _transform_tree, transform of the four classes, iter_subtrees, _get_lexer_callbacks,
   apply_visit_wrapper, inplace_transformer, the _vargs_* adapters and merge_transformers are pinned by fail-closed
   templates in translator/gen_shape.py): a token child goes through its terminal callback iff
   `self.__visit_tokens__ and isinstance(c, Token)` (both loops), the embedded parser installs terminal callbacks
   iff the same flag is on, tree children go through _transform_tree, non-Discard results are kept. *)
Theorem C16_conditions_are_source T vt ty v :
  visit_tok T vt ty v = visit_tok_g T vt ty v /\ visit_tok T vt ty v = visit_tok_nr_g T vt ty v /\
  visit_tok T vt ty v = embedded_tok_g T vt ty v /\
  g_child_is_tree true = true /\ g_child_is_tree false = false /\ g_keep_result false = true.
Proof.
  exact (conj (proj1 (visit_tok_is_source T vt ty v))
        (conj (proj1 (proj2 (visit_tok_is_source T vt ty v)))
        (conj (proj2 (proj2 (visit_tok_is_source T vt ty v))) children_branches_are_source))).
Qed.
Print Assumptions C16_conditions_are_source.

(* A transformer OBJECT with a history (Shape/Lookup.v: it transformed trees, was copied, had attributes set or
   deleted, had other transformers merged in): what the four classes return is the reference value for the attribute
   state the object has NOW - the history with all uses and copies dropped.  (_call_userfunc does a getattr at every
   call; a per-object memo of the lookups is a broken regeneration tie.) *)
Theorem C16_lookup_is_current_state T hs (visit_tokens : bool) n ch :
  let Tnow := after T (filter (fun h => negb (is_use h)) hs) in
  let t := Tr n ch in
  exists l1 l2 l3 l4,
    transform_rec (after T hs) visit_tokens t = (tr Tnow visit_tokens t, l1) /\
    transform_nr (after T hs) visit_tokens t = Some (tr Tnow visit_tokens t, l2) /\
    transform_ip (after T hs) visit_tokens t = Some (tr Tnow visit_tokens t, l3) /\
    transform_ipr (after T hs) visit_tokens t = (tr Tnow visit_tokens t, l4).
Proof. exact (lookup_is_current_state T hs visit_tokens n ch). Qed.
Print Assumptions C16_lookup_is_current_state.

Theorem C16_embedded_is_current_state T hs (visit_tokens : bool) mp d :
  let Tnow := after T (filter (fun h => negb (is_use h)) hs) in
  (forall n, starts_us n = true -> on_rule Tnow n = None) ->
  wf_dtree mp d = true ->
  embedded (after T hs) visit_tokens mp d = option_map (tr Tnow visit_tokens) (shape mp d).
Proof. exact (embedded_is_current_state T hs visit_tokens mp d). Qed.
Print Assumptions C16_embedded_is_current_state.

(* the contrasting model with memoised lookups violates it (stale negative entry; stale bound callback in a copy) *)
Theorem C16_memo_lookup_refuted :
  fst (mtr true (mafter ex_T0 ex_hist) (Tr "b" [])) <> tr (after ex_T0 ex_hist) true (Tr "b" []) /\
  fst (mtr true (mafter ex_T0 ex_hist2) (Tr "b" [])) <> tr (after ex_T0 ex_hist2) true (Tr "b" []).
Proof.
  exact (conj (fun H => let '(conj A B) := memo_lookup_refuted in
                        eq_ind (VTree "b" []) (fun v => match v with VTree _ _ => True | _ => False end) I _
                               (eq_trans (eq_sym A) (eq_trans H B)))
              (fun H => let '(conj A B) := memo_copy_refuted in
                        eq_ind (VUser "b@x" []) (fun v => match v with VUser (String "b" (String "@" (String "x" _))) _ => True | _ => False end) I _
                               (eq_trans (eq_sym A) (eq_trans H B)))).
Qed.
Print Assumptions C16_memo_lookup_refuted.

(* merge_transformers(base, prefix=sub) (Shape/GenTie.merge_T over the regenerated skip test): callbacks on
   underscore names cannot appear through a non-underscore prefix, so embedded = post-hoc holds for the merged object *)
Theorem C16_merge_embedded_eq_posthoc base sub prefix (visit_tokens : bool) mp d :
  prefix <> "" -> starts_us prefix = false ->
  (forall n, starts_us n = true -> on_rule base n = None) ->
  wf_dtree mp d = true ->
  embedded (merge_T base sub prefix) visit_tokens mp d
  = option_map (tr (merge_T base sub prefix) visit_tokens) (shape mp d).
Proof.
  exact (fun Hne Hp Hb => embedded_eq_posthoc (merge_T base sub prefix) visit_tokens
           (merged_lookup_no_us (on_rule base) (on_rule sub) prefix Hne Hp Hb) mp d).
Qed.
Print Assumptions C16_merge_embedded_eq_posthoc.

(* v_args wrappers as argument adapters (Shape/VArgs.v).  One call: what create_callback's wrapping
   (apply_visit_wrapper(f, name, wrapper)(children) = wrapper(f, name, children, None)) returns is what
   Transformer._call_userfunc returns on a node of that name, whatever the node's meta - for inline, tree, custom
   wrappers and undecorated callbacks that do not look at the meta.  Whole derivations: building with the wrapped
   callbacks = transforming the shaped tree afterwards. *)
Theorem C16_vargs_call_agree c name ch m : meta_free c -> embedded_call c name ch = Some (posthoc_call c name ch m).
Proof. exact (vargs_call_agree c name ch m). Qed.
Print Assumptions C16_vargs_call_agree.

Theorem C16_vargs_embedded_eq_posthoc tbl toks (visit_tokens : bool) mp d :
  (forall n c, tbl n = Some c -> meta_free c) ->
  (forall n, starts_us n = true -> tbl n = None) ->
  wf_dtree mp d = true ->
  eval value VNone vkids (emb_user tbl) VTree (visit_tok (vargs_T tbl toks) visit_tokens) mp d
  = option_map (tr (vargs_T tbl toks) visit_tokens) (shape mp d).
Proof. exact (fun Hf => vargs_embedded_eq_posthoc tbl toks Hf visit_tokens mp d). Qed.
Print Assumptions C16_vargs_embedded_eq_posthoc.

(* the documented exception (meta wrappers are refused by the embedded path) and finding F27 (an embedded
   Transformer_InPlace hands an undecorated callback a Tree named after the function instead of the children) *)
Theorem C16_embedded_meta_refused_inplace_refuted f name ch :
  embedded_call (mkU f (Some VMeta)) name ch = None /\ embedded_call (mkU f (Some VMetaInline)) name ch = None /\
  embedded_call_inplace (mkU f27_f None) "a" "a" [] = Some (VUser "tree" []) /\
  posthoc_call (mkU f27_f None) "a" [] MNone = VUser "list" [].
Proof. exact (conj (proj1 (embedded_meta_refused f name ch)) (conj (proj2 (embedded_meta_refused f name ch)) embedded_inplace_refuted)). Qed.
Print Assumptions C16_embedded_meta_refused_inplace_refuted.

(* Transformer_InPlace on a heap of Tree objects with identity (Shape/InPlaceDag.v; iter_subtrees as coded).  On
   the DAG start[a[sh], sh] it differs from the documented value (finding F31 at model level), while
   Transformer_InPlaceRecursive on the same heap gives the value of the DAG read as a tree. *)
Theorem C16_inplace_dag_refuted :
  iter_subtrees_dag 100 f31_heap 0 = Some [1; 2; 0] /\
  final_value (transform_ip_dag (sym_DT f31_rules f31_toks) true 100 f31_heap 0)
    = Some (VTree "start" [VUser "a" [VUser "b" [VTok "A" "1"]]; VUser "b" [VUser "A" [VTok "A" "1"]]]) /\
  final_value (ipr_val (sym_DT f31_rules f31_toks) true 100 f31_heap (XRef 0))
    = Some (VTree "start" [VUser "a" [VUser "b" [VUser "A" [VTok "A" "1"]]]; VUser "b" [VUser "A" [VTok "A" "1"]]]) /\
  final_value (ipr_val (sym_DT f31_rules f31_toks) true 100 f31_heap (XRef 0))
    = Some (tr (sym_T f31_rules f31_toks) true f31_tree).
Proof. exact inplace_dag_refuted. Qed.
Print Assumptions C16_inplace_dag_refuted.

(* NOT PROVED (kept as a full statement, round 12): on tree-shaped heaps (an stree laid out by InPlaceDag.alloc: no
   object is referenced twice) the heap-level Transformer_InPlace is the tree-level model of Shape/Transform.v, for
   transformers that commute with the embedding of values.  Validated on every run by the stream dag-coq (tree-shaped
   heaps: lark's value = Coq heap model = documented value); the missing piece is the invariant of the reversed
   breadth-first order of iter_q on alloc-heaps (every object once, children before parents), which
   Shape/InPlace_proofs.v proves for the path-keyed model. *)
Definition C16_inplace_tree_inputs_agree_full_statement : Prop :=
  forall (T : transformer) (DT : dtransformer) (vt : bool) (n : string) (ch : list stree),
    (forall name vs, match on_rule T name, d_rule DT name with
                     | Some f, Some g => g (map vinj vs) = vinj (f vs)
                     | None, None => True
                     | _, _ => False
                     end) ->
    (forall ty, match on_token T ty, d_tok DT ty with
                | Some f, Some g => forall a b, g a b = vinj (f a b)
                | None, None => True
                | _, _ => False
                end) ->
    exists H', transform_ip_dag DT vt (S (tcount (Tr n ch))) (alloc 0 (Tr n ch)) 0
               = Some (H', vinj (tr T vt (Tr n ch))).
