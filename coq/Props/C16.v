(* C16 - Embedded transformer equals transforming afterwards; variants agree.
   Property theorems only; proofs are in Shape/Transform_proofs.v, InPlace_proofs.v, Log_proofs.v.
   Model: Shape/Transform.v (visitors.py traversals as coded, call logs) over Shape/Chain.v. *)
From Coq Require Import String Ascii List Bool Arith Permutation.
From LV Require Import Base.Prelude Shape.Chain Shape.Spec Shape.Shape_proofs Shape.Transform
  Shape.Transform_proofs Shape.InPlace_proofs Shape.Log_proofs Shape.ChainCheck.
Import ListNotations.
Local Open Scope string_scope.

(* For callbacks attached to non-underscore rule names, aliases, template names and terminals:
   building with the callbacks spliced into the per-rule chain (and terminal callbacks applied at
   shift time iff visit_tokens is on) equals transforming the shaped tree afterwards with the same
   visit_tokens setting, for every derivation. *)
Theorem C16_embedded_eq_posthoc T (visit_tokens : bool) mp d :
  (forall n, starts_us n = true -> on_rule T n = None) ->
  wf_dtree mp d = true ->
  embedded T visit_tokens mp d = option_map (tr T visit_tokens) (shape mp d).
Proof. exact (fun H => embedded_eq_posthoc T visit_tokens H mp d). Qed.
Print Assumptions C16_embedded_eq_posthoc.

(* ... where "building" is what the LALR driver does: post-order shift/reduce with the wrapped
   user callbacks as coded in create_callback *)
Theorem C16_embedded_driver T (visit_tokens : bool) mp d : wf_dtree mp d = true ->
  embedded_run T visit_tokens mp (postorder d) = option_map (fun v => [v]) (embedded T visit_tokens mp d).
Proof. exact (driver_builds value VNone vkids (on_rule T) VTree (visit_tok T visit_tokens) mp d). Qed.
Print Assumptions C16_embedded_driver.

(* Transformer, Transformer_NonRecursive (fuel = size of the tree suffices), Transformer_InPlace
   and Transformer_InPlaceRecursive return the same value on every tree, for both settings of the
   constructor option visit_tokens (False: tokens are left untouched, no terminal callback runs) *)
Theorem C16_variants_equal T (visit_tokens : bool) n ch :
  let t := Tr n ch in
  exists l1 l2 l3 l4,
    transform_rec T visit_tokens t = (tr T visit_tokens t, l1) /\
    transform_nr T visit_tokens t = Some (tr T visit_tokens t, l2) /\
    transform_ip T visit_tokens t = Some (tr T visit_tokens t, l3) /\
    transform_ipr T visit_tokens t = (tr T visit_tokens t, l4).
Proof. exact (variants_equal visit_tokens T n ch). Qed.
Print Assumptions C16_variants_equal.

(* each call log is a permutation of the duplicate-free list of tree/token nodes, and the entry
   of a child precedes the entry of its parent *)
Theorem C16_calls_once_children_first T (visit_tokens : bool) n ch :
  let t := Tr n ch in
  NoDup (node_paths visit_tokens [] t) /\
  once_children_first visit_tokens t (snd (transform_rec T visit_tokens t)) /\
  (forall v lg, transform_nr T visit_tokens t = Some (v, lg) -> once_children_first visit_tokens t lg) /\
  (forall v lg, transform_ip T visit_tokens t = Some (v, lg) -> once_children_first visit_tokens t lg) /\
  once_children_first visit_tokens t (snd (transform_ipr T visit_tokens t)).
Proof. exact (calls_once_children_first visit_tokens T n ch). Qed.
Print Assumptions C16_calls_once_children_first.

(* Non-vacuity: a concrete tree and derivation under a symbolic transformer *)
Definition ex_T := sym_T [("a", "a"); ("c", "c")] [("A", "A")].
Definition ex_tree := Tr "a" [Tok "A" "1"; Tr "_x" [Tok "B" "2"; NoneV]; Tr "c" []].
Definition ex_r := mkR "a" [mkSym false "_x" false; mkSym true "COMMA" true; mkSym false "c" false] None None
                       false true [false; false; true; false].
Definition ex_d := DNode ex_r [DNode (mkR "_x" [mkSym true "A" false] None None false false []) [DTok "A" "a"];
                               DTok "COMMA" ","; DNode (mkR "c" [] None None false false []) []].

Example C16_example :
  (forall n, starts_us n = true -> on_rule ex_T n = None) /\
  transform_ip ex_T true ex_tree
  = Some (VUser "a" [VUser "A" [VTok "A" "1"]; VTree "_x" [VTok "B" "2"; VNone]; VUser "c" []],
          [[1; 0]; [0]; [1]; [2]; []]) /\
  transform_nr ex_T true ex_tree
  = Some (VUser "a" [VUser "A" [VTok "A" "1"]; VTree "_x" [VTok "B" "2"; VNone]; VUser "c" []],
          [[0]; [1; 0]; [1]; [2]; []]) /\
  (* visit_tokens=False: the terminal callback A is not called and not logged *)
  transform_nr ex_T false ex_tree
  = Some (VUser "a" [VTok "A" "1"; VTree "_x" [VTok "B" "2"; VNone]; VUser "c" []], [[1]; [2]; []]) /\
  transform_ip ex_T false ex_tree
  = Some (VUser "a" [VTok "A" "1"; VTree "_x" [VTok "B" "2"; VNone]; VUser "c" []], [[1]; [2]; []]) /\
  wf_dtree true ex_d = true /\
  embedded ex_T true true ex_d = Some (VUser "a" [VUser "A" [VTok "A" "a"]; VNone; VUser "c" []]).
Proof.
  split; [|repeat split; vm_compute; reflexivity].
  intros n H. unfold ex_T, sym_T. simpl.
  destruct n as [|c n]; [discriminate|]. simpl in H. apply Ascii.eqb_eq in H. subst c.
  destruct n as [|c' n']; reflexivity.
Qed.
