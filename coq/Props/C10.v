(* C10 - A Lark instance is a pure function of its input: reusable and thread-safe.
   Property theorems only; each is closed by [exact] of a lemma proved in coq/Inst/*_proofs.v about the
   models Inst/Instance.v (instance state, operations as state transformers that may stop half-way),
   Inst/IndSteps.v (the Indenter generator at the granularity of its yields) and Inst/Threads.v
   (line-level interleaving semantics of the lexer's lazy initialisation).  Gen/InstOrder.v (the
   publication order the code has) and Gen/IndenterHoles.v are regenerated from lark's source. *)
From Coq Require Import ZArith List Bool String Ascii Arith.
From LV Require Import Base.Prelude Sys.IndenterBase Gen.IndenterHoles Sys.Indenter
     Inst.IndSteps Inst.IndSteps_proofs Inst.Instance Inst.Instance_proofs Inst.World Inst.World_proofs
     Inst.ThreadsBase Gen.InstOrder Inst.Threads Inst.Threads_proofs
     Inst.MiniLex Inst.InstCheck Inst.InstExamples
     Inst.WritesBase Gen.InstWrites Inst.Writes Inst.Writes_proofs Inst.LazyCell Inst.LazyCell_proofs.
Import ListNotations.

Section Sequential.
(* any BasicLexer implementation: configuration, what the lazy cells are built from, one round of
   next_token given the values of the cells, Scanner.search; any LALR behaviour inside scan() *)
Variables Conf Sc CB LexSt Err Text : Type.
Variable mk_scanner : Conf -> Sc.
Variable mk_callback : Conf -> CB.
Variable mk_search : Conf -> Sc.
Variable at_end : LexSt -> bool.
Variable ntfuel : LexSt -> nat.
Variable init_ls : Text -> nat -> LexSt.
Variable iter : Conf -> Sc -> CB -> LexSt -> iter_res LexSt Err.
Variable search : Sc -> Text -> nat -> option nat.
Variable sc_want : Text -> nat -> list tok -> bool.
Variable sc_end : Text -> nat -> list tok -> pend Err -> option nat.

Let run_op := run_op mk_scanner mk_callback mk_search at_end ntfuel init_ls iter search sc_want sc_end.
Let run_hist := run_hist mk_scanner mk_callback mk_search at_end ntfuel init_ls iter search sc_want sc_end.
Let op_pure := op_pure mk_scanner mk_callback mk_search at_end ntfuel init_ls iter search sc_want sc_end.
Let coherent := coherent Conf Sc CB mk_scanner mk_callback mk_search.

(* After every history of parse / lex / parse_interactive / scan calls - each consumed as far as an
   arbitrary consumer [want] asks, i.e. completed, failed or abandoned after any number of tokens or
   matches - and of other instances being used, every lazy cell of every BasicLexer of the instance
   is unset or holds exactly what its builder returns for the immutable configuration, and a
   published scanner comes with a published callback table. *)
Theorem C10_coherent_inv (fuel : nat) (cf : iconf Conf) (h : list (op Text)) :
  coherent cf (run_hist fuel cf (fresh Sc CB) h).
Proof. apply coherent_inv. exact (coherent_fresh Conf Sc CB mk_scanner mk_callback mk_search LexSt Err Text iter search cf). Qed.

(* What a call delivers to its consumer (tokens, how the stream ended, scan attempts) after any
   history equals what it delivers on a fresh instance ... *)
Theorem C10_history (fuel : nat) (cf : iconf Conf) (h : list (op Text)) (o : op Text) :
  snd (run_op fuel cf (run_hist fuel cf (fresh Sc CB) h) o) = snd (run_op fuel cf (fresh Sc CB) o).
Proof. apply history_independent. Qed.

(* ... namely the pure function [op_pure] of configuration and arguments, which reads no state. *)
Theorem C10_history_pure (fuel : nat) (cf : iconf Conf) (h : list (op Text)) (o : op Text) :
  snd (run_op fuel cf (run_hist fuel cf (fresh Sc CB) h) o) = op_pure fuel cf o.
Proof. apply history_pure. Qed.

(* per_call_state_fresh: the only state a call reads are the coherent cells - two instances of the
   same configuration in any two reachable states answer alike. *)
Theorem C10_per_call_state_fresh (fuel : nat) (cf : iconf Conf) (s1 s2 : inst Sc CB) (o : op Text) :
  coherent cf s1 -> coherent cf s2 -> snd (run_op fuel cf s1 o) = snd (run_op fuel cf s2 o).
Proof. apply any_coherent_state. Qed.
End Sequential.
Print Assumptions C10_coherent_inv.
Print Assumptions C10_history.
Print Assumptions C10_history_pure.
Print Assumptions C10_per_call_state_fresh.

Section Process.
(* the process: all instances created so far and lark's own process-wide cell (the grammar-of-grammars parser) *)
Variables Conf Sc CB LexSt Err Text : Type.
Variable mk_scanner : Conf -> Sc.
Variable mk_callback : Conf -> CB.
Variable mk_search : Conf -> Sc.
Variable at_end : LexSt -> bool.
Variable ntfuel : LexSt -> nat.
Variable init_ls : Text -> nat -> LexSt.
Variable iter : Conf -> Sc -> CB -> LexSt -> iter_res LexSt Err.
Variable search : Sc -> Text -> nat -> option nat.
Variable sc_want : Text -> nat -> list tok -> bool.
Variable sc_end : Text -> nat -> list tok -> pend Err -> option nat.
Variables GP Src : Type.
Variable mk_gp : GP.
Variable compile : GP -> Src -> option (iconf Conf).

Let wstep := wstep mk_scanner mk_callback mk_search at_end ntfuel init_ls iter search sc_want sc_end mk_gp compile.
Let wrun := wrun mk_scanner mk_callback mk_search at_end ntfuel init_ls iter search sc_want sc_end mk_gp compile.
Let op_pure := op_pure mk_scanner mk_callback mk_search at_end ntfuel init_ls iter search sc_want sc_end.

(* Other instances: after any history of the process - other instances constructed (successfully or not) and used in
   any way, earlier calls on this one - a call on an instance delivers the pure function of that instance's own
   configuration and the call's arguments. *)
Theorem C10_other_instances (fuel : nat) (h : list (wevent Text Src)) (i : nat) (cf : iconf Conf) (s : inst Sc CB) (o : op Text) :
  nth_error (w_insts (wrun fuel (world0 Conf Sc CB GP) h)) i = Some (cf, s) ->
  snd (wstep fuel (wrun fuel (world0 Conf Sc CB GP) h) (WCall Src i o)) = WResult (op_pure fuel cf o).
Proof. apply other_instances. Qed.

(* Construction after any history: fails, or yields a fresh instance whose configuration is what compiling the source
   with the constant grammar-of-grammars parser gives. *)
Theorem C10_construction_pure (fuel : nat) (h : list (wevent Text Src)) (src : Src) :
  let w := wrun fuel (world0 Conf Sc CB GP) h in
  match compile mk_gp src with
  | None => snd (wstep fuel w (WNew Text src)) = WFailed _
  | Some cf => snd (wstep fuel w (WNew Text src)) = WCreated _ (List.length (w_insts w)) /\
               nth_error (w_insts (fst (wstep fuel w (WNew Text src)))) (List.length (w_insts w)) = Some (cf, fresh Sc CB)
  end.
Proof. apply construction_pure. Qed.

(* No event of the process changes the configuration of an existing instance. *)
Theorem C10_configuration_immutable (fuel : nat) (e : wevent Text Src) (w : world Conf Sc CB GP) (i : nat)
        (cf : iconf Conf) (s : inst Sc CB) :
  nth_error (w_insts w) i = Some (cf, s) ->
  exists s', nth_error (w_insts (fst (wstep fuel w e))) i = Some (cf, s').
Proof. apply configuration_immutable. Qed.
End Process.
Print Assumptions C10_other_instances.
Print Assumptions C10_construction_pure.
Print Assumptions C10_configuration_immutable.

(* Per-call freshness as a theorem over regenerated facts.  Gen/InstWrites.v lists - for every function that can run
   during parse()/lex()/scan()/parse_interactive() or a session method of an interactive parser (name-based
   over-approximation of the call graph from the entry points, ParseTreeBuilder / lexer callbacks and all dunder methods
   included) - every store it can make, with the root of its access path; the containers a class builds for itself that
   leave it by reference; the mutable default arguments; and every lazily initialised attribute of lark.  The four
   finite checks say: a store through `self` outside a constructor, in a class of which the instance may hold an
   object, hits a cell of the instance model (lexer cells, Indenter state, width cache) or of a value object (Tree);
   stores through parameters / call results are fresh-by-construction or reviewed; no such container escapes except
   into a reading builtin; no unreviewed mutable default; every lazy cell is known and re-reads the attribute.  Read on
   an abstract aheap: whatever a call - any sequence of stores licensed by the facts - changes in an object held by the
   instance is one of those cells.  A new store into instance state on a parse path (a LexerState cached on the
   front-end, a memo in EarleyRegexpMatcher.match, a shared placeholder list handed to the node builder) makes a check
   false: the proof no longer builds. *)
Theorem C10_parse_paths_write_only_per_call_objects :
  stores_ok = true /\ escapes_ok = true /\ defaults_ok = true /\ lazy_ok = true /\
  forall (objs : nat -> obj) (tr : list stev) (h : aheap) (o : nat) (a : string),
    typed objs -> Forall (licensed objs) tr -> o_held (objs o) = true ->
    exec tr h (o, a) <> h (o, a) ->
    exists c, In (c, a) (modelled_cells ++ value_cells) /\
              exists s, In s stores /\ s_cls s = c /\ In (o_cls (objs o)) (s_family s).
Proof. exact parse_paths_write_only_per_call_objects. Qed.
Print Assumptions C10_parse_paths_write_only_per_call_objects.

(* exactly these cells: the state of Inst/Instance.v (plus the width cache and the two Tree cells) *)
Theorem C10_writable_cells_exact :
  writable_held_cells =
  [ ("Indenter", "indent_level"); ("Indenter", "paren_level"); ("BasicLexer", "callback"); ("BasicLexer", "_scanner");
    ("BasicLexer", "_search_scanner"); ("PatternRE", "_width"); ("Tree", "children"); ("Tree", "_meta") ]%string.
Proof. exact writable_held_cells_exact. Qed.
Print Assumptions C10_writable_cells_exact.

Section Lifted.
(* The parsers are no longer consumers that cannot see the instance: the operation of every call (hence the demand of the
   LALR / Earley / CYK parser, which reads its tables, callbacks and configuration) is a function of the aheap at the
   start of the call, every call executes an arbitrary trace of licensed stores, and the probe reads only what the
   instance holds outside the writable cells.  After any such history the probe delivers the pure function of the
   configuration and of its reading of the INITIAL aheap. *)
Variables Conf Sc CB LexSt Err Text : Type.
Variable mk_scanner : Conf -> Sc.
Variable mk_callback : Conf -> CB.
Variable mk_search : Conf -> Sc.
Variable at_end : LexSt -> bool.
Variable ntfuel : LexSt -> nat.
Variable init_ls : Text -> nat -> LexSt.
Variable iter : Conf -> Sc -> CB -> LexSt -> iter_res LexSt Err.
Variable search : Sc -> Text -> nat -> option nat.
Variable sc_want : Text -> nat -> list tok -> bool.
Variable sc_end : Text -> nat -> list tok -> pend Err -> option nat.
Variable objs : nat -> obj.

Let run_op := run_op mk_scanner mk_callback mk_search at_end ntfuel init_ls iter search sc_want sc_end.
Let op_pure := op_pure mk_scanner mk_callback mk_search at_end ntfuel init_ls iter search sc_want sc_end.
Let hrun := hrun Conf Sc CB LexSt Err Text mk_scanner mk_callback mk_search at_end ntfuel init_ls iter search sc_want sc_end.

Theorem C10_history_pure_heap (fuel : nat) (cf : iconf Conf) (cs : list (hcall Text)) (h0 : aheap)
        (probe : aheap -> op Text) :
  Forall (fun c => Forall (licensed objs) (hc_trace Text c)) cs -> frame_only Text objs probe ->
  snd (run_op fuel cf (fst (hrun fuel cf (fresh Sc CB) h0 cs)) (probe (snd (hrun fuel cf (fresh Sc CB) h0 cs))))
  = op_pure fuel cf (probe h0).
Proof. apply history_pure_heap. Qed.
End Lifted.
Print Assumptions C10_history_pure_heap.

(* The other lazily initialised cells (search_scanner, PatternRE._width - and scanner itself, seen as a value cell):
   for every schedule of any number of threads, each calling the getter any number of times, every call returns a
   value with the builder's content, never None; a finished thread has made all its calls. *)
Theorem C10_lazy_cells_value_safe (bval : nat) (calls : list nat) (sched : list nat) :
  let g := lrun bval sched (linit calls) in
  (ls_cell (fst g) = None \/ exists id, ls_cell (fst g) = Some (mkV bval id)) /\
  Forall2 (fun c th => Forall (fun r => exists id, r = Some (mkV bval id)) (lt_res th) /\
                       (lt_pc th = LDone -> List.length (lt_res th) = c)) calls (snd g).
Proof. exact (lazy_value_safe bval calls sched). Qed.
Print Assumptions C10_lazy_cells_value_safe.

(* ... but which OBJECT a call returns depends on the schedule: the first of two builds is lost.  This is Tree.meta when
   the user shares one result tree between threads (not instance state; replayed on the implementation). *)
Theorem C10_lazy_identity_race_refuted :
  exists sched, let g := lrun 7 sched (linit [1; 1]) in
    map lt_res (snd g) = [[Some (mkV 7 0)]; [Some (mkV 7 1)]] /\ ls_cell (fst g) = Some (mkV 7 1) /\
    Forall (fun th => lt_pc th = LDone) (snd g).
Proof. exact lazy_identity_race_refuted. Qed.
Print Assumptions C10_lazy_identity_race_refuted.

(* The per-yield Indenter model used above is the regenerated C18 model with the states kept. *)
Theorem C10_indenter_yields_agree cfg ts st : forget (run_steps cfg st ts) = Indenter.run cfg st ts.
Proof. exact (run_steps_run cfg ts st). Qed.
Print Assumptions C10_indenter_yields_agree.

(* Concurrency.  k threads lex their inputs with one shared BasicLexer whose cells are unset; the
   scheduler picks the thread that runs the next line, arbitrarily.  For the publication order the
   code has (Gen/InstOrder.build_order): whatever each thread has produced so far followed by the
   sequential results of the rest of its input is the sequential result of its input (no callback
   skipped, no KeyError, no AttributeError); a finished thread has exactly the sequential result; and
   whenever a thread stands at one of next_token's reads of self.callback the attribute holds the
   complete table. *)
Theorem C10_lazy_init_safe (c : tcfg) (inputs : list (list (key * bool))) (sched : list nat) :
  let g := Threads.run build_order c sched (init inputs) in
  Forall2 (fun inp th =>
             t_res th ++ seq_results c (t_todo th) = seq_results c inp /\
             (t_pc th = PDone -> t_res th = seq_results c inp) /\
             (t_pc th = PTokA \/ t_pc th = PTokB \/ t_pc th = PTokC ->
              cb_table (fst g) = Some (full_table c)))
          inputs (snd g).
Proof. exact (lazy_init_safe_publish_last c inputs sched). Qed.
Print Assumptions C10_lazy_init_safe.

(* the complete table calls every user lexer_callback (alone or chained after an Unless callback) *)
Theorem C10_callbacks_complete (c : tcfg) (k : key) :
  In k (user_keys c) -> lookup k (full_table c) = Some CUser \/ lookup k (full_table c) = Some CChain.
Proof. exact (full_table_has_user c k). Qed.
Print Assumptions C10_callbacks_complete.

(* The order lark had before fix F5 (table published before the user callbacks were added) is not
   safe: a schedule of two threads on which thread 0 finishes with a token that skipped the callback. *)
Theorem C10_lazy_init_race_old_order_refuted :
  exists c inputs sched th,
    nth_error (snd (Threads.run PublishFirst c sched (init inputs))) 0 = Some th /\
    t_pc th = PDone /\ t_res th <> seq_results c (nth 0 inputs []).
Proof. exact lazy_init_race_old_order_refuted. Qed.
Print Assumptions C10_lazy_init_race_old_order_refuted.

(* Indenter.process without its two reset assignments is history dependent: the reset is what
   C10_history rests on for a post-lexer. *)
Theorem C10_no_reset_refuted :
  exists (cf : iconf lconf) (h : list cop) text want,
    let go s := snd (run_parse_noreset MiniLex.mk_scanner MiniLex.mk_callback MiniLex.at_end MiniLex.ntfuel
                       MiniLex.init_ls MiniLex.iter 50 cf s text want) in
    go (c_run_hist 50 cf (fresh _ _) h) <> go (fresh _ _).
Proof.
  exists ex_cf, [op_of (DLex t_block (Some 3))], t_block, (upto None). vm_compute. discriminate.
Qed.
Print Assumptions C10_no_reset_refuted.

(* Non-vacuity: a concrete indentation-sensitive instance with a user callback chained after an
   Unless callback; after a history with a lexer failure, an abandoned stream, a parse stopped inside
   brackets, another instance and an unused interactive session, the probe delivers INDENT/DEDENT and
   callback-transformed tokens - the same as on a fresh instance - and the cells are coherent. *)
Example C10_example :
  let s := c_run_hist 50 ex_cf (fresh _ _) ex_hist in
  ind s = mkSt 2 [0%Z] /\
  is_some (c_scanner (cells s 0)) = true /\
  option_map (map fst) (c_callback (cells s 0)) = Some ["NAME"%string] /\
  snd (c_run_op 50 ex_cf s ex_probe) = snd (c_run_op 50 ex_cf (fresh _ _) ex_probe) /\
  match snd (c_run_op 50 ex_cf s ex_probe) with
  | ObsStream toks (EEof _ Done) =>
      map ttype toks = ["NAME"; "_NL"; "_INDENT"; "IF"; "NAME"; "_NL"; "_DEDENT"; "NAME"]%string /\
      map tval (filter (fun t => String.eqb (ttype t) "NAME") toks) = ["A"; "B"; "C"]%string
  | _ => False
  end.
Proof. vm_compute. repeat split; reflexivity. Qed.

(* ... and a run of three threads under an adversarial schedule *)
Example C10_example_threads :
  let c := mkTcfg ["NAME"%string] ["NAME"%string; "NUM"%string] in
  let inputs := [[("NAME"%string, false); ("WS"%string, true)]; [("NUM"%string, false)]; [("NAME"%string, false)]] in
  map t_res (snd (Threads.run build_order c [0;1;2;0;1;2;0;1;2;2;2;1;1;0;0;0;1;1;2;2;2;0;0;0;0;1;1;1;0;0;0;0;0;0] (init inputs)))
  = [[("NAME"%string, TApplied CChain); ("WS"%string, TDropped)]; [("NUM"%string, TApplied CUser)];
     [("NAME"%string, TApplied CChain)]].
Proof. vm_compute. reflexivity. Qed.

(* ... and a process with two instances: an indentation-sensitive one and a flat one without post-lexer are created and
   used alternately (abandoned and failing calls included); the probe on the first equals the pure function *)
Definition ex_cf2 : iconf lconf := basic_conf ex_lconf None false true.
Definition ex_events : list (wevent string (iconf lconf)) :=
  [ WNew string ex_cf; WCall _ 0 (op_of (DLex t_block (Some 3))); WNew string ex_cf2;
    WCall _ 1 (op_of (DParse "( a ?" None)); WCall _ 0 (op_of (DParse "( a ( b" (Some 4))); WCall _ 1 (op_of (DScan "a ( b" (Some 1))) ].
Example C10_example_process :
  let step := wstep MiniLex.mk_scanner MiniLex.mk_callback MiniLex.mk_search MiniLex.at_end MiniLex.ntfuel MiniLex.init_ls
                    MiniLex.iter ssearch c_sc_want c_sc_end tt (fun _ cf => Some cf) in
  let w := fold_left (fun w e => fst (step 50 w e)) ex_events (world0 lconf scanner cbtable unit) in
  List.length (w_insts w) = 2 /\
  snd (step 50 w (WCall _ 0 ex_probe)) = WResult (snd (c_run_op 50 ex_cf (fresh _ _) ex_probe)) /\
  option_map (fun p => ind (snd p)) (nth_error (w_insts w) 0) = Some (mkSt 2 [0%Z]).
Proof. vm_compute. repeat split; reflexivity. Qed.

(* ... and a call on a heap: object 0 is the instance's BasicLexer, 1 a ParserState of this call, 2 the front-end.  The
   trace (the lexer publishes its scanner, the parser pushes a value, a LexerState is created) is licensed by the
   regenerated facts; the scanner cell changes, the front-end's parser and the lexer's terminals do not. *)
Definition ex_objs (o : nat) : obj :=
  match o with
  | 0 => mkObj "BasicLexer" true | 2 => mkObj "ParsingFrontend" true
  | 1 => mkObj "ParserState" false | _ => mkObj "LexerState" false
  end%string.
Definition ex_trace : list stev :=
  [ mkW "lark/lexer.py:LexerState.__init__" 3 "text" 4;
    mkW "lark/lexer.py:BasicLexer._build_scanner" 0 "callback" 6;
    mkW "lark/lexer.py:BasicLexer.scanner" 0 "_scanner" 5;
    mkW "lark/parsers/lalr_parser_state.py:ParserState.feed_token" 1 "value_stack" 9 ]%string.
Example C10_example_heap :
  typed ex_objs /\ Forall (licensed ex_objs) ex_trace /\
  let h0 : aheap := fun _ => 0 in
  exec ex_trace h0 (0, "_scanner"%string) = 5 /\ exec ex_trace h0 (0, "terminals"%string) = 0 /\
  exec ex_trace h0 (2, "parser"%string) = 0 /\
  writable "BasicLexer" "terminals" = false /\ writable "ParsingFrontend" "parser" = false /\
  licensedb ex_objs (mkW "lark/parser_frontends.py:ParsingFrontend.parse" 2 "lexer_state" 1) = false.
Proof.
  split.
  - intros o H. destruct o as [|[|[|o]]]; cbn in H; try discriminate; vm_compute; tauto.
  - split.
    + repeat constructor; apply licensedb_sound; vm_compute; reflexivity.
    + vm_compute. repeat split; reflexivity.
Qed.
