(* C12 - the grammar cache is only an optimisation, whatever the state of the cache file.
   Property theorems only: each is closed by [exact] of a lemma proved in Cache/Cache_proofs.v or
   Cache/PyRepr_proofs.v about the model Cache/Cache.v (read / write / construct / histories with crashes),
   whose key framing and option sets are regenerated from lark/lark.py (Gen/CacheKey.v).

   [ideal_oracles]: sha256 is a collision-free fixed-length digest (stated as a prefix code, the satisfiable
   form) without newline; pickle is a self-delimiting codec with non-empty output.
   [rest_of_lark]: inside a class [okenv] of file-system states, a construction depends on the file system
   only through the files it records (resolution_stable, build_verifies), and the options left out of the key
   are re-applied on load (runtime_reapplied). *)
From Coq Require Import String List Ascii Bool Arith.
From LV Require Import Cache.Bytes Cache.PyRepr Gen.CacheKey Cache.Cache Cache.PyRepr_proofs Cache.Cache_proofs
  Cache.CacheInstance Cache.CutPickle_proofs Cache.WritePath Cache.WritePath_proofs.
Import ListNotations.

Section Statements.
  Variable R : Type.
  Variable sha : bytes -> bytes.
  Variables D P : Type.
  Variable encU : ufiles -> bytes.
  Variable decU : bytes -> option (ufiles * bytes).
  Variable encD : D -> bytes.
  Variable decD : bytes -> option (D * bytes).
  Variable build : cfg R -> env -> option (built D P).
  Variable load : D -> cfg R -> option P.
  Variable okenv : env -> Prop.
  Notation read := (read R sha D P decU decD load).
  Notation write := (write sha D encU encD).
  Notation run := (run R sha D P encU decU encD decD build load).
  Notation step := (step R sha D P encU decU encD decD build load).
  Notation construct := (construct R sha D P encU decU encD decD build load).
  Notation Inv := (Inv R sha D P encU encD build okenv).

  (* A writer killed at any byte: every strict prefix of a complete cache file is a Miss for every reader. *)
  Theorem C12_trunc_safe :
    ideal_oracles sha D encU decU encD decD ->
    forall k u d n c e, n < length (write k u d) -> read (firstn n (write k u d)) c e = Miss.
  Proof. exact (trunc_safe_b R sha D P encU decU encD decD load). Qed.

  (* A file written under another key is a Miss ... *)
  Theorem C12_key_mismatch_miss :
    ideal_oracles sha D encU decU encD decD ->
    forall k u d c e, key R c <> k -> read (write k u d) c e = Miss.
  Proof. exact (key_mismatch_miss_b R sha D P encU decU encD decD load). Qed.

  (* ... and the key separates configurations: another grammar, another list of hashed options, another lark
     version or another interpreter version. *)
  Theorem C12_key_injective :
    forall c c' : cfg R, key R c = key R c' ->
      (grammar R c, options_items (options R c), version R c, pyver R c) =
      (grammar R c', options_items (options R c'), version R c', pyver R c').
  Proof. exact (key_injective R). Qed.

  Theorem C12_stale_config_miss :
    ideal_oracles sha D encU decU encD decD ->
    forall c0 u d c e, hashed R c <> hashed R c0 -> read (write (key R c0) u d) c e = Miss.
  Proof. exact (stale_config_miss_b R sha D P encU decU encD decD load). Qed.

  (* An imported grammar file whose text changed since the cache was written is a Miss. *)
  Theorem C12_used_files_changed_miss :
    ideal_oracles sha D encU decU encD decD ->
    forall k u d c e p t0 t,
      In (p, sha t0) u -> e p = Some t -> t <> t0 -> read (write k u d) c e = Miss.
  Proof. exact (used_files_changed_miss_b R sha D P encU decU encD decD load). Qed.

  (* The bytes after the header are what was written (F4 repaired): a file whose first line is the header
     written for (k, body) is loaded only if it is that file, byte for byte ... *)
  Theorem C12_body_integrity :
    ideal_oracles sha D encU decU encD decD ->
    forall k Bd f c e p,
      In nl f -> fst (split_line f) = header sha k Bd -> read f c e = Hit p -> f = mk_file sha k Bd.
  Proof. exact (body_integrity_b R sha D P encU decU encD decD load). Qed.

  (* ... so a single changed byte anywhere is a Miss for the configuration the file was written for, and a
     changed byte after the header is a Miss for every configuration. *)
  Theorem C12_byte_edit_miss :
    ideal_oracles sha D encU decU encD decD ->
    forall k u d i b c e,
      i < length (write k u d) -> b <> nth i (write k u d) b ->
      (key R c = k \/ length (header sha k (encU u ++ encD d)) <= i) ->
      read (set_byte i b (write k u d)) c e = Miss.
  Proof. exact (byte_edit_miss_b R sha D P encU decU encD decD load). Qed.

  (* The cache is used: what was written is read back by the same key when the used files still verify. *)
  Theorem C12_read_after_write :
    ideal_oracles sha D encU decU encD decD ->
    forall k u d c e p,
      key R c = k -> verify sha e u = true -> load d c = Some p -> read (write k u d) c e = Hit p.
  Proof. exact (read_write_hit_b R sha D P encU decU encD decD load). Qed.

  (* One construction: the parser returned is the uncached one; the path keeps its invariant; if the grammar
     builds, the file left is a valid cache for this construction (a damaged or stale file was replaced). *)
  Theorem C12_construct_spec :
    ideal_oracles sha D encU decU encD decD -> rest_of_lark R sha D P build load okenv ->
    forall fl c e, okenv e -> Inv fl ->
      fst (construct fl c e) = uncached R D P build c e /\
      Inv (snd (construct fl c e)) /\
      (uncached R D P build c e <> None ->
       valid_for R sha D P encU decU encD decD build load okenv c e (snd (construct fl c e))).
  Proof. exact (construct_spec_b R sha D P encU decU encD decD build load okenv). Qed.

  (* Every history of constructions and crashes (the writer dies after n bytes) against one path, starting from
     an absent file or any prefix of a complete file for any key: the invariant holds throughout, every completed
     construction returns the uncached parser and leaves a valid cache for itself. *)
  Theorem C12_history_inv :
    ideal_oracles sha D encU decU encD decD -> rest_of_lark R sha D P build load okenv ->
    forall h, Forall (fun ev => okenv (eenv R ev)) h -> forall fl, Inv fl ->
      Inv (snd (run fl h)) /\
      forall h1 ev h2, h = h1 ++ ev :: h2 ->
        let fl1 := snd (run fl h1) in
        Inv fl1 /\
        event_ok R sha D P encU decU encD decD build load okenv fl1 ev (fst (step fl1 ev)) (snd (step fl1 ev)).
  Proof. exact (history_inv_b R sha D P encU decU encD decD build load okenv). Qed.

  (* ---- the write path as coded (round 12): open('wb') / atomicwrites, the regenerated sequence of write calls ---- *)
  Notation wcalls := (wcalls sha D encU encD).

  (* The write calls regenerated from the source (Gen/CacheKey.v write_calls), concatenated, are the file of the model. *)
  Theorem C12_write_calls_file :
    forall k u d, concat (wcalls k u d) = write k u d.
  Proof. exact (concat_wcalls sha D encU encD). Qed.

  (* A writer that dies at any point - before the open, while the body is pickled, between two write calls, inside one -
     under plain open() (operating-system model: truncate, then writes at the writer's offset) or under atomicwrites
     (rename on close): the path keeps its invariant, every later reader gets a Miss or exactly the uncached parser, and
     the next construction returns the uncached parser and leaves a valid cache. *)
  Theorem C12_crash_anywhere_miss_or_correct :
    ideal_oracles sha D encU decU encD decD -> rest_of_lark R sha D P build load okenv ->
    forall s fl c e b cp, okenv e -> Inv fl -> build c e = Some b ->
      let fl' := crash_file s fl (wcalls (key R c) (bused D P b) (bdata D P b)) cp in
      Inv fl' /\
      forall c' e', okenv e' ->
        match lookup R sha D P decU decD load fl' c' e' with
        | Hit p => uncached R D P build c' e' = Some p
        | Miss => True
        end /\
        fst (construct fl' c' e') = uncached R D P build c' e' /\
        (uncached R D P build c' e' <> None ->
         valid_for R sha D P encU decU encD decD build load okenv c' e' (snd (construct fl' c' e'))).
  Proof. exact (crash_anywhere_miss_or_correct R sha D P encU decU encD decD build load okenv). Qed.

  (* "a crash leaves a prefix" is a consequence of the operating-system model, no longer an assumption ... *)
  Theorem C12_crash_plain_prefix :
    forall fl k u d cp,
      crash_file Plain fl (wcalls k u d) cp = fl \/
      exists n, crash_file Plain fl (wcalls k u d) cp = Some (firstn n (write k u d)).
  Proof. exact (crash_plain_prefix sha D encU encD). Qed.

  (* ... and under atomicwrites a crash leaves the old file (or no file). *)
  Theorem C12_crash_atomic_old :
    forall fl calls cp, crash_file Atomic fl calls cp = fl.
  Proof. exact crash_file_atomic. Qed.

  (* Histories whose events carry the kind of FS.open and a crash point. *)
  Theorem C12_history_crashpoints_inv :
    ideal_oracles sha D encU decU encD decD -> rest_of_lark R sha D P build load okenv ->
    forall h, Forall (fun ev => okenv (e2env R ev)) h -> forall fl, Inv fl ->
      Inv (snd (run2 R sha D P encU decU encD decD build load fl h)) /\
      forall h1 ev h2, h = h1 ++ ev :: h2 ->
        let fl1 := snd (run2 R sha D P encU decU encD decD build load fl h1) in
        Inv fl1 /\
        event2_ok R sha D P encU decU encD decD build load okenv ev
          (fst (step2 R sha D P encU decU encD decD build load fl1 ev))
          (snd (step2 R sha D P encU decU encD decD build load fl1 ev)).
  Proof. exact (history2_inv R sha D P encU decU encD decD build load okenv). Qed.
End Statements.

Print Assumptions C12_trunc_safe.
Print Assumptions C12_key_mismatch_miss.
Print Assumptions C12_key_injective.
Print Assumptions C12_stale_config_miss.
Print Assumptions C12_used_files_changed_miss.
Print Assumptions C12_body_integrity.
Print Assumptions C12_byte_edit_miss.
Print Assumptions C12_read_after_write.
Print Assumptions C12_construct_spec.
Print Assumptions C12_history_inv.
Print Assumptions C12_write_calls_file.
Print Assumptions C12_crash_anywhere_miss_or_correct.
Print Assumptions C12_crash_plain_prefix.
Print Assumptions C12_crash_atomic_old.
Print Assumptions C12_history_crashpoints_inv.

(* A cut pickle under a header recomputed for it (the digests agree): unpickling a strict prefix fails and the
   failure is a Miss - independent of any property of the digest.  This is what `except Exception` is for. *)
Theorem C12_cut_pickle_miss :
  forall (R : Type) (sha : bytes -> bytes) (D P : Type) (encU : ufiles -> bytes)
         (decU : bytes -> option (ufiles * bytes)) (encD : D -> bytes) (decD : bytes -> option (D * bytes))
         (load : D -> cfg R -> option P),
    (forall a, ~ In nl (sha a)) -> (forall u r, decU (encU u ++ r) = Some (u, r)) ->
    prefix_fails encU decU -> prefix_fails encD decD ->
    forall k u d n c e, n < length (encU u ++ encD d) ->
      read R sha D P decU decD load (mk_file sha k (firstn n (encU u ++ encD d))) c e = Miss.
Proof. exact cut_pickle_miss. Qed.
Print Assumptions C12_cut_pickle_miss.

(* The framing used before the repair of F3 (plain concatenation of grammar, k+str(v), version) is not
   injective: the witness of F3. *)
Theorem C12_concat_framing_refuted :
  exists g o g' o' v p, (g, o) <> (g', o') /\ key_concat g o v p = key_concat g' o' v p.
Proof. exact key_concat_not_injective. Qed.
Print Assumptions C12_concat_framing_refuted.

(* The options left out of the key are exactly the five object-valued ones ... *)
Theorem C12_unhashable_are_objects :
  forall n, In n unhashable ->
    In n ["transformer"; "postlex"; "lexer_callbacks"; "edit_terminals"; "_plugins"]%string.
Proof. exact unhashable_objects. Qed.
Print Assumptions C12_unhashable_are_objects.

(* ... but not all of them are re-applied when a parser is loaded: hypothesis runtime_reapplied cannot hold
   for edit_terminals (finding F15). *)
Theorem C12_unhashable_reapplied_refuted :
  exists n, In n unhashable /\ ~ In n load_allowed.
Proof. exact unhashable_not_reapplied. Qed.
Print Assumptions C12_unhashable_reapplied_refuted.

(* ---- non-vacuity: a concrete system satisfying every hypothesis, and a history on it ------------------ *)
Example C12_instance_ideal : ideal_oracles t_sha bytes t_encU t_decU enc_b dec_b.
Proof. exact t_ideal. Qed.

Example C12_instance_rest : rest_of_lark bool t_sha bytes t_P t_build t_load t_okenv.
Proof. exact t_rest. Qed.

(* build; hit under another run-time option; other hashed option: rebuild; import edited and the writer killed
   after 40 bytes: no result; truncated file: rebuild *)
Example C12_example_history :
  fst t_run = [parser_of "start: X" "X: ""x""" false; parser_of "start: X" "X: ""x""" true;
               parser_of "start: X" "X: ""x""" true; None; parser_of "start: X" "X: ""y""" false].
Proof. vm_compute. reflexivity. Qed.

Example C12_instance_prefix_fails : prefix_fails t_encU t_decU /\ prefix_fails enc_b dec_b.
Proof. exact (conj t_decU_prefix dec_b_prefix). Qed.

Example C12_example_history_inv :
  Inv bool t_sha bytes t_P t_encU enc_b t_build t_okenv (snd t_run).
Proof.
  refine (proj1 (C12_history_inv bool t_sha bytes t_P t_encU t_decU enc_b dec_b t_build t_load t_okenv
                                 t_ideal t_rest t_history _ None (or_introl eq_refl))).
  repeat constructor; discriminate.
Qed.
Print Assumptions C12_example_history_inv.

(* a history with crash points under both kinds of FS.open: build; the import is edited and the plain writer dies inside
   the header write (65 bytes): no result, a prefix is left; rebuild; another hashed option and the atomic writer dies
   after both writes, before the rename: no result, the OLD file is still there and is served to its own configuration *)
Definition t_history2 : list (event2 bool) := [
  mkEv2 bool (t_cfg "start: X"%string "False"%string false) (t_env "X: ""x"""%string) Plain None;
  mkEv2 bool (t_cfg "start: X"%string "False"%string false) (t_env "X: ""y"""%string) Plain (Some (CInWrite 0 65));
  mkEv2 bool (t_cfg "start: X"%string "False"%string true)  (t_env "X: ""y"""%string) Plain None;
  mkEv2 bool (t_cfg "start: X"%string "True"%string true)   (t_env "X: ""y"""%string) Atomic (Some (CInWrite 2 0));
  mkEv2 bool (t_cfg "start: X"%string "False"%string false) (t_env "X: ""y"""%string) Atomic None ].

Definition t_run2 := run2 bool t_sha bytes t_P t_encU t_decU enc_b dec_b t_build t_load None t_history2.

Example C12_example_history_crashpoints :
  fst t_run2 = [parser_of "start: X" "X: ""x""" false; None; parser_of "start: X" "X: ""y""" true; None;
                parser_of "start: X" "X: ""y""" false] /\
  snd t_run2 = snd (run2 bool t_sha bytes t_P t_encU t_decU enc_b dec_b t_build t_load None (firstn 3 t_history2)).
Proof. vm_compute. split; reflexivity. Qed.

Example C12_example_history_crashpoints_inv :
  Inv bool t_sha bytes t_P t_encU enc_b t_build t_okenv (snd t_run2).
Proof.
  refine (proj1 (C12_history_crashpoints_inv bool t_sha bytes t_P t_encU t_decU enc_b dec_b t_build t_load t_okenv
                                             t_ideal t_rest t_history2 _ None (or_introl eq_refl))).
  repeat constructor; discriminate.
Qed.
Print Assumptions C12_example_history_crashpoints_inv.
