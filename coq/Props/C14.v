(* C14 - scan() yields leftmost-longest non-overlapping matches consistent with parse().
   Property theorems only: each is closed by [exact] of a lemma of Scan/Scan_proofs.v about the model
   Scan/Scan.v of ParsingFrontend._scan.  The lexer, the LALR driver and Python's regex engine are oracles
   of the model (arguments below); the harness observes them from the running code and checks by vm_compute
   that the model loop reproduces every observed turn of the real loop.

   oracles:  search       lexer.search_start(text_slice, start_state, pos)
             lex_from m   everything the lexer matches from m on (ignored tokens flagged)
             feed_ok l    feeding exactly the tokens l from the start state raises nothing
             end_choice l / end_trial l     '$END' in choices() / the trial feed of $END succeeds, after l
             parse_tokens l                 replay of l with the real callbacks + feed_eof
             snip_tokens s e                tokens produced by lexing + feeding text[s:e] alone (None = error) *)
From Coq Require Import List Arith Bool Lia.
From LV Require Import Gen.ScanHoles Scan.Scan Scan.Scan_proofs Scan.ScanCheck.
Import ListNotations.

(* The loop stops because a search fails, never because the fuel [wb + 2 - wa] runs out. *)
Theorem C14_scan_terminates isnl wa wb search lex_from feed_ok end_choice end_trial :
  (forall p m, search p = Some m -> p <= m /\ m <= wb) ->
  (forall m, chain wb m (lex_from m)) -> wa <= wb ->
  exists final, snd (scan_iters isnl wa wb search lex_from feed_ok end_choice end_trial) = Some final.
Proof. exact (scan_terminates isnl wa wb search lex_from feed_ok end_choice end_trial). Qed.
Print Assumptions C14_scan_terminates.

(* Above the bound the amount of fuel does not matter: the model is the while-loop, not an approximation of it. *)
Theorem C14_fuel_irrelevant isnl wb search lex_from feed_ok end_choice end_trial :
  (forall p m, search p = Some m -> p <= m /\ m <= wb) ->
  (forall m, chain wb m (lex_from m)) ->
  forall f1 f2 pos lc, wb + 2 - pos <= f1 -> wb + 2 - pos <= f2 -> pos <= wb + 1 ->
  loop isnl search lex_from feed_ok end_choice end_trial f1 pos lc =
  loop isnl search lex_from feed_ok end_choice end_trial f2 pos lc.
Proof. exact (loop_fuel_irrelevant isnl wb search lex_from feed_ok end_choice end_trial). Qed.
Print Assumptions C14_fuel_irrelevant.

(* Matches are non-empty, inside the window, strictly increasing and non-overlapping; the search position
   strictly increases from turn to turn (pos <= match_start < next pos <= wb + 1). *)
Theorem C14_scan_ordered (value : Type) isnl wa wb search lex_from feed_ok end_choice end_trial
        (parse_tokens : list tok -> value) :
  (forall p m, search p = Some m -> p <= m /\ m <= wb) ->
  (forall m, chain wb m (lex_from m)) -> wa <= wb ->
  ordered value wb wa (scan value isnl wa wb search lex_from feed_ok end_choice end_trial parse_tokens) /\
  turns_increase wb wa (fst (scan_iters isnl wa wb search lex_from feed_ok end_choice end_trial)).
Proof. exact (scan_ordered value isnl wa wb search lex_from feed_ok end_choice end_trial parse_tokens). Qed.
Print Assumptions C14_scan_ordered.

(* A match's range is (start of its first token, end of its last token); these tokens are non-ignored tokens of
   the stream lexed from match_start, the first one is the first non-ignored token of that stream, and every
   ignored token of the stream lies wholly before, wholly inside or wholly after the range. *)
Theorem C14_scan_no_ignored_edges (value : Type) isnl wa wb search lex_from feed_ok end_choice end_trial
        (parse_tokens : list tok -> value) :
  (forall m, chain wb m (lex_from m)) -> wa <= wb ->
  forall it, In it (fst (scan_iters isnl wa wb search lex_from feed_ok end_choice end_trial)) ->
  forall t r, it_acc it = t :: r ->
  let s := tk_start t in let e := tk_end (last_tok t r) in
  match_of value parse_tokens it = [(s, e, parse_tokens (it_acc it))] /\
  (exists rest, main_stream lex_from (it_m it) = it_acc it ++ rest) /\
  Forall (fun u => tk_ign u = false) (it_acc it) /\
  In t (lex_from (it_m it)) /\ In (last_tok t r) (lex_from (it_m it)) /\
  (exists pre post, lex_from (it_m it) = pre ++ t :: post /\ Forall (fun u => tk_ign u = true) pre) /\
  (forall u, In u (lex_from (it_m it)) -> tk_ign u = true ->
     tk_end u <= s \/ (s <= tk_start u /\ tk_end u <= e) \/ e <= tk_start u).
Proof. exact (scan_no_ignored_edges value isnl wa wb search lex_from feed_ok end_choice end_trial parse_tokens). Qed.
Print Assumptions C14_scan_no_ignored_edges.

(* The line counter handed to every mid-text parse is the true (line, line_start_pos) of match_start in the
   full text. *)
Theorem C14_scan_positions_global isnl wa wb search lex_from feed_ok end_choice end_trial :
  (forall p m, search p = Some m -> p <= m /\ m <= wb) ->
  (forall m, chain wb m (lex_from m)) -> wa <= wb ->
  Forall (fun it => it_lc it = coord isnl (it_m it))
         (fst (scan_iters isnl wa wb search lex_from feed_ok end_choice end_trial)).
Proof. exact (scan_positions_global isnl wa wb search lex_from feed_ok end_choice end_trial). Qed.
Print Assumptions C14_scan_positions_global.

(* [coord] is what it should be, and LineCounter.advance_to / from_text_slice maintain it. *)
Theorem C14_line_counter isnl :
  (forall a, from_text_slice isnl a = coord isnl a) /\
  (forall q p, q <= p -> advance_to isnl (coord isnl q) p = coord isnl p) /\
  (forall p, line_of isnl p = 1 + count_nl isnl 0 p) /\
  (forall p, lsp_of isnl p <= p /\ (lsp_of isnl p = 0 \/ isnl (lsp_of isnl p - 1) = true) /\
             forall i, lsp_of isnl p <= i -> i < p -> isnl i = false).
Proof.
  exact (conj (from_text_slice_coord isnl)
        (conj (advance_to_coord isnl)
        (conj (fun p => eq_refl)
              (fun p => conj (lsp_of_le isnl p) (conj (lsp_of_after_newline isnl p) (lsp_of_no_newline_after isnl p)))))).
Qed.
Print Assumptions C14_line_counter.

(* Every turn: matched_tokens is the longest prefix of the token stream from match_start that the parser can
   be fed, and the replayed prefix is the longest prefix of matched_tokens after which $END is accepted
   (empty iff there is none).  [iter_ok] spells this out. *)
Theorem C14_scan_longest_wrt_tokens isnl wa wb search lex_from feed_ok end_choice end_trial :
  Forall (fun it =>
    search (it_pos it) = Some (it_m it) /\
    exists tail k,
      main_stream lex_from (it_m it) = it_fed it ++ tail /\
      (forall j, 0 < j <= length (it_fed it) -> feed_ok (firstn j (it_fed it)) = true) /\
      (tail = [] \/ exists t tl, tail = t :: tl /\ feed_ok (it_fed it ++ [t]) = false) /\
      it_acc it = firstn k (it_fed it) /\ k <= length (it_fed it) /\
      (k = 0 \/ accepts_end end_choice end_trial (firstn k (it_fed it)) = true) /\
      (forall j, k < j <= length (it_fed it) -> accepts_end end_choice end_trial (firstn j (it_fed it)) = false))
    (fst (scan_iters isnl wa wb search lex_from feed_ok end_choice end_trial)).
Proof. exact (scan_longest_wrt_tokens isnl wa wb search lex_from feed_ok end_choice end_trial). Qed.
Print Assumptions C14_scan_longest_wrt_tokens.

(* Under H_stable (prefix -> snippet): the value of a match is parse(text[start:end]). *)
Theorem C14_scan_value_eq_parse (value : Type) isnl wa wb search lex_from feed_ok end_choice end_trial
        (parse_tokens : list tok -> value) snip_tokens :
  wa <= wb ->
  H_stable_prefix_to_snippet lex_from feed_ok snip_tokens ->
  forall s e v, In (s, e, v) (scan value isnl wa wb search lex_from feed_ok end_choice end_trial parse_tokens) ->
  parse_snip value end_choice end_trial parse_tokens snip_tokens s e = Some v.
Proof.
  intros H. exact (scan_value_eq_parse value isnl wa wb search lex_from feed_ok end_choice end_trial parse_tokens H snip_tokens).
Qed.
Print Assumptions C14_scan_value_eq_parse.

(* Under H_stable (snippet -> prefix): no longer snippet from the same start parses. *)
Theorem C14_scan_longest (value : Type) isnl wa wb search lex_from feed_ok end_choice end_trial
        (parse_tokens : list tok -> value) snip_tokens :
  (forall p m, search p = Some m -> p <= m /\ m <= wb) ->
  (forall m, chain wb m (lex_from m)) -> wa <= wb ->
  H_feed_prefix_closed feed_ok ->
  H_stable_snippet_to_prefix lex_from feed_ok end_choice end_trial snip_tokens ->
  H_skip search lex_from ->
  forall s e v, In (s, e, v) (scan value isnl wa wb search lex_from feed_ok end_choice end_trial parse_tokens) ->
  forall e' l', snip_tokens s e' = Some l' -> tight s e' l' -> accepts_end end_choice end_trial l' = true -> e' <= e.
Proof.
  intros H1 H2 H3.
  exact (scan_longest value isnl wa wb search lex_from feed_ok end_choice end_trial parse_tokens H1 H2 H3 snip_tokens).
Qed.
Print Assumptions C14_scan_longest.

(* Under H_stable and H_head: every position that starts a snippet that parses (beginning and ending with a
   token) lies inside a reported match - nothing is skipped. *)
Theorem C14_scan_no_miss (value : Type) isnl wa wb search lex_from feed_ok end_choice end_trial
        (parse_tokens : list tok -> value) starts snip_tokens :
  (forall p m, search p = Some m -> p <= m /\ m <= wb) ->
  (forall m, chain wb m (lex_from m)) -> wa <= wb ->
  H_feed_prefix_closed feed_ok ->
  H_stable_snippet_to_prefix lex_from feed_ok end_choice end_trial snip_tokens ->
  H_head search lex_from ->
  H_search_least search starts -> H_search_none wb search starts -> H_starts starts snip_tokens ->
  forall p e l, wa <= p -> e <= wb -> snip_tokens p e = Some l -> tight p e l ->
    accepts_end end_choice end_trial l = true ->
  exists s' e' v, In (s', e', v) (scan value isnl wa wb search lex_from feed_ok end_choice end_trial parse_tokens)
                  /\ s' <= p < e'.
Proof.
  intros H1 H2 H3.
  exact (scan_no_miss value isnl wa wb search lex_from feed_ok end_choice end_trial parse_tokens H1 H2 H3
                      starts snip_tokens).
Qed.
Print Assumptions C14_scan_no_miss.

(* Scanner.search over the non-ignored terminals ([search_of]) meets every hypothesis made about [search]. *)
Theorem C14_search_scanner starts wb :
  (forall p m, search_of starts wb p = Some m -> p <= m /\ m <= wb) /\
  (forall p m, search_of starts wb p = Some m -> starts m = true) /\
  H_search_least (search_of starts wb) starts /\ H_search_none wb (search_of starts wb) starts.
Proof.
  exact (conj (search_of_range starts wb) (conj (search_of_start starts wb)
        (conj (search_of_least starts wb) (search_of_none starts wb)))).
Qed.
Print Assumptions C14_search_scanner.

(* ---- concrete instances (tables dumped from the running code by the harness's observation layer) ---- *)

(* 'start: A B', A: "a", B: "b", ignored WS: /[ \n]+/ ; text "a b\nab" ; terminals A=0 B=1 WS=2 *)
Definition ex_tables : tables :=
  (mkTables 0 6 [3] [0; 4] [(0, [(mkTok 0 0 1 false); (mkTok 2 1 2 true); (mkTok 1 2 3 false); (mkTok 2 3 4 true)]); (4, [(mkTok 0 4 5 false); (mkTok 1 5 6 false)])] [([0], (true, false, false)); ([0; 1], (true, true, true))]).
Definition ex_snips : list (nat * nat * list tok) :=
  [(0, 1, [(mkTok 0 0 1 false)]); (0, 2, [(mkTok 0 0 1 false)]); (0, 3, [(mkTok 0 0 1 false); (mkTok 1 2 3 false)]); (0, 4, [(mkTok 0 0 1 false); (mkTok 1 2 3 false)]); (1, 2, []); (3, 4, []); (3, 5, [(mkTok 0 4 5 false)]); (3, 6, [(mkTok 0 4 5 false); (mkTok 1 5 6 false)]); (4, 5, [(mkTok 0 4 5 false)]); (4, 6, [(mkTok 0 4 5 false); (mkTok 1 5 6 false)])].
Definition ex_case : scase :=
  mkCase ex_tables [(0, 0, (1, 0), 2, 2); (3, 4, (2, 4), 2, 2)] 6 [(0, 3); (4, 6)].

Lemma ex_chain : forall m, chain 6 m (tb_lex ex_tables m).
Proof. intros m. do 5 (destruct m as [|m]; [cbn; repeat split; lia|]). cbn. exact I. Qed.

(* non-vacuity: the hypotheses of the theorems hold on a run with two matches, ignored text between and inside
   them and a newline before the second one; the model reproduces the observed run *)
Example C14_example :
  (forall p m, tb_search ex_tables p = Some m -> p <= m /\ m <= 6) /\
  (forall m, chain 6 m (tb_lex ex_tables m)) /\
  b_feed_prefix_closed ex_tables ex_snips = true /\ b_stable_prefix_to_snippet ex_tables ex_snips = true /\
  b_stable_snippet_to_prefix ex_tables ex_snips = true /\ b_head ex_tables = true /\ b_skip ex_tables = true /\
  b_starts ex_tables ex_snips = true /\
  tb_scan ex_tables = [(0, 3, [mkTok 0 0 1 false; mkTok 1 2 3 false]); (4, 6, [mkTok 0 4 5 false; mkTok 1 5 6 false])] /\
  map (fun it => (it_m it, it_lc it)) (fst (tb_iters ex_tables)) = [(0, mkLC 0 1 0); (4, mkLC 4 2 4)] /\
  b_no_miss ex_tables ex_snips = true /\ check_case ex_case = true.
Proof.
  split; [exact (search_of_range (tb_starts ex_tables) 6)|]. split; [exact ex_chain|].
  vm_compute. repeat split; reflexivity.
Qed.
Print Assumptions C14_example.

(* F8.  'start: A | AB "c"', A: "a", AB: "ab" ; text "abd" ; terminals A=0 AB=1 C=2.
   Without H_stable (snippet -> prefix) scan_no_miss fails: the lexer produces the greedy token AB from
   position 0, so the candidate is rejected although the snippet "a" alone parses. *)
Definition f8_tables : tables :=
  (mkTables 0 3 [] [0] [(0, [(mkTok 1 0 2 false)])] [([1], (true, false, false)); ([0], (true, true, true))]).
Definition f8_snips : list (nat * nat * list tok) :=
  [(0, 1, [(mkTok 0 0 1 false)]); (0, 2, [(mkTok 1 0 2 false)])].

Theorem C14_scan_no_miss_refuted :
  exists (T : tables) (snips : list (nat * nat * list tok)),
    (forall m, chain (t_wb T) m (tb_lex T m)) /\
    b_feed_prefix_closed T snips = true /\ b_stable_prefix_to_snippet T snips = true /\
    b_head T = true /\ b_starts T snips = true /\
    b_stable_snippet_to_prefix T snips = false /\
    tb_scan T = [] /\ tb_parse_snip T snips 0 1 = Some [mkTok 0 0 1 false] /\ b_no_miss T snips = false.
Proof.
  exists f8_tables, f8_snips. split.
  - intros m. do 1 (destruct m as [|m]; [cbn; repeat split; lia|]). cbn. exact I.
  - vm_compute. repeat split; reflexivity.
Qed.
Print Assumptions C14_scan_no_miss_refuted.

(* F28.  'start: A B | X "!"', ignored COMMENT: /x[a-z]*/ and " " ; text "xab ab" ;
   terminals A=0 B=1 BANG=2 COMMENT=3 X=4 SPACE=5.
   H_stable holds, H_head does not: the search stops at 0 (X matches there) but the lexer prefers the ignored
   COMMENT, skips "xab " and the turn reports (4,6); the candidates at 1..3 are never tried although "ab" at
   (1,3) parses. *)
Definition f28_tables : tables :=
  (mkTables 0 6 [] [0; 1; 4] [(0, [(mkTok 3 0 3 true); (mkTok 5 3 4 true); (mkTok 0 4 5 false); (mkTok 1 5 6 false)]); (1, [(mkTok 0 1 2 false); (mkTok 1 2 3 false); (mkTok 5 3 4 true)]); (4, [(mkTok 0 4 5 false); (mkTok 1 5 6 false)])] [([0], (true, false, false)); ([0; 1], (true, true, true))]).
Definition f28_snips : list (nat * nat * list tok) :=
  [(0, 1, []); (0, 2, []); (0, 3, []); (0, 4, []); (0, 5, [(mkTok 0 4 5 false)]); (0, 6, [(mkTok 0 4 5 false); (mkTok 1 5 6 false)]); (1, 2, [(mkTok 0 1 2 false)]); (1, 3, [(mkTok 0 1 2 false); (mkTok 1 2 3 false)]); (1, 4, [(mkTok 0 1 2 false); (mkTok 1 2 3 false)]); (3, 4, []); (3, 5, [(mkTok 0 4 5 false)]); (3, 6, [(mkTok 0 4 5 false); (mkTok 1 5 6 false)]); (4, 5, [(mkTok 0 4 5 false)]); (4, 6, [(mkTok 0 4 5 false); (mkTok 1 5 6 false)])].

Theorem C14_scan_no_miss_head_refuted :
  exists (T : tables) (snips : list (nat * nat * list tok)),
    (forall m, chain (t_wb T) m (tb_lex T m)) /\
    b_feed_prefix_closed T snips = true /\ b_stable_prefix_to_snippet T snips = true /\
    b_stable_snippet_to_prefix T snips = true /\ b_skip T = true /\ b_starts T snips = true /\
    b_head T = false /\
    map (fun m => (fst (fst m), snd (fst m))) (tb_scan T) = [(4, 6)] /\
    tb_parse_snip T snips 1 3 = Some [mkTok 0 1 2 false; mkTok 1 2 3 false] /\ b_no_miss T snips = false.
Proof.
  exists f28_tables, f28_snips. split.
  - intros m. do 5 (destruct m as [|m]; [cbn; repeat split; lia|]). cbn. exact I.
  - vm_compute. repeat split; reflexivity.
Qed.
Print Assumptions C14_scan_no_miss_head_refuted.

(* ================================================================================================== *)
(* Round 6: the oracles instantiated with the models of the other blocks (Scan/ScanInst.v):
     lex_from     := the lexer of Pos/LexCoords.v (C06/C07/C15) over a regex oracle [scan], read position-wise
     feed_ok, end_choice, end_trial := LR/Driver.v (C02) through the token loop of Pos/TreeShift.v
     parse_tokens := Pos/TreeShift.parse_tokens ;  parse(text[s:e]) := Pos/TreeShift.parse_slice on the window
     search       := search_of over the matches [starts] of the search scanner
   What remains assumed is stated about the regex oracle only:
     scan_positive  no zero-width match              scan_bounded  matches end inside the window
     scan_endfree   no look-ahead: cutting the text after the end of a match does not change the match
   plus, for no_miss, the two facts that tie the search scanner to the lexer's scanner (H_nonignored_wins is
   the exclusion of F28) and, per snippet, the decidable condition [boundaryb s e] (lexing the rest of the text
   from s has a token boundary at e: the exclusion of F8 - it is equivalent to H_stable for that snippet). *)
From Coq Require Import ZArith.
From LV Require Import Cfg.Grammar Scan.ScanInst Scan.ScanInst_proofs.
From LV Require Pos.PosBase Pos.Coord Pos.LexCoords Pos.Repr_proofs Pos.TreeShift Shape.Chain LR.Driver
  Inter.Heap Inter.IDriver Inter.IDriver_proofs.

Section C14_instantiated.
Context {A : Type} (eqb : A -> A -> bool) (nl : A).
Variable scan : list nat -> list A -> Z -> Z -> option (nat * nat).
Variable ignore newline_types : nat -> bool.
Variable T : list A.
Variable wa wb : nat.
Variable starts : nat -> bool.
Variable rr : rule -> Chain.rrec.
Variable mp : bool.
Variable tnum : nat -> nat.
Variable end_term : nat.
Variable P : Driver.ptable.
Variable fuel : nat.

(* (1) the lexer model yields the chain / bounds hypothesis ... *)
Theorem C14_lexer_chain_instantiated :
  scan_positive scan T -> scan_bounded scan T -> forall m, chain wb m (lexI scan ignore T wb m).
Proof. exact (lexI_chain scan ignore T wb). Qed.

(* ... and [rawlex] is the lexer of Pos/LexCoords (tokens with the coordinates of the buffer, ignored ones
   dropped), whether the window is entered with a plain TextSlice or with the exact line-counter snapshot the
   scan loop hands over (C14_scan_positions_global) *)
Theorem C14_lexer_model_instantiated s e snap :
  scan_bounded scan T -> s <= e -> e <= length T ->
  (snap = None \/ snap = Some (Coord.line_of eqb nl T s, Coord.line_start_of eqb nl T s)) ->
  LexCoords.lex_slice eqb nl scan ignore newline_types T (Z.of_nat s) (Z.of_nat e) snap =
  (map (retok eqb nl T) (filter nonign (fst (rawlex scan ignore T (S (e - s)) [] s e))),
   outI eqb nl T (snd (rawlex scan ignore T (S (e - s)) [] s e))).
Proof. intros Hb L1 L2. exact (lex_slice_rawlex eqb nl scan ignore newline_types T e Hb L2 s e snap L1 L2). Qed.

(* the mid-text lexer each turn starts - with the line-counter snapshot the loop itself computed - is the lexer
   model of Pos/LexCoords on [match_start, wb): the snapshot is the exact (line, line_start_pos) of Pos/Coord, and
   the tokens it yields are the turn's main stream with the coordinates of the full text *)
Theorem C14_loop_lexer_exact_instantiated :
  scan_positive scan T -> scan_bounded scan T -> wb <= length T -> wa <= wb ->
  forall it, In it (fst (itersI eqb nl scan ignore T wa wb starts tnum end_term P fuel)) ->
  let m := it_m it in
  (Z.of_nat (lc_line (it_lc it)), Z.of_nat (lc_lsp (it_lc it)))
    = (Coord.line_of eqb nl T m, Coord.line_start_of eqb nl T m) /\
  LexCoords.lex_slice eqb nl scan ignore newline_types T (Z.of_nat m) (Z.of_nat wb)
    (Some (Z.of_nat (lc_line (it_lc it)), Z.of_nat (lc_lsp (it_lc it)))) =
  (map (retok eqb nl T) (main_stream (lexI scan ignore T wb) m),
   outI eqb nl T (snd (rawlex scan ignore T (S (wb - m)) [] m wb))).
Proof. exact (loop_lexer_exact eqb nl scan ignore newline_types T wa wb starts tnum end_term P fuel). Qed.

(* (2) the driver: feeding is prefix-closed; the '$END' guard is implied by the trial; and the loop that threads
   ONE parser state and makes the trial on that state is the abstract stunted parse (a trial cannot disturb it) *)
Theorem C14_feed_prefix_closed_instantiated : H_feed_prefix_closed (feed_okI eqb nl T tnum P fuel).
Proof. exact (feed_okI_prefix_closed eqb nl T tnum P fuel). Qed.

Theorem C14_stunted_incremental rest c fed longest :
  fst (drive eqb nl T tnum P fuel fed) = Driver.Shifted c ->
  stunted_inc eqb nl T tnum end_term P fuel c fed longest rest =
  stunted (feed_okI eqb nl T tnum P fuel) (end_choiceI eqb nl T tnum end_term P fuel)
          (end_trialI eqb nl T tnum end_term P fuel) fed longest rest.
Proof. exact (stunted_incremental eqb nl T tnum end_term P fuel rest c fed longest). Qed.

(* (3) H_stable, both halves, from the absence of look-ahead *)
Theorem C14_H_stable_instantiated :
  scan_positive scan T -> scan_bounded scan T -> scan_endfree scan T ->
  H_stable_prefix_to_snippet (lexI scan ignore T wb) (feed_okI eqb nl T tnum P fuel)
                             (snip_tokensI eqb nl scan ignore T tnum P fuel) /\
  H_stable_snippet_to_prefix (lexI scan ignore T wb) (feed_okI eqb nl T tnum P fuel)
                             (end_choiceI eqb nl T tnum end_term P fuel) (end_trialI eqb nl T tnum end_term P fuel)
                             (snip_tokensB eqb nl scan ignore T wb tnum P fuel) /\
  H_skip (searchI wb starts) (lexI scan ignore T wb).
Proof.
  intros H1 H2 H3.
  exact (conj (stable_prefix_to_snippet eqb nl scan ignore T wb tnum P fuel H1 H2 H3)
        (conj (stable_snippet_to_prefix eqb nl scan ignore T wb tnum end_term P fuel H1 H2 H3)
              (skipI scan ignore T wb starts H1 H2))).
Qed.

(* (4) every match is inside the window and its value IS Lark.parse on the window [s, e) of the text - tokens and
   meta carry the coordinates of the full text - namely the tree built from an accepted derivation *)
Theorem C14_scan_value_eq_parse_instantiated :
  scan_positive scan T -> scan_bounded scan T -> scan_endfree scan T -> wb <= length T -> wa <= wb ->
  forall s e v, In (s, e, v) (scanI eqb nl scan ignore T wa wb starts rr mp tnum end_term P fuel) ->
  wa <= s /\ s < e /\ e <= wb /\
  parse_windowI eqb nl scan ignore newline_types T rr mp tnum end_term P fuel s e = v /\
  exists l d, snip_tokensI eqb nl scan ignore T tnum P fuel s e = Some l /\
              end_trialI eqb nl T tnum end_term P fuel l = true /\
              v = match TreeShift.tree_of rr mp d with Some t => TreeShift.RTree t | None => TreeShift.RCrash end.
Proof. exact (scan_value_eq_parse_inst eqb nl scan ignore newline_types T wa wb starts rr mp tnum end_term P fuel). Qed.

(* ... which, for terminals without look-around on the window (H_ctxfree of C15), is parse(text[s:e]) on the
   extracted substring with offsets shifted by s and line / column taken in the full text *)
Theorem C14_scan_value_eq_parse_substring_instantiated :
  scan_positive scan T -> scan_bounded scan T -> scan_endfree scan T -> wb <= length T -> wa <= wb ->
  forall s e v, In (s, e, v) (scanI eqb nl scan ignore T wa wb starts rr mp tnum end_term P fuel) ->
  (forall h (p : nat), s <= p < e ->
     scan h T (Z.of_nat p) (Z.of_nat e) = scan h (Repr_proofs.sub T s e) (Z.of_nat (p - s)) (Z.of_nat (e - s))) ->
  let ln := Repr_proofs.lnT eqb nl T in
  let col := Repr_proofs.colT eqb nl T in
  let zs := Z.of_nat s in
  v = TreeShift.map_presult (LexCoords.shift_tok zs ln col) (TreeShift.shift_trip zs ln col)
        (fun p => ((p + zs)%Z, ln (p + zs)%Z, col (p + zs)%Z))
        (TreeShift.parse_slice rr mp tnum end_term P eqb nl scan ignore newline_types fuel
           (Repr_proofs.sub T s e) 0%Z (Z.of_nat (e - s))).
Proof.
  exact (scan_value_eq_parse_substring_inst eqb nl scan ignore newline_types T wa wb starts rr mp tnum end_term P fuel).
Qed.

(* no longer window from the same start parses, among the windows that begin and end with a token and whose end
   is a token boundary of lexing the rest of the text *)
Theorem C14_scan_longest_instantiated :
  scan_positive scan T -> scan_bounded scan T -> scan_endfree scan T -> wb <= length T -> wa <= wb ->
  forall s e v, In (s, e, v) (scanI eqb nl scan ignore T wa wb starts rr mp tnum end_term P fuel) ->
  forall e' l' v', e' <= wb -> boundaryb scan ignore T wb s e' = true ->
    snip_tokensI eqb nl scan ignore T tnum P fuel s e' = Some l' -> tight s e' l' ->
    parse_windowI eqb nl scan ignore newline_types T rr mp tnum end_term P fuel s e' = TreeShift.RTree v' ->
    e' <= e.
Proof. exact (scan_longest_inst eqb nl scan ignore newline_types T wa wb starts rr mp tnum end_term P fuel). Qed.

(* nothing is skipped: every position that starts such a window that parses lies inside a reported match *)
Theorem C14_scan_no_miss_instantiated :
  scan_positive scan T -> scan_bounded scan T -> scan_endfree scan T -> wb <= length T -> wa <= wb ->
  H_nonignored_wins scan ignore T wb starts -> H_search_covers scan ignore T wb starts ->
  forall p e l v', wa <= p -> e <= wb -> boundaryb scan ignore T wb p e = true ->
    snip_tokensI eqb nl scan ignore T tnum P fuel p e = Some l -> tight p e l ->
    parse_windowI eqb nl scan ignore newline_types T rr mp tnum end_term P fuel p e = TreeShift.RTree v' ->
  exists s' e' v, In (s', e', v) (scanI eqb nl scan ignore T wa wb starts rr mp tnum end_term P fuel)
                  /\ s' <= p < e'.
Proof. exact (scan_no_miss_inst eqb nl scan ignore newline_types T wa wb starts rr mp tnum end_term P fuel). Qed.
End C14_instantiated.
Print Assumptions C14_lexer_chain_instantiated.
Print Assumptions C14_lexer_model_instantiated.
Print Assumptions C14_loop_lexer_exact_instantiated.
Print Assumptions C14_feed_prefix_closed_instantiated.
Print Assumptions C14_stunted_incremental.
Print Assumptions C14_H_stable_instantiated.
Print Assumptions C14_scan_value_eq_parse_instantiated.
Print Assumptions C14_scan_value_eq_parse_substring_instantiated.
Print Assumptions C14_scan_longest_instantiated.
Print Assumptions C14_scan_no_miss_instantiated.

(* the same fact at the level of the heap (C13's model of ParserState / shallow copies): the state stack and the
   outcome of a feed do not depend on the heap, the value stack or the callbacks, so a trial made with
   callbacks = {} on a shallow copy - which, moreover, only allocates (trial_feed_pure) - cannot change what the
   stunted parse does next *)
Theorem C14_trial_cannot_disturb k Tb (cb cb' : IDriver.cbenv) H H' ss vs vs' ty id e :
  (IDriver_proofs.rss (IDriver.hfeed k Tb cb H ss vs ty id e), IDriver_proofs.rkd (IDriver.hfeed k Tb cb H ss vs ty id e)) =
  (IDriver_proofs.rss (IDriver.hfeed k Tb cb' H' ss vs' ty id e), IDriver_proofs.rkd (IDriver.hfeed k Tb cb' H' ss vs' ty id e))
  /\ exists ext, IDriver_proofs.rH (IDriver.hfeed k Tb IDriver.env_none H ss vs ty id e) = H ++ ext.
Proof.
  exact (conj (eq_trans (IDriver_proofs.hfeed_ctrl Tb cb k H ss vs ty id e)
                        (eq_sym (IDriver_proofs.hfeed_ctrl Tb cb' k H' ss vs' ty id e)))
              (IDriver_proofs.trial_feed_pure k Tb H ss vs ty id e)).
Qed.
Print Assumptions C14_trial_cannot_disturb.

(* ---- non-vacuity of the instantiated hypotheses: a character-level lexer (terminal = character code; 0 = space
   and 10 = newline are ignored), grammar  start: A B  (A = 1, B = 2; table 0 -A-> 1 -B-> 2, reduce on $END = 9,
   goto start = end state 3), buffer "a b\n?ab".  The oracle hypotheses hold for every buffer. *)
From Coq Require Import String.
Definition exi_scan (h : list nat) (T : list nat) (p e : Z) : option (nat * nat) :=
  if (p <? e)%Z then
    match nth_error T (Z.to_nat p) with
    | Some c => if (c <=? 2) || (c =? 10) then Some (1, c) else None
    | None => None
    end
  else None.
Definition exi_ignore (ty : nat) : bool := (ty =? 0) || (ty =? 10).
Definition exi_starts (T : list nat) (i : nat) : bool :=
  match nth_error T i with Some c => (1 <=? c) && (c <=? 2) | None => false end.
Definition exi_rule := mkRule 0 [Grammar.T 1; Grammar.T 2].
Definition exi_rows : Driver.rows :=
  [(0, [(Grammar.T 1, Driver.Shift 1); (NT 0, Driver.Shift 3)]); (1, [(Grammar.T 2, Driver.Shift 2)]);
   (2, [(Grammar.T 9, Driver.Reduce exi_rule)])].
Definition exi_P := Driver.ptable_of_rows exi_rows 0 3.
Definition exi_rr (_ : rule) : Chain.rrec :=
  Chain.mkR "start"%string [Chain.mkSym true "A"%string false; Chain.mkSym true "B"%string false] None None false false [].
Definition exi_T : list nat := [1; 0; 2; 10; 7; 1; 2].
Definition exi_scanI :=
  scanI Nat.eqb 10 exi_scan exi_ignore exi_T 0 7 (exi_starts exi_T) exi_rr true (fun x => x) 9 exi_P 10.

Lemma exi_scan_inv h T p e n ty : exi_scan h T (Z.of_nat p) (Z.of_nat e) = Some (n, ty) ->
  p < e /\ n = 1 /\ nth_error T p = Some ty /\ (ty <= 2 \/ ty = 10).
Proof.
  unfold exi_scan. destruct (Z.ltb_spec (Z.of_nat p) (Z.of_nat e)); [|discriminate]. rewrite Nat2Z.id.
  destruct (nth_error T p) as [c|]; [|discriminate].
  destruct ((c <=? 2) || (c =? 10)) eqn:K; [|discriminate]. intros [= <- <-].
  apply orb_true_iff in K. rewrite Nat.leb_le, Nat.eqb_eq in K. repeat split; auto; lia.
Qed.

Lemma exi_scan_intro h T p e c : p < e -> nth_error T p = Some c -> (c <= 2 \/ c = 10) ->
  exi_scan h T (Z.of_nat p) (Z.of_nat e) = Some (1, c).
Proof.
  intros L N K. unfold exi_scan. destruct (Z.ltb_spec (Z.of_nat p) (Z.of_nat e)); [|lia]. rewrite Nat2Z.id, N.
  assert (E : (c <=? 2) || (c =? 10) = true) by (apply orb_true_iff; rewrite Nat.leb_le, Nat.eqb_eq; exact K).
  rewrite E. reflexivity.
Qed.

Example C14_instantiated_example :
  (forall T, scan_positive exi_scan T /\ scan_bounded exi_scan T /\ scan_endfree exi_scan T) /\
  (forall T wb, H_nonignored_wins exi_scan exi_ignore T wb (exi_starts T) /\
                H_search_covers exi_scan exi_ignore T wb (exi_starts T)) /\
  map (fun m => (fst (fst m), snd (fst m))) exi_scanI = [(0, 3); (5, 7)] /\
  (* the second match: line 2, columns 2..4 of the full text *)
  nth_error (map snd exi_scanI) 1 =
    Some (TreeShift.RTree
      (TreeShift.VTree "start"%string
         (MetaSpan.mkMeta (Some (5, 2, 2)) (Some (7, 2, 4)) (Some (5, 2, 2)) (Some (7, 2, 4)))%Z
         [TreeShift.VTok (LexCoords.mkTok 1 [1] 5%Z 2%Z 2%Z 2%Z 3%Z 6%Z);
          TreeShift.VTok (LexCoords.mkTok 2 [2] 6%Z 2%Z 3%Z 2%Z 4%Z 7%Z)])) /\
  boundaryb exi_scan exi_ignore exi_T 7 5 7 = true.
Proof.
  split; [|split].
  - intros T. repeat split.
    + intros h p e n ty E. apply exi_scan_inv in E. lia.
    + intros h p e n ty E. apply exi_scan_inv in E. lia.
    + intros h p e e' n ty E L1 L2. apply exi_scan_inv in E. destruct E as (_ & -> & N & K).
      apply exi_scan_intro; auto; lia.
  - intros T wb. split.
    + intros m Lm S. unfold exi_starts in S. destruct (nth_error T m) as [c|] eqn:N; [|discriminate].
      apply andb_true_iff in S. rewrite !Nat.leb_le in S. exists 1, c. split.
      * apply exi_scan_intro; auto; lia.
      * unfold exi_ignore. apply orb_false_iff. rewrite !Nat.eqb_neq. lia.
    + intros s e n ty Le E Ig. apply exi_scan_inv in E. destruct E as (_ & _ & N & K).
      unfold exi_ignore in Ig. apply orb_false_iff in Ig. rewrite !Nat.eqb_neq in Ig.
      unfold exi_starts. rewrite N. apply andb_true_iff. rewrite !Nat.leb_le. lia.
  - vm_compute. repeat split; reflexivity.
Qed.
Print Assumptions C14_instantiated_example.
