(* C14 - scan() yields leftmost-longest non-overlapping matches consistent with parse().
   Property theorems only: each is closed by [exact] of a lemma of Scan/Scan_proofs.v about the model
   Scan/Scan.v of ParsingFrontend._scan.  The lexer, the LALR driver and Python's regex engine are oracles
   of the model (arguments below); the harness observes them from the running code and checks by vm_compute
   that the model loop reproduces every observed turn of the real loop.

   oracles:  search       lexer.search_start(text_slice, start_state, pos)
             lex_from m   everything the lexer matches from m on (ignored tokens flagged)
             feed_ok l    feeding exactly the tokens l from the start state raises nothing
             end_choice l / end_trial l     '$END' in choices() / the trial feed of $END succeeds, after l
             parse_tokens l                 replay of l with the real callbacks + feed_eof
             snip_tokens s e                tokens produced by lexing + feeding text[s:e] alone (None = error) *)
From Coq Require Import List Arith Bool Lia.
From LV Require Import Gen.ScanHoles Scan.Scan Scan.Scan_proofs Scan.ScanCheck.
Import ListNotations.

(* The loop stops because a search fails, never because the fuel [wb + 2 - wa] runs out. *)
Theorem C14_scan_terminates isnl wa wb search lex_from feed_ok end_choice end_trial :
  (forall p m, search p = Some m -> p <= m /\ m <= wb) ->
  (forall m, chain wb m (lex_from m)) -> wa <= wb ->
  exists final, snd (scan_iters isnl wa wb search lex_from feed_ok end_choice end_trial) = Some final.
Proof. exact (scan_terminates isnl wa wb search lex_from feed_ok end_choice end_trial). Qed.
Print Assumptions C14_scan_terminates.

(* Above the bound the amount of fuel does not matter: the model is the while-loop, not an approximation of it. *)
Theorem C14_fuel_irrelevant isnl wb search lex_from feed_ok end_choice end_trial :
  (forall p m, search p = Some m -> p <= m /\ m <= wb) ->
  (forall m, chain wb m (lex_from m)) ->
  forall f1 f2 pos lc, wb + 2 - pos <= f1 -> wb + 2 - pos <= f2 -> pos <= wb + 1 ->
  loop isnl search lex_from feed_ok end_choice end_trial f1 pos lc =
  loop isnl search lex_from feed_ok end_choice end_trial f2 pos lc.
Proof. exact (loop_fuel_irrelevant isnl wb search lex_from feed_ok end_choice end_trial). Qed.
Print Assumptions C14_fuel_irrelevant.

(* Matches are non-empty, inside the window, strictly increasing and non-overlapping; the search position
   strictly increases from turn to turn (pos <= match_start < next pos <= wb + 1). *)
Theorem C14_scan_ordered (value : Type) isnl wa wb search lex_from feed_ok end_choice end_trial
        (parse_tokens : list tok -> value) :
  (forall p m, search p = Some m -> p <= m /\ m <= wb) ->
  (forall m, chain wb m (lex_from m)) -> wa <= wb ->
  ordered value wb wa (scan value isnl wa wb search lex_from feed_ok end_choice end_trial parse_tokens) /\
  turns_increase wb wa (fst (scan_iters isnl wa wb search lex_from feed_ok end_choice end_trial)).
Proof. exact (scan_ordered value isnl wa wb search lex_from feed_ok end_choice end_trial parse_tokens). Qed.
Print Assumptions C14_scan_ordered.

(* A match's range is (start of its first token, end of its last token); these tokens are non-ignored tokens of
   the stream lexed from match_start, the first one is the first non-ignored token of that stream, and every
   ignored token of the stream lies wholly before, wholly inside or wholly after the range. *)
Theorem C14_scan_no_ignored_edges (value : Type) isnl wa wb search lex_from feed_ok end_choice end_trial
        (parse_tokens : list tok -> value) :
  (forall m, chain wb m (lex_from m)) -> wa <= wb ->
  forall it, In it (fst (scan_iters isnl wa wb search lex_from feed_ok end_choice end_trial)) ->
  forall t r, it_acc it = t :: r ->
  let s := tk_start t in let e := tk_end (last_tok t r) in
  match_of value parse_tokens it = [(s, e, parse_tokens (it_acc it))] /\
  (exists rest, main_stream lex_from (it_m it) = it_acc it ++ rest) /\
  Forall (fun u => tk_ign u = false) (it_acc it) /\
  In t (lex_from (it_m it)) /\ In (last_tok t r) (lex_from (it_m it)) /\
  (exists pre post, lex_from (it_m it) = pre ++ t :: post /\ Forall (fun u => tk_ign u = true) pre) /\
  (forall u, In u (lex_from (it_m it)) -> tk_ign u = true ->
     tk_end u <= s \/ (s <= tk_start u /\ tk_end u <= e) \/ e <= tk_start u).
Proof. exact (scan_no_ignored_edges value isnl wa wb search lex_from feed_ok end_choice end_trial parse_tokens). Qed.
Print Assumptions C14_scan_no_ignored_edges.

(* The line counter handed to every mid-text parse is the true (line, line_start_pos) of match_start in the
   full text. *)
Theorem C14_scan_positions_global isnl wa wb search lex_from feed_ok end_choice end_trial :
  (forall p m, search p = Some m -> p <= m /\ m <= wb) ->
  (forall m, chain wb m (lex_from m)) -> wa <= wb ->
  Forall (fun it => it_lc it = coord isnl (it_m it))
         (fst (scan_iters isnl wa wb search lex_from feed_ok end_choice end_trial)).
Proof. exact (scan_positions_global isnl wa wb search lex_from feed_ok end_choice end_trial). Qed.
Print Assumptions C14_scan_positions_global.

(* [coord] is what it should be, and LineCounter.advance_to / from_text_slice maintain it. *)
Theorem C14_line_counter isnl :
  (forall a, from_text_slice isnl a = coord isnl a) /\
  (forall q p, q <= p -> advance_to isnl (coord isnl q) p = coord isnl p) /\
  (forall p, line_of isnl p = 1 + count_nl isnl 0 p) /\
  (forall p, lsp_of isnl p <= p /\ (lsp_of isnl p = 0 \/ isnl (lsp_of isnl p - 1) = true) /\
             forall i, lsp_of isnl p <= i -> i < p -> isnl i = false).
Proof.
  exact (conj (from_text_slice_coord isnl)
        (conj (advance_to_coord isnl)
        (conj (fun p => eq_refl)
              (fun p => conj (lsp_of_le isnl p) (conj (lsp_of_after_newline isnl p) (lsp_of_no_newline_after isnl p)))))).
Qed.
Print Assumptions C14_line_counter.

(* Every turn: matched_tokens is the longest prefix of the token stream from match_start that the parser can
   be fed, and the replayed prefix is the longest prefix of matched_tokens after which $END is accepted
   (empty iff there is none).  [iter_ok] spells this out. *)
Theorem C14_scan_longest_wrt_tokens isnl wa wb search lex_from feed_ok end_choice end_trial :
  Forall (fun it =>
    search (it_pos it) = Some (it_m it) /\
    exists tail k,
      main_stream lex_from (it_m it) = it_fed it ++ tail /\
      (forall j, 0 < j <= length (it_fed it) -> feed_ok (firstn j (it_fed it)) = true) /\
      (tail = [] \/ exists t tl, tail = t :: tl /\ feed_ok (it_fed it ++ [t]) = false) /\
      it_acc it = firstn k (it_fed it) /\ k <= length (it_fed it) /\
      (k = 0 \/ accepts_end end_choice end_trial (firstn k (it_fed it)) = true) /\
      (forall j, k < j <= length (it_fed it) -> accepts_end end_choice end_trial (firstn j (it_fed it)) = false))
    (fst (scan_iters isnl wa wb search lex_from feed_ok end_choice end_trial)).
Proof. exact (scan_longest_wrt_tokens isnl wa wb search lex_from feed_ok end_choice end_trial). Qed.
Print Assumptions C14_scan_longest_wrt_tokens.

(* Under H_stable (prefix -> snippet): the value of a match is parse(text[start:end]). *)
Theorem C14_scan_value_eq_parse (value : Type) isnl wa wb search lex_from feed_ok end_choice end_trial
        (parse_tokens : list tok -> value) snip_tokens :
  wa <= wb ->
  H_stable_prefix_to_snippet lex_from feed_ok snip_tokens ->
  forall s e v, In (s, e, v) (scan value isnl wa wb search lex_from feed_ok end_choice end_trial parse_tokens) ->
  parse_snip value end_choice end_trial parse_tokens snip_tokens s e = Some v.
Proof.
  intros H. exact (scan_value_eq_parse value isnl wa wb search lex_from feed_ok end_choice end_trial parse_tokens H snip_tokens).
Qed.
Print Assumptions C14_scan_value_eq_parse.

(* Under H_stable (snippet -> prefix): no longer snippet from the same start parses. *)
Theorem C14_scan_longest (value : Type) isnl wa wb search lex_from feed_ok end_choice end_trial
        (parse_tokens : list tok -> value) snip_tokens :
  (forall p m, search p = Some m -> p <= m /\ m <= wb) ->
  (forall m, chain wb m (lex_from m)) -> wa <= wb ->
  H_feed_prefix_closed feed_ok ->
  H_stable_snippet_to_prefix lex_from feed_ok end_choice end_trial snip_tokens ->
  H_skip search lex_from ->
  forall s e v, In (s, e, v) (scan value isnl wa wb search lex_from feed_ok end_choice end_trial parse_tokens) ->
  forall e' l', snip_tokens s e' = Some l' -> tight s e' l' -> accepts_end end_choice end_trial l' = true -> e' <= e.
Proof.
  intros H1 H2 H3.
  exact (scan_longest value isnl wa wb search lex_from feed_ok end_choice end_trial parse_tokens H1 H2 H3 snip_tokens).
Qed.
Print Assumptions C14_scan_longest.

(* Under H_stable and H_head: every position that starts a snippet that parses (beginning and ending with a
   token) lies inside a reported match - nothing is skipped. *)
Theorem C14_scan_no_miss (value : Type) isnl wa wb search lex_from feed_ok end_choice end_trial
        (parse_tokens : list tok -> value) starts snip_tokens :
  (forall p m, search p = Some m -> p <= m /\ m <= wb) ->
  (forall m, chain wb m (lex_from m)) -> wa <= wb ->
  H_feed_prefix_closed feed_ok ->
  H_stable_snippet_to_prefix lex_from feed_ok end_choice end_trial snip_tokens ->
  H_head search lex_from ->
  H_search_least search starts -> H_search_none wb search starts -> H_starts starts snip_tokens ->
  forall p e l, wa <= p -> e <= wb -> snip_tokens p e = Some l -> tight p e l ->
    accepts_end end_choice end_trial l = true ->
  exists s' e' v, In (s', e', v) (scan value isnl wa wb search lex_from feed_ok end_choice end_trial parse_tokens)
                  /\ s' <= p < e'.
Proof.
  intros H1 H2 H3.
  exact (scan_no_miss value isnl wa wb search lex_from feed_ok end_choice end_trial parse_tokens H1 H2 H3
                      starts snip_tokens).
Qed.
Print Assumptions C14_scan_no_miss.

(* Scanner.search over the non-ignored terminals ([search_of]) meets every hypothesis made about [search]. *)
Theorem C14_search_scanner starts wb :
  (forall p m, search_of starts wb p = Some m -> p <= m /\ m <= wb) /\
  (forall p m, search_of starts wb p = Some m -> starts m = true) /\
  H_search_least (search_of starts wb) starts /\ H_search_none wb (search_of starts wb) starts.
Proof.
  exact (conj (search_of_range starts wb) (conj (search_of_start starts wb)
        (conj (search_of_least starts wb) (search_of_none starts wb)))).
Qed.
Print Assumptions C14_search_scanner.

(* ---- concrete instances (tables dumped from the running code by the harness's observation layer) ---- *)

(* 'start: A B', A: "a", B: "b", ignored WS: /[ \n]+/ ; text "a b\nab" ; terminals A=0 B=1 WS=2 *)
Definition ex_tables : tables :=
  (mkTables 0 6 [3] [0; 4] [(0, [(mkTok 0 0 1 false); (mkTok 2 1 2 true); (mkTok 1 2 3 false); (mkTok 2 3 4 true)]); (4, [(mkTok 0 4 5 false); (mkTok 1 5 6 false)])] [([0], (true, false, false)); ([0; 1], (true, true, true))]).
Definition ex_snips : list (nat * nat * list tok) :=
  [(0, 1, [(mkTok 0 0 1 false)]); (0, 2, [(mkTok 0 0 1 false)]); (0, 3, [(mkTok 0 0 1 false); (mkTok 1 2 3 false)]); (0, 4, [(mkTok 0 0 1 false); (mkTok 1 2 3 false)]); (1, 2, []); (3, 4, []); (3, 5, [(mkTok 0 4 5 false)]); (3, 6, [(mkTok 0 4 5 false); (mkTok 1 5 6 false)]); (4, 5, [(mkTok 0 4 5 false)]); (4, 6, [(mkTok 0 4 5 false); (mkTok 1 5 6 false)])].
Definition ex_case : scase :=
  mkCase ex_tables [(0, 0, (1, 0), 2, 2); (3, 4, (2, 4), 2, 2)] 6 [(0, 3); (4, 6)].

Lemma ex_chain : forall m, chain 6 m (tb_lex ex_tables m).
Proof. intros m. do 5 (destruct m as [|m]; [cbn; repeat split; lia|]). cbn. exact I. Qed.

(* non-vacuity: the hypotheses of the theorems hold on a run with two matches, ignored text between and inside
   them and a newline before the second one; the model reproduces the observed run *)
Example C14_example :
  (forall p m, tb_search ex_tables p = Some m -> p <= m /\ m <= 6) /\
  (forall m, chain 6 m (tb_lex ex_tables m)) /\
  b_feed_prefix_closed ex_tables ex_snips = true /\ b_stable_prefix_to_snippet ex_tables ex_snips = true /\
  b_stable_snippet_to_prefix ex_tables ex_snips = true /\ b_head ex_tables = true /\ b_skip ex_tables = true /\
  b_starts ex_tables ex_snips = true /\
  tb_scan ex_tables = [(0, 3, [mkTok 0 0 1 false; mkTok 1 2 3 false]); (4, 6, [mkTok 0 4 5 false; mkTok 1 5 6 false])] /\
  map (fun it => (it_m it, it_lc it)) (fst (tb_iters ex_tables)) = [(0, mkLC 0 1 0); (4, mkLC 4 2 4)] /\
  b_no_miss ex_tables ex_snips = true /\ check_case ex_case = true.
Proof.
  split; [exact (search_of_range (tb_starts ex_tables) 6)|]. split; [exact ex_chain|].
  vm_compute. repeat split; reflexivity.
Qed.
Print Assumptions C14_example.

(* F8.  'start: A | AB "c"', A: "a", AB: "ab" ; text "abd" ; terminals A=0 AB=1 C=2.
   Without H_stable (snippet -> prefix) scan_no_miss fails: the lexer produces the greedy token AB from
   position 0, so the candidate is rejected although the snippet "a" alone parses. *)
Definition f8_tables : tables :=
  (mkTables 0 3 [] [0] [(0, [(mkTok 1 0 2 false)])] [([1], (true, false, false)); ([0], (true, true, true))]).
Definition f8_snips : list (nat * nat * list tok) :=
  [(0, 1, [(mkTok 0 0 1 false)]); (0, 2, [(mkTok 1 0 2 false)])].

Theorem C14_scan_no_miss_refuted :
  exists (T : tables) (snips : list (nat * nat * list tok)),
    (forall m, chain (t_wb T) m (tb_lex T m)) /\
    b_feed_prefix_closed T snips = true /\ b_stable_prefix_to_snippet T snips = true /\
    b_head T = true /\ b_starts T snips = true /\
    b_stable_snippet_to_prefix T snips = false /\
    tb_scan T = [] /\ tb_parse_snip T snips 0 1 = Some [mkTok 0 0 1 false] /\ b_no_miss T snips = false.
Proof.
  exists f8_tables, f8_snips. split.
  - intros m. do 1 (destruct m as [|m]; [cbn; repeat split; lia|]). cbn. exact I.
  - vm_compute. repeat split; reflexivity.
Qed.
Print Assumptions C14_scan_no_miss_refuted.

(* F28.  'start: A B | X "!"', ignored COMMENT: /x[a-z]*/ and " " ; text "xab ab" ;
   terminals A=0 B=1 BANG=2 COMMENT=3 X=4 SPACE=5.
   H_stable holds, H_head does not: the search stops at 0 (X matches there) but the lexer prefers the ignored
   COMMENT, skips "xab " and the turn reports (4,6); the candidates at 1..3 are never tried although "ab" at
   (1,3) parses. *)
Definition f28_tables : tables :=
  (mkTables 0 6 [] [0; 1; 4] [(0, [(mkTok 3 0 3 true); (mkTok 5 3 4 true); (mkTok 0 4 5 false); (mkTok 1 5 6 false)]); (1, [(mkTok 0 1 2 false); (mkTok 1 2 3 false); (mkTok 5 3 4 true)]); (4, [(mkTok 0 4 5 false); (mkTok 1 5 6 false)])] [([0], (true, false, false)); ([0; 1], (true, true, true))]).
Definition f28_snips : list (nat * nat * list tok) :=
  [(0, 1, []); (0, 2, []); (0, 3, []); (0, 4, []); (0, 5, [(mkTok 0 4 5 false)]); (0, 6, [(mkTok 0 4 5 false); (mkTok 1 5 6 false)]); (1, 2, [(mkTok 0 1 2 false)]); (1, 3, [(mkTok 0 1 2 false); (mkTok 1 2 3 false)]); (1, 4, [(mkTok 0 1 2 false); (mkTok 1 2 3 false)]); (3, 4, []); (3, 5, [(mkTok 0 4 5 false)]); (3, 6, [(mkTok 0 4 5 false); (mkTok 1 5 6 false)]); (4, 5, [(mkTok 0 4 5 false)]); (4, 6, [(mkTok 0 4 5 false); (mkTok 1 5 6 false)])].

Theorem C14_scan_no_miss_head_refuted :
  exists (T : tables) (snips : list (nat * nat * list tok)),
    (forall m, chain (t_wb T) m (tb_lex T m)) /\
    b_feed_prefix_closed T snips = true /\ b_stable_prefix_to_snippet T snips = true /\
    b_stable_snippet_to_prefix T snips = true /\ b_skip T = true /\ b_starts T snips = true /\
    b_head T = false /\
    map (fun m => (fst (fst m), snd (fst m))) (tb_scan T) = [(4, 6)] /\
    tb_parse_snip T snips 1 3 = Some [mkTok 0 1 2 false; mkTok 1 2 3 false] /\ b_no_miss T snips = false.
Proof.
  exists f28_tables, f28_snips. split.
  - intros m. do 5 (destruct m as [|m]; [cbn; repeat split; lia|]). cbn. exact I.
  - vm_compute. repeat split; reflexivity.
Qed.
Print Assumptions C14_scan_no_miss_head_refuted.
