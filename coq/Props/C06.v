(* C06 - Token and tree positions are exact source coordinates.  Property theorems only; each is
   closed by [exact] of a lemma proved under coq/Pos about models whose arithmetic is regenerated
   from lark/lexer.py (LineCounter, next_token), lark/parsers/xearley.py (main loop) on every run. *)
From Coq Require Import ZArith List Bool String Ascii.
From LV Require Import Pos.PosBase Gen.LineCounter Gen.LexStep Gen.DynStep Pos.Coord
  Pos.LineCounter_proofs Pos.LexCoords Pos.LexCoords_proofs Pos.Repr_proofs Pos.Current
  Pos.MetaSpan Pos.MetaSpan_proofs Pos.PosCheck.
Import ListNotations.
Local Open Scope Z_scope.

Section C06.
Context {A : Type} (eqb : A -> A -> bool) (nl : A).

(* LineCounter.feed: from exact coordinates at offset p, feeding T[p:p+n] gives exact coordinates
   at p+n - with test_newline, or without it provided the token contains no newline *)
Theorem C06_feed_tracks_coord (T : list A) p n c tn :
  (p + n <= List.length T)%nat -> at_coord eqb nl T p c ->
  (tn = true \/ has_no_newline eqb nl (firstn n (skipn p T))) ->
  at_coord eqb nl T (p + n) (feed eqb nl c (firstn n (skipn p T)) tn).
Proof. exact (feed_tracks_coord eqb nl T p n c tn). Qed.

Theorem C06_advance_to_tracks_coord (T : list A) p q c :
  (p <= q)%nat -> (q <= List.length T)%nat -> at_coord eqb nl T p c ->
  at_coord eqb nl T q (advance_to eqb nl c T (Z.of_nat q)).
Proof. exact (advance_to_tracks_coord eqb nl T p q c). Qed.

Theorem C06_from_text_slice_coord (T : list A) a snap :
  (a <= List.length T)%nat ->
  (snap = None \/ snap = Some (line_of eqb nl T a, line_start_of eqb nl T a)) ->
  at_coord eqb nl T a (from_text_slice eqb nl T (Z.of_nat a) snap).
Proof. exact (from_text_slice_coord eqb nl T a snap). Qed.

(* coord is the character-by-character reading of line and column *)
Theorem C06_coord_step (T : list A) p x :
  nth_error T p = Some x ->
  coord eqb nl T (S p) =
    if eqb x nl then (line_of eqb nl T p + 1, 1) else (line_of eqb nl T p, col_of eqb nl T p + 1).
Proof. exact (coord_step eqb nl T p x). Qed.

Context {term : Type}.
Variable scan : list term -> list A -> Z -> Z -> option (nat * term).
Variable ignore : term -> bool.
Variable newline_types : term -> bool.

(* basic / contextual family, the code as it is now: for every window [a,e) of every buffer T,
   every regex oracle that honours endpos, every ignore set: each token has value T[start:end],
   (line, column) = coord T start, (end_line, end_column) = coord T end; tokens are ordered and
   disjoint; an UnexpectedCharacters error carries the exact coordinates of its offset *)
Theorem C06_lexer_coords (T : list A) (a e : nat) snap ts o :
  (a <= e)%nat -> (e <= List.length T)%nat ->
  (forall h (p n : nat) ty, scan h T (Z.of_nat p) (Z.of_nat e) = Some (n, ty) -> (p + n <= e)%nat) ->
  (snap = None \/ snap = Some (line_of eqb nl T a, line_start_of eqb nl T a)) ->
  lex_slice eqb nl scan ignore newline_types T (Z.of_nat a) (Z.of_nat e) snap = (ts, o) ->
  Forall (tok_ok eqb nl T a e) ts /\ chain (Z.of_nat a) ts /\ outcome_ok eqb nl T a e o.
Proof. exact (lexer_coords eqb nl scan ignore newline_types T a e snap ts o). Qed.

(* the same for any way of choosing test_newline, under H_nl (the hypothesis the pre-repair code
   needed and did not satisfy: finding F1) *)
Theorem C06_lexer_coords_under_H_nl (T : list A) (a e : nat) snap ts o :
  (e <= List.length T)%nat ->
  (forall h (p n : nat) ty, scan h T (Z.of_nat p) (Z.of_nat e) = Some (n, ty) -> (p + n <= e)%nat) ->
  (forall h (p n : nat) ty, scan h T (Z.of_nat p) (Z.of_nat e) = Some (n, ty) ->
     h_testnl newline_types ty = false -> has_no_newline eqb nl (firstn n (skipn p T))) ->
  (a <= e)%nat ->
  (snap = None \/ snap = Some (line_of eqb nl T a, line_start_of eqb nl T a)) ->
  lex_slice eqb nl scan ignore newline_types T (Z.of_nat a) (Z.of_nat e) snap = (ts, o) ->
  Forall (tok_ok eqb nl T a e) ts /\ chain (Z.of_nat a) ts /\ outcome_ok eqb nl T a e o.
Proof. exact (fun He Hb Hn => lexer_coords_gen eqb nl scan ignore newline_types T e He Hb Hn a snap ts o). Qed.

(* dynamic family: the running (text_line, text_column) of xearley is coord, for str and for
   bytes input (repair of F2); token start exact, token end = last character + one column *)
Theorem C06_dyn_coords_str (T : list A) i :
  (i <= List.length T)%nat -> dyn_at (isnl_str eqb nl) T i = coord eqb nl T i.
Proof. exact (dyn_coords_str eqb nl T i). Qed.

Theorem C06_dyn_coords_bytes (T : list A) i :
  (i <= List.length T)%nat -> dyn_at (isnl_bytes eqb nl) T i = coord eqb nl T i.
Proof. exact (dyn_coords_bytes eqb nl T i). Qed.

Theorem C06_dyn_token_coords (isnl : A -> bool) (ty : term) (T : list A) s e :
  (forall x, isnl x = eqb x nl) -> (s < e)%nat -> (e <= List.length T)%nat ->
  let t := dyn_token isnl ty T s e in
  t_value t = firstn (e - s) (skipn s T) /\ List.length (t_value t) = (e - s)%nat /\
  t_start t = Z.of_nat s /\ t_end_pos t = Z.of_nat e /\
  (t_line t, t_column t) = coord eqb nl T s /\
  (t_end_line t, t_end_column t) = (line_of eqb nl T (e - 1), col_of eqb nl T (e - 1) + 1) /\
  (forall x, nth_error T (e - 1) = Some x -> eqb x nl = false ->
     (t_end_line t, t_end_column t) = coord eqb nl T e).
Proof. exact (fun H => dyn_token_coords eqb nl isnl H ty T s e). Qed.

End C06.

Print Assumptions C06_feed_tracks_coord.
Print Assumptions C06_advance_to_tracks_coord.
Print Assumptions C06_from_text_slice_coord.
Print Assumptions C06_coord_step.
Print Assumptions C06_lexer_coords.
Print Assumptions C06_lexer_coords_under_H_nl.
Print Assumptions C06_dyn_coords_str.
Print Assumptions C06_dyn_coords_bytes.
Print Assumptions C06_dyn_token_coords.

(* propagate_positions: a fresh tree node spans first..last token its rule matched, filtered tokens
   included, recursively through inlined rules; no token -> empty meta *)
Theorem C06_meta_span o cs :
  good (PNode None o cs) ->
  exists m, build (PNode None o cs) = SHTree m /\
    m_start m = first_start (flat_map toks cs) /\ m_end m = last_end (flat_map toks cs) /\
    m_cstart m = m_start m /\ m_cend m = m_end m /\
    (m_empty m = true <-> flat_map toks cs = []).
Proof. exact (meta_span o cs). Qed.
Print Assumptions C06_meta_span.

Theorem C06_meta_passthrough k o cs m :
  good (PNode (Some k) o cs) -> build (nth k cs PNone) = SHTree m -> m_empty m = false ->
  exists m', build (PNode (Some k) o cs) = SHTree m' /\
    m_start m' = m_start m /\ m_end m' = m_end m /\
    m_cstart m' = first_start (flat_map toks cs) /\ m_cend m' = last_end (flat_map toks cs).
Proof. exact (meta_passthrough k o cs m). Qed.
Print Assumptions C06_meta_passthrough.

(* finding F23: outside [good] (an inlined rule returning a bare Token next to filtered tokens)
   the faithful model - and the code - lose the filtered tokens' extent *)
Theorem C06_meta_span_inlined_token_refuted :
  exists o cs m, f23_tree = PNode None o cs /\ build (PNode None o cs) = SHTree m /\
    m_start m = Some (1, 1, 2) /\ first_start (flat_map toks cs) = Some (0, 1, 1).
Proof. exact meta_span_inlined_token_refuted. Qed.
Print Assumptions C06_meta_span_inlined_token_refuted.

(* why H_nl was needed (finding F1, repaired): feeding a newline with test_newline = False keeps
   the old line, so the counter is no longer at coord *)
Theorem C06_test_newline_false_refuted :
  exists (T : list ascii) c,
    at_coord Ascii.eqb anl T 0 c /\ ~ at_coord Ascii.eqb anl T 1 (feed Ascii.eqb anl c (firstn 1 T) false).
Proof.
  exists [anl], lc_init. split; [apply lc_init_at_coord|].
  intros (_ & H & _). vm_compute in H. discriminate.
Qed.
Print Assumptions C06_test_newline_false_refuted.

(* Non-vacuity: a concrete window of a concrete buffer, an oracle with a kept terminal matching
   newlines ("NL"), an ignored one, a window starting mid-line on line 2. *)
Local Open Scope string_scope.
Definition ex_T := txt (append "ab" (String anl (append "cd  x" (String anl (append "y" (String anl "zz")))))).
(* offsets: a b \n c d sp sp x \n y \n z z  -> window [4, 11) = "d  x\ny\n" minus ... *)
Definition ex_scan (h : list string) (T : list ascii) (p e : Z) : option (nat * string) :=
  match nth_error T (Z.to_nat p) with
  | Some c => if Ascii.eqb c anl then Some (1%nat, "NL")
              else if Ascii.eqb c " "%char then Some (if Z.ltb (p + 1) e then 2%nat else 1%nat, "WS")
              else Some (1%nat, "CH")
  | None => None
  end.
Example C06_example :
  let r := lex_slice Ascii.eqb anl ex_scan (fun t => String.eqb t "WS") (fun _ => false) ex_T 4 11 None in
  map (fun t => (t_type t, t_start t, t_line t, t_column t, t_end_line t, t_end_column t, t_end_pos t)) (fst r)
  = [("CH", 4, 2, 2, 2, 3, 5); ("CH", 7, 2, 5, 2, 6, 8); ("NL", 8, 2, 6, 3, 1, 9); ("CH", 9, 3, 1, 3, 2, 10);
     ("NL", 10, 3, 2, 4, 1, 11)]%Z
  /\ snd r = Done.
Proof. vm_compute. split; reflexivity. Qed.

(* children's spans are ordered, disjoint and nested: a child's tokens are a segment b of the
   parent's a ++ b ++ c (text order, from lexer_coords' [chain]); every span is first..last *)
Theorem C06_spans_ordered_nested a b c s e s' e' :
  ordered (a ++ b ++ c) ->
  first_start (a ++ b ++ c) = Some s -> last_end (a ++ b ++ c) = Some e ->
  first_start b = Some s' -> last_end b = Some e' ->
  (tpos s <= tpos s' /\ tpos s' <= tpos e' /\ tpos e' <= tpos e /\
   (forall x, In x a -> tpos (snd x) <= tpos s') /\ (forall y, In y c -> tpos e' <= tpos (fst y)))%Z.
Proof. exact (spans_ordered_nested a b c s e s' e'). Qed.
Print Assumptions C06_spans_ordered_nested.

(* ---- tree level (round 3): composition of lexer_coords, the LALR driver and PropagatePositions -------
   For str, bytes (instantiate the character type) and any TextSlice window [a,e) of any buffer T: in the
   tree returned by the LALR pipeline (Pos/TreeShift.parse_slice: lex_slice -> LR/Driver.feed over an
   abstract table -> PropagatePositions around Shape/Chain.run_callback) every token satisfies the token
   claim and every position triple of every meta - own and container, start and end - is an exact
   source coordinate inside the window (its line/column are coord T of its offset). *)
From LV Require Import Cfg.Grammar Shape.Chain Pos.TreeShift Pos.TreeShift_proofs Pos.TreeSpan_proofs.
From LV Require LR.Driver.

Theorem C06_tree_coords_exact {A term : Type} (eqb : A -> A -> bool) (nl : A)
  (rr : rule -> rrec) (mp : bool) (tnum : term -> nat) (end_term : term) (P : Driver.ptable)
  (T : list A) (a e : nat)
  (scan : list term -> list A -> Z -> Z -> option (nat * term)) (ignore newline_types : term -> bool) fuel v :
  (a <= e)%nat -> (e <= List.length T)%nat ->
  (forall h (p n : nat) ty, scan h T (Z.of_nat p) (Z.of_nat e) = Some (n, ty) -> (p + n <= e)%nat) ->
  parse_slice rr mp tnum end_term P eqb nl scan ignore newline_types fuel T (Z.of_nat a) (Z.of_nat e) = RTree v ->
  Forall (tok_ok eqb nl T a e) (vtokens v) /\ Forall (trip_exact eqb nl T a e) (vtrips v).
Proof. exact (tree_coords_exact_partial eqb nl rr mp tnum end_term P T a e scan ignore newline_types fuel v). Qed.
Print Assumptions C06_tree_coords_exact.

(* EXTENT, on the derivations the driver builds (any derivation d over positioned tokens; [good_d]
   excludes finding F23: a sub-derivation whose value is a bare token or None matched nothing else).
   The value of d offers its parent exactly the span first..last of the tokens d matched, filtered
   ones included, through inlined rules (container fields); its meta is empty iff d matched nothing. *)
Theorem C06_tree_container_span {A term : Type} (rr : rule -> rrec) (mp : bool)
  (d : Driver.dtree (token A term)) name m ch :
  good_d rr mp d -> tree_of rr mp d = Some (VTree name m ch) ->
  (Y d = [] <-> m_empty m = true) /\
  (Y d <> [] -> or_else (m_cstart m) (m_start m) = first_start (Y d) /\
                or_else (m_cend m) (m_end m) = last_end (Y d)).
Proof. exact (tree_container_span rr mp d name m ch). Qed.
Print Assumptions C06_tree_container_span.

(* ... and a tree CREATED by the rule application (not handed through by an inlined ?rule) has that span
   as its own meta: start of the first, end of the last matched token. *)
Theorem C06_tree_own_span {A term : Type} (rr : rule -> rrec) (mp : bool) r
  (cs : list (Driver.dtree (token A term))) vs name m ch :
  good_d rr mp (Driver.Node r cs) ->
  all_some (map (tree_of rr mp) cs) = Some vs ->
  tree_of rr mp (Driver.Node r cs) = Some (VTree name m ch) ->
  (exists m0, old_value vs (VTree name m0 ch)) \/
  (m_start m = first_start (Y (Driver.Node r cs)) /\ m_end m = last_end (Y (Driver.Node r cs)) /\
   m_cstart m = m_start m /\ m_cend m = m_end m).
Proof. exact (tree_own_span rr mp r cs vs name m ch). Qed.
Print Assumptions C06_tree_own_span.

(* Non-vacuity: rule  pair: "(" NUM ")"  (parentheses filtered out) applied to the tokens of "(7)" on
   line 2: the derivation is [good_d], the tree keeps only NUM, and its meta spans the parentheses. *)
Definition ex4_rule := mkRule 0%nat [T 0%nat; T 1%nat; T 2%nat].
Definition ex4_rr (_ : rule) : rrec :=
  mkR "pair" [mkSym true "LPAR" true; mkSym true "NUM" false; mkSym true "RPAR" true] None None false false [].
Definition ex4_d : Driver.dtree (token ascii string) :=
  Driver.Node ex4_rule [Driver.Leaf (mkTok "LPAR" (txt "(") 5 2 1 2 2 6); Driver.Leaf (mkTok "NUM" (txt "7") 6 2 2 2 3 7);
                        Driver.Leaf (mkTok "RPAR" (txt ")") 7 2 3 2 4 8)].
Example C06_tree_example :
  good_d ex4_rr true ex4_d /\
  tree_of ex4_rr true ex4_d =
    Some (VTree "pair" (mkMeta (Some (5, 2, 1)) (Some (8, 2, 4)) (Some (5, 2, 1)) (Some (8, 2, 4)))%Z
            [VTok (mkTok "NUM" (txt "7") 6 2 2 2 3 7)]).
Proof.
  split; [|vm_compute; reflexivity].
  intros d' [<- | [<- | [<- | [<- | []]]]]; vm_compute; first [exact I | reflexivity].
Qed.

(* F46 (repaired in lark): an inlined ?rule handing through a child tree whose meta is empty, between
   positioned tokens -  ?item: "[" emp "]" ,  emp:  on "[]".  Both ends are looked up among the children
   before the result's meta is written (the model is functional, so this is its only reading): the
   empty child is skipped on both sides and takes the span of the brackets, own and container. *)
Example C06_empty_child_example :
  build (PNode (Some 1%nat) OOther [PTok ((0, 1, 1), (1, 1, 2)); PNode None OOther []; PTok ((1, 1, 2), (2, 1, 3))])%Z
  = SHTree (mkMeta (Some (0, 1, 1)) (Some (2, 1, 3)) (Some (0, 1, 1)) (Some (2, 1, 3)))%Z.
Proof. vm_compute. reflexivity. Qed.

(* ---- round 12: the PropagatePositions model is the regenerated code -------------------------------------
   Gen/PropPos.v holds, regenerated from lark/parse_tree_builder.py and lark/tree.py on every run, the
   attribute copies of PropagatePositions.__call__ (res_meta.dst = getattr(src, c, src.d)), the hasattr probes,
   the "empty = False" marks, the condition under which _pp_get_meta lets a Tree child offer its meta, and Meta's
   constructor; Pos/PropPosModel.rpropagate interprets them attribute by attribute (None = AttributeError).
   The grouped model MetaSpan.propagate used by every theorem above is that code. *)
From LV Require Import Pos.RawMeta Gen.PropPos Pos.PropPosModel Pos.PropPos_proofs Gen.CounterCopy Gen.TokenFields
  Pos.Recover Pos.Recover_proofs.

Theorem C06_propagate_regenerated m ch :
  Forall full_shaped ch ->
  rpropagate all_kept (raw_meta m) (map raw_shaped ch) = Some (raw_meta (propagate m ch)).
Proof. exact (propagate_regenerated m ch). Qed.
Print Assumptions C06_propagate_regenerated.

(* every meta the callbacks of a parse produce has both ends or none, so the eager getattr defaults of
   PropagatePositions never raise AttributeError (the crash repaired as F46 cannot come back unnoticed) *)
Theorem C06_propagate_no_attribute_error p : leaves_full p -> full_shaped (build p).
Proof. exact (build_full p). Qed.
Print Assumptions C06_propagate_no_attribute_error.

(* an inlined rule's result may be first_meta / last_meta itself: the fields the first half writes are not
   read by the second half, so reading the live object equals reading a snapshot *)
Theorem C06_pp_alias_safe : pp_alias_safe = true.
Proof. exact alias_safe. Qed.
Print Assumptions C06_pp_alias_safe.

(* ---- round 12: forks and error recovery ----------------------------------------------------------------- *)
(* copy(line_ctr) - every fork of a lexer state - transfers every slot (regenerated slot list / __copy__) *)
Theorem C06_fork_keeps_counter c :
  lc_copy c = c /\ lc_copy_keeps_newline_char = true /\
  lc_slots = ["char_pos"; "line"; "column"; "line_start_pos"; "newline_char"]%string.
Proof. exact (conj (fork_keeps_counter c) (conj fork_keeps_newline_char slots_modelled)). Qed.
Print Assumptions C06_fork_keeps_counter.

(* a fork taken at exact coordinates lexes tokens with exact coordinates *)
Theorem C06_lexer_coords_fork {A term : Type} (eqb : A -> A -> bool) (nl : A)
  (scan : list term -> list A -> Z -> Z -> option (nat * term)) (ignore newline_types : term -> bool)
  (T : list A) (e : nat) fuel hist (p : nat) c ts o :
  (e <= List.length T)%nat ->
  (forall h (p n : nat) ty, scan h T (Z.of_nat p) (Z.of_nat e) = Some (n, ty) -> (p + n <= e)%nat) ->
  (p <= e)%nat -> at_coord eqb nl T p c ->
  lex_fork eqb nl scan ignore newline_types fuel hist T (Z.of_nat e) c = (ts, o) ->
  Forall (tok_ok eqb nl T p e) ts /\ chain (Z.of_nat p) ts /\ outcome_ok eqb nl T p e o.
Proof. exact (fun He Hb => lexer_coords_fork eqb nl scan ignore newline_types T e He Hb fuel hist p c ts o). Qed.
Print Assumptions C06_lexer_coords_fork.

(* parse(text, on_error=h), h accepting UnexpectedCharacters without moving the lexer: the recovery loop of
   LALR_Parser.parse steps over the offending character with line_ctr.feed(text[p:p+1]) (regenerated); every
   token lexed afterwards - whatever was skipped, newlines included - and every reported error position
   carry exact coordinates *)
Theorem C06_recover_skip_tracks_coord {A : Type} (eqb : A -> A -> bool) (nl : A) (T : list A) (p : nat) c :
  (p < List.length T)%nat -> at_coord eqb nl T p c -> at_coord eqb nl T (p + 1) (recover_skip eqb nl T c).
Proof. exact (recover_skip_tracks_coord eqb nl T p c). Qed.
Print Assumptions C06_recover_skip_tracks_coord.

Theorem C06_lexer_coords_recovering {A term : Type} (eqb : A -> A -> bool) (nl : A)
  (scan : list term -> list A -> Z -> Z -> option (nat * term)) (ignore newline_types : term -> bool)
  (T : list A) (a e : nat) snap evs ok :
  (e <= List.length T)%nat ->
  (forall h (p n : nat) ty, scan h T (Z.of_nat p) (Z.of_nat e) = Some (n, ty) -> (p + n <= e)%nat) ->
  (a <= e)%nat ->
  (snap = None \/ snap = Some (line_of eqb nl T a, line_start_of eqb nl T a)) ->
  lex_slice_rec eqb nl scan ignore newline_types T (Z.of_nat a) (Z.of_nat e) snap = (evs, ok) ->
  Forall (event_ok eqb nl T a e) evs.
Proof. exact (fun He Hb => lexer_coords_recovering eqb nl scan ignore newline_types T e He Hb a snap evs ok). Qed.
Print Assumptions C06_lexer_coords_recovering.

(* Token.new_borrow_pos / update / __deepcopy__ / __reduce__ (regenerated argument lists) keep all six
   position fields; UnexpectedCharacters stores (lex_pos, line, column) unchanged *)
Theorem C06_token_plumbing_keeps_positions {A term : Type} (ty : term) (v : list A) oty ov (t : token A term) :
  (let b := borrow_pos ty v t in
   t_type b = ty /\ t_value b = v /\ t_start b = t_start t /\ t_line b = t_line t /\ t_column b = t_column t /\
   t_end_line b = t_end_line t /\ t_end_column b = t_end_column t /\ t_end_pos b = t_end_pos t) /\
  (let b := tok_update oty ov t in
   t_start b = t_start t /\ t_line b = t_line t /\ t_column b = t_column t /\
   t_end_line b = t_end_line t /\ t_end_column b = t_end_column t /\ t_end_pos b = t_end_pos t /\
   (oty = None -> t_type b = t_type t) /\ (ov = None -> t_value b = t_value t)) /\
  tok_deepcopy t = t /\ tok_reduce t = t /\ (forall p l c, uc_fields p l c = (p, l, c)).
Proof.
  exact (conj (borrow_keeps_positions ty v t) (conj (update_keeps_positions oty ov t)
          (conj (deepcopy_id t) (conj (reduce_id t) uc_fields_id)))).
Qed.
Print Assumptions C06_token_plumbing_keeps_positions.

(* Non-vacuity: "a$\nb" with terminal CH = [ab]: the run with recovery skips "$" and the newline and reports
   b on line 2, column 1; a fork taken after "a" continues at column 2 *)
Definition ex5_scan (h : list string) (T : list ascii) (p e : Z) : option (nat * string) :=
  match nth_error T (Z.to_nat p) with
  | Some c => if (Ascii.eqb c "a" || Ascii.eqb c "b")%bool then Some (1%nat, "CH"%string) else None
  | None => None
  end.
Example C06_recover_example :
  fst (lex_slice_rec Ascii.eqb anl ex5_scan (fun _ => false) (fun _ => false) (txt "a$\010b") 0 4 None)
  = [EvTok (mkTok "CH"%string [ "a"%char ] 0 1 1 1 2 1); EvErr 1 1 2; EvErr 2 1 3;
     EvTok (mkTok "CH"%string [ "b"%char ] 3 2 1 2 2 4)]%Z.
Proof. vm_compute. reflexivity. Qed.

(* ---- round 12: tree coordinates on the Earley routes -------------------------------------------------------
   ForestToParseTree calls the same ParseTreeBuilder callbacks (PropagatePositions around the Shape chain) as the
   LALR driver, bottom-up on the derivation it selected.  Assumption about the selection: NONE beyond "d is a
   derivation tree whose leaves are tokens of the lexer" - any stored derivation, whatever priorities and
   ambiguity resolution chose.  Basic lexer: every token and every meta triple is an exact coordinate. *)
From LV Require Import Pos.TreeAny_proofs.
From Coq Require Import Lia.

Theorem C06_tree_coords_exact_earley {A term : Type} (eqb : A -> A -> bool) (nl : A) (rr : rule -> rrec) (mp : bool)
  (scan : list term -> list A -> Z -> Z -> option (nat * term)) (ignore newline_types : term -> bool)
  (T : list A) (a e : nat) ts o (d : Driver.dtree (token A term)) v :
  (a <= e)%nat -> (e <= List.length T)%nat ->
  (forall h (p n : nat) ty, scan h T (Z.of_nat p) (Z.of_nat e) = Some (n, ty) -> (p + n <= e)%nat) ->
  lex_slice eqb nl scan ignore newline_types T (Z.of_nat a) (Z.of_nat e) None = (ts, o) ->
  (forall t, In t (Driver.yield _ d) -> In t ts) ->
  tree_of rr mp d = Some v ->
  Forall (tok_ok eqb nl T a e) (vtokens v) /\ Forall (trip_exact eqb nl T a e) (vtrips v).
Proof. exact (tree_coords_exact_earley eqb nl rr mp scan ignore newline_types T a e ts o d v). Qed.
Print Assumptions C06_tree_coords_exact_earley.

(* dynamic lexers: tokens are created in xearley.scan from the text position (Gen/DynStep.v); in the tree of any
   derivation over such tokens every token is one of them (value T[s:e], start coordinates exact, end = last
   character + one column: C06_dyn_token_coords) and every meta triple is the start of one - an exact coordinate -
   or the end of one *)
Theorem C06_dyn_tree_coords {A term : Type} (eqb : A -> A -> bool) (nl : A) (isnl : A -> bool) (rr : rule -> rrec)
  (mp : bool) (T : list A) (d : Driver.dtree (token A term)) v :
  (forall x, isnl x = eqb x nl) ->
  Forall (dyn_tok isnl T) (Driver.yield _ d) -> tree_of rr mp d = Some v ->
  Forall (dyn_tok isnl T) (vtokens v) /\ Forall (dyn_trip eqb nl T) (vtrips v).
Proof. exact (fun H => dyn_tree_coords eqb nl isnl rr mp H T d v). Qed.
Print Assumptions C06_dyn_tree_coords.

(* Non-vacuity: pair: "(" NUM ")" over the dynamic scanner's tokens of "x\n(7)" (offsets 2..5, line 2) *)
Example C06_dyn_tree_example :
  let T := txt "x\010(7)" in
  let isnl := isnl_str Ascii.eqb anl in
  let d := Driver.Node ex4_rule [Driver.Leaf (dyn_token isnl "LPAR"%string T 2 3); Driver.Leaf (dyn_token isnl "NUM"%string T 3 4);
                                 Driver.Leaf (dyn_token isnl "RPAR"%string T 4 5)] in
  Forall (dyn_tok (term:=string) isnl T) (Driver.yield _ d) /\
  tree_of ex4_rr true d =
    Some (VTree "pair" (mkMeta (Some (2, 2, 1)) (Some (5, 2, 4)) (Some (2, 2, 1)) (Some (5, 2, 4)))%Z
            [VTok (mkTok "NUM"%string [ "7"%char ] 3 2 2 2 3 4)]).
Proof.
  split; [|vm_compute; reflexivity].
  repeat constructor; eexists _, _, _; (split; [|split; [|reflexivity]]); cbn; lia.
Qed.
