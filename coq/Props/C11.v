(* C11 - Saved, cached and stand-alone parsers behave like the original.  Property theorems only: each is closed by
   [exact] of a lemma of Ser/Serialize_proofs.v about the model Ser/Serialize.v, whose field lists, namespaces,
   load-allowed options, option defaults, re-supply list and shift / reduce tags are regenerated from the lark
   source (Gen/SerializeFields.v). *)
From Coq Require Import ZArith List Bool String Ascii.
From LV Require Import Ser.NameRes Ser.NameRes_proofs Gen.StandaloneUnits Ser.NameResInstance Ser.NameResInstance_proofs.
From LV Require Import Ser.Value Gen.SerializeFields Ser.Serialize Ser.Relevant Ser.Serialize_proofs
  Ser.SerializeDec Ser.SerializeDec_proofs Ser.StandaloneModel Gen.Standalone Ser.Standalone_proofs.
Import ListNotations.
Local Open Scope string_scope.
Local Open Scope list_scope.

(* deserialize (serialize tbl) = tbl for every parse table whose reduce rules have unique memo keys: the token
   Enumerator is inverted exactly and the Shift / Reduce tags are preserved. *)
Theorem C11_table_roundtrip t :
  (forall a b, In a (map MRule (table_rules t)) -> In b (map MRule (table_rules t)) -> mentry_keyeqb a b = true -> a = b) ->
  exists v m, ser_table t [] = Some (v, m) /\ deser_table (tbl_of m) v = Some t.
Proof. exact (table_roundtrip t). Qed.
Print Assumptions C11_table_roundtrip.

(* the Enumerator is a bijection on the tokens that occur: no token gets two numbers *)
Theorem C11_token_numbering_injective t m d tk m' i j x :
  ser_states (t_states t) [] m = Some ((d, tk), m') ->
  nth_error tk i = Some x -> nth_error tk j = Some x -> i = j.
Proof. exact (token_numbering_injective t m d tk m' i j x). Qed.
Print Assumptions C11_token_numbering_injective.

(* SerializeMemoizer: the serialised memo deserialises to the table that maps every number to the object it was
   handed out for *)
Theorem C11_memo_roundtrip m mj :
  Forall mentry_ok m -> ser_memo m = Some mj ->
  exists d, mj = VDict d /\ deser_memo d = Some (tbl_of m) /\
            forall n, tbl_get (Z.of_nat n) (tbl_of m) = nth_error m n.
Proof. exact (memo_roundtrip m mj). Qed.
Print Assumptions C11_memo_roundtrip.

(* every attribute in the declared Relevant lists is in the regenerated __serialize_fields__ of its class, or
   recomputed by a _deserialize hook, or assigned by the code that runs on load (finite check over the regenerated
   lists) *)
Theorem C11_fields_restored cls f fs :
  In (cls, fs) Relevant -> In f fs -> restored_by cls f = true.
Proof. exact (fields_restored cls f fs). Qed.
Print Assumptions C11_fields_restored.

(* _LOAD_ALLOWED_OPTIONS is exactly the complement of the construction-time options among LarkOptions._defaults *)
Theorem C11_options_partition k :
  In k (map fst option_defaults) ->
  (In k load_allowed_options /\ ~ In k construction_options) \/ (~ In k load_allowed_options /\ In k construction_options).
Proof. exact (options_partition k). Qed.
Print Assumptions C11_options_partition.

(* the general statement: saving a directly built instance (with any set of excluded options) and loading it with
   any keyword arguments either refuses the arguments or yields exactly the instance a direct construction with
   the merged options produces *)
Theorem C11_load_save g O i excl kw :
  build g O = Some i -> wf_inst i ->
  exists dm, save i excl = Some dm /\
    load dm kw = if kw_rejected kw then None
                 else obind (lark_options_init (aupdate (drop_options excl O) kw)) (build g).
Proof. exact (load_save g O i excl kw). Qed.
Print Assumptions C11_load_save.

(* Lark.load(Lark.save(i)): any behaviour function of the configuration gives the same answer *)
Theorem C11_saveload {B : Type} (beh : lark_inst -> B) g O i :
  build g O = Some i -> wf_inst i -> normalized O ->
  exists dm i', save i [] = Some dm /\ load dm [] = Some i' /\ beh i' = beh i.
Proof.
  intros Hb Hwf HO. destruct (saveload_roundtrip g O i Hb Hwf HO) as (dm & Hs & Hl).
  exists dm, i. repeat split; assumption.
Qed.
Print Assumptions C11_saveload.

(* Lark(..., cache=path), second construction: the file was written without the load-allowed options, which are
   re-supplied from the caller's keyword arguments *)
Theorem C11_cache {B : Type} (beh : lark_inst -> B) g O i kw :
  build g O = Some i -> wf_inst i -> normalized O -> NoDup (map fst kw) -> allowed_only kw ->
  (forall k d, In (k, d) option_defaults -> In k load_allowed_options ->
               norm_option (match aget k kw with Some v => [(k, v)] | None => [] end) (k, d) = norm_option O (k, d)) ->
  exists dm i', save i load_allowed_options = Some dm /\ load dm kw = Some i' /\ beh i' = beh i.
Proof.
  intros Hb Hwf HO Hnd Hkw Hag. destruct (cache_roundtrip g O i kw Hb Hwf HO Hnd Hkw Hag) as (dm & Hs & Hl).
  exists dm, i. repeat split; assumption.
Qed.
Print Assumptions C11_cache.

(* load-allowed keyword arguments given at load time act as if given to a direct construction *)
Theorem C11_load_override g O i kw :
  build g O = Some i -> wf_inst i -> allowed_only kw ->
  exists dm, save i [] = Some dm /\ load dm kw = obind (lark_options_init (aupdate O kw)) (build g).
Proof. exact (load_override g O i kw). Qed.
Print Assumptions C11_load_override.

(* construction-time options are refused at load time *)
Theorem C11_load_rejects g O i k v kw :
  build g O = Some i -> wf_inst i -> In k construction_options ->
  exists dm, save i [] = Some dm /\ load dm ((k, v) :: kw) = None.
Proof. exact (load_rejects g O i k v kw). Qed.
Print Assumptions C11_load_rejects.

(* stand-alone module, the part that is modelled: for every literal codec (print / Python parser, or pickle + zlib +
   base64) the embedded DATA / MEMO rebuild the instance and the rebinding Shift = 0, Reduce = 1 keeps the two
   actions distinct.  The extraction of the ###{standalone sections is not modelled (differential check only). *)
Theorem C11_standalone_partial (encode : value -> string) (decode : string -> option value) :
  (forall v, decode (encode v) = Some v) ->
  forall g O i kw, build g O = Some i -> wf_inst i -> allowed_only kw ->
  exists data mj, memo_serialize i = Some (data, mj) /\
    standalone_load decode (encode data) (encode mj) kw = obind (lark_options_init (aupdate O kw)) (build g) /\
    standalone_shift <> standalone_reduce.
Proof. exact (standalone_roundtrip encode decode). Qed.
Print Assumptions C11_standalone_partial.
(* the full statement, with [gen] = tools.standalone.gen_standalone (module text of an instance) and [run] =
   "execute the module text and call Lark_StandAlone with the keyword arguments" *)
Definition C11_standalone_full_statement (gen : lark_inst -> string) (run : string -> options -> option lark_inst) : Prop :=
  forall g O i kw, build g O = Some i -> wf_inst i -> allowed_only kw ->
  run (gen i) kw = obind (lark_options_init (aupdate O kw)) (build g).

(* the boolean check the harness evaluates on every exported instance implies the hypothesis of the theorems *)
Theorem C11_wf_check_sound i : wf_inst_b i = true -> wf_inst i.
Proof. exact (wf_inst_b_sound i). Qed.
Print Assumptions C11_wf_check_sound.

(* ---- stand-alone clause, program part.  The ###{standalone sections are re-extracted on every run with the tool's
   own extract_sections / strip_docstrings (Gen/Standalone.v). *)
(* same definitions => same runs, for any evaluator whose result depends only on the definitions reachable from the
   entry point through global-name references (the one trusted hypothesis about Python) *)
Theorem C11_standalone_same_program (D V : Type) (refs : D -> list string) (run : (string -> option D) -> string -> V) :
  (forall p q entry, (forall n, reachable D refs p entry n -> p n = q n) -> run p entry = run q entry) ->
  forall (lib sa : string -> option D) cl entry,
  closure_ok_b (fun m => option_map refs (sa m)) cl entry = true ->
  (forall n, In n cl -> sa n = lib n) ->
  run sa entry = run lib entry.
Proof. exact (same_program D V refs run). Qed.
Print Assumptions C11_standalone_same_program.

(* the same for the regenerated program: a generated module whose definitions have the library's normalised-AST
   hash and references on the closure of Lark_StandAlone runs as the library's definitions do *)
Theorem C11_standalone_generated_module (V : Type) (run : (string -> option (string * list string)) -> string -> V) :
  (forall p q entry, (forall n, reachable _ snd p entry n -> p n = q n) -> run p entry = run q entry) ->
  forall gen,
  (forall n, In n (closure 12 sa_program [sa_entry]) -> as_prog gen n = as_prog sa_program n) ->
  run (as_prog gen) sa_entry = run (as_prog sa_program) sa_entry.
Proof.
  intros Hloc gen Hag.
  apply (generated_module_same_runs V run Hloc sa_program gen (closure 12 sa_program [sa_entry]) sa_entry); [|exact Hag].
  vm_compute. reflexivity.
Qed.
Print Assumptions C11_standalone_generated_module.

(* closed program: every global name an extracted definition mentions is bound by the module, is a builtin, or is one
   of the declared construction / serialisation-only names; a helper left outside the markers breaks this Example *)
Example C11_standalone_closed : closed_program sa_builtins declared_unprovided sa_program = true.
Proof. vm_compute. reflexivity. Qed.
Print Assumptions C11_standalone_closed.
Theorem C11_standalone_closed_spec d r :
  In d sa_program -> In r (s_refs d) -> In r (provided sa_program) \/ In r sa_builtins \/ In r declared_unprovided.
Proof. exact (closed_program_spec sa_builtins declared_unprovided sa_program C11_standalone_closed d r). Qed.
Print Assumptions C11_standalone_closed_spec.

(* import-time order: base classes, decorators, defaults and module-level expressions only use names bound earlier *)
Example C11_standalone_ordered : ordered_program sa_builtins sa_program = true.
Proof. vm_compute. reflexivity. Qed.
Print Assumptions C11_standalone_ordered.
Theorem C11_standalone_ordered_spec pre d post x :
  sa_program = pre ++ d :: post -> In x (s_eager d) -> In x sa_builtins \/ In x (provided pre).
Proof. intros E. exact (ordered_program_spec sa_program sa_builtins C11_standalone_ordered pre d post E x). Qed.
Print Assumptions C11_standalone_ordered_spec.

(* ---- stand-alone clause, name resolution (round 12).  The generated module as a list of statements cut into code units
   (Gen/StandaloneUnits.v: per unit the global names it loads, in which position, attribute names it uses ...), executed
   by the small-step machine of Ser/NameRes.v: statements bind names in order, a unit's global names are looked up when it
   runs, control flow inside a unit is "anything, any number of times"; the last statement is the client, which may call
   Lark_StandAlone, use every public name of lark's __all__ and every public attribute except the unsupported ones. *)
(* the decidable check implies that no run of the machine raises NameError, for any program and any certificates *)
Theorem C11_standalone_name_resolution_sound P Bi flags data NR ancT descT pc :
  run_check_with P Bi flags data NR ancT descT pc [] [] [] P = true ->
  forall s, steps P Bi flags data NR ancT descT (initial P) s -> forall u n, s <> NameErr u n.
Proof. exact (no_name_error P Bi flags data NR ancT descT pc). Qed.
Print Assumptions C11_standalone_name_resolution_sound.
(* the regenerated program passes the check (vm_compute in Ser/NameResInstance_proofs.v): importing the generated module
   and then doing anything the client statement allows never looks up an unbound global name.  No name is tolerated
   any more; what is declared instead: create_lalr_parser never runs (sa_not_run), five library methods are not part
   of the stand-alone API (sa_unsupported_attrs), DATA has no 'grammar' key (sa_data) *)
Theorem C11_standalone_no_name_error s : sa_steps (initial sa_full) s -> forall u n, s <> NameErr u n.
Proof. exact (sa_no_name_error s). Qed.
Print Assumptions C11_standalone_no_name_error.
(* whatever the client does, only the units of sa_reached run: the harness checks every function the real generated
   module calls in its runs against this list, and that none of the unreached ones (Lark.__init__, the serialiser ...) runs *)
Theorem C11_standalone_client_runs_reached b F K todo stack :
  sa_steps (initial sa_full) (Run b F K todo stack (Some sa_client)) -> forall k, In k stack -> In k sa_reached.
Proof. exact (sa_client_runs_reached b F K todo stack). Qed.
Print Assumptions C11_standalone_client_runs_reached.
(* the hypothesis "DATA has no 'grammar' key" is necessary: with the DATA that gen_standalone embedded for an instance
   built with cache_grammar=True (before repair F53) the machine has a run to NameError - replayed on the code *)
Theorem C11_standalone_cache_grammar_refuted :
  has_data_grammar_load = true ->
  steps sa_full sau_builtins sau_flags sa_data_cg sa_not_run sa_anc sa_desc (initial sa_full) (NameErr "Lark._load" "Grammar").
Proof. exact sa_cache_grammar_name_error. Qed.
Print Assumptions C11_standalone_cache_grammar_refuted.
Example C11_standalone_units_example :
  (has_data_grammar_load && mem "Lark._load" sa_reached && mem "ParserState.feed_token" sa_reached &&
   mem "Lark.__init__" sa_unreached && mem "Serialize.serialize" sa_unreached && keys_unique sa_full) = true.
Proof. vm_compute. reflexivity. Qed.
Print Assumptions C11_standalone_units_example.

(* regression for the defect this development found (flags came back as a list; repaired by Pattern._deserialize):
   without re-freezing, the flag test of lexer._create_unless changes its answer; with it, it never does *)
Theorem C11_flags_list_changes_unless_test :
  exists a b, flags_le (FSet a) (FSet b) = Some false /\
              flags_le (flags_as_list (FSet a)) (flags_as_list (FSet b)) = Some true.
Proof. exact flags_list_changes_unless_test. Qed.
Print Assumptions C11_flags_list_changes_unless_test.
Theorem C11_flags_test_preserved a b fa fb :
  flags_ok a -> flags_ok b -> deser_flags (ser_flags a) = Some fa -> deser_flags (ser_flags b) = Some fb ->
  flags_le fa fb = flags_le a b.
Proof. exact (flags_le_preserved a b fa fb). Qed.
Print Assumptions C11_flags_test_preserved.

(* Non-vacuity: a concrete instance (two terminals, one of them a case-insensitive string next to a flagged
   regexp - the shape of the defect above -, two rules, a table with shift and reduce actions) meets every
   hypothesis, and the cache-path hypotheses hold for keyword arguments that change two load-allowed options. *)
Definition ex_A := mkTD "A" (PatStr "abc" (FSet ["i"]) (Some """abc""i")) 0.
Definition ex_B := mkTD "B" (PatRE "[a-z]+" (FSet ["s"]) (Some "/[a-z]+/s") (WList 1 4294967295)) 0.
Definition ex_r0 := mkRule (NT "start") [T "A" false; NT "start"] 0 None (mkRO false false None None []).
Definition ex_r1 := mkRule (NT "start") [T "B" false] 1 (Some "b") (mkRO false true (Some 2%Z) None [false]).
Definition ex_table := mkTable [(0%Z, [("A", Shift 1); ("B", Shift 2); ("start", Shift 3)]);
                                (1%Z, [("A", Shift 1); ("B", Shift 2); ("start", Shift 4)]);
                                (2%Z, [("$END", Reduce ex_r1)]); (3%Z, []); (4%Z, [("$END", Reduce ex_r0)])]
                               [("start", 0%Z)] [("start", 3%Z)].
Definition ex_g := mkG [ex_A; ex_B] [] "contextual" [ex_r0; ex_r1] ["start"] "lalr" ex_table.
Definition ex_kw : options := [("propagate_positions", VBool true); ("g_regex_flags", VInt 2)].
Definition ex_O : options :=
  match lark_options_init (ex_kw ++ [("parser", VStr "lalr"); ("lexer", VStr "contextual"); ("start", VStr "start")]) with
  | Some o => o | None => [] end.
Definition ex_i : lark_inst := match build ex_g ex_O with Some i => i | None => mkLark (mkFE (mkLC [] [] 0 false "" VNone false VNone) (mkPC [] [] "") (mkTable [] [] [])) [] [] end.

Example C11_example :
  build ex_g ex_O = Some ex_i /\ wf_inst ex_i /\ normalized ex_O /\ NoDup (map fst ex_kw) /\ allowed_only ex_kw /\
  (forall k d, In (k, d) option_defaults -> In k load_allowed_options ->
     norm_option (match aget k ex_kw with Some v => [(k, v)] | None => [] end) (k, d) = norm_option ex_O (k, d)) /\
  (exists dm, save ex_i load_allowed_options = Some dm /\ load dm ex_kw = Some ex_i /\
              load dm [] <> Some ex_i /\ load dm [("keep_all_tokens", VBool true)] = None).
Proof.
  split; [reflexivity|]. split; [|split; [reflexivity|]].
  - apply wf_inst_b_sound. vm_compute. reflexivity.
  - split; [repeat constructor; cbn; intuition discriminate|].
    split; [intros k Hk; cbn in Hk; cbn; intuition|].
    split.
    + intros k d Hin Hk. cbn in Hk. cbn in Hin.
      repeat (destruct Hk as [<-|Hk]); try contradiction;
        repeat (destruct Hin as [Hin|Hin]; [first [inversion Hin; subst; reflexivity | discriminate]|]); contradiction.
    + eexists. split; [vm_compute; reflexivity|]. split; [vm_compute; reflexivity|].
      split; [vm_compute; discriminate|vm_compute; reflexivity].
Qed.
Print Assumptions C11_example.
