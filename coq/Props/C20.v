(* C20 - The parse forest (ambiguity='forest') encodes exactly the derivations.
   Property theorems only, each closed by [exact] of a lemma of Forest/Tft_proofs.v or
   Forest/Visit_proofs.v about the models Forest/Tft.v (TreeForestTransformer with default
   callbacks on acyclic forests) and Forest/Visit.v (ForestVisitor.visit on finite graphs,
   recursive reading and coded explicit-stack loop).
   Layer A (the forest stores exactly the derivations of the input) is proved for the executable model of
   lark's Earley parser ([C20_forest_exact_model], from Forest/ExplicitAlgBuild_proofs.v, basic lexer / unit
   tokens); the residue - that this model is lark's parser - is compared on every run (C01/C04 column and
   alg-families ties, and here: model derivations of the exported forest = brute-force derivations). *)
From Coq Require Import ZArith List Bool String.
From Coq Require Import Permutation.
From LV Require Import Base.Prelude Forest.Sppf Forest.Prio Forest.Prio_proofs Forest.Tft Forest.Tft_proofs
  Forest.Tft_perm_proofs Forest.Visit Forest.Visit_proofs.
Import ListNotations.

(* Expanding the `_ambig` nodes of TreeForestTransformer(resolve_ambiguity=False).transform
   yields precisely the unshaped derivation trees denoted by the forest. *)
Theorem C20_tft_unshaped_exact s t :
  wfb s = true -> tft s = Some t ->
  forall u, In u (expand t) <-> In u (map unshape (root_derivs s)).
Proof. exact (tft_unshaped_exact s t). Qed.
Print Assumptions C20_tft_unshaped_exact.

(* ... each exactly as often as the forest denotes it: the expansion is a permutation of the
   derivation list (no loss, no duplication) *)
Theorem C20_tft_unshaped_perm s t :
  wfb s = true -> tft s = Some t -> Permutation (expand t) (map unshape (root_derivs s)).
Proof. exact (tft_unshaped_perm s t). Qed.
Print Assumptions C20_tft_unshaped_perm.

(* resolve_ambiguity=True yields one of them *)
Theorem C20_tft_resolve_in s :
  wfb s = true -> In (tft_resolve s) (map (map unshape) (derivs s)).
Proof. exact (tft_resolve_in s). Qed.
Print Assumptions C20_tft_resolve_in.

(* is_ambiguous on a node is false whenever it has a single derivation: every packed child
   of a well-formed node contributes at least one derivation ... *)
Theorem C20_is_ambiguous_single s :
  wfb s = true -> (List.length (derivs s) <= 1)%nat -> is_ambiguous s = false.
Proof. exact (is_ambiguous_single s). Qed.
Print Assumptions C20_is_ambiguous_single.

(* ... and, reading "single" as a set, under the packed-dedup hypothesis (distinct packed
   children of a symbol node denote distinct derivations: NoDup (derivs s)) *)
Theorem C20_is_ambiguous_iff s :
  wfb s = true -> packed_dedup s ->
  (forall d1 d2, In d1 (derivs s) -> In d2 (derivs s) -> d1 = d2) -> is_ambiguous s = false.
Proof. exact (is_ambiguous_iff s). Qed.
Print Assumptions C20_is_ambiguous_iff.

(* ForestVisitor.visit terminates on every finite forest graph - cyclic or not - for every
   visitor class, i.e. whatever the visit_*_in callbacks return - an iterable of nodes, a single node
   (vret: RNodes / ROne, both branches of visit()) or nothing -, in
   single-visit and multi-visit mode: the model never runs out of its fuel |nodes|+1 ... *)
Theorem C20_visit_terminates g single sel root : visit g single sel root <> OutOfFuel.
Proof. exact (visit_terminates g single sel root). Qed.
Print Assumptions C20_visit_terminates.

(* ... and returns a trace when the callbacks return nodes of the graph *)
Theorem C20_visit_total g single sel root :
  (forall tr n c, In c (sel_kids (sel tr n)) -> c < List.length g) -> root < List.length g ->
  exists st, visit g single sel root = Ok st.
Proof. exact (visit_total g single sel root). Qed.
Print Assumptions C20_visit_total.

(* on_cycle is called exactly for the returned nodes that are on the current path, with that
   path: the computed walk is the one (unique) walk allowed by the declarative reading [dfs],
   whose rules K_cycle / K_visit split on membership in the path *)
Theorem C20_on_cycle_exact g single sel root st :
  visit g single sel root = Ok st <-> dfs g single sel [] ([], []) root st.
Proof. exact (on_cycle_exact g single sel root st). Qed.
Print Assumptions C20_on_cycle_exact.

Theorem C20_cycle_events_sound g single sel root st c p :
  visit g single sel root = Ok st -> In (ECycle c p) (fst st) -> In c p /\ NoDup p.
Proof. exact (cycle_events_sound g single sel root st c p). Qed.
Print Assumptions C20_cycle_events_sound.

(* the coded loop (input_stack with iterators, visiting, visited, path) ends with the trace
   and visited set of the recursive model *)
Theorem C20_loop_eq_rec g single sel root st :
  visit g single sel root = Ok st -> exists fuel, visit_loop g single sel fuel root = Ok st.
Proof. exact (loop_eq_rec g single sel root st). Qed.
Print Assumptions C20_loop_eq_rec.

(* Layer A beyond the model: the forest LARK builds (all three lexers, %ignore) denotes exactly the derivations of
   the input.  Proved for the model below; for lark itself it rests on the per-case ties. *)
Definition C20_forest_exact_lark_full_statement : Prop :=
  forall (grammar input : Type) (lark_forest : grammar -> input -> option sym)
         (derivations : grammar -> input -> dtree -> Prop),
  forall G w s, lark_forest G w = Some s ->
  forall d, derivations G w d <-> In d (root_derivs s).

(* ---- non-vacuity ---------------------------------------------------------------------- *)
Definition lb (n : string) (i j : Z) := mkLabel n false i j.
Definition tokA := TokLeaf "A" "a" 0.
(* start: a | b   a: A   b: A  on "a" *)
Definition ex1 : sym :=
  Sym (lb "start" 0 1)
    [Pack (mkRule 0 "start" None 0) None (Some (Sym (lb "a" 0 1) [Pack (mkRule 2 "a" None 0) None (Some tokA)]));
     Pack (mkRule 1 "start" None 1) None (Some (Sym (lb "b" 0 1) [Pack (mkRule 3 "b" None 0) None (Some tokA)]))].

Example C20_example_tft :
  wfb ex1 = true /\
  tft ex1 = Some (UAmbig [UNode "start" [UNode "a" [ULeaf "A" "a"]]; UNode "start" [UNode "b" [ULeaf "A" "a"]]]) /\
  is_ambiguous ex1 = true /\ List.length (derivs ex1) = 2%nat.
Proof. vm_compute. repeat split; reflexivity. Qed.

(* the forest of  a: a | A  on "a": symbol 0 -> packed 1 -> symbol 0 (cycle), packed 2 -> token 3 *)
Definition cyc : vgraph := [VInner; VInner; VInner; VTok 0].
Definition cyc_kids (n : nat) : vret :=
  match n with 0 => RNodes [1; 2] | 1 => ROne 0 | 2 => RNodes [3] | _ => RNodes [] end.

Example C20_example_cycle :
  visit cyc false (fun _ => cyc_kids) 0
  = Ok ([EIn 0; EIn 1; ECycle 0 [0; 1]; EOut 1; EIn 2; ETok 0; EOut 2; EOut 0], [0; 2; 1]) /\
  visit_loop cyc false (fun _ => cyc_kids) 40 0 = visit cyc false (fun _ => cyc_kids) 0.
Proof. vm_compute. split; reflexivity. Qed.

(* ---- the forest as lark builds it: a label-keyed graph, possibly cyclic (Forest/GraphResolve.v) ---------
   ForestToParseTree(resolve_ambiguity=True): whatever tree the walk returns is one of the finite unfoldings the
   graph forest stores ([den] of Forest/ExplicitBuild.v) - on every forest, cyclic or not, for every
   rearrangement [order] of the packed children ... *)
From LV Require Import Cfg.Grammar Forest.ExplicitBuild Forest.GraphResolve Forest.GraphResolve_proofs.

Theorem C20_graph_resolve_in_den (tok : Type) (teqb : tok -> tok -> bool)
  (teqb_spec : forall a b, teqb a b = true <-> a = b)
  (fams : list (nlabel tok * family tok)) (order : nlabel tok -> list (family tok) -> list (family tok))
  (order_perm : forall l fs f, In f (order l fs) <-> In f fs) a i j d :
  graph_resolve tok teqb fams order (NSym tok a i j) = Some d ->
  den tok (in_forest tok fams) (NSym tok a i j) [d].
Proof. exact (graph_resolve_in_den tok teqb teqb_spec fams order order_perm a i j d). Qed.
Print Assumptions C20_graph_resolve_in_den.

(* ... and it returns one whenever the forest stores one below the root: the walk retreats from the packed
   children that run into the current path (on_cycle / _on_cycle_retreat) and goes on with the next one, which
   finds a finite unfolding whenever there is one - also on cyclic forests *)
Theorem C20_graph_resolve_total (tok : Type) (teqb : tok -> tok -> bool)
  (teqb_spec : forall a b, teqb a b = true <-> a = b)
  (fams : list (nlabel tok * family tok)) (order : nlabel tok -> list (family tok) -> list (family tok))
  (order_perm : forall l fs f, In f (order l fs) <-> In f fs) a i j d :
  den tok (in_forest tok fams) (NSym tok a i j) [d] ->
  graph_resolve tok teqb fams order (NSym tok a i j) <> None.
Proof. exact (graph_resolve_total tok teqb teqb_spec fams order order_perm a i j d). Qed.
Print Assumptions C20_graph_resolve_total.

(* the forest of  a: a | X  on "x": node (a,0,1) with packed children (a -> a) and (a -> X); the first one runs
   into the path and is abandoned, the second is kept *)
Definition ra := mkRule 0 [NT 0].
Definition rx := mkRule 0 [T 0].
Definition cyc_fams : list (nlabel nat * family nat) :=
  [(NSym nat 0 0 1, (ra, None, Some (NSym nat 0 0 1))); (NSym nat 0 0 1, (rx, None, Some (NTok nat 0 7 0 1)))].
Example C20_example_graph_resolve :
  graph_resolve nat Nat.eqb cyc_fams (fun _ fs => fs) (NSym nat 0 0 1) = Some (DN nat rx [DL nat 0 7]).
Proof. vm_compute. reflexivity. Qed.

(* ---- layer A for the executable Earley model (Forest/ExplicitAlgBuild.v: Earley/Alg.v instrumented with the
   add_family calls of earley.py, node_cache keys as labels): below the root (start, 0, |w|) the model's graph
   forest stores exactly the derivation trees of the input - both inclusions *)
From LV Require Import Earley.Alg Forest.ExplicitAlgBuild Forest.ExplicitAlgBuild_proofs.

Theorem C20_forest_exact_model G start toks :
  r_out (fst (iearley_parse G start toks)) = Accept \/ r_out (fst (iearley_parse G start toks)) = RejectEOF ->
  forall ds, den nat (in_forest nat (snd (iearley_parse G start toks))) (NSym nat start 0 (List.length toks)) ds
             <-> exists d, ds = [d] /\ wfd G nat Nat.eqb d (NT start) /\ yield nat d = toks.
Proof. exact (iearley_forest_exact G start toks). Qed.
Print Assumptions C20_forest_exact_model.

(* every derivation tree of the sentence makes the model accept and is stored below the root *)
Theorem C20_forest_complete_model G start toks d :
  wfd G nat Nat.eqb d (NT start) -> yield nat d = toks ->
  r_out (fst (iearley_parse G start toks)) = Accept
  /\ den nat (in_forest nat (snd (iearley_parse G start toks))) (NSym nat start 0 (List.length toks)) [d].
Proof. exact (iearley_forest_complete G start toks d). Qed.
Print Assumptions C20_forest_complete_model.

(* ... hence the resolve walk on the model's forest (cyclic or not, any children order) returns a derivation tree
   of the sentence, and returns one whenever the sentence has one *)
Theorem C20_resolve_model_exact G start toks
  (order : nlabel nat -> list (family nat) -> list (family nat))
  (order_perm : forall l fs f, In f (order l fs) <-> In f fs) :
  let forest := snd (iearley_parse G start toks) in
  let root := NSym nat start 0 (List.length toks) in
  (r_out (fst (iearley_parse G start toks)) = Accept ->
   forall d, graph_resolve nat Nat.eqb forest order root = Some d ->
             wfd G nat Nat.eqb d (NT start) /\ yield nat d = toks) /\
  (forall d, wfd G nat Nat.eqb d (NT start) -> yield nat d = toks ->
             graph_resolve nat Nat.eqb forest order root <> None).
Proof.
  cbv zeta. split.
  - intros Hacc d Hr.
    apply (graph_resolve_in_den nat Nat.eqb Nat.eqb_eq _ order order_perm) in Hr.
    apply (iearley_forest_exact G start toks (or_introl Hacc)) in Hr.
    destruct Hr as [d0 [E [Hw Hy]]]. injection E as <-. auto.
  - intros d Hw Hy. destruct (iearley_forest_complete G start toks d Hw Hy) as [_ Hden].
    exact (graph_resolve_total nat Nat.eqb Nat.eqb_eq _ order order_perm _ _ _ _ Hden).
Qed.
Print Assumptions C20_resolve_model_exact.

(* ---- Round 12: ForestToParseTree / TreeForestTransformer on the forest as lark builds it (Forest/GraphTft.v): the
   label-keyed, possibly CYCLIC graph, both modes, use_cache=False.  [tft_walk] is the walk as coded (every branch
   condition regenerated from earley_forest.py: Gen/ForestWalk.v; state: retreat flag, cycle node, membership in
   _successful_visits, the data lists), recording every callback with what transform_* receive; [gta]/[graph_tft] is
   the plain function it computes.  The walk terminates on every finite forest ... *)
From LV Require Import Forest.GraphTft Forest.GraphTft_proofs.

Theorem C20_tft_walk_terminates (tok : Type) (teqb : tok -> tok -> bool)
  (teqb_spec : forall a b, teqb a b = true <-> a = b)
  (fams : list (nlabel tok * family tok)) (order : nlabel tok -> list (family tok) -> list (family tok))
  (order_perm : forall l fs f, In f (order l fs) <-> In f fs) resolve root :
  exists r, tft_walk tok teqb fams order resolve root = Ok r.
Proof. exact (tft_walk_terminates tok teqb teqb_spec fams order order_perm resolve root). Qed.
Print Assumptions C20_tft_walk_terminates.

(* ... and on a closed forest (every referenced symbol node has a packed child) returns what the plain function
   computes: a node on the path has no alternative (on_cycle, retreat), a packed node the products of its children's,
   a symbol node those of all its packed children in `children` order (or of the first that has any) *)
Theorem C20_tft_walk_computes (tok : Type) (teqb : tok -> tok -> bool)
  (teqb_spec : forall a b, teqb a b = true <-> a = b)
  (fams : list (nlabel tok * family tok)) (order : nlabel tok -> list (family tok) -> list (family tok))
  (order_perm : forall l fs f, In f (order l fs) <-> In f fs) resolve
  (closed : forall lbl r l rt c, in_forest tok fams lbl (r, l, rt) -> In c (olist l ++ olist rt) ->
     is_tok tok c = false -> fams_of tok teqb fams c <> []) root tr res :
  (is_tok tok root = false -> fams_of tok teqb fams root <> []) ->
  tft_walk tok teqb fams order resolve root = Ok (tr, res) ->
  res = match gta tok teqb fams order resolve (tw_fuel tok fams) [] root with [] => None | v => Some v end.
Proof. exact (tft_walk_computes tok teqb teqb_spec fams order order_perm resolve closed root tr res). Qed.
Print Assumptions C20_tft_walk_computes.

(* both modes, every forest: each tree the result stands for is a finite unfolding the forest stores, and there is one *)
Theorem C20_graph_tft_sound (tok : Type) (teqb : tok -> tok -> bool)
  (teqb_spec : forall a b, teqb a b = true <-> a = b)
  (fams : list (nlabel tok * family tok)) (order : nlabel tok -> list (family tok) -> list (family tok))
  (order_perm : forall l fs f, In f (order l fs) <-> In f fs) resolve a i j t :
  graph_tft tok teqb fams order resolve (NSym tok a i j) = Some t ->
  (forall d, In d (aexpand tok t) -> den tok (in_forest tok fams) (NSym tok a i j) [d]) /\ aexpand tok t <> [].
Proof. exact (graph_tft_sound tok teqb teqb_spec fams order order_perm resolve a i j t). Qed.
Print Assumptions C20_graph_tft_sound.

(* resolve_ambiguity=False on ANY forest: the trees are exactly the unfoldings in which no node occurs below itself
   ([sden]: what is skipped on a cycle is precisely the packed nodes one of whose children is on the path), and a tree
   is returned iff the forest stores a finite unfolding at all *)
Theorem C20_graph_tft_exact (tok : Type) (teqb : tok -> tok -> bool)
  (teqb_spec : forall a b, teqb a b = true <-> a = b)
  (fams : list (nlabel tok * family tok)) (order : nlabel tok -> list (family tok) -> list (family tok))
  (order_perm : forall l fs f, In f (order l fs) <-> In f fs) a i j :
  (forall t, graph_tft tok teqb fams order false (NSym tok a i j) = Some t ->
             forall d, In d (aexpand tok t) <-> sden tok fams [] (NSym tok a i j) [d]) /\
  (graph_tft tok teqb fams order false (NSym tok a i j) <> None <->
   exists d, den tok (in_forest tok fams) (NSym tok a i j) [d]).
Proof. exact (graph_tft_exact tok teqb teqb_spec fams order order_perm false a i j eq_refl). Qed.
Print Assumptions C20_graph_tft_exact.

(* on an acyclic graph forest (a rank decreasing along every edge): exactly ALL stored unfoldings *)
Theorem C20_graph_tft_exact_acyclic (tok : Type) (teqb : tok -> tok -> bool)
  (teqb_spec : forall a b, teqb a b = true <-> a = b)
  (fams : list (nlabel tok * family tok)) (order : nlabel tok -> list (family tok) -> list (family tok))
  (order_perm : forall l fs f, In f (order l fs) <-> In f fs)
  (rk : nlabel tok -> nat)
  (ranked : forall lbl r l rt c, in_forest tok fams lbl (r, l, rt) -> In c (olist l ++ olist rt) -> rk c < rk lbl)
  (tok_no_family : forall t x i j f, ~ in_forest tok fams (NTok tok t x i j) f) a i j t :
  graph_tft tok teqb fams order false (NSym tok a i j) = Some t ->
  forall d, In d (aexpand tok t) <-> den tok (in_forest tok fams) (NSym tok a i j) [d].
Proof.
  intros H d. rewrite (proj1 (graph_tft_exact tok teqb teqb_spec fams order order_perm false a i j eq_refl) t H d).
  exact (sden_iff_den tok fams rk ranked tok_no_family (NSym tok a i j) [d]).
Qed.
Print Assumptions C20_graph_tft_exact_acyclic.

(* layer A + layer B for the executable Earley model: when its forest is acyclic, expanding the `_ambig` nodes of
   TreeForestTransformer(resolve_ambiguity=False) on it gives exactly the derivation trees of the sentence *)
Theorem C20_tft_model_exact G start toks
  (order : nlabel nat -> list (family nat) -> list (family nat))
  (order_perm : forall l fs f, In f (order l fs) <-> In f fs) (rk : nlabel nat -> nat) :
  let forest := snd (iearley_parse G start toks) in
  let root := NSym nat start 0 (List.length toks) in
  (forall lbl r l rt c, in_forest nat forest lbl (r, l, rt) -> In c (olist l ++ olist rt) -> rk c < rk lbl) ->
  (forall t x i j f, ~ in_forest nat forest (NTok nat t x i j) f) ->
  r_out (fst (iearley_parse G start toks)) = Accept ->
  forall t, graph_tft nat Nat.eqb forest order false root = Some t ->
  forall d, In d (aexpand nat t) <-> wfd G nat Nat.eqb d (NT start) /\ yield nat d = toks.
Proof.
  cbv zeta. intros Hrk Hnt Hacc t Ht d.
  rewrite (C20_graph_tft_exact_acyclic nat Nat.eqb Nat.eqb_eq _ order order_perm rk Hrk Hnt _ _ _ t Ht d).
  rewrite (iearley_forest_exact G start toks (or_introl Hacc) [d]). split.
  - intros [d0 [E H]]. injection E as <-. exact H.
  - intros H. exists d. auto.
Qed.
Print Assumptions C20_tft_model_exact.

(* non-vacuity: a: a | X on "x" (cyc_fams above) - the cyclic alternative is entered, on_cycle is called with the path
   [a; (a -> a)], the packed node is discarded, the other alternative is kept; both modes return the same tree *)
Example C20_example_graph_tft :
  graph_tft nat Nat.eqb cyc_fams (fun _ fs => fs) false (NSym nat 0 0 1) = Some (ANode rx [ALeaf 0 7]) /\
  tft_walk nat Nat.eqb cyc_fams (fun _ fs => fs) false (NSym nat 0 0 1)
  = Ok ([TIn (TS (NSym nat 0 0 1)) [TP (NSym nat 0 0 1) (ra, None, Some (NSym nat 0 0 1));
                                    TP (NSym nat 0 0 1) (rx, None, Some (NTok nat 0 7 0 1))];
         TIn (TP (NSym nat 0 0 1) (ra, None, Some (NSym nat 0 0 1))) [TS (NSym nat 0 0 1)];
         TCycle (NSym nat 0 0 1) [TS (NSym nat 0 0 1); TP (NSym nat 0 0 1) (ra, None, Some (NSym nat 0 0 1))];
         TOut (TP (NSym nat 0 0 1) (ra, None, Some (NSym nat 0 0 1))) [] None;
         TIn (TP (NSym nat 0 0 1) (rx, None, Some (NTok nat 0 7 0 1))) [TS (NTok nat 0 7 0 1)];
         TTok 0 7;
         TOut (TP (NSym nat 0 0 1) (rx, None, Some (NTok nat 0 7 0 1))) [[[ALeaf 0 7]]] (Some [[ANode rx [ALeaf 0 7]]]);
         TOut (TS (NSym nat 0 0 1)) [[[ANode rx [ALeaf 0 7]]]] (Some [[ANode rx [ALeaf 0 7]]])],
        Some [[ANode rx [ALeaf 0 7]]]).
Proof. vm_compute. split; reflexivity. Qed.

(* Histories on one transformer object (finding F50, repaired in /repo: ForestToParseTree.visit() now resets the retreat
   flag, the cycle node and _successful_visits first; transform() re-pushes its 'result' sentinel and visit_*_in resets
   data[id(node)]): transform() from ANY object state - e.g. the one left by a walk that an exception aborted - equals
   transform() on a fresh object.  Not proved (the per-object state node_stack / data is not yet explicit state of the
   model); the init blocks of transform() and visit() are pinned by the translator (Gen/ForestWalk.v fails closed) and
   the stream `reuse-history` compares, for every class x callback kind x abort point, the later walks with a fresh
   object's.  Before the repair the statement was false (stale _on_cycle_retreat: witness in that stream). *)
Definition C20_transform_after_abort_full_statement : Prop :=
  forall (obj forest result : Type) (fresh : obj) (transform : obj -> forest -> obj * option result)
         (reachable : obj -> Prop),
  forall o f, reachable o -> snd (transform o f) = snd (transform fresh f).
