(* C05 - Default ambiguity resolution is a priority-optimal, deterministic choice.
   Property theorems only; each is closed by [exact] of a lemma of Forest/Prio_proofs.v about
   the model Forest/Prio.v (ForestSumVisitor, SymbolNode.children, ForestToParseTree in
   resolve mode, the priority block of Lark.__init__).  PackedNode.sort_key, the combining
   function of symbol nodes and the rule-priority condition are regenerated from
   lark/parsers/earley_forest.py (Gen/ForestSortKey.v).
   Scope: acyclic forests (sharing unfolded), ordered_sets=True. *)
From Coq Require Import ZArith List Bool String.
From LV Require Import Forest.Sppf Gen.ForestSortKey Forest.Prio Forest.Prio_proofs.
Import ListNotations.
Local Open Scope Z_scope.

(* After ForestSumVisitor the priority of a node is the maximum, over the derivations below
   it, of the sum of the priorities of the rules applied plus the token priorities; a packed
   node adds its rule's priority only under a completed (non-intermediate) parent. *)
Theorem C05_sum_visitor_is_max s :
  wfb s = true -> derivs s <> [] /\ sv s = zmax_list (map fprio (derivs s)).
Proof. exact (sum_visitor_is_max s). Qed.
Print Assumptions C05_sum_visitor_is_max.

Theorem C05_sum_visitor_packed inter p :
  wfb_p p = true -> sv_p inter p = rule_part inter p + zmax_list (map fprio (derivs_p p)).
Proof. exact (sum_visitor_packed inter p). Qed.
Print Assumptions C05_sum_visitor_packed.

(* The resolved tree is one of the derivations (with or without the priority walk). *)
Theorem C05_resolve_in_derivs s :
  wfb s = true -> In (resolve s) (derivs s) /\ In (resolve_none s) (derivs s).
Proof. exact (fun H => conj (resolve_in_derivs s H) (resolve_none_in_derivs s H)). Qed.
Print Assumptions C05_resolve_in_derivs.

(* At every symbol node resolve keeps the family with the least
   (is_empty, -priority, rule.order) key, the first such in insertion order, and builds the
   result from that family alone. *)
Theorem C05_resolve_lex_optimal l fams p :
  chosen (Sym l fams) = Some p ->
  resolve (Sym l fams) = wrap (l_inter l) p (resolve_p p) /\
  exists before after, fams = before ++ p :: after /\
    (forall q, In q before -> klt (pkey (l_inter l) p) (pkey (l_inter l) q) = true) /\
    (forall q, In q after -> kle (pkey (l_inter l) p) (pkey (l_inter l) q) = true).
Proof.
  exact (fun H => conj (eq_trans (resolve_unfold l fams)
                                 (f_equal (fun o => match o with None => [] | Some p => wrap (l_inter l) p (resolve_p p) end) H))
                       (resolve_lex_optimal l fams p H)).
Qed.
Print Assumptions C05_resolve_lex_optimal.

Theorem C05_sort_key_meaning e1 p1 o1 e2 p2 o2 :
  klt (sort_key e1 p1 o1) (sort_key e2 p2 o2) = true <->
  (e1 = false /\ e2 = true) \/ (e1 = e2 /\ (p1 > p2 \/ (p1 = p2 /\ o1 < o2))).
Proof. exact (sort_key_lt e1 p1 o1 e2 p2 o2). Qed.
Print Assumptions C05_sort_key_meaning.

(* priority='normal': without directly empty families the returned derivation has the
   maximal total priority.  [s] is the forest lark builds; the side condition says that the
   walk is skipped only when there is nothing to add up (validated on every case). *)
Theorem C05_optimal basic rps tps s :
  wfb s = true -> no_emptyb s = true ->
  (uses_visitor PNormal basic rps tps = false -> all_zerob s = true) ->
  In (lark_resolve PNormal basic rps tps s) (derivs s) /\
  fprio (lark_resolve PNormal basic rps tps s) = zmax_list (map fprio (derivs s)).
Proof. exact (lark_optimal basic rps tps s). Qed.
Print Assumptions C05_optimal.

(* the same with the weaker hypothesis: inside each symbol node either no family is empty
   or all are *)
Theorem C05_optimal_uniform s :
  wfb s = true -> uniform_emptyb s = true ->
  In (resolve s) (derivs s) /\ fprio (resolve s) = zmax_list (map fprio (derivs s)).
Proof. exact (resolve_optimal_uniform s). Qed.
Print Assumptions C05_optimal_uniform.

(* the built-in precedence: a directly empty family is kept only if every family of its
   node is empty; a non-empty one is preferred whatever the priorities *)
Theorem C05_empty_precedence l fams p :
  chosen (Sym l fams) = Some p ->
  (is_empty p = true -> forall q, In q fams -> is_empty q = true) /\
  (forall q, In q fams -> is_empty q = false -> is_empty p = false).
Proof.
  exact (fun H => conj (empty_precedence l fams p H) (fun q Hq He => nonempty_preferred l fams p q H Hq He)).
Qed.
Print Assumptions C05_empty_precedence.

(* priority='invert' (all rule and terminal priorities negated at load time): the result
   is the negated copy of a derivation of MINIMAL total priority *)
Theorem C05_invert basic rps tps s :
  wfb s = true -> no_emptyb s = true ->
  (uses_visitor PInvert basic rps tps = false -> all_zerob s = true) ->
  exists d, In d (derivs s) /\ lark_resolve PInvert basic rps tps s = map neg_t d /\
            fprio d = zmin_list (map fprio (derivs s)).
Proof. exact (lark_invert basic rps tps s). Qed.
Print Assumptions C05_invert.

(* priority=None (priorities stripped at load time): no walk is made, the result is the one
   the all-zero assignment gives, and it does not depend on the priorities written *)
Theorem C05_none basic rps tps s :
  uses_visitor PNone basic rps tps = false /\
  lark_resolve PNone basic rps tps s = resolve (strip s) /\
  lark_resolve PNone basic rps tps s = map strip_t (resolve_none s).
Proof. exact (lark_none basic rps tps s). Qed.
Print Assumptions C05_none.

(* The model is a function of the forest as an ORDERED structure (families in insertion
   order), the mode and the priority tables: nothing else - no node identity, hash or set
   iteration order - enters.  This is all the theorem says; that lark's code is such a
   function (OrderedSet in StableSymbolNode, TERMINALS/NON_TERMINALS used for membership
   only) is established by the correspondence sweep over PYTHONHASHSEED values. *)
Theorem C05_deterministic m basic rps tps s1 s2 :
  s1 = s2 -> lark_resolve m basic rps tps s1 = lark_resolve m basic rps tps s2.
Proof. exact (lark_resolve_deterministic m basic rps tps s1 s2). Qed.
Print Assumptions C05_deterministic.

(* ---- non-vacuity ---------------------------------------------------------------------- *)
Definition lb (n : string) (i j : Z) := mkLabel n false i j.
Definition tokA := TokLeaf "A" "a" 0.
(* start: a | b    a.1: A    b.2: A     on "a": the later alternative wins on priority *)
Definition ex1 : sym :=
  Sym (lb "start" 0 1)
    [Pack (mkRule 0 "start" None 0) None (Some (Sym (lb "a" 0 1) [Pack (mkRule 2 "a" (Some 1) 0) None (Some tokA)]));
     Pack (mkRule 1 "start" None 1) None (Some (Sym (lb "b" 0 1) [Pack (mkRule 3 "b" (Some 2) 0) None (Some tokA)]))].

Example C05_example :
  wfb ex1 = true /\ no_emptyb ex1 = true /\ List.length (derivs ex1) = 2%nat /\
  map fprio (derivs ex1) = [1; 2] /\ sv ex1 = 2 /\
  lark_resolve PNormal true [None; None; Some 1; Some 2] [0] ex1
    = [DNode (mkRule 1 "start" None 1) [DNode (mkRule 3 "b" (Some 2) 0) [DLeaf "A" "a" 0]]] /\
  fprio (lark_resolve PInvert true [None; None; Some 1; Some 2] [0] ex1) = -1.
Proof. vm_compute. repeat split; reflexivity. Qed.

(* the hypothesis on empty families is necessary: c: x | (empty), x.-5: (empty) on "" - the
   non-empty alternative is kept although the empty one has the greater total priority *)
Definition ex2 : sym :=
  Sym (lb "c" 0 0)
    [Pack (mkRule 1 "c" None 1) None None;
     Pack (mkRule 0 "c" None 0) None (Some (Sym (lb "x" 0 0) [Pack (mkRule 2 "x" (Some (-5)) 0) None None]))].

Example C05_empty_precedence_bites :
  wfb ex2 = true /\ no_emptyb ex2 = false /\
  fprio (resolve ex2) = -5 /\ zmax_list (map fprio (derivs ex2)) = 0.
Proof. vm_compute. repeat split; reflexivity. Qed.

(* ---- C05 on the forest as lark builds it: a label-keyed graph (Forest/ExplicitBuild.v, GraphResolve.v) ----
   For an ACYCLIC graph forest ([rank] decreases along every edge) in which every referenced symbol node has a
   packed child, annotated with priorities [pr]/[prf] that satisfy ForestSumVisitor's equations, emptiness being
   uniform inside every node: the resolve walk with the children ordered by the regenerated PackedNode.sort_key
   returns a stored unfolding whose total priority is the node priority of the root and is maximal among all
   unfoldings the forest stores. *)
From LV Require Import Cfg.Grammar Forest.ExplicitBuild Forest.GraphResolve Forest.GraphResolve_proofs
  Forest.GraphPrio_proofs.

Theorem C05_optimal_graph (tok : Type) (teqb : tok -> tok -> bool)
  (teqb_spec : forall a b, teqb a b = true <-> a = b)
  (fams : list (nlabel tok * family tok)) (rprio rorder : rule -> Z) (tprio : nat -> tok -> Z)
  (pr : nlabel tok -> Z) (prf : nlabel tok -> family tok -> Z)
  (pr_tok : forall t x i j, pr (NTok tok t x i j) = tprio t x)
  (prf_eq : forall lbl r l rt, in_forest tok fams lbl (r, l, rt) ->
     prf lbl (r, l, rt) = (if is_sym tok lbl then rprio r else 0) + pro tok pr rt + pro tok pr l)
  (pr_max : forall lbl, is_tok tok lbl = false -> fams_of tok teqb fams lbl <> [] ->
     is_max (pr lbl) (map (prf lbl) (fams_of tok teqb fams lbl)))
  (tok_no_family : forall t x i j f, ~ in_forest tok fams (NTok tok t x i j) f)
  (rank : nlabel tok -> nat)
  (ranked : forall lbl r l rt, in_forest tok fams lbl (r, l, rt) ->
     orank tok rank l (rank lbl) /\ orank tok rank rt (rank lbl))
  (closed : forall lbl r l rt, in_forest tok fams lbl (r, l, rt) ->
     oclosed tok teqb fams l /\ oclosed tok teqb fams rt)
  (uniform : forall lbl f1 f2, in_forest tok fams lbl f1 -> in_forest tok fams lbl f2 ->
     fam_empty tok f1 = fam_empty tok f2) a i j :
  fams_of tok teqb fams (NSym tok a i j) <> [] ->
  exists d, graph_resolve tok teqb fams (order_key tok rorder prf) (NSym tok a i j) = Some d /\
            den tok (in_forest tok fams) (NSym tok a i j) [d] /\
            gprio tok rprio tprio d = pr (NSym tok a i j) /\
            forall d', den tok (in_forest tok fams) (NSym tok a i j) [d'] ->
                       gprio tok rprio tprio d' <= gprio tok rprio tprio d.
Proof.
  exact (graph_resolve_optimal tok teqb teqb_spec fams rprio rorder tprio pr prf pr_tok prf_eq pr_max
           tok_no_family rank ranked closed uniform a i j).
Qed.
Print Assumptions C05_optimal_graph.

(* ---- the same with ForestSumVisitor's own annotation (Forest/GraphSum.v): no hypothesis on priorities is left,
   and the side conditions are decidable: [rk] a rank table witnessing acyclicity (children rank below their
   parent, ranks bounded by M), every referenced symbol node has a packed child, emptiness uniform per node, token
   nodes have no packed children.  pr_sv / prf_sv are the recursive reading of the visitor (token: its priority;
   packed: rule priority under a completed symbol + children; symbol: max). *)
From LV Require Import Forest.GraphSum Forest.GraphSum_proofs.

Theorem C05_optimal_graph_walk (tok : Type) (teqb : tok -> tok -> bool)
  (teqb_spec : forall a b, teqb a b = true <-> a = b)
  (fams : list (nlabel tok * family tok)) (rprio rorder : rule -> Z) (tprio : nat -> tok -> Z)
  (rk : nlabel tok -> nat) (M : nat) :
  rankedb tok fams rk M = true -> closedb tok teqb fams = true -> uniformb' tok teqb fams = true ->
  notokb tok fams = true ->
  forall a i j, fams_of tok teqb fams (NSym tok a i j) <> [] ->
  exists d, graph_resolve tok teqb fams (order_key tok rorder (prf_sv tok teqb fams rprio tprio M)) (NSym tok a i j)
            = Some d /\
            den tok (in_forest tok fams) (NSym tok a i j) [d] /\
            gprio tok rprio tprio d = pr_sv tok teqb fams rprio tprio M (NSym tok a i j) /\
            forall d', den tok (in_forest tok fams) (NSym tok a i j) [d'] ->
                       gprio tok rprio tprio d' <= gprio tok rprio tprio d.
Proof.
  intros H1 H2 H3 H4. exact (graph_resolve_optimal_sv tok teqb teqb_spec fams rprio rorder tprio rk M H1 H2 H3 H4).
Qed.
Print Assumptions C05_optimal_graph_walk.

(* non-vacuity: start: a | b   a.1: X   b.2: X  on "x" - a graph forest with a SHARED token node, two alternatives
   of different priority; all side conditions hold and the later, higher-priority alternative is returned *)
Local Open Scope nat_scope.
Definition gS := NSym nat 0 0 1.
Definition gA := NSym nat 1 0 1.
Definition gB := NSym nat 2 0 1.
Definition gX := NTok nat 0 7 0 1.
Definition g_r0 := Grammar.mkRule 0 [NT 1].
Definition g_r1 := Grammar.mkRule 0 [NT 2].
Definition g_ra := Grammar.mkRule 1 [T 0].
Definition g_rb := Grammar.mkRule 2 [T 0].
Definition g_fams : list (nlabel nat * family nat) :=
  [(gS, (g_r0, None, Some gA)); (gS, (g_r1, None, Some gB)); (gA, (g_ra, None, Some gX)); (gB, (g_rb, None, Some gX))].
Definition g_rprio (r : rule) : Z := match lhs r with 1 => 1%Z | 2 => 2%Z | _ => 0%Z end.
Definition g_rorder (r : rule) : Z := match rhs r with [NT 2] => 1%Z | _ => 0%Z end.
Definition g_tprio (t x : nat) : Z := 0%Z.
Definition g_rk (l : nlabel nat) : nat :=
  match l with NSym _ 0 _ _ => 2 | NSym _ _ _ _ => 1 | _ => 0 end.

Example C05_optimal_graph_example :
  rankedb nat g_fams g_rk 2 = true /\ closedb nat Nat.eqb g_fams = true /\ uniformb' nat Nat.eqb g_fams = true /\
  notokb nat g_fams = true /\
  graph_resolve nat Nat.eqb g_fams (order_key nat g_rorder (prf_sv nat Nat.eqb g_fams g_rprio g_tprio 2)) gS
    = Some (DN nat g_r1 [DN nat g_rb [DL nat 0 7]]) /\
  pr_sv nat Nat.eqb g_fams g_rprio g_tprio 2 gS = 2%Z /\
  gprio nat g_rprio g_tprio (DN nat g_r0 [DN nat g_ra [DL nat 0 7]]) = 1%Z.
Proof. vm_compute. repeat split; reflexivity. Qed.

(* The coded single-visit WALK of ForestSumVisitor (Forest/GraphSum.v [svw]: visited set, path, packed priorities
   computed at visit_packed_node_out from what the children carry at that moment, symbol priorities as the max at
   visit_symbol_node_out) leaves, on an acyclic closed forest, exactly the annotation pr_sv that
   C05_optimal_graph_walk uses, on every symbol node it visited (Forest/GraphSumWalk_proofs.v; the rank table is
   bounded by the number of families, the root has a packed child).  The walk model itself is tied on every run
   to node.priority / packed.priority after lark's real ForestSumVisitor on exported graphs, cyclic ones included. *)
From LV Require Import Forest.GraphSumWalk_proofs.

Theorem C05_sum_walk_eq_recursive (tok : Type) (teqb : tok -> tok -> bool)
  (teqb_spec : forall a b, teqb a b = true <-> a = b)
  (fams : list (nlabel tok * family tok)) (rprio rorder : rule -> Z) (tprio : nat -> tok -> Z)
  (rk : nlabel tok -> nat) (M : nat) :
  rankedb tok fams rk M = true -> closedb tok teqb fams = true -> notokb tok fams = true ->
  (M <= List.length fams)%nat ->
  forall root lbl, fams_of tok teqb fams root <> [] ->
    let st := sum_walk tok teqb fams rprio rorder tprio root in
    look_sym tok teqb (sv_sym tok st) lbl <> None ->
    walk_pr tok teqb tprio st lbl = pr_sv tok teqb fams rprio tprio M lbl.
Proof.
  intros H1 H2 H3 HM root lbl Hr.
  exact (sum_walk_eq_recursive tok teqb teqb_spec fams rprio rorder tprio rk M H1 H2 H3 root lbl HM Hr).
Qed.
Print Assumptions C05_sum_walk_eq_recursive.

(* ---- Round 12: the optimum is measured with the priorities DECLARED in the grammar text.  Every compiled alternative
   (Rule object) of a definition `name.N:` carries N - also the alternatives with absent [..] placeholders, which own a
   copy of the options object (Grammar.compile step 4, regenerated: Gen/RulePriority.v) - so the priority tables loaded
   under a mode are the mode's image of the declared ones; compared on every run for every (grammar, lexer, mode). *)
From LV Require Import Gen.RulePriority Forest.RulePrio_proofs.

Theorem C05_compiled_priority_is_declared (m : pmode) (declared : option Z) (absent_placeholders : bool) :
  load_rprio m (compiled_priority declared absent_placeholders) = load_rprio m declared.
Proof. exact (compiled_priority_is_declared m declared absent_placeholders). Qed.
Print Assumptions C05_compiled_priority_is_declared.
