(* C18 - Indenter emits CPython's INDENT/DEDENT structure.  Property theorems only:
   each is closed by [exact] of a lemma proved in Sys/Indenter_proofs.v about the model
   Sys/Indenter.v, whose conditions and constants are regenerated from lark/indenter.py. *)
From Coq Require Import ZArith List Bool String Ascii.
From LV Require Import Base.Prelude Sys.IndenterBase Gen.IndenterHoles Sys.Indenter Sys.Indenter_proofs.
Import ListNotations.
Open Scope Z_scope.

(* Outside brackets a newline token is followed by exactly: one INDENT when the line is
   deeper than the current level; nothing when equal; one DEDENT per level closed when it
   returns to an open level; DedentError when the column is not an open level. *)
Theorem C18_newline_rule cfg st t o st' e indent :
  0 < tab_len cfg -> paren st <= 0 -> wf_stack (stack st) ->
  line_indent cfg t = Some indent ->
  handle_NL cfg st t = (o, st', e) ->
  exists top rest istr, stack st = top :: rest /\ after_last_nl (tval t) = Some istr /\
  paren st' = paren st /\ wf_stack (stack st') /\
  ( (indent > top /\ o = [t; INDENT cfg istr] /\ stack st' = indent :: stack st /\ e = None)
    \/ (indent = top /\ o = [t] /\ stack st' = stack st /\ e = None)
    \/ (indent < top /\ e = None /\ exists popped,
          popped <> [] /\ stack st = popped ++ stack st' /\ hd 0 (stack st') = indent /\
          Forall (fun x => indent < x) popped /\
          o = t :: map (fun _ => DEDENT cfg istr) popped)
    \/ (indent < top /\ e = Some DedentErr /\ ~ In indent (stack st)) ).
Proof. exact (handle_NL_spec cfg st t o st' e indent). Qed.
Print Assumptions C18_newline_rule.

(* Newlines inside brackets produce nothing and change nothing. *)
Theorem C18_bracket_silent cfg st t :
  paren st > 0 -> handle_NL cfg st t = ([], st, None).
Proof. exact (handle_NL_in_brackets cfg st t). Qed.
Print Assumptions C18_bracket_silent.

(* Every stream, from any reachable state: the level stack stays strictly increasing with
   bottom 0, INDENTs minus DEDENTs emitted equals the change in depth, no IndexError, and a
   completed stream has closed every level. *)
Theorem C18_stream_invariant cfg ts st o st' e :
  0 < tab_len cfg -> fresh cfg ts -> nl_ok cfg ts -> wf_stack (stack st) -> 0 <= paren st ->
  run cfg st ts = (o, st', e) ->
  wf_stack (stack st') /\ e <> IndexErr /\
  balance cfg o = depth (stack st') - depth (stack st) /\
  (e = Done -> stack st' = [0] /\ balance cfg o = - depth (stack st)).
Proof. exact (run_invariant cfg ts st o st' e). Qed.
Print Assumptions C18_stream_invariant.

(* process(): INDENT and DEDENT are balanced at the end of every completed stream, whatever
   state earlier (finished, failed or abandoned) streams left in the object. *)
Theorem C18_balanced cfg old ts o st' e :
  0 < tab_len cfg -> fresh cfg ts -> nl_ok cfg ts ->
  process cfg old ts = (o, st', e) ->
  e <> IndexErr /\ wf_stack (stack st') /\
  balance cfg o = depth (stack st') /\
  (e = Done -> balance cfg o = 0 /\ stack st' = [0]).
Proof. exact (process_balanced cfg old ts o st' e). Qed.
Print Assumptions C18_balanced.

Theorem C18_reset cfg old1 old2 ts : process cfg old1 ts = process cfg old2 ts.
Proof. exact (process_reset cfg old1 old2 ts). Qed.
Print Assumptions C18_reset.

(* The nesting is the one of the Python reference: a level is open after a sequence of
   logical lines iff it was open before and no later line went below it, or it is the
   indentation of a line that no later line went below. *)
Theorem C18_open_levels cs S S' l :
  wf_stack S -> Forall (fun c => 0 <= c) cs -> lsteps cs S S' ->
  (In l S' <->
     (In l S /\ Forall (fun c => l <= c) cs) \/
     (exists pre post, cs = pre ++ l :: post /\ Forall (fun c => l <= c) post)).
Proof. exact (open_levels_declarative cs S S' l). Qed.
Print Assumptions C18_open_levels.

Theorem C18_newline_is_line_step cfg st t o st' indent :
  0 < tab_len cfg -> paren st <= 0 -> wf_stack (stack st) ->
  line_indent cfg t = Some indent ->
  handle_NL cfg st t = (o, st', None) -> lstep indent (stack st) (stack st').
Proof. exact (handle_NL_lstep cfg st t o st' indent). Qed.
Print Assumptions C18_newline_is_line_step.

(* Non-vacuity: a concrete configuration and stream meet the hypotheses and exercise
   INDENT, nested brackets, a double DEDENT and the final DEDENT. *)
Open Scope string_scope.
Definition ex_cfg := mkCfg "NL" ["LP"] ["RP"] "IN" "DE" 8.
Definition ex_nl (s : string) := mkTok "NL" (String nl s).
Definition ex_stream :=
  [mkTok "A" "a"; ex_nl "  "; mkTok "A" "b"; ex_nl "    "; mkTok "LP" "("; ex_nl "";
   mkTok "RP" ")"; ex_nl ""; mkTok "A" "c"; ex_nl " "; mkTok "A" "d"].
Example C18_example :
  (0 < tab_len ex_cfg) /\
  map ttype (fst (fst (process ex_cfg (mkSt 3 [7; 0]) ex_stream)))
    = ["A"; "NL"; "IN"; "A"; "NL"; "IN"; "LP"; "RP"; "NL"; "DE"; "DE"; "A"; "NL"; "IN"; "A"; "DE"]
  /\ snd (process ex_cfg (mkSt 3 [7; 0]) ex_stream) = Done.
Proof. vm_compute. repeat split; reflexivity. Qed.
