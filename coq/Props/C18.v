(* C18 - Indenter emits CPython's INDENT/DEDENT structure.  Property theorems only:
   each is closed by [exact] of a lemma proved in Sys/Indenter_proofs.v about the model
   Sys/Indenter.v, whose conditions and constants are regenerated from lark/indenter.py. *)
From Coq Require Import ZArith List Bool String Ascii.
From LV Require Import Base.Prelude Sys.IndenterBase Gen.IndenterHoles Sys.Indenter Sys.Indenter_proofs
     Sys.IndenterErr Sys.IndenterErr_proofs Gen.IndenterPos Sys.IndenterPos Sys.IndenterPos_proofs.
Import ListNotations.
Open Scope Z_scope.

(* Outside brackets a newline token is followed by exactly: one INDENT when the line is
   deeper than the current level; nothing when equal; one DEDENT per level closed when it
   returns to an open level; DedentError when the column is not an open level. *)
Theorem C18_newline_rule cfg st t o st' e indent :
  0 < tab_len cfg -> paren st <= 0 -> wf_stack (stack st) ->
  line_indent cfg t = Some indent ->
  handle_NL cfg st t = (o, st', e) ->
  exists top rest istr, stack st = top :: rest /\ after_last_nl (tval t) = Some istr /\
  paren st' = paren st /\ wf_stack (stack st') /\
  ( (indent > top /\ o = [t; INDENT cfg istr] /\ stack st' = indent :: stack st /\ e = None)
    \/ (indent = top /\ o = [t] /\ stack st' = stack st /\ e = None)
    \/ (indent < top /\ e = None /\ exists popped,
          popped <> [] /\ stack st = popped ++ stack st' /\ hd 0 (stack st') = indent /\
          Forall (fun x => indent < x) popped /\
          o = t :: map (fun _ => DEDENT cfg istr) popped)
    \/ (indent < top /\ e = Some DedentErr /\ ~ In indent (stack st)) ).
Proof. exact (handle_NL_spec cfg st t o st' e indent). Qed.
Print Assumptions C18_newline_rule.

(* Newlines inside brackets produce nothing and change nothing. *)
Theorem C18_bracket_silent cfg st t :
  paren st > 0 -> handle_NL cfg st t = ([], st, None).
Proof. exact (handle_NL_in_brackets cfg st t). Qed.
Print Assumptions C18_bracket_silent.

(* Every stream, from any reachable state: the level stack stays strictly increasing with
   bottom 0, INDENTs minus DEDENTs emitted equals the change in depth, no IndexError, and a
   completed stream has closed every level. *)
Theorem C18_stream_invariant cfg ts st o st' e :
  0 < tab_len cfg -> fresh cfg ts -> nl_ok cfg ts -> wf_stack (stack st) -> 0 <= paren st ->
  run cfg st ts = (o, st', e) ->
  wf_stack (stack st') /\ e <> IndexErr /\
  balance cfg o = depth (stack st') - depth (stack st) /\
  (e = Done -> stack st' = [0] /\ balance cfg o = - depth (stack st)).
Proof. exact (run_invariant cfg ts st o st' e). Qed.
Print Assumptions C18_stream_invariant.

(* process(): INDENT and DEDENT are balanced at the end of every completed stream, whatever
   state earlier (finished, failed or abandoned) streams left in the object. *)
Theorem C18_balanced cfg old ts o st' e :
  0 < tab_len cfg -> fresh cfg ts -> nl_ok cfg ts ->
  process cfg old ts = (o, st', e) ->
  e <> IndexErr /\ wf_stack (stack st') /\
  balance cfg o = depth (stack st') /\
  (e = Done -> balance cfg o = 0 /\ stack st' = [0]).
Proof. exact (process_balanced cfg old ts o st' e). Qed.
Print Assumptions C18_balanced.

Theorem C18_reset cfg old1 old2 ts : process cfg old1 ts = process cfg old2 ts.
Proof. exact (process_reset cfg old1 old2 ts). Qed.
Print Assumptions C18_reset.

(* The nesting is the one of the Python reference: a level is open after a sequence of
   logical lines iff it was open before and no later line went below it, or it is the
   indentation of a line that no later line went below. *)
Theorem C18_open_levels cs S S' l :
  wf_stack S -> Forall (fun c => 0 <= c) cs -> lsteps cs S S' ->
  (In l S' <->
     (In l S /\ Forall (fun c => l <= c) cs) \/
     (exists pre post, cs = pre ++ l :: post /\ Forall (fun c => l <= c) post)).
Proof. exact (open_levels_declarative cs S S' l). Qed.
Print Assumptions C18_open_levels.

Theorem C18_newline_is_line_step cfg st t o st' indent :
  0 < tab_len cfg -> paren st <= 0 -> wf_stack (stack st) ->
  line_indent cfg t = Some indent ->
  handle_NL cfg st t = (o, st', None) -> lstep indent (stack st) (stack st').
Proof. exact (handle_NL_lstep cfg st t o st' indent). Qed.
Print Assumptions C18_newline_is_line_step.

(* The error paths, over the whole stream.  DedentError: exactly when some newline token that is reached without error and
   outside brackets dedents to a column below the current level that is not an open level. *)
Theorem C18_dedent_error_iff cfg ts st o st' e :
  0 < tab_len cfg -> fresh cfg ts -> nl_ok cfg ts -> wf_stack (stack st) -> 0 <= paren st ->
  run cfg st ts = (o, st', e) ->
  (e = DedentErr <->
   exists pre t post st1 indent,
     ts = pre ++ t :: post /\ steps cfg st pre = Some st1 /\ ttype t = nl_type cfg /\ paren st1 <= 0 /\
     line_indent cfg t = Some indent /\ indent < hd 0 (stack st1) /\ ~ In indent (stack st1)).
Proof. exact (run_dedent_iff cfg ts st o st' e). Qed.
Print Assumptions C18_dedent_error_iff.

(* AssertionError: only from a closing bracket without an open one (the final `assert self.indent_level == [0]` never
   fails); a stream whose brackets never go negative ends Done or with DedentError. *)
Theorem C18_assert_iff_unmatched cfg ts st o st' e :
  0 < tab_len cfg -> fresh cfg ts -> nl_ok cfg ts -> wf_stack (stack st) -> 0 <= paren st ->
  run cfg st ts = (o, st', e) ->
  (e = AssertErr -> unmatched cfg (paren st) ts = true) /\
  (unmatched cfg (paren st) ts = false -> e = Done \/ e = DedentErr).
Proof. exact (run_assert_iff cfg ts st o st' e). Qed.
Print Assumptions C18_assert_iff_unmatched.

(* Borrowed positions (Token.new_borrow_pos copies all position fields, Gen/IndenterPos.v).  The model with positions
   projects to the model above ... *)
Theorem C18_positions_forget (P : Type) cfg ts st last :
  let '(o, s, e) := run_pos P cfg st last ts in (map fst o, s, e) = run cfg st (map fst ts).
Proof. exact (run_pos_forget P cfg ts st last). Qed.
Print Assumptions C18_positions_forget.

(* ... and every emitted token is an input token at its own position, or an INDENT / DEDENT with the position of a NEWLINE
   token of the input (the one whose handling emitted it), or an end-of-stream DEDENT with the position of the last token. *)
Theorem C18_indent_tokens_positions (P : Type) cfg ts st last o s e :
  run_pos P cfg st last ts = (o, s, e) ->
  Forall (fun x : otok P =>
            (exists p, snd x = Some p /\ In (fst x, p) ts) \/
            (exists t p, snd x = Some p /\ In (t, p) ts /\ ttype t = nl_type cfg /\
                         (ttype (fst x) = indent_type cfg \/ ttype (fst x) = dedent_type cfg)) \/
            (ttype (fst x) = dedent_type cfg /\ snd x = List.last (map (fun tp => Some (snd tp)) ts) last)) o.
Proof. exact (run_pos_positions P cfg ts st last o s e). Qed.
Print Assumptions C18_indent_tokens_positions.

(* the zero-position Token(...) in _process is dead code: an empty stream yields no DEDENT *)
Theorem C18_no_zero_position_dedent (P : Type) cfg : process_pos P cfg [] = ([], mkSt h_p0 [h_i0], Done).
Proof. exact (no_zero_position_dedent P cfg). Qed.
Print Assumptions C18_no_zero_position_dedent.

(* Non-vacuity: a concrete configuration and stream meet the hypotheses and exercise
   INDENT, nested brackets, a double DEDENT and the final DEDENT. *)
Open Scope string_scope.
Definition ex_cfg := mkCfg "NL" ["LP"] ["RP"] "IN" "DE" 8.
Definition ex_nl (s : string) := mkTok "NL" (String nl s).
Definition ex_stream :=
  [mkTok "A" "a"; ex_nl "  "; mkTok "A" "b"; ex_nl "    "; mkTok "LP" "("; ex_nl "";
   mkTok "RP" ")"; ex_nl ""; mkTok "A" "c"; ex_nl " "; mkTok "A" "d"].
Example C18_example :
  (0 < tab_len ex_cfg) /\
  map ttype (fst (fst (process ex_cfg (mkSt 3 [7; 0]) ex_stream)))
    = ["A"; "NL"; "IN"; "A"; "NL"; "IN"; "LP"; "RP"; "NL"; "DE"; "DE"; "A"; "NL"; "IN"; "A"; "DE"]
  /\ snd (process ex_cfg (mkSt 3 [7; 0]) ex_stream) = Done.
Proof. vm_compute. repeat split; reflexivity. Qed.

(* ... with positions: INDENT/DEDENT after the newline at position 2 / 8 carry 2 / 8, the final DEDENT the last token's 11;
   and the two error paths *)
Example C18_example_positions :
  map (fun x => (ttype (fst x), pos_code (snd x)))
      (fst (fst (process_pos nat ex_cfg (combine ex_stream (seq 1 (List.length ex_stream))))))
  = [("A", 1); ("NL", 2); ("IN", 2); ("A", 3); ("NL", 4); ("IN", 4); ("LP", 5); ("RP", 7); ("NL", 8); ("DE", 8); ("DE", 8);
     ("A", 9); ("NL", 10); ("IN", 10); ("A", 11); ("DE", 11)]%nat
  /\ snd (process ex_cfg (mkSt 0 [0]) [mkTok "A" "a"; ex_nl "    "; mkTok "A" "b"; ex_nl "  "]) = DedentErr
  /\ snd (process ex_cfg (mkSt 0 [0]) [mkTok "LP" "("; mkTok "RP" ")"; mkTok "RP" ")"]) = AssertErr
  /\ unmatched ex_cfg 0 [mkTok "LP" "("; mkTok "RP" ")"; mkTok "RP" ")"] = true.
Proof. vm_compute. repeat split; reflexivity. Qed.
