(* C15 - Input representation does not matter: str, bytes and TextSlice agree.  Property theorems
   only (proofs in coq/Pos/Repr_proofs.v, Current.v) about the lexer-position model whose
   arithmetic is regenerated from lark/lexer.py and lark/parsers/xearley.py on every run. *)
From Coq Require Import ZArith List Bool String Ascii Lia.
From LV Require Import Pos.PosBase Gen.LineCounter Gen.LexStep Gen.DynStep Pos.Coord
  Pos.LineCounter_proofs Pos.LexCoords Pos.LexCoords_proofs Pos.Repr_proofs Pos.Current Pos.PosCheck.
Import ListNotations.
Local Open Scope Z_scope.

Section C15.
Context {A : Type} (eqb : A -> A -> bool) (nl : A) {term : Type}.
Variable scan : list term -> list A -> Z -> Z -> option (nat * term).
Variable ignore : term -> bool.
Variable newline_types : term -> bool.

(* Lexing the window [a,b) of a buffer T equals lexing the extracted substring T[a:b], with
   offsets shifted by a and line/column taken in the buffer - tokens, end of run, and the
   position of an UnexpectedCharacters error.  H_ctxfree: matches do not look outside the window. *)
Theorem C15_window_shift (T : list A) (a b : nat) :
  (a <= b)%nat -> (b <= List.length T)%nat ->
  (forall h (p n : nat) ty, scan h T (Z.of_nat p) (Z.of_nat b) = Some (n, ty) -> (p + n <= b)%nat) ->
  (forall h (p : nat), (a <= p < b)%nat ->
     scan h T (Z.of_nat p) (Z.of_nat b) = scan h (sub T a b) (Z.of_nat (p - a)) (Z.of_nat (b - a))) ->
  lex_slice eqb nl scan ignore newline_types T (Z.of_nat a) (Z.of_nat b) None =
  shift_result eqb nl T a (lex_slice eqb nl scan ignore newline_types (sub T a b) 0 (Z.of_nat (b - a)) None).
Proof. exact (window_shift_current eqb nl scan ignore newline_types T a b). Qed.

(* the counter of a window starts at the buffer coordinates of the window start *)
Theorem C15_from_text_slice_coord (T : list A) a snap :
  (a <= List.length T)%nat ->
  (snap = None \/ snap = Some (line_of eqb nl T a, line_start_of eqb nl T a)) ->
  at_coord eqb nl T a (from_text_slice eqb nl T (Z.of_nat a) snap).
Proof. exact (from_text_slice_coord eqb nl T a snap). Qed.

(* the dynamic scanner keeps the same coordinates over bytes as over str *)
Theorem C15_dyn_bytes_eq_str (T : list A) i :
  (i <= List.length T)%nat -> dyn_at (isnl_bytes eqb nl) T i = dyn_at (isnl_str eqb nl) T i.
Proof. exact (fun H => eq_trans (dyn_coords_bytes eqb nl T i H) (eq_sym (dyn_coords_str eqb nl T i H))). Qed.

End C15.
Print Assumptions C15_window_shift.
Print Assumptions C15_from_text_slice_coord.
Print Assumptions C15_dyn_bytes_eq_str.

(* Lexing the encoded text with terminals that match on it what the str terminals match on the
   text (H_ascii) gives the same tokens - types, offsets, lines, columns, end of run - with
   encoded values. *)
Theorem C15_bytes_eq_str {A B term : Type} (eqbA : A -> A -> bool) (nlA : A) (eqbB : B -> B -> bool) (nlB : B)
  (enc : A -> B) (scanA : list term -> list A -> Z -> Z -> option (nat * term))
  (scanB : list term -> list B -> Z -> Z -> option (nat * term)) ignore newline_types (T : list A) a e snap :
  (forall x, eqbB (enc x) nlB = eqbA x nlA) ->
  (forall h p e, scanB h (map enc T) p e = scanA h T p e) ->
  lex_slice eqbB nlB scanB ignore newline_types (map enc T) a e snap =
  enc_result enc (lex_slice eqbA nlA scanA ignore newline_types T a e snap).
Proof. exact (fun H1 H2 => bytes_eq_str eqbA nlA eqbB nlB enc H1 scanA scanB ignore newline_types T H2 a e snap). Qed.
Print Assumptions C15_bytes_eq_str.

(* H_ctxfree cannot be dropped (finding F9): a terminal with a look-behind - here "foo preceded by
   a word boundary" - matches in the extracted substring but not in the window of the buffer. *)
Local Open Scope string_scope.
Definition is_word (c : ascii) : bool := (Nat.leb 97 (nat_of_ascii c) && Nat.leb (nat_of_ascii c) 122)%bool.
Definition scan_bfoo (h : list string) (T : list ascii) (p e : Z) : option (nat * string) :=
  let at_boundary := match Z.to_nat p with
                     | O => true
                     | S q => match nth_error T q with Some c => negb (is_word c) | None => true end
                     end in
  if (at_boundary && la_eqb (slice T p (p + 3)) (txt "foo") && Z.leb (p + 3) e)%bool then Some (3%nat, "FOO") else None.

Theorem C15_lookbehind_refuted :
  let T := txt "xfoo" in
  lex_slice Ascii.eqb anl scan_bfoo (fun _ => false) (fun _ => false) T 1 4 None
  <> shift_result Ascii.eqb anl T 1
       (lex_slice Ascii.eqb anl scan_bfoo (fun _ => false) (fun _ => false) (sub T 1 4) 0 3 None).
Proof. vm_compute. discriminate. Qed.
Print Assumptions C15_lookbehind_refuted.

(* Non-vacuity: a context-free oracle on a window starting mid-line of line 2. *)
Definition ex_scan (h : list string) (T : list ascii) (p e : Z) : option (nat * string) :=
  match nth_error T (Z.to_nat p) with
  | Some c => if Ascii.eqb c anl then Some (1%nat, "NL") else Some (1%nat, "CH")
  | None => None
  end.
Definition ex_T := txt (append "q" (String anl (append "rab" (String anl "cz")))).
Example C15_example :
  (forall h (p : nat), (3 <= p < 7)%nat ->
     ex_scan h ex_T (Z.of_nat p) 7 = ex_scan h (sub ex_T 3 7) (Z.of_nat (p - 3)) 4) /\
  map (fun t => (t_type t, t_start t, t_line t, t_column t, t_end_line t, t_end_column t, t_end_pos t))
      (fst (lex_slice Ascii.eqb anl ex_scan (fun _ => false) (fun _ => false) ex_T 3 7 None))
  = [("CH", 3, 2, 2, 2, 3, 4); ("CH", 4, 2, 3, 2, 4, 5); ("NL", 5, 2, 4, 3, 1, 6); ("CH", 6, 3, 1, 3, 2, 7)]%Z.
Proof.
  split; [|vm_compute; reflexivity].
  intros h p Hp. assert (p = 3 \/ p = 4 \/ p = 5 \/ p = 6)%nat as [-> | [-> | [-> | ->]]] by lia; reflexivity.
Qed.

(* ---- tree level (round 3): the whole LALR pipeline ------------------------------------------------
   parse_slice = lexer (lex_slice) -> LALR driver over an abstract table (LR/Driver.feed) -> callbacks
   PropagatePositions o (ExpandSingleChild, the ChildFilter variants) (Shape/Chain.run_callback) evaluated on the
   accepted derivation.  Parsing TextSlice(T,a,b) gives the result of parsing T[a:b] re-based: every token
   offset and every meta start_pos/end_pos (own and container) shifted by a, every line/column looked up
   in T; an UnexpectedCharacters / UnexpectedToken error at the shifted position; an UnexpectedToken at
   $END borrows the (shifted) last token - on an empty stream it stays at 0/1/1 in both runs. *)
From LV Require Import Cfg.Grammar Shape.Chain Pos.MetaSpan Pos.TreeShift Pos.TreeShift_proofs.
From LV Require LR.Driver.

Theorem C15_parse_window_shift {A term : Type} (eqb : A -> A -> bool) (nl : A)
  (scan : list term -> list A -> Z -> Z -> option (nat * term)) (ignore newline_types : term -> bool)
  (rr : rule -> rrec) (mp : bool) (tnum : term -> nat) (end_term : term) (P : Driver.ptable)
  (T : list A) (a b : nat) fuel :
  (a <= b)%nat -> (b <= List.length T)%nat ->
  (forall h (p n : nat) ty, scan h T (Z.of_nat p) (Z.of_nat b) = Some (n, ty) -> (p + n <= b)%nat) ->
  (forall h (p : nat), (a <= p < b)%nat ->
     scan h T (Z.of_nat p) (Z.of_nat b) = scan h (sub T a b) (Z.of_nat (p - a)) (Z.of_nat (b - a))) ->
  let ln := lnT eqb nl T in
  let col := colT eqb nl T in
  let za := Z.of_nat a in
  parse_slice rr mp tnum end_term P eqb nl scan ignore newline_types fuel T za (Z.of_nat b) =
  map_presult (shift_tok za ln col) (shift_trip za ln col) (fun p => (p + za, ln (p + za), col (p + za)))%Z
    (parse_slice rr mp tnum end_term P eqb nl scan ignore newline_types fuel (sub T a b) 0%Z (Z.of_nat (b - a))).
Proof. exact (parse_window_shift eqb nl scan ignore newline_types rr mp tnum end_term P T a b fuel). Qed.
Print Assumptions C15_parse_window_shift.

(* the two lemmas the lifting rests on: the driver's control ignores token positions, and
   PropagatePositions commutes with any map of position triples *)
Theorem C15_driver_ignores_positions (tok tok' : Type) (ttype : tok -> nat) (ttype' : tok' -> nat) (f : tok -> tok')
  (P : Driver.ptable) fuel c k k' e :
  ttype' k' = ttype k -> (e = false -> k' = f k) ->
  Driver.feed tok' ttype' P fuel (map_config tok tok' f c) k' e
  = map_outcome tok tok' f (Driver.feed tok ttype P fuel c k e).
Proof. exact (feed_nat tok tok' ttype ttype' f P fuel c k k' e). Qed.
Print Assumptions C15_driver_ignores_positions.

Theorem C15_propagate_commutes (phi : trip -> trip) m ch :
  propagate (map_meta phi m) (map (map_shaped phi) ch) = map_meta phi (propagate m ch).
Proof. exact (propagate_nat phi m ch). Qed.
Print Assumptions C15_propagate_commutes.

(* Non-vacuity: grammar  start: A B  (table: 0 -A-> 1 -B-> 2, reduce on $END, goto start = end state 3),
   buffer "x\nab", window [2,4): the tree of the window equals the re-based tree of "ab", and its meta is
   offsets 2..4, line 2, columns 1..3. *)
Definition ex3_rule := mkRule 0%nat [T 0%nat; T 1%nat].
Definition ex3_rows : Driver.rows :=
  [(0, [(T 0, Driver.Shift 1); (NT 0, Driver.Shift 3)]); (1, [(T 1, Driver.Shift 2)]);
   (2, [(T 9, Driver.Reduce ex3_rule)])]%nat.
Definition ex3_P := Driver.ptable_of_rows ex3_rows 0%nat 3%nat.
Definition ex3_rr (_ : rule) : rrec :=
  mkR "start" [mkSym true "A" false; mkSym true "B" false] None None false false [].
Definition ex3_tnum (t : string) : nat := (if String.eqb t "A" then 0 else if String.eqb t "B" then 1 else 9)%nat.
Definition ex3_scan (h : list string) (T : list ascii) (p e : Z) : option (nat * string) :=
  match nth_error T (Z.to_nat p) with
  | Some c => if Ascii.eqb c "a"%char then Some (1%nat, "A") else if Ascii.eqb c "b"%char then Some (1%nat, "B") else None
  | None => None
  end.
Definition ex3_T := txt "x\010ab".
Example C15_parse_example :
  parse_slice ex3_rr true ex3_tnum "$END" ex3_P Ascii.eqb anl ex3_scan (fun _ => false) (fun _ => false) 10%nat ex3_T 2 4
  = RTree (VTree "start" (mkMeta (Some (2, 2, 1)) (Some (4, 2, 3)) (Some (2, 2, 1)) (Some (4, 2, 3)))%Z
             [VTok (mkTok "A" [ "a"%char ] 2 2 1 2 2 3); VTok (mkTok "B" [ "b"%char ] 3 2 2 2 3 4)])%Z
  /\ parse_slice ex3_rr true ex3_tnum "$END" ex3_P Ascii.eqb anl ex3_scan (fun _ => false) (fun _ => false) 10%nat
       (sub ex3_T 2%nat 4%nat) 0 2
     = RTree (VTree "start" (mkMeta (Some (0, 1, 1)) (Some (2, 1, 3)) (Some (0, 1, 1)) (Some (2, 1, 3)))%Z
             [VTok (mkTok "A" [ "a"%char ] 0 1 1 1 2 1); VTok (mkTok "B" [ "b"%char ] 1 1 2 1 3 2)])%Z.
Proof. vm_compute. split; reflexivity. Qed.

(* ---- round 12: TextSlice index normalisation (regenerated from lark/utils.py:TextSlice) --------------------
   In-range start / end - negative ones counted from the end, end=None meaning the end - denote Python's
   text[start:end]: the normalised window lies inside the buffer, so C15_window_shift / C15_parse_window_shift
   apply to it; __len__ and is_complete_text are what they should be; a plain text is the complete slice. *)
From LV Require Import Gen.TextSlice Pos.Slice_proofs.

Theorem C15_slice_normalisation n s e :
  0 <= n -> - n <= s <= n -> (forall z, e = Some z -> - n <= z <= n) ->
  let s' := py_index n s in
  let e' := match e with None => n | Some z => py_index n z end in
  ts_start n s = Some s' /\ ts_end n e = Some e' /\ 0 <= s' <= n /\ 0 <= e' <= n /\
  ts_len s' e' = e' - s' /\ (ts_complete n s' e' = true <-> s' = 0 /\ e' = n).
Proof. exact (slice_normalisation n s e). Qed.
Print Assumptions C15_slice_normalisation.

Theorem C15_cast_from_complete n : 0 <= n ->
  ts_start n (ts_cast_start n) = Some 0 /\ ts_end n (Some (ts_cast_end n)) = Some n /\ ts_complete n 0 n = true.
Proof. exact (cast_from_complete n). Qed.
Print Assumptions C15_cast_from_complete.

(* the in-range hypotheses are needed: __post_init__ accepts an end or a start beyond the buffer and a negative end
   below -len (its docstring promises AssertionError); only a negative start below -len is rejected.  On the
   implementation TextSlice("aaa", 0, 10) is accepted and parsing it raises IndexError (finding F52 candidate). *)
Theorem C15_slice_out_of_range_refuted :
  ts_end 3 (Some 10) = Some 10 /\ ts_start 3 5 = Some 5 /\ ts_end 3 (Some (-5)) = Some (-2) /\ ts_start 3 (-4) = None.
Proof. exact out_of_range_accepted. Qed.
Print Assumptions C15_slice_out_of_range_refuted.

(* Non-vacuity: TextSlice("Hello, World!", 7, -1) = [7, 12) (the docstring's example); (-6, None) = [7, 13) *)
Example C15_slice_example :
  ts_start 13 7 = Some 7 /\ ts_end 13 (Some (-1)) = Some 12 /\ ts_start 13 (-6) = Some 7 /\ ts_end 13 None = Some 13.
Proof. repeat split; reflexivity. Qed.
