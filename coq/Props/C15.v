(* C15 - Input representation does not matter: str, bytes and TextSlice agree.  Property theorems
   only (proofs in coq/Pos/Repr_proofs.v, Current.v) about the lexer-position model whose
   arithmetic is regenerated from lark/lexer.py and lark/parsers/xearley.py on every run. *)
From Coq Require Import ZArith List Bool String Ascii Lia.
From LV Require Import Pos.PosBase Gen.LineCounter Gen.LexStep Gen.DynStep Pos.Coord
  Pos.LineCounter_proofs Pos.LexCoords Pos.LexCoords_proofs Pos.Repr_proofs Pos.Current Pos.PosCheck.
Import ListNotations.
Local Open Scope Z_scope.

Section C15.
Context {A : Type} (eqb : A -> A -> bool) (nl : A) {term : Type}.
Variable scan : list term -> list A -> Z -> Z -> option (nat * term).
Variable ignore : term -> bool.
Variable newline_types : term -> bool.

(* Lexing the window [a,b) of a buffer T equals lexing the extracted substring T[a:b], with
   offsets shifted by a and line/column taken in the buffer - tokens, end of run, and the
   position of an UnexpectedCharacters error.  H_ctxfree: matches do not look outside the window. *)
Theorem C15_window_shift (T : list A) (a b : nat) :
  (a <= b)%nat -> (b <= List.length T)%nat ->
  (forall h (p n : nat) ty, scan h T (Z.of_nat p) (Z.of_nat b) = Some (n, ty) -> (p + n <= b)%nat) ->
  (forall h (p : nat), (a <= p < b)%nat ->
     scan h T (Z.of_nat p) (Z.of_nat b) = scan h (sub T a b) (Z.of_nat (p - a)) (Z.of_nat (b - a))) ->
  lex_slice eqb nl scan ignore newline_types T (Z.of_nat a) (Z.of_nat b) None =
  shift_result eqb nl T a (lex_slice eqb nl scan ignore newline_types (sub T a b) 0 (Z.of_nat (b - a)) None).
Proof. exact (window_shift_current eqb nl scan ignore newline_types T a b). Qed.

(* the counter of a window starts at the buffer coordinates of the window start *)
Theorem C15_from_text_slice_coord (T : list A) a snap :
  (a <= List.length T)%nat ->
  (snap = None \/ snap = Some (line_of eqb nl T a, line_start_of eqb nl T a)) ->
  at_coord eqb nl T a (from_text_slice eqb nl T (Z.of_nat a) snap).
Proof. exact (from_text_slice_coord eqb nl T a snap). Qed.

(* the dynamic scanner keeps the same coordinates over bytes as over str *)
Theorem C15_dyn_bytes_eq_str (T : list A) i :
  (i <= List.length T)%nat -> dyn_at (isnl_bytes eqb nl) T i = dyn_at (isnl_str eqb nl) T i.
Proof. exact (fun H => eq_trans (dyn_coords_bytes eqb nl T i H) (eq_sym (dyn_coords_str eqb nl T i H))). Qed.

End C15.
Print Assumptions C15_window_shift.
Print Assumptions C15_from_text_slice_coord.
Print Assumptions C15_dyn_bytes_eq_str.

(* Lexing the encoded text with terminals that match on it what the str terminals match on the
   text (H_ascii) gives the same tokens - types, offsets, lines, columns, end of run - with
   encoded values. *)
Theorem C15_bytes_eq_str {A B term : Type} (eqbA : A -> A -> bool) (nlA : A) (eqbB : B -> B -> bool) (nlB : B)
  (enc : A -> B) (scanA : list term -> list A -> Z -> Z -> option (nat * term))
  (scanB : list term -> list B -> Z -> Z -> option (nat * term)) ignore newline_types (T : list A) a e snap :
  (forall x, eqbB (enc x) nlB = eqbA x nlA) ->
  (forall h p e, scanB h (map enc T) p e = scanA h T p e) ->
  lex_slice eqbB nlB scanB ignore newline_types (map enc T) a e snap =
  enc_result enc (lex_slice eqbA nlA scanA ignore newline_types T a e snap).
Proof. exact (fun H1 H2 => bytes_eq_str eqbA nlA eqbB nlB enc H1 scanA scanB ignore newline_types T H2 a e snap). Qed.
Print Assumptions C15_bytes_eq_str.

(* H_ctxfree cannot be dropped (finding F9): a terminal with a look-behind - here "foo preceded by
   a word boundary" - matches in the extracted substring but not in the window of the buffer. *)
Local Open Scope string_scope.
Definition is_word (c : ascii) : bool := (Nat.leb 97 (nat_of_ascii c) && Nat.leb (nat_of_ascii c) 122)%bool.
Definition scan_bfoo (h : list string) (T : list ascii) (p e : Z) : option (nat * string) :=
  let at_boundary := match Z.to_nat p with
                     | O => true
                     | S q => match nth_error T q with Some c => negb (is_word c) | None => true end
                     end in
  if (at_boundary && la_eqb (slice T p (p + 3)) (txt "foo") && Z.leb (p + 3) e)%bool then Some (3%nat, "FOO") else None.

Theorem C15_lookbehind_refuted :
  let T := txt "xfoo" in
  lex_slice Ascii.eqb anl scan_bfoo (fun _ => false) (fun _ => false) T 1 4 None
  <> shift_result Ascii.eqb anl T 1
       (lex_slice Ascii.eqb anl scan_bfoo (fun _ => false) (fun _ => false) (sub T 1 4) 0 3 None).
Proof. vm_compute. discriminate. Qed.
Print Assumptions C15_lookbehind_refuted.

(* Non-vacuity: a context-free oracle on a window starting mid-line of line 2. *)
Definition ex_scan (h : list string) (T : list ascii) (p e : Z) : option (nat * string) :=
  match nth_error T (Z.to_nat p) with
  | Some c => if Ascii.eqb c anl then Some (1%nat, "NL") else Some (1%nat, "CH")
  | None => None
  end.
Definition ex_T := txt (append "q" (String anl (append "rab" (String anl "cz")))).
Example C15_example :
  (forall h (p : nat), (3 <= p < 7)%nat ->
     ex_scan h ex_T (Z.of_nat p) 7 = ex_scan h (sub ex_T 3 7) (Z.of_nat (p - 3)) 4) /\
  map (fun t => (t_type t, t_start t, t_line t, t_column t, t_end_line t, t_end_column t, t_end_pos t))
      (fst (lex_slice Ascii.eqb anl ex_scan (fun _ => false) (fun _ => false) ex_T 3 7 None))
  = [("CH", 3, 2, 2, 2, 3, 4); ("CH", 4, 2, 3, 2, 4, 5); ("NL", 5, 2, 4, 3, 1, 6); ("CH", 6, 3, 1, 3, 2, 7)]%Z.
Proof.
  split; [|vm_compute; reflexivity].
  intros h p Hp. assert (p = 3 \/ p = 4 \/ p = 5 \/ p = 6)%nat as [-> | [-> | [-> | ->]]] by lia; reflexivity.
Qed.
