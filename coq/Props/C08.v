(* C08 - Rejections are UnexpectedInput errors at the first offending position.
   Earley half, stated over the specification chart of Earley/Spec.v (which the executable
   model of lark/parsers/earley.py is proved/tied to in C01).  Property theorems only. *)
From Coq Require Import List Arith Bool.
From LV Require Import Cfg.Grammar Earley.Spec Earley.Prefix Earley.Alg Earley.Expected.
Import ListNotations.

(* Valid-prefix property: whenever the chart holds an item at position k, the k tokens
   consumed so far can be extended to a sentence (grammars whose rule bodies are productive). *)
Theorem C08_valid_prefix (G : grammar) (tok : Type) (tmatch : nat -> tok -> bool) (start : nat)
        (w : list tok) k it :
  productive_bodies G tok tmatch -> chart G tok tmatch w start k it ->
  item_viable G tok tmatch start w k it.
Proof. exact (chart_item_viable G tok tmatch start w k it). Qed.
Print Assumptions C08_valid_prefix.

(* Every terminal the chart expects at position k can legally come next ... *)
Theorem C08_expected_sound (G : grammar) (tok : Type) (tmatch : nat -> tok -> bool) (start : nat)
        (w : list tok) k t x :
  productive_bodies G tok tmatch -> expects G tok tmatch start w k t -> tmatch t x = true ->
  k <= length w -> viable G tok tmatch start (firstn k w ++ [x]).
Proof. exact (expected_sound G tok tmatch start w k t x). Qed.
Print Assumptions C08_expected_sound.

(* ... and every terminal that can legally come next is expected (no productivity needed). *)
Theorem C08_expected_complete (G : grammar) (tok : Type) (tmatch : nat -> tok -> bool) (start : nat)
        (w : list tok) k x :
  k <= length w -> viable G tok tmatch start (firstn k w ++ [x]) ->
  exists t, expects G tok tmatch start w k t /\ tmatch t x = true.
Proof. exact (expected_complete G tok tmatch start w k x). Qed.
Print Assumptions C08_expected_complete.

(* The scan of token k succeeds iff w[0..k] is still a viable prefix: the position at which
   the parser stops is exactly the first offending token. *)
Theorem C08_first_offending_token (G : grammar) (tok : Type) (tmatch : nat -> tok -> bool)
        (start : nat) (w : list tok) k x :
  productive_bodies G tok tmatch -> nth_error w k = Some x ->
  ((exists t, expects G tok tmatch start w k t /\ tmatch t x = true) <->
   viable G tok tmatch start (firstn (S k) w)).
Proof. exact (first_offending_token G tok tmatch start w k x). Qed.
Print Assumptions C08_first_offending_token.

(* The executable model of lark's Earley parser (Earley/Alg.v, compared with the code column by
   column in C01 and on the expected sets here) reports exactly that set. *)
Theorem C08_model_expected_exact G start toks k t :
  k < length (r_cols (earley_parse G start toks)) ->
  (In t (expected_at (earley_parse G start toks) k) <-> expects G nat Nat.eqb start toks k t).
Proof. exact (expected_at_exact G start toks k t). Qed.
Print Assumptions C08_model_expected_exact.

(* Non-vacuity: S -> a S b | c ; after "a" the terminals a and c are expected. *)
Definition exG : grammar := [mkRule 0 [T 0; NT 0; T 1]; mkRule 0 [T 2]].
Example C08_example :
  productive_bodies exG nat Nat.eqb /\
  expects exG nat Nat.eqb 0 [0; 2; 1] 1 0 /\ expects exG nat Nat.eqb 0 [0; 2; 1] 1 2.
Proof.
  split.
  - intros r d Hin.
    assert (Hc : derives exG nat Nat.eqb [NT 0] [2]).
    { change [2] with ([2] ++ []). eapply d_nt with (r := mkRule 0 [T 2]); simpl; auto.
      - constructor; [reflexivity | constructor].
      - constructor. }
    assert (Hr1 : derives exG nat Nat.eqb [T 0; NT 0; T 1] [0; 2; 1]).
    { constructor; [reflexivity|]. change [2; 1] with ([2] ++ [1]).
      eapply d_nt with (r := mkRule 0 [T 2]); simpl; auto.
      - constructor; [reflexivity | constructor].
      - constructor; [reflexivity | constructor]. }
    destruct Hin as [<-|[<-|[]]]; simpl.
    + destruct d as [|[|[|[|d]]]]; simpl.
      * eexists; exact Hr1.
      * exists [2; 1]. change [2; 1] with ([2] ++ [1]).
        eapply d_nt with (r := mkRule 0 [T 2]); simpl; auto.
        -- constructor; [reflexivity | constructor].
        -- constructor; [reflexivity | constructor].
      * exists [1]. constructor; [reflexivity | constructor].
      * exists []. constructor.
      * exists []. constructor.
    + destruct d as [|[|d]]; simpl.
      * exists [2]. constructor; [reflexivity | constructor].
      * exists []. constructor.
      * exists []. constructor.
  - assert (H0 : chart exG nat Nat.eqb [0; 2; 1] 0 0 (mkItem (mkRule 0 [T 0; NT 0; T 1]) 0 0)).
    { constructor; simpl; auto. }
    assert (H1 : chart exG nat Nat.eqb [0; 2; 1] 0 1 (mkItem (mkRule 0 [T 0; NT 0; T 1]) 1 0)).
    { eapply c_scan with (t := 0) (x := 0); eauto. }
    split.
    + exists (mkRule 0 [T 0; NT 0; T 1]), 0, 1. split; [|reflexivity].
      eapply c_pred with (r := mkRule 0 [T 0; NT 0; T 1]) (d := 1) (a := 0); eauto; simpl; auto.
    + exists (mkRule 0 [T 2]), 0, 1. split; [|reflexivity].
      eapply c_pred with (r := mkRule 0 [T 0; NT 0; T 1]) (d := 1) (a := 0); eauto; simpl; auto.
Qed.
