(* C08 - Rejections are UnexpectedInput errors at the first offending position.
   Earley half, stated over the specification chart of Earley/Spec.v (which the executable
   model of lark/parsers/earley.py is proved/tied to in C01).  Property theorems only. *)
From Coq Require Import List Arith Bool.
From LV Require Import Cfg.Grammar Earley.Spec Earley.Prefix Earley.Alg Earley.Expected.
Import ListNotations.

(* Valid-prefix property: whenever the chart holds an item at position k, the k tokens
   consumed so far can be extended to a sentence (grammars whose rule bodies are productive). *)
Theorem C08_valid_prefix (G : grammar) (tok : Type) (tmatch : nat -> tok -> bool) (start : nat)
        (w : list tok) k it :
  productive_bodies G tok tmatch -> chart G tok tmatch w start k it ->
  item_viable G tok tmatch start w k it.
Proof. exact (chart_item_viable G tok tmatch start w k it). Qed.
Print Assumptions C08_valid_prefix.

(* Every terminal the chart expects at position k can legally come next ... *)
Theorem C08_expected_sound (G : grammar) (tok : Type) (tmatch : nat -> tok -> bool) (start : nat)
        (w : list tok) k t x :
  productive_bodies G tok tmatch -> expects G tok tmatch start w k t -> tmatch t x = true ->
  k <= length w -> viable G tok tmatch start (firstn k w ++ [x]).
Proof. exact (expected_sound G tok tmatch start w k t x). Qed.
Print Assumptions C08_expected_sound.

(* ... and every terminal that can legally come next is expected (no productivity needed). *)
Theorem C08_expected_complete (G : grammar) (tok : Type) (tmatch : nat -> tok -> bool) (start : nat)
        (w : list tok) k x :
  k <= length w -> viable G tok tmatch start (firstn k w ++ [x]) ->
  exists t, expects G tok tmatch start w k t /\ tmatch t x = true.
Proof. exact (expected_complete G tok tmatch start w k x). Qed.
Print Assumptions C08_expected_complete.

(* The scan of token k succeeds iff w[0..k] is still a viable prefix: the position at which
   the parser stops is exactly the first offending token. *)
Theorem C08_first_offending_token (G : grammar) (tok : Type) (tmatch : nat -> tok -> bool)
        (start : nat) (w : list tok) k x :
  productive_bodies G tok tmatch -> nth_error w k = Some x ->
  ((exists t, expects G tok tmatch start w k t /\ tmatch t x = true) <->
   viable G tok tmatch start (firstn (S k) w)).
Proof. exact (first_offending_token G tok tmatch start w k x). Qed.
Print Assumptions C08_first_offending_token.

(* The executable model of lark's Earley parser (Earley/Alg.v, compared with the code column by
   column in C01 and on the expected sets here) reports exactly that set. *)
Theorem C08_model_expected_exact G start toks k t :
  k < length (r_cols (earley_parse G start toks)) ->
  (In t (expected_at (earley_parse G start toks) k) <-> expects G nat Nat.eqb start toks k t).
Proof. exact (expected_at_exact G start toks k t). Qed.
Print Assumptions C08_model_expected_exact.

(* Non-vacuity: S -> a S b | c ; after "a" the terminals a and c are expected. *)
Definition exG : grammar := [mkRule 0 [T 0; NT 0; T 1]; mkRule 0 [T 2]].
Example C08_example :
  productive_bodies exG nat Nat.eqb /\
  expects exG nat Nat.eqb 0 [0; 2; 1] 1 0 /\ expects exG nat Nat.eqb 0 [0; 2; 1] 1 2.
Proof.
  split.
  - intros r d Hin.
    assert (Hc : derives exG nat Nat.eqb [NT 0] [2]).
    { change [2] with ([2] ++ []). eapply d_nt with (r := mkRule 0 [T 2]); simpl; auto.
      - constructor; [reflexivity | constructor].
      - constructor. }
    assert (Hr1 : derives exG nat Nat.eqb [T 0; NT 0; T 1] [0; 2; 1]).
    { constructor; [reflexivity|]. change [2; 1] with ([2] ++ [1]).
      eapply d_nt with (r := mkRule 0 [T 2]); simpl; auto.
      - constructor; [reflexivity | constructor].
      - constructor; [reflexivity | constructor]. }
    destruct Hin as [<-|[<-|[]]]; simpl.
    + destruct d as [|[|[|[|d]]]]; simpl.
      * eexists; exact Hr1.
      * exists [2; 1]. change [2; 1] with ([2] ++ [1]).
        eapply d_nt with (r := mkRule 0 [T 2]); simpl; auto.
        -- constructor; [reflexivity | constructor].
        -- constructor; [reflexivity | constructor].
      * exists [1]. constructor; [reflexivity | constructor].
      * exists []. constructor.
      * exists []. constructor.
    + destruct d as [|[|d]]; simpl.
      * exists [2]. constructor; [reflexivity | constructor].
      * exists []. constructor.
      * exists []. constructor.
  - assert (H0 : chart exG nat Nat.eqb [0; 2; 1] 0 0 (mkItem (mkRule 0 [T 0; NT 0; T 1]) 0 0)).
    { constructor; simpl; auto. }
    assert (H1 : chart exG nat Nat.eqb [0; 2; 1] 0 1 (mkItem (mkRule 0 [T 0; NT 0; T 1]) 1 0)).
    { eapply c_scan with (t := 0) (x := 0); eauto. }
    split.
    + exists (mkRule 0 [T 0; NT 0; T 1]), 0, 1. split; [|reflexivity].
      eapply c_pred with (r := mkRule 0 [T 0; NT 0; T 1]) (d := 1) (a := 0); eauto; simpl; auto.
    + exists (mkRule 0 [T 2]), 0, 1. split; [|reflexivity].
      eapply c_pred with (r := mkRule 0 [T 0; NT 0; T 1]) (d := 1) (a := 0); eauto; simpl; auto.
Qed.

(* ------------------------------------------------------------------------------------------
   LALR half, never-late direction.  Stated over the executable models of lalr_analysis.py
   (LR/Automaton.v) and ParserState.feed_token (LR/Driver.v), which C02 ties to the code on every
   run; [viable] and [productive_bodies] are the Earley-side definitions above.  Only LR(0) item
   validity is used (every item of a reached state is justified: kernel / root / predicted by a
   justified item) - nothing about look-ahead sets, so the theorems hold whatever conflicts were
   resolved.  G = user rules, the model runs on G ++ [$root -> start] as lark does. *)
From Coq Require Import ZArith.
From LV Require Import LR.Driver LR.Driver_proofs LR.Automaton LR.Viable LR.Viable_proofs LR.Viable_model.

(* any table with a valid item annotation: every reachable stack spells a viable prefix *)
Theorem C08_lalr_valid_items_viable (tok : Type) (ttype : tok -> nat) (G : grammar) (P : ptable) (start : nat)
        (items : state -> list (rule * nat)) ss vs :
  wf_items_v G P start items -> productive_bodies G tok (Driver_proofs.tmatch tok ttype) ->
  stack_ok tok ttype G P ss vs ->
  viable G tok (Driver_proofs.tmatch tok ttype) start (consumed tok vs).
Proof. exact (fun WV Hp => stack_viable tok ttype G P start items WV Hp ss vs). Qed.
Print Assumptions C08_lalr_valid_items_viable.

(* if after consuming u the driver shifts token k (after any reductions), u ++ [k] can be
   extended to a sentence: a token is never shifted after the first offending one *)
Theorem C08_lalr_shift_viable (G : grammar) (prio : list Z) (rootnt start tEND fuel : nat)
        (A : lr0) (rel : relations) (LA : list (nat * nat * nat)) (R : rows) (qe : nat)
        fuel' u c k c' :
  compute_lalr (G ++ [mkRule rootnt [NT start]]) prio [length G] tEND fuel = ATable A rel LA R ->
  (forall r, In r G -> ~ In (NT rootnt) (rhs r)) -> start <> rootnt ->
  end_state (G ++ [mkRule rootnt [NT start]]) [length G] A 0 = Some qe ->
  productive_bodies G nat (Driver_proofs.tmatch nat (fun k => k)) -> (exists r, In r G /\ lhs r = start) ->
  feed_all nat (fun k => k) (ptable_of_rows R 0 qe) fuel' (init_config (ptable_of_rows R 0 qe)) u = Shifted c ->
  feed nat (fun k => k) (ptable_of_rows R 0 qe) fuel' c k false = Shifted c' ->
  viable G nat (Driver_proofs.tmatch nat (fun k => k)) start (u ++ [k]).
Proof.
  exact (fun H1 H2 H3 H4 H5 H6 =>
           model_shift_viable G prio rootnt start tEND fuel A rel LA R qe H1 H2 H3 H4 H5 H6 fuel' u c k c').
Qed.
Print Assumptions C08_lalr_shift_viable.

(* when UnexpectedToken is raised, the tokens consumed so far (a prefix of the input, all
   reductions included) form a viable prefix: the error is never late *)
Theorem C08_lalr_error_not_late (G : grammar) (prio : list Z) (rootnt start tEND fuel : nat)
        (A : lr0) (rel : relations) (LA : list (nat * nat * nat)) (R : rows) (qe : nat)
        fuel' w c :
  compute_lalr (G ++ [mkRule rootnt [NT start]]) prio [length G] tEND fuel = ATable A rel LA R ->
  (forall r, In r G -> ~ In (NT rootnt) (rhs r)) -> start <> rootnt ->
  end_state (G ++ [mkRule rootnt [NT start]]) [length G] A 0 = Some qe ->
  productive_bodies G nat (Driver_proofs.tmatch nat (fun k => k)) -> (exists r, In r G /\ lhs r = start) ->
  feed_all nat (fun k => k) (ptable_of_rows R 0 qe) fuel' (init_config (ptable_of_rows R 0 qe)) w = Unexpected c ->
  exists w1 w2, w = w1 ++ w2 /\ consumed nat (vstack c) = w1 /\
                viable G nat (Driver_proofs.tmatch nat (fun k => k)) start w1.
Proof.
  exact (fun H1 H2 H3 H4 H5 H6 =>
           model_error_not_late G prio rootnt start tEND fuel A rel LA R qe H1 H2 H3 H4 H5 H6 fuel' w c).
Qed.
Print Assumptions C08_lalr_error_not_late.

(* accepts(): a terminal whose trial feed succeeds can legally come next, and $END is accepted
   only after a sentence *)
Theorem C08_lalr_accepts_sound (G : grammar) (prio : list Z) (rootnt start tEND fuel : nat)
        (A : lr0) (rel : relations) (LA : list (nat * nat * nat)) (R : rows) (qe : nat)
        fuel' u c :
  compute_lalr (G ++ [mkRule rootnt [NT start]]) prio [length G] tEND fuel = ATable A rel LA R ->
  (forall r, In r G -> ~ In (NT rootnt) (rhs r)) -> start <> rootnt ->
  end_state (G ++ [mkRule rootnt [NT start]]) [length G] A 0 = Some qe ->
  productive_bodies G nat (Driver_proofs.tmatch nat (fun k => k)) -> (exists r, In r G /\ lhs r = start) ->
  feed_all nat (fun k => k) (ptable_of_rows R 0 qe) fuel' (init_config (ptable_of_rows R 0 qe)) u = Shifted c ->
  (forall k c', feed nat (fun k => k) (ptable_of_rows R 0 qe) fuel' c k false = Shifted c' ->
                viable G nat (Driver_proofs.tmatch nat (fun k => k)) start (u ++ [k])) /\
  (forall t, feed nat (fun k => k) (ptable_of_rows R 0 qe) fuel' c tEND true = Accepted t ->
             derives G nat (Driver_proofs.tmatch nat (fun k => k)) [NT start] u).
Proof.
  exact (fun H1 H2 H3 H4 H5 H6 H7 =>
           conj (fun k c' => model_accepts_sound G prio rootnt start tEND fuel A rel LA R qe H1 H2 H3 H4 H5 H6 fuel' u c k c' H7)
                (fun t => model_accepts_end_sound G prio rootnt start tEND fuel A rel LA R qe H1 H2 H3 H4 fuel' u c t H7)).
Qed.
Print Assumptions C08_lalr_accepts_sound.

(* NOT PROVED: the never-early direction needs look-ahead completeness (every terminal that
   can follow a viable prefix has an action after the reductions it triggers) and holds only
   for conflict-free tables.  Kept as the full statement; on the code it is checked
   differentially (position of the error vs the longest viable prefix). *)
Definition C08_lalr_never_early_full_statement : Prop :=
  forall (G : grammar) (prio : list Z) (rootnt start tEND fuel : nat)
         (A : lr0) (rel : relations) (LA : list (nat * nat * nat)) (R : rows) (qe : nat) fuel' u c k,
  compute_lalr (G ++ [mkRule rootnt [NT start]]) prio [length G] tEND fuel = ATable A rel LA R ->
  (forall r, In r G -> ~ In (NT rootnt) (rhs r) /\ ~ In (T tEND) (rhs r)) -> start <> rootnt ->
  end_state (G ++ [mkRule rootnt [NT start]]) [length G] A 0 = Some qe ->
  (forall q s, In s (la_terms LA q) -> trans A q (T s) = None /\ length (la_rules LA q s) <= 1) ->
  feed_all nat (fun k => k) (ptable_of_rows R 0 qe) fuel' (init_config (ptable_of_rows R 0 qe)) u = Shifted c ->
  k <> tEND ->
  viable G nat (Driver_proofs.tmatch nat (fun k => k)) start (u ++ [k]) ->
  exists fuel'' c', feed nat (fun k => k) (ptable_of_rows R 0 qe) fuel'' c k false = Shifted c'.

(* Non-vacuity for the LALR half: exG = S -> a S b | c with $root = non-terminal 1, $END = 3.
   The table is built; after "a c" the token b is shifted; "a b" is rejected with consumed = "a". *)
Example C08_lalr_example :
  match compute_lalr (exG ++ [mkRule 1 [NT 0]]) [0%Z; 0%Z; 0%Z] [2] 3 100 with
  | ATable A rel LA R =>
      match end_state (exG ++ [mkRule 1 [NT 0]]) [2] A 0 with
      | Some qe =>
          let P := ptable_of_rows R 0 qe in
          match feed_all nat (fun k => k) P 50 (init_config P) [0; 2] with
          | Shifted c => exists c', feed nat (fun k => k) P 50 c 1 false = Shifted c'
          | _ => False
          end /\
          (exists c, feed_all nat (fun k => k) P 50 (init_config P) [0; 1] = Unexpected c /\
                     consumed nat (vstack c) = [0])
      | None => False
      end
  | _ => False
  end.
Proof. vm_compute. split; [eexists; reflexivity | eexists; split; reflexivity]. Qed.

(* ------------------------------------------------------------------------------------------
   LALR half, never-EARLY direction (round 6): for CONFLICT-FREE model tables (no shift/reduce
   and no reduce/reduce set, cf. C02_complete) an error is raised only when the token really
   cannot follow, so with the never-late theorems above the reported position is exactly the
   first offending token, and accepts() is exact.  Proof: the driver follows a derivation tree
   of any sentence u ++ k :: v (LR/Lalr_complete.v); that run is cut where k is shifted and
   fuel monotonicity identifies the configuration there with the driver's own (LR/Lalr_exact.v).
   With conflicts the statement is false: see C08_lalr_never_early_needs_conflict_free. *)
From LV Require Import LR.Lalr_complete LR.Lalr_exact.

(* the full statement kept in round 3 is now a theorem *)
Theorem C08_lalr_never_early : C08_lalr_never_early_full_statement.
Proof.
  exact (fun G prio rootnt start tEND fuel A rel LA R qe fuel' u c k HT Hfr Hne Hqe CF Hf _ Hvi =>
           never_early_shift G prio rootnt start tEND fuel A rel LA R qe HT
             (fun r Hr => proj1 (Hfr r Hr)) Hne Hqe CF fuel' u c k Hf Hvi).
Qed.
Print Assumptions C08_lalr_never_early.

(* an UnexpectedToken on k after consuming u: u is a viable prefix and u ++ [k] is not -
   the reported position is EXACTLY the first offending token *)
Theorem C08_lalr_error_position_exact (G : grammar) (prio : list Z) (rootnt start tEND fuel : nat)
        (A : lr0) (rel : relations) (LA : list (nat * nat * nat)) (R : rows) (qe : nat)
        f u c f' k c' :
  compute_lalr (G ++ [mkRule rootnt [NT start]]) prio [length G] tEND fuel = ATable A rel LA R ->
  (forall r, In r G -> ~ In (NT rootnt) (rhs r)) -> start <> rootnt ->
  end_state (G ++ [mkRule rootnt [NT start]]) [length G] A 0 = Some qe ->
  productive_bodies G nat (Driver_proofs.tmatch nat (fun k => k)) -> (exists r, In r G /\ lhs r = start) ->
  conflict_free A LA ->
  feed_all nat (fun k => k) (ptable_of_rows R 0 qe) f (init_config (ptable_of_rows R 0 qe)) u = Shifted c ->
  feed nat (fun k => k) (ptable_of_rows R 0 qe) f' c k false = Unexpected c' ->
  viable G nat (Driver_proofs.tmatch nat (fun k => k)) start u /\
  ~ viable G nat (Driver_proofs.tmatch nat (fun k => k)) start (u ++ [k]).
Proof.
  exact (fun H1 H2 H3 H4 H5 H6 H7 =>
           error_position_exact G prio rootnt start tEND fuel A rel LA R qe H1 H2 H3 H4 H5 H6 H7 f u c f' k c').
Qed.
Print Assumptions C08_lalr_error_position_exact.

(* accepts() is exact: a terminal passes the trial feed iff it can legally come next, and
   $END passes iff the consumed input is a sentence *)
Theorem C08_lalr_accepts_exact (G : grammar) (prio : list Z) (rootnt start tEND fuel : nat)
        (A : lr0) (rel : relations) (LA : list (nat * nat * nat)) (R : rows) (qe : nat)
        f u c :
  compute_lalr (G ++ [mkRule rootnt [NT start]]) prio [length G] tEND fuel = ATable A rel LA R ->
  (forall r, In r G -> ~ In (NT rootnt) (rhs r)) -> start <> rootnt ->
  end_state (G ++ [mkRule rootnt [NT start]]) [length G] A 0 = Some qe ->
  productive_bodies G nat (Driver_proofs.tmatch nat (fun k => k)) -> (exists r, In r G /\ lhs r = start) ->
  conflict_free A LA ->
  feed_all nat (fun k => k) (ptable_of_rows R 0 qe) f (init_config (ptable_of_rows R 0 qe)) u = Shifted c ->
  (forall k, (exists f' c', feed nat (fun k => k) (ptable_of_rows R 0 qe) f' c k false = Shifted c') <->
             viable G nat (Driver_proofs.tmatch nat (fun k => k)) start (u ++ [k])) /\
  ((exists f' t, feed nat (fun k => k) (ptable_of_rows R 0 qe) f' c tEND true = Accepted t) <->
   derives G nat (Driver_proofs.tmatch nat (fun k => k)) [NT start] u).
Proof.
  exact (fun H1 H2 H3 H4 H5 H6 H7 H8 =>
           conj (fun k => accepts_exact G prio rootnt start tEND fuel A rel LA R qe H1 H2 H3 H4 H5 H6 H7 f u c k H8)
                (accepts_end_exact G prio rootnt start tEND fuel A rel LA R qe H1 H2 H3 H4 H7 f u c H8)).
Qed.
Print Assumptions C08_lalr_accepts_exact.

(* Conflict-freedom is necessary.  exSR:  start -> a B D ;  a -> C | C B   (B=1 C=2 D=3,
   $END=0, $root = non-terminal 2).  After "c" the shift/reduce conflict on B is resolved as
   shift, so after "c b" the token d raises UnexpectedToken although "c b d" is a sentence. *)
Definition exSR : grammar := [mkRule 0 [NT 1; T 1; T 3]; mkRule 1 [T 2]; mkRule 1 [T 2; T 1]].
Example C08_lalr_never_early_needs_conflict_free :
  derives exSR nat (Driver_proofs.tmatch nat (fun k => k)) [NT 0] [2; 1; 3] /\
  match compute_lalr (exSR ++ [mkRule 2 [NT 0]]) [0%Z; 0%Z; 0%Z; 0%Z] [3] 0 100 with
  | ATable A rel LA R =>
      match end_state (exSR ++ [mkRule 2 [NT 0]]) [3] A 0 with
      | Some qe =>
          let P := ptable_of_rows R 0 qe in
          conflict_free_b A LA = false /\
          match feed_all nat (fun k => k) P 50 (init_config P) [2; 1] with
          | Shifted c => exists c', feed nat (fun k => k) P 50 c 3 false = Unexpected c'
          | _ => False
          end
      | None => False
      end
  | _ => False
  end.
Proof.
  split.
  - change [2; 1; 3] with ([2; 1; 3] ++ []).
    apply d_nt with (r := mkRule 0 [NT 1; T 1; T 3]); simpl; auto; [|constructor].
    change [2; 1; 3] with ([2] ++ [1; 3]).
    apply d_nt with (r := mkRule 1 [T 2]); simpl; auto.
    + constructor; [reflexivity|constructor].
    + constructor; [reflexivity|]. constructor; [reflexivity|constructor].
  - vm_compute. split; [reflexivity|eexists; reflexivity].
Qed.

(* ------------------------------------------------------------------------------------------
   Round 12, Earley half for the DYNAMIC lexers at the level of the error REPORT.
   Model: Earley/Dyn.v (xearley._parse / scan, tied per column by C01) + Earley/DynReport.v (what the raise sites pass:
   position, the main loop's line/column, {item.expect.name for item in to_scan}, set(to_scan), frozenset(i.s ...));
   the raise sites and their decision conditions are pinned / regenerated by translator/gen_earley.py
   (Gen/EarleySteps.v).  Specification: the position graph read as tilings of the text by token types - every token
   a lexeme the scanner explores, ignored matches before each token and after the last (Earley/DynReport_proofs.v) -
   against the token-level notions [viable] / [productive_bodies] of the basic-lexer theorems above. *)
From LV Require Import Earley.Alg_proofs Earley.Dyn Earley.Dyn_proofs Earley.DynReport Earley.DynReport_proofs Pos.Coord
  Gen.EarleySteps Earley.Steps Earley.Steps_proofs Gen.ErrorSites.

(* the language of the dynamic lexers at token level: some tiling of the whole text is a sentence *)
Theorem C08_dynamic_tilings G start n rmatch rtrunc complete_lex ignore :
  gsentence G start n rmatch rtrunc complete_lex ignore <->
  exists u, derives G nat Nat.eqb [NT start] u /\ tiles rmatch rtrunc complete_lex ignore u 0 n.
Proof. exact (gsentence_tiles G start n rmatch rtrunc complete_lex ignore). Qed.
Print Assumptions C08_dynamic_tilings.

(* the set the model reports at position k (allowed of UnexpectedCharacters, expected of UnexpectedEOF) is EXACTLY the
   set of terminals t such that some tiling u of the consumed text 0..k extended by t is a viable prefix *)
Theorem C08_dynamic_expected_exact G start n rmatch rtrunc complete_lex ignore k t :
  fwd rmatch rtrunc -> productive_bodies G nat Nat.eqb ->
  k < length (d_cols (dyn_parse G start n rmatch rtrunc complete_lex ignore)) ->
  (In t (scan_expected (colf (d_scans (dyn_parse G start n rmatch rtrunc complete_lex ignore)) k)) <->
   exists u, tiles rmatch rtrunc complete_lex ignore u 0 k /\ viable G nat Nat.eqb start (u ++ [t])).
Proof.
  exact (fun Hf Hp Hk => conj (dyn_expected_sound G start n rmatch rtrunc complete_lex ignore Hf k t Hp Hk)
           (fun '(ex_intro _ u (conj Tu Hv)) =>
              dyn_expected_complete G start n rmatch rtrunc complete_lex ignore Hf k t u Hk Tu Hv)).
Qed.
Print Assumptions C08_dynamic_expected_exact.

(* an UnexpectedCharacters at i is never early: no viable reading of the text reaches beyond i (no productivity needed) *)
Theorem C08_dynamic_error_not_early G start n rmatch rtrunc complete_lex ignore i j u :
  fwd rmatch rtrunc ->
  d_out (dyn_parse G start n rmatch rtrunc complete_lex ignore) = DRejectChar i -> i < j ->
  tiles rmatch rtrunc complete_lex ignore u 0 j -> ~ viable G nat Nat.eqb start u.
Proof. exact (fun Hf => dyn_error_not_early G start n rmatch rtrunc complete_lex ignore Hf i j u). Qed.
Print Assumptions C08_dynamic_error_not_early.

(* the UnexpectedCharacters report: position inside the text, (line, column) = the source coordinates of that position,
   considered_tokens = the chart items at that position that expect a terminal, allowed = their terminals = exactly the
   legal continuations, state = their (rule, ptr) pairs; nothing viable beyond the position *)
Theorem C08_dynamic_report_chars G start rmatch rtrunc complete_lex ignore (text : list nat)
        pos line col allowed considered state :
  fwd rmatch rtrunc ->
  dyn_report text (dyn_parse G start (length text) rmatch rtrunc complete_lex ignore)
    = Some (RepChars pos line col allowed considered state) ->
  d_out (dyn_parse G start (length text) rmatch rtrunc complete_lex ignore) = DRejectChar pos /\ pos < length text /\
  (line, col) = coord Nat.eqb 10 text pos /\
  (forall x, In x considered <->
             gchart G start rmatch rtrunc complete_lex ignore pos x /\ is_term_item x = true) /\
  allowed = scan_expected considered /\ state = map item_state considered /\
  (forall t u, tiles rmatch rtrunc complete_lex ignore u 0 pos -> viable G nat Nat.eqb start (u ++ [t]) -> In t allowed) /\
  (productive_bodies G nat Nat.eqb -> forall t, In t allowed ->
     exists u, tiles rmatch rtrunc complete_lex ignore u 0 pos /\ viable G nat Nat.eqb start (u ++ [t])) /\
  (forall j u, pos < j -> tiles rmatch rtrunc complete_lex ignore u 0 j -> ~ viable G nat Nat.eqb start u).
Proof.
  exact (fun Hf => dyn_report_chars G start (length text) rmatch rtrunc complete_lex ignore Hf text
                     pos line col allowed considered state eq_refl).
Qed.
Print Assumptions C08_dynamic_report_chars.

(* the UnexpectedEOF report: the whole text was read, no tiling of it is a sentence, expected = exactly the legal
   continuations of the whole text *)
Theorem C08_dynamic_report_eof G start n rmatch rtrunc complete_lex ignore (text : list nat) expected state :
  fwd rmatch rtrunc ->
  dyn_report text (dyn_parse G start n rmatch rtrunc complete_lex ignore) = Some (RepEOF expected state) ->
  d_out (dyn_parse G start n rmatch rtrunc complete_lex ignore) = DRejectEOF /\
  ~ gsentence G start n rmatch rtrunc complete_lex ignore /\
  (forall t u, tiles rmatch rtrunc complete_lex ignore u 0 n -> viable G nat Nat.eqb start (u ++ [t]) -> In t expected) /\
  (productive_bodies G nat Nat.eqb -> forall t, In t expected ->
     exists u, tiles rmatch rtrunc complete_lex ignore u 0 n /\ viable G nat Nat.eqb start (u ++ [t])) /\
  exists q, (forall x, In x q <-> gchart G start rmatch rtrunc complete_lex ignore n x /\ is_term_item x = true) /\
            expected = scan_expected q /\ state = map item_state q.
Proof.
  exact (fun Hf => dyn_report_eof G start n rmatch rtrunc complete_lex ignore Hf text expected state).
Qed.
Print Assumptions C08_dynamic_report_eof.

(* Non-vacuity, and finding F52 at model level.  start: A B, A: "ab", B: "c", text "ab  d" (a b blank blank d).
   Without %ignore the report is UnexpectedCharacters at offset 2 (line 1, column 3) with allowed = {B}.
   With  %ignore "b  "  the ignored terminal matches text[1:4], i.e. it starts INSIDE the pending match of A, where
   the column is empty: scan(1) executes delayed_matches[4].extend([]) and creates key 4; `not delayed_matches` is
   then false at scan(2), and the error is raised only at scan(3): offset 3, column 4, allowed = {} - although no
   chart item exists at 3 and position 2 is the last one a viable reading reaches.  So the reported position is not
   always the first offending one (never early by the theorem above, but it can be LATE): lark agrees with the model. *)
Definition f52_G : grammar := [mkRule 0 [T 0; T 1]].
Definition f52_re (t i : nat) : option nat := match t, i with 0, 0 => Some 2 | 2, 1 => Some 4 | _, _ => None end.
Definition f52_text : list nat := [97; 98; 32; 32; 100].

Example C08_dynamic_report_example :
  fwd f52_re (fun _ _ _ => None) /\ productive_bodies f52_G nat Nat.eqb /\
  dyn_report f52_text (dyn_parse f52_G 0 5 f52_re (fun _ _ _ => None) false [])
  = Some (RepChars 2 1 3 [1] [mkItem (mkRule 0 [T 0; T 1]) 1 0] [(mkRule 0 [T 0; T 1], 1)]).
Proof.
  split; [|split].
  - split; [|discriminate]. intros [|[|[|t]]] [|[|i]] j H; inversion H; auto.
  - intros r d [<-|[]]. destruct d as [|[|d]]; simpl.
    + exists [0; 1]. repeat constructor.
    + exists [1]. repeat constructor.
    + exists []. destruct d; constructor.
  - vm_compute. reflexivity.
Qed.

Example C08_dynamic_error_late_refuted :
  let res := dyn_parse f52_G 0 5 f52_re (fun _ _ _ => None) false [2] in
  d_out res = DRejectChar 3 /\
  dyn_report f52_text res = Some (RepChars 3 1 4 [] [] []) /\
  (forall x, ~ gchart f52_G 0 f52_re (fun _ _ _ => None) false [2] 3 x) /\
  (exists x, gchart f52_G 0 f52_re (fun _ _ _ => None) false [2] 2 x /\ expect x = Some (T 1)).
Proof.
  assert (F : fwd f52_re (fun _ _ _ => None)).
  { split; [|discriminate]. intros [|[|[|t]]] [|[|i]] j H; inversion H; auto. }
  cbv zeta. split; [vm_compute; reflexivity|]. split; [vm_compute; reflexivity|]. split.
  - intros x Hx.
    apply (dyn_trace_is_gchart f52_G 0 5 f52_re (fun _ _ _ => None) false [2] F 3 x) in Hx;
      [|vm_compute; auto].
    vm_compute in Hx. destruct Hx as [[]|[]].
  - exists (mkItem (mkRule 0 [T 0; T 1]) 1 0). split; [|reflexivity].
    apply (dyn_trace_is_gchart f52_G 0 5 f52_re (fun _ _ _ => None) false [2] F 2); [vm_compute; auto|].
    right. vm_compute. left. reflexivity.
Qed.

(* F10: productivity of the rule bodies is NECESSARY for the valid-prefix property.  start: A x | A B; x: C x.
   After "a c" the chart still holds an item although no sentence starts with a c, and it expects C. *)
Definition f10_G : grammar := [mkRule 0 [T 0; NT 1]; mkRule 0 [T 0; T 1]; mkRule 1 [T 2; NT 1]].
Lemma f10_x_dead : forall ss (u : list nat), derives f10_G nat Nat.eqb ss u -> ~ In (NT 1) ss.
Proof.
  induction 1 as [| t k ss w Hm Hd IH | a r ss w1 w2 Hr Hl Hd1 IH1 Hd2 IH2]; intros Hin.
  - destruct Hin.
  - destruct Hin as [E|Hin]; [discriminate|]. auto.
  - destruct Hin as [E|Hin]; [|auto]. inversion E as [Ea]. rewrite Ea in Hl.
    destruct Hr as [<-|[<-|[<-|[]]]]; simpl in Hl; try discriminate. apply IH1. simpl. auto.
Qed.
Example C08_nonproductive_refuted :
  ~ productive_bodies f10_G nat Nat.eqb /\
  chart f10_G nat Nat.eqb [0; 2; 2] 0 2 (mkItem (mkRule 1 [T 2; NT 1]) 1 1) /\
  expects f10_G nat Nat.eqb 0 [0; 2; 2] 2 2 /\
  ~ viable f10_G nat Nat.eqb 0 [0; 2].
Proof.
  assert (C1 : chart f10_G nat Nat.eqb [0; 2; 2] 0 1 (mkItem (mkRule 0 [T 0; NT 1]) 1 0)).
  { eapply c_scan with (t := 0) (x := 0); [apply c_init; simpl; auto|reflexivity|reflexivity|reflexivity]. }
  assert (C2 : chart f10_G nat Nat.eqb [0; 2; 2] 0 1 (mkItem (mkRule 1 [T 2; NT 1]) 0 1)).
  { eapply c_pred with (a := 1); [exact C1|reflexivity|simpl; auto|reflexivity]. }
  assert (C3 : chart f10_G nat Nat.eqb [0; 2; 2] 0 2 (mkItem (mkRule 1 [T 2; NT 1]) 1 1)).
  { eapply c_scan with (t := 2) (x := 2); [exact C2|reflexivity|reflexivity|reflexivity]. }
  split; [|split; [exact C3|split]].
  - intros Hp. destruct (Hp (mkRule 1 [T 2; NT 1]) 0) as (u & Hu); [simpl; auto|].
    simpl in Hu. apply (f10_x_dead _ _ Hu). simpl. auto.
  - exists (mkRule 1 [T 2; NT 1]), 0, 2. split; [|reflexivity].
    eapply c_pred with (a := 1); [exact C3|reflexivity|simpl; auto|reflexivity].
  - intros (v & Hv). simpl in Hv.
    inversion Hv as [| |a r ss w1 w2 Hr Hl Hd1 Hd2 Ea Ew]. subst a ss.
    destruct Hr as [<-|[<-|[<-|[]]]]; simpl in Hl; try discriminate.
    + apply (f10_x_dead _ _ Hd1). simpl. auto.
    + inversion Hd2; subst w2. rewrite app_nil_r in Ew. subst w1.
      inversion Hd1 as [|t k ss w Hm Hd' E1 E2|]; subst.
      inversion Hd' as [|t' k' ss' w' Hm' Hd'' E1' E2'|]; subst. simpl in Hm'. discriminate.
Qed.

(* the decisions of the two Earley engines on WHEN to raise which error are the conditions of the source
   (the tests before raise UnexpectedToken / UnexpectedEOF / UnexpectedCharacters, regenerated into Gen/EarleySteps.v) *)
Theorem C08_earley_error_decisions_are_source :
  (forall G predictions (tok : Type) tmatch start (toks : list tok),
     Alg.r_out (Alg.parse G predictions tok tmatch start toks) =
     Alg.r_out (Steps.g_parse G predictions tok tmatch start toks)) /\
  (forall G predictions start n rmatch rtrunc_rel complete_lex ignore,
     Dyn.d_out (Dyn.dparse G predictions start n rmatch (rtrunc_abs rtrunc_rel) complete_lex ignore) =
     Dyn.d_out (Steps.g_dparse G predictions start n rmatch rtrunc_rel complete_lex ignore)).
Proof.
  exact (conj (fun G p tok tm s toks => f_equal Alg.r_out (parse_gen G p tok tm s toks))
              (fun G p s n rm rt cl ig => f_equal Dyn.d_out (dparse_gen G p s rm rt cl ig n))).
Qed.
Print Assumptions C08_earley_error_decisions_are_source.

(* LALR + contextual lexer, an error that the state's lexer raises and the root lexer turns into an UnexpectedToken
   (ContextualLexer.lex, pinned by Gen/ErrorSites.v): its `expected` is the `allowed` of the state's lexer, i.e. the
   terminals of that lexer (state's terminals | ignore | always_accept, those known by name) minus the ignored ones.
   Every terminal the parser accepts in that state is among the state's terminals (accepts() tries exactly the keys of
   the state's row, Gen/InterHoles.v), so it belongs to expected - unless it is itself %ignore'd. *)
Theorem C08_contextual_fallback_expected_covers_accepts
        (state_terms ignore always_accept : list nat) (known : nat -> bool) (t : nat) :
  let lexer_terms := filter known (ctx_state_terminals state_terms ignore always_accept) in
  let allowed := filter (fun x => negb (existsb (Nat.eqb x) ignore)) lexer_terms in
  In t state_terms -> known t = true -> ~ In t ignore ->
  In t (ctx_fallback_expected allowed).
Proof.
  cbv zeta. unfold ctx_fallback_expected, ctx_state_terminals. intros Ht Hk Hi.
  apply filter_In. split.
  - apply filter_In. split; auto. apply in_or_app. auto.
  - apply negb_true_iff. destruct (existsb (Nat.eqb t) ignore) eqn:E; auto.
    apply existsb_exists in E. destruct E as (y & Hy & He). apply Nat.eqb_eq in He. subst y. contradiction.
Qed.
Print Assumptions C08_contextual_fallback_expected_covers_accepts.
