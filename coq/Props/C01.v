(* C01 - Earley accepts exactly the language of the grammar.
   Property theorems only; proofs are in Cfg/Analysis_proofs.v, Earley/Spec.v, Earley/Alg_proofs.v.
   Model: Earley/Alg.v mirrors lark/parsers/earley.py (predict_and_complete, scan, _parse, parse) on a token
   list; Cfg/Analysis.v mirrors GrammarAnalyzer.expand_rule.  harness/props/C01.py compares, on every run,
   the model's columns / to_scan sets / outcome / prediction table with what lark computes. *)
From Coq Require Import List Arith Bool.
From LV Require Import Cfg.Grammar Cfg.Analysis Cfg.Analysis_proofs Earley.Spec Earley.Alg Earley.Alg_proofs.
Import ListNotations.

(* Parser.predictions[a] (= expand_rule, which always terminates within its fuel) is exactly the set of rules
   of the non-terminals reachable from a through first symbols. *)
Theorem C01_predictions_spec G a r :
  (exists l, expand_rule G a = Some l) /\
  (In r (predictions G a) <-> In r G /\ lc_reach G a (lhs r)).
Proof. exact (conj (expand_rule_total G a) (predictions_spec G a r)). Qed.
Print Assumptions C01_predictions_spec.

(* NULLABLE of calculate_sets (non-terminals): the bounded iteration reaches the set of non-terminals deriving
   the empty string (the Earley recogniser itself does not consult it). *)
Theorem C01_nullable_spec G (tok : Type) tmatch a :
  In a (nullable_set G) <-> derives G tok tmatch [NT a] [].
Proof. exact (nullable_set_spec G tok tmatch a). Qed.
Print Assumptions C01_nullable_spec.

(* The specification chart characterises the language: a completed start rule spanning the input exists in
   the chart iff the input is a sentence. *)
Theorem C01_chart_is_language G (tok : Type) tmatch (w : list tok) start :
  accepts_spec G tok tmatch w start <-> derives G tok tmatch [NT start] w.
Proof. exact (accepts_iff_sentence G tok tmatch w start). Qed.
Print Assumptions C01_chart_is_language.

(* alg_sound: every item the algorithm puts into column k or to_scan k is a chart item. *)
Theorem C01_alg_sound G start toks k x :
  In x (colf (r_cols (earley_parse G start toks)) k) \/ In x (colf (r_scans (earley_parse G start toks)) k) ->
  chart G nat Nat.eqb toks start k x.
Proof. exact (earley_alg_sound G start toks k x). Qed.
Print Assumptions C01_alg_sound.

(* alg_complete: every chart item of a column the run reached is found (worklist argument with held
   completions). *)
Theorem C01_alg_complete G start toks k x :
  chart G nat Nat.eqb toks start k x -> k < length (r_cols (earley_parse G start toks)) ->
  In x (colf (r_cols (earley_parse G start toks)) k) \/ In x (colf (r_scans (earley_parse G start toks)) k).
Proof. exact (earley_alg_complete G start toks k x). Qed.
Print Assumptions C01_alg_complete.

(* what the correspondence check compares with lark is therefore the chart itself *)
Theorem C01_basic_trace G start toks k x :
  k < length (r_cols (earley_parse G start toks)) ->
  (In x (colf (r_cols (earley_parse G start toks)) k) \/ In x (colf (r_scans (earley_parse G start toks)) k)
   <-> chart G nat Nat.eqb toks start k x).
Proof. exact (earley_trace_is_chart G start toks k x). Qed.
Print Assumptions C01_basic_trace.

(* fuel_suffices: the worklist never exhausts the fuel the model gives it (model-level "never hangs"). *)
Theorem C01_fuel_suffices G start toks i : r_out (earley_parse G start toks) <> OutOfFuel i.
Proof. exact (earley_fuel_suffices G start toks i). Qed.
Print Assumptions C01_fuel_suffices.

(* The property for lexer='basic': the parser accepts a token string iff the grammar derives it. *)
Theorem C01_basic G start toks :
  earley_accepts G start toks = true <-> derives G nat Nat.eqb [NT start] toks.
Proof. exact (earley_accepts_iff_sentence G start toks). Qed.
Print Assumptions C01_basic.

(* ... and for any token type / matcher / admissible prediction table *)
Theorem C01_general G predictions (tok : Type) tmatch start (w : list tok) :
  (forall a r, In r (predictions a) -> In r G /\ lc_reach G a (lhs r)) ->
  (forall a r, In r G -> lhs r = a -> In r (predictions a)) ->
  (accepts G predictions tok tmatch start w = true <-> derives G tok tmatch [NT start] w).
Proof. exact (accepts_iff_sentence_gen G predictions tok tmatch start w). Qed.
Print Assumptions C01_general.

(* Non-vacuity: an ambiguous, nullable, left- and right-recursive grammar with a unit cycle
     s: s s | "a" | b |      b: s        (terminal 0 = "a", terminal 1 unused by the rules) *)
Definition ex_G : grammar :=
  [mkRule 0 [NT 0; NT 0]; mkRule 0 [T 0]; mkRule 0 [NT 1]; mkRule 0 []; mkRule 1 [NT 0]].

Example C01_example :
  derives ex_G nat Nat.eqb [NT 0] [0; 0; 0] /\ ~ derives ex_G nat Nat.eqb [NT 0] [0; 1] /\
  r_out (earley_parse ex_G 0 [0; 1]) = RejectTok 1 /\ length (predictions ex_G 1) = 5.
Proof.
  split; [|split; [|split]].
  - apply C01_basic. vm_compute. reflexivity.
  - intros H. apply C01_basic in H. vm_compute in H. discriminate.
  - vm_compute. reflexivity.
  - vm_compute. reflexivity.
Qed.
