(* C01 - Earley accepts exactly the language of the grammar.
   Property theorems only; proofs are in Cfg/Analysis_proofs.v, Earley/Spec.v, Earley/Alg_proofs.v.
   Model: Earley/Alg.v mirrors lark/parsers/earley.py (predict_and_complete, scan, _parse, parse) on a token
   list; Cfg/Analysis.v mirrors GrammarAnalyzer.expand_rule.  harness/props/C01.py compares, on every run,
   the model's columns / to_scan sets / outcome / prediction table with what lark computes. *)
From Coq Require Import List Arith Bool.
From LV Require Import Cfg.Grammar Cfg.Analysis Cfg.Analysis_proofs Earley.Spec Earley.Alg Earley.Alg_proofs
  Earley.Dyn Earley.Dyn_proofs Cfg.AnalysisDistribute Cfg.AnalysisDistribute_proofs.
Import ListNotations.

(* Parser.predictions[a] (= expand_rule, which always terminates within its fuel) is exactly the set of rules
   of the non-terminals reachable from a through first symbols. *)
Theorem C01_predictions_spec G a r :
  (exists l, expand_rule G a = Some l) /\
  (In r (predictions G a) <-> In r G /\ lc_reach G a (lhs r)).
Proof. exact (conj (expand_rule_total G a) (predictions_spec G a r)). Qed.
Print Assumptions C01_predictions_spec.

(* NULLABLE of calculate_sets (non-terminals): the bounded iteration reaches the set of non-terminals deriving
   the empty string (the Earley recogniser itself does not consult it). *)
Theorem C01_nullable_spec G (tok : Type) tmatch a :
  In a (nullable_set G) <-> derives G tok tmatch [NT a] [].
Proof. exact (nullable_set_spec G tok tmatch a). Qed.
Print Assumptions C01_nullable_spec.

(* The specification chart characterises the language: a completed start rule spanning the input exists in
   the chart iff the input is a sentence. *)
Theorem C01_chart_is_language G (tok : Type) tmatch (w : list tok) start :
  accepts_spec G tok tmatch w start <-> derives G tok tmatch [NT start] w.
Proof. exact (accepts_iff_sentence G tok tmatch w start). Qed.
Print Assumptions C01_chart_is_language.

(* alg_sound: every item the algorithm puts into column k or to_scan k is a chart item. *)
Theorem C01_alg_sound G start toks k x :
  In x (colf (r_cols (earley_parse G start toks)) k) \/ In x (colf (r_scans (earley_parse G start toks)) k) ->
  chart G nat Nat.eqb toks start k x.
Proof. exact (earley_alg_sound G start toks k x). Qed.
Print Assumptions C01_alg_sound.

(* alg_complete: every chart item of a column the run reached is found (worklist argument with held
   completions). *)
Theorem C01_alg_complete G start toks k x :
  chart G nat Nat.eqb toks start k x -> k < length (r_cols (earley_parse G start toks)) ->
  In x (colf (r_cols (earley_parse G start toks)) k) \/ In x (colf (r_scans (earley_parse G start toks)) k).
Proof. exact (earley_alg_complete G start toks k x). Qed.
Print Assumptions C01_alg_complete.

(* what the correspondence check compares with lark is therefore the chart itself *)
Theorem C01_basic_trace G start toks k x :
  k < length (r_cols (earley_parse G start toks)) ->
  (In x (colf (r_cols (earley_parse G start toks)) k) \/ In x (colf (r_scans (earley_parse G start toks)) k)
   <-> chart G nat Nat.eqb toks start k x).
Proof. exact (earley_trace_is_chart G start toks k x). Qed.
Print Assumptions C01_basic_trace.

(* fuel_suffices: the worklist never exhausts the fuel the model gives it (model-level "never hangs"). *)
Theorem C01_fuel_suffices G start toks i : r_out (earley_parse G start toks) <> OutOfFuel i.
Proof. exact (earley_fuel_suffices G start toks i). Qed.
Print Assumptions C01_fuel_suffices.

(* The property for lexer='basic': the parser accepts a token string iff the grammar derives it. *)
Theorem C01_basic G start toks :
  earley_accepts G start toks = true <-> derives G nat Nat.eqb [NT start] toks.
Proof. exact (earley_accepts_iff_sentence G start toks). Qed.
Print Assumptions C01_basic.

(* ... and for any token type / matcher / admissible prediction table *)
Theorem C01_general G predictions (tok : Type) tmatch start (w : list tok) :
  (forall a r, In r (predictions a) -> In r G /\ lc_reach G a (lhs r)) ->
  (forall a r, In r G -> lhs r = a -> In r (predictions a)) ->
  (accepts G predictions tok tmatch start w = true <-> derives G tok tmatch [NT start] w).
Proof. exact (accepts_iff_sentence_gen G predictions tok tmatch start w). Qed.
Print Assumptions C01_general.

(* Non-vacuity: an ambiguous, nullable, left- and right-recursive grammar with a unit cycle
     s: s s | "a" | b |      b: s        (terminal 0 = "a", terminal 1 unused by the rules) *)
Definition ex_G : grammar :=
  [mkRule 0 [NT 0; NT 0]; mkRule 0 [T 0]; mkRule 0 [NT 1]; mkRule 0 []; mkRule 1 [NT 0]].

Example C01_example :
  derives ex_G nat Nat.eqb [NT 0] [0; 0; 0] /\ ~ derives ex_G nat Nat.eqb [NT 0] [0; 1] /\
  r_out (earley_parse ex_G 0 [0; 1]) = RejectTok 1 /\ length (predictions ex_G 1) = 5.
Proof.
  split; [|split; [|split]].
  - apply C01_basic. vm_compute. reflexivity.
  - intros H. apply C01_basic in H. vm_compute in H. discriminate.
  - vm_compute. reflexivity.
  - vm_compute. reflexivity.
Qed.

(* ---------------------------------------------------------------------------------------------------------- *)
(* The dynamic lexers (lexer='dynamic' / 'dynamic_complete').  Model: Earley/Dyn.v mirrors xearley.Parser._parse and
   scan (delayed_matches, complete_lex, %ignore carry-over, UnexpectedCharacters test) over predict_and_complete of
   Earley/Alg.v; the regex engine is an oracle (rmatch: the one match at a position; rtrunc: the match on a truncated
   window, as complete_lex asks).  `fwd` = the engine never returns an empty match (lark refuses zero-width terminals
   when it builds a dynamic-lexer parser).  The language is stated over the ends the code explores (ends_of). *)

(* the ends explored for terminal t at position i: the engine's match, and with complete_lex the matches on the
   truncations of that match *)
Theorem C01_dynamic_ends rmatch rtrunc complete_lex t i j :
  In j (ends_of rmatch rtrunc complete_lex t i) <->
  exists e, rmatch t i = Some e /\
            (j = e \/ (complete_lex = true /\ exists k, 1 <= k < e - i /\ rtrunc t i (e - k) = Some j)).
Proof. exact (ends_spec rmatch rtrunc complete_lex t i j). Qed.
Print Assumptions C01_dynamic_ends.

(* columns and to_scan sets of the run = the chart over the position graph (terminal spans, ignored spans) *)
Theorem C01_dynamic_trace G start n rmatch rtrunc complete_lex ignore k x :
  fwd rmatch rtrunc ->
  k < length (d_cols (dyn_parse G start n rmatch rtrunc complete_lex ignore)) ->
  (In x (colf (d_cols (dyn_parse G start n rmatch rtrunc complete_lex ignore)) k) \/
   In x (colf (d_scans (dyn_parse G start n rmatch rtrunc complete_lex ignore)) k)
   <-> gchart G start rmatch rtrunc complete_lex ignore k x).
Proof. exact (fun H => dyn_trace_is_gchart G start n rmatch rtrunc complete_lex ignore H k x). Qed.
Print Assumptions C01_dynamic_trace.

Theorem C01_dynamic_fuel G start n rmatch rtrunc complete_lex ignore i :
  fwd rmatch rtrunc -> d_out (dyn_parse G start n rmatch rtrunc complete_lex ignore) <> DOutOfFuel i.
Proof. exact (fun H => dyn_never_out_of_fuel G start n rmatch rtrunc complete_lex ignore H i). Qed.
Print Assumptions C01_dynamic_fuel.

(* if the model accepts, there is a derivation of start from position 0 whose terminal leaves are spans (t,i,j) with
   j among the ends explored for t at i, ignored spans being skipped before terminals and after the sentence *)
Theorem C01_dynamic_sound G start n rmatch rtrunc complete_lex ignore :
  fwd rmatch rtrunc ->
  dyn_accepts G start n rmatch rtrunc complete_lex ignore = true ->
  gsentence G start n rmatch rtrunc complete_lex ignore.
Proof. exact (fun H => proj1 (dyn_accepts_iff_gsentence G start n rmatch rtrunc complete_lex ignore H)). Qed.
Print Assumptions C01_dynamic_sound.

(* ... and every such derivation is found *)
Theorem C01_dynamic_complete G start n rmatch rtrunc complete_lex ignore :
  fwd rmatch rtrunc ->
  gsentence G start n rmatch rtrunc complete_lex ignore ->
  dyn_accepts G start n rmatch rtrunc complete_lex ignore = true.
Proof. exact (fun H => proj2 (dyn_accepts_iff_gsentence G start n rmatch rtrunc complete_lex ignore H)). Qed.
Print Assumptions C01_dynamic_complete.

(* string terminals (the engine matches t at i iff its non-empty string starts there; a window shorter than the
   string never matches): the model accepts exactly the character-level language of the grammar with ignored
   strings allowed before every terminal and at the end - under both dynamic lexers *)
Theorem C01_dynamic_strings G start text tstr rmatch rtrunc complete_lex ignore :
  (forall t, tstr t <> []) ->
  (forall t i j, rmatch t i = Some j <-> span nat text i j (tstr t)) ->
  (forall t i lim j, rtrunc t i lim = Some j -> i + length (tstr t) <= lim /\ span nat text i j (tstr t)) ->
  (dyn_accepts G start (length text) rmatch rtrunc complete_lex ignore = true <->
   csentence G start text tstr ignore).
Proof. exact (dyn_accepts_iff_csentence G start text tstr rmatch rtrunc complete_lex ignore). Qed.
Print Assumptions C01_dynamic_strings.

(* Non-vacuity, and the content of finding F7 at model level:  start: X "b",  X: /a|ab/,  text abb.
   With the answers Python's re gives (X at 0 ends at 1) the model rejects - there is no derivation over the
   explored ends - while an engine returning the longest match (X at 0 ends at 2) makes the same model accept. *)
Definition f7_G : grammar := [mkRule 0 [T 0; T 1]].
Definition f7_re (t i : nat) : option nat :=
  match t, i with 0, 0 => Some 1 | 1, 1 => Some 2 | 1, 2 => Some 3 | _, _ => None end.
Definition f7_longest (t i : nat) : option nat :=
  match t, i with 0, 0 => Some 2 | 1, 1 => Some 2 | 1, 2 => Some 3 | _, _ => None end.
Definition no_trunc (t i lim : nat) : option nat := None.

Example C01_dynamic_example :
  fwd f7_re no_trunc /\ fwd f7_longest no_trunc /\
  ~ gsentence f7_G 0 3 f7_re no_trunc true [] /\
  gsentence f7_G 0 3 f7_longest no_trunc false [].
Proof.
  assert (F1 : fwd f7_re no_trunc).
  { split; [|discriminate]. intros [|[|t]] [|[|[|i]]] j H; inversion H; auto. }
  assert (F2 : fwd f7_longest no_trunc).
  { split; [|discriminate]. intros [|[|t]] [|[|[|i]]] j H; inversion H; auto. }
  split; [exact F1|split; [exact F2|split]].
  - intros H. apply (C01_dynamic_complete _ _ _ _ _ _ _ F1) in H. vm_compute in H. discriminate.
  - apply (C01_dynamic_sound _ _ _ _ _ _ _ F2). vm_compute. reflexivity.
Qed.

(* ---------------------------------------------------------------------------------------------------------- *)
(* Group distribution (load_grammar.SimplifyRule_Visitor, set-level model Cfg/AnalysisDistribute.flat): distributing
   every group of alternatives over its sequence, flattening and removing duplicate alternatives yields pairwise
   distinct flat alternatives that denote exactly the language of the rule body (sequence = concatenation, group =
   union, symbol = what the grammar derives from it).  Duplicates created by the distribution are therefore
   harmless and never a reason to reject the grammar. *)
Theorem C01_distribute_language G (tok : Type) tmatch e w :
  den G tok tmatch e w <-> exists a, In a (flat e) /\ derives G tok tmatch a w.
Proof. exact (flat_den G tok tmatch e w). Qed.
Print Assumptions C01_distribute_language.

Theorem C01_distribute_nodup e : NoDup (flat e).
Proof. exact (flat_nodup e). Qed.
Print Assumptions C01_distribute_nodup.

(* start: ("a" | "b") "c" | "a" "c"   compiles to the two alternatives  a c | b c *)
Example C01_distribute_example :
  flat (GAlt [GSeq [GAlt [GSeq [GSym (T 0)]; GSeq [GSym (T 1)]]; GSym (T 2)]; GSeq [GSym (T 0); GSym (T 2)]])
  = [[T 0; T 2]; [T 1; T 2]].
Proof. reflexivity. Qed.

(* ---------------------------------------------------------------------------------------------------------- *)
(* Round 12: the decisions of the hand models ARE the conditions of the source.  translator/gen_earley.py pins the
   bodies of earley.Parser.predict_and_complete / _parse (scan) / parse, xearley.Parser._parse (scan),
   grammar_analysis.update_set / calculate_sets / GrammarAnalyzer.__init__ / expand_rule and utils.bfs by source
   templates (control skeleton, every statement touching the item sets, the order completer-before-predictor, the
   `changed` flag, the raise sites) and regenerates their decision conditions into Gen/EarleySteps.v.  Earley/Steps.v
   re-expresses the models over those generated conditions; the theorems below say the hand models are these
   functions.  A semantically relevant edit of the source changes a generated condition (one of these proofs breaks)
   or leaves the template (the regeneration breaks). *)
From LV Require Import Gen.EarleySteps Earley.Steps Earley.Steps_proofs.

(* basic lexer: predict_and_complete (is_complete test, Leo test, held completions, originators, expect-in-TERMINALS,
   not-in-column), scan (match, expect-in-TERMINALS, the UnexpectedToken test), parse (initial items, the solutions
   test `n.is_complete and n.node is not None and n.s == start_symbol and n.start == 0`, the UnexpectedEOF test) *)
Theorem C01_basic_decisions_are_source G predictions (tok : Type) tmatch start (toks : list tok) :
  parse G predictions tok tmatch start toks = g_parse G predictions tok tmatch start toks.
Proof. exact (parse_gen G predictions tok tmatch start toks). Qed.
Print Assumptions C01_basic_decisions_are_source.

(* dynamic lexers: `if m`, delayed_matches[m.end()], complete_lex with range(1, len(s)) / s[:-j] / i+m.end(), the
   carry-over filter for a completed start item, delayed_matches[i+1], `token is not None`, the UnexpectedCharacters
   test.  The model's truncation oracle reports absolute ends, the source adds i to m.end() of the match on the
   truncated window (rtrunc_abs). *)
Theorem C01_dynamic_decisions_are_source G predictions start n rmatch rtrunc_rel complete_lex ignore :
  dparse G predictions start n rmatch (rtrunc_abs rtrunc_rel) complete_lex ignore =
  g_dparse G predictions start n rmatch rtrunc_rel complete_lex ignore.
Proof. exact (dparse_gen G predictions start rmatch rtrunc_rel complete_lex ignore n). Qed.
Print Assumptions C01_dynamic_decisions_are_source.

(* grammar_analysis: NULLABLE by update_set with the `changed` flag; expand_rule through utils.bfs *)
Theorem C01_analysis_decisions_are_source G a :
  nullable_set G = g_nullable_set G /\ expand_rule G a = g_expand_rule G a.
Proof. exact (conj (nullable_set_gen G) (expand_rule_gen G a)). Qed.
Print Assumptions C01_analysis_decisions_are_source.

Example C01_decisions_example :
  r_out (g_parse ex_G (predictions ex_G) nat Nat.eqb 0 [0; 0; 0]) = Accept /\
  r_out (g_parse ex_G (predictions ex_G) nat Nat.eqb 0 [0; 1]) = RejectTok 1 /\
  g_nullable_set ex_G = [0; 1] /\
  d_out (g_dparse f7_G (predictions f7_G) 0 3 f7_re (fun _ _ _ => None) true []) = DRejectChar 2.
Proof. vm_compute. repeat split. Qed.
