(* C17 - Imports, overrides, extensions, templates mean what textual inlining means.
   Property theorems only; proofs are in Mod/Rename_proofs.v and Mod/Modules_proofs.v.
   The model Mod/Modules.v is tied to lark/load_grammar.py by harness/props/C17.py on every run. *)
From Coq Require Import List String Ascii Bool ZArith Arith.
From LV Require Import Cfg.Grammar Mod.Rename Mod.Rename_proofs Mod.Modules Mod.Modules_proofs
  Mod.Inline_proofs Mod.Compile Mod.Semantics_proofs Gen.Mangle Mod.MangleSrc_proofs
  Mod.Options_proofs Mod.Unpack Mod.Unpack_proofs Mod.Front Mod.Search Mod.Search_proofs Gen.ModSrc
  Mod.ModSrc_proofs Mod.Template_proofs.
Import ListNotations.
Local Open Scope string_scope.

(* ---- "same language, same trees up to the module__ prefix" ------------------------------------ *)
(* an injective renaming rho of the non-terminals (on a name space D that covers the grammar)
   preserves derivability of every sentential form ... *)
Theorem C17_derives_rename (G : grammar) (tok : Type) (tmatch : nat -> tok -> bool) (rho : nat -> nat)
        (D : nat -> Prop) :
  inj_on D rho -> (forall a, In a (grammar_nts G) -> D a) ->
  forall ss w, (forall a, In a (nts ss) -> D a) ->
    (derives (rename_grammar rho G) tok tmatch (map (rename_sym rho) ss) w <-> derives G tok tmatch ss w).
Proof. exact (derives_rename G tok tmatch rho D). Qed.
Print Assumptions C17_derives_rename.

(* ... and the derivation trees of rho X in the renamed grammar are exactly the trees of X with
   the labels (non-terminal and rule at each node) renamed; the yield is unchanged *)
Theorem C17_trees_rename (G : grammar) (tok : Type) (tmatch : nat -> tok -> bool) (rho : nat -> nat)
        (D : nat -> Prop) :
  inj_on D rho -> (forall a, In a (grammar_nts G) -> D a) ->
  forall X, D X ->
    (forall t, tree_of G tok tmatch (NT X) t ->
               tree_of (rename_grammar rho G) tok tmatch (NT (rho X)) (rename_dtree rho t) /\
               yield (rename_dtree rho t) = yield t) /\
    (forall t', tree_of (rename_grammar rho G) tok tmatch (NT (rho X)) t' ->
                exists t, tree_of G tok tmatch (NT X) t /\ t' = rename_dtree rho t /\ yield t' = yield t).
Proof. exact (trees_rename G tok tmatch rho D). Qed.
Print Assumptions C17_trees_rename.

Theorem C17_trees_are_derivations (G : grammar) (tok : Type) (tmatch : nat -> tok -> bool) X w :
  sentence G tok tmatch X w <-> exists t, tree_of G tok tmatch (NT X) t /\ yield t = w.
Proof. exact (derives_iff_tree G tok tmatch X w). Qed.
Print Assumptions C17_trees_are_derivations.

(* ---- mangle ------------------------------------------------------------------------------------ *)
(* the builder either rejects a module's definitions (GrammarError "defined more than once" ...) or
   the mangle (any chain of import levels, with their alias tables) is injective on them *)
Theorem C17_mangle_injective_or_error g ls ds l :
  (exists l', define_all g ls ds l = Ok l' /\
     forall d d', In d ds -> In d' ds -> mangle ls (d_name d) = mangle ls (d_name d') -> d = d') \/
  (exists e, define_all g ls ds l = Err e).
Proof. exact (mangle_injective_or_error g ls ds l). Qed.
Print Assumptions C17_mangle_injective_or_error.

(* the exact side condition: under one prefix two different names collide only through the alias
   table (two aliases with one target, or an alias spelled like another name's mangled form) *)
Theorem C17_mangle_collision_only_by_alias l s s' :
  mangle1 l s = mangle1 l s' -> s <> s' ->
  (exists a, assoc s (snd l) = Some a /\ (assoc s' (snd l) = Some a \/
                                          (assoc s' (snd l) = None /\ a = plain (fst l) s'))) \/
  (exists a, assoc s' (snd l) = Some a /\ assoc s (snd l) = None /\ a = plain (fst l) s).
Proof. exact (mangle1_collision l s s'). Qed.
Print Assumptions C17_mangle_collision_only_by_alias.

(* ... and two different prefixes collide only through a literal "__" in a user name (or a module
   name / name body that starts with an underscore) *)
Theorem C17_mangle_prefix_disjoint p q s s' :
  starts_under p = false -> starts_under q = false ->
  starts_under (body s) = false -> starts_under (body s') = false ->
  has_dunder (body s) = false -> has_dunder (body s') = false ->
  plain p s = plain q s' -> p = q /\ s = s'.
Proof. exact (plain_prefix_disjoint p q s s'). Qed.
Print Assumptions C17_mangle_prefix_disjoint.

(* ---- imports ----------------------------------------------------------------------------------- *)
(* _remove_unused keeps exactly the definitions reachable from the imported names *)
Theorem C17_remove_unused_is_reachability l used kept :
  remove_unused l used = Ok kept ->
  forall d, In d kept <-> In d l /\ Reach l used (d_name d).
Proof. intros H. exact (proj2 (remove_unused_is_reachability l used kept H)). Qed.
Print Assumptions C17_remove_unused_is_reachability.

(* do_import, any module (nested imports, %extend ... included): what is added to the importing
   grammar is the part of the loaded module reachable from the imported names, nothing else changes,
   and none of the added names was defined before *)
Theorem C17_do_import loader fs ls b imp b' :
  do_import loader fs ls b imp = Ok b' ->
  exists ms gb kept,
    lookup_module (fst imp) fs = Some ms /\
    loader (b_next b) ((join "__" (fst imp), snd imp) :: ls) ms = Ok gb /\
    (forall d, In d kept <-> In d (b_defs gb) /\
        Reach (b_defs gb) (map (mangle ((join "__" (fst imp), snd imp) :: ls)) (map fst (snd imp))) (d_name d)) /\
    (forall d, In d kept -> defined (d_name d) (b_defs b) = false) /\
    b_defs b' = (b_defs b ++ kept)%list /\ b_ignore b' = b_ignore b /\
    b_heap b' = (b_heap b ++ b_heap gb)%list.
Proof. exact (do_import_spec loader fs ls b imp b'). Qed.
Print Assumptions C17_do_import.

(* ---- import = inlining, every module program --------------------------------------------------- *)
(* loading a module (nested imports, templates, %extend / %override / %declare, terminals with their
   shared tree objects) under the import chain ls1 ++ ls2 is the renaming, by the mangle of ls2, of
   loading it under ls1 - definitions, tree objects, object numbering and all; for ls1 = [] (the module
   on its own) the module's %ignore statements are set aside, as lark does not apply them on import *)
Theorem C17_load_under_chain_is_renaming ls2 fs g fuel ls1 ms b b0 :
  ls2 <> [] ->
  (forall x y, mangle ls2 x = mangle ls2 y -> x = y) ->
  (forall x, String.prefix "__" x = false -> String.prefix "__" (mangle ls2 x) = false) ->
  ls1 <> [] \/ Forall not_ignore ms ->
  load fuel fs g ls1 ms b = Ok b0 ->
  load fuel fs g (ls1 ++ ls2)%list ms (rn_builder (mangle ls2) b) = Ok (rn_builder (mangle ls2) b0).
Proof. intros Hne Hi Hr. exact (load_rn ls2 Hne Hi Hr fs g fuel ls1 ms b b0). Qed.
Print Assumptions C17_load_under_chain_is_renaming.

(* a checkable condition on the import chain under which its mangle is injective on ALL names and keeps
   unreserved names unreserved: at every level the module prefix is non-empty and does not start with an
   underscore, the alias targets are pairwise different, none of them is spelled like a mangled name
   (prefix__... / _prefix__...) and none starts with a double underscore *)
Theorem C17_chain_ok ls :
  forallb layer_ok ls = true ->
  (forall x y, mangle ls x = mangle ls y -> x = y) /\
  (forall x, String.prefix "__" x = false -> String.prefix "__" (mangle ls x) = false).
Proof. exact (chain_ok ls). Qed.
Print Assumptions C17_chain_ok.

(* the full statement: for every module that loads on its own, what an import of it adds to the
   importing grammar is exactly rn_def (mangle ls') - name, parameters, every symbol of the body and the
   template label renamed - of the part of the module's own definitions reachable from the imported
   names, together with the module's tree objects renamed the same way; nothing else changes and none
   of the added names was defined before *)
Theorem C17_import_is_inlining f fs g ls b p al ms gb0 b' :
  let ls' := (join "__" p, al) :: ls in
  forallb layer_ok ls' = true ->
  lookup_module p fs = Some ms ->
  load f fs g [] (strip_ignore ms) (fresh_builder (b_next b)) = Ok gb0 ->
  do_import (fun next ls0 ms0 => load f fs g ls0 ms0 (fresh_builder next)) fs ls b (p, al) = Ok b' ->
  exists kept0,
    remove_unused (b_defs gb0) (map fst al) = Ok kept0 /\
    (forall d, In d kept0 <-> In d (b_defs gb0) /\ Reach (b_defs gb0) (map fst al) (d_name d)) /\
    b_defs b' = (b_defs b ++ map (rn_def (mangle ls')) kept0)%list /\
    b_heap b' = (b_heap b ++ rn_heap (mangle ls') (b_heap gb0))%list /\
    b_ignore b' = b_ignore b /\ b_next b' = b_next gb0 /\
    (forall d, In d kept0 -> defined (mangle ls' (d_name d)) (b_defs b) = false).
Proof. exact (import_is_inlining_full f fs g ls b p al ms gb0 b'). Qed.
Print Assumptions C17_import_is_inlining.

(* without any condition on the aliases, for modules that consist of plain definitions: the contributed
   rules are mangle_def of the module's reachable rules, and the mangled names are pairwise different *)
Theorem C17_import_plain_module f fs g ls b p al ds b' :
  lookup_module p fs = Some (map (SDef KDefine) ds) ->
  do_import (fun next ls' ms => load (S f) fs g ls' ms (fresh_builder next)) fs ls b (p, al) = Ok b' ->
  let ls' := (join "__" p, al) :: ls in
  exists gdefs kept,
    Forall2 same_shape (map (fun d => norm_def g (mangle_def ls' d)) ds) gdefs /\
    b_defs b' = (b_defs b ++ kept)%list /\
    (forall d', In d' kept <-> In d' gdefs /\ Reach gdefs (map (mangle ls') (map fst al)) (d_name d')) /\
    (forall d', In d' kept -> d_term d' = false ->
        exists d, In d ds /\ d_term d = false /\ d' = norm_def g (mangle_def ls' d)) /\
    (forall d', In d' kept -> defined (d_name d') (b_defs b) = false) /\
    NoDup (map (fun d => mangle ls' (d_name d)) ds).
Proof. exact (import_is_inlining f fs g ls b p al ds b'). Qed.
Print Assumptions C17_import_plain_module.

(* ---- global options ------------------------------------------------------------------------------ *)
(* keep_all_tokens (GrammarBuilder.global_keep_all_tokens; the `gkeep` argument of the model's load) is
   the one option that load_grammar hands to the builder.  do_import hands it on to the builder of the
   imported module, so every definition an import adds - imported by name or as a dependency, at any
   nesting depth - has keep_all_tokens set, exactly like a rule written in the top-level grammar
   (second theorem): the option means the same for imported and for hand-inlined definitions *)
Theorem C17_keep_all_tokens_reaches_imports f fs ls b imp b' :
  do_import (fun next ls0 ms0 => load f fs true ls0 ms0 (fresh_builder next)) fs ls b imp = Ok b' ->
  exists kept, b_defs b' = (b_defs b ++ kept)%list /\ Forall keeps kept.
Proof. exact (keep_all_reaches_imports f fs ls b imp b'). Qed.
Print Assumptions C17_keep_all_tokens_reaches_imports.

Theorem C17_keep_all_tokens_local o d l l' :
  define true o d l = Ok l' -> find_def (d_name d) l' = Some (norm_def true d) /\ keeps (norm_def true d).
Proof. exact (keep_all_local o d l l'). Qed.
Print Assumptions C17_keep_all_tokens_local.

(* ---- _unpack_import: which module and which alias table an %import statement denotes -------------------- *)
Theorem C17_unpack_import_names children names :
  exists al, unpack_import children (ANames names) = Some (children, al) /\
    (forall k v, assoc k al = Some v -> k = v) /\
    (forall n, In n names -> assoc n al = Some n).
Proof. exact (unpack_names children names). Qed.
Print Assumptions C17_unpack_import_names.

Theorem C17_unpack_import_single path name arg :
  path <> [] -> (forall l, arg <> ANames l) ->
  unpack_import (path ++ [name]) arg = Some (path, [(name, match arg with AAlias a => a | _ => name end)]) /\
  unpack_import [name] arg = None.
Proof. intros Hp Ha. split. exact (unpack_single path name arg Hp Ha). exact (unpack_nothing name arg Ha). Qed.
Print Assumptions C17_unpack_import_single.

(* ---- the semantic reading (BNF-like fragment: expansions of expansions of symbols) ------------------ *)
(* definitions renamed = grammar renamed (num: any numbering of names; the renamed terminal has the
   token class of the original one) *)
Theorem C17_compile_rename num unnum rho tnum tnum' :
  (forall s, unnum (num s) = s) -> (forall x, tnum' (rho x) = tnum x) ->
  forall l, compile num tnum' (map (rn_def rho) l) =
            option_map (rename_grammar (rho' num unnum rho)) (compile num tnum l).
Proof. intros Hn Ht. exact (compile_rn num unnum Hn rho tnum tnum' Ht). Qed.
Print Assumptions C17_compile_rename.

(* the grammar an import contributes is the module's own grammar renamed: every imported or
   transitively imported name rho X has the language X has in the module ... *)
Theorem C17_contributed_language num unnum rho tnum tnum' (tok : Type) (tmatch : nat -> tok -> bool) kept0 G0 :
  (forall s, unnum (num s) = s) -> (forall x y, rho x = rho y -> x = y) -> (forall x, tnum' (rho x) = tnum x) ->
  compile num tnum kept0 = Some G0 ->
  exists Gc, compile num tnum' (map (rn_def rho) kept0) = Some Gc /\
    Gc = rename_grammar (rho' num unnum rho) G0 /\
    forall X w, sentence Gc tok tmatch (num (rho X)) w <-> sentence G0 tok tmatch (num X) w.
Proof. intros Hn Hi Ht. exact (contributed_language num unnum Hn rho Hi tnum tnum' Ht tok tmatch kept0 G0). Qed.
Print Assumptions C17_contributed_language.

(* ... and the same derivation trees, labels renamed *)
Theorem C17_contributed_trees num unnum rho tnum (tok : Type) (tmatch : nat -> tok -> bool) kept0 G0 X :
  (forall s, unnum (num s) = s) -> (forall x y, rho x = rho y -> x = y) ->
  compile num tnum kept0 = Some G0 ->
  let r' := rho' num unnum rho in
  (forall t, tree_of G0 tok tmatch (NT (num X)) t ->
             tree_of (rename_grammar r' G0) tok tmatch (NT (num (rho X))) (rename_dtree r' t) /\
             yield (rename_dtree r' t) = yield t) /\
  (forall t', tree_of (rename_grammar r' G0) tok tmatch (NT (num (rho X))) t' ->
              exists t, tree_of G0 tok tmatch (NT (num X)) t /\ t' = rename_dtree r' t /\ yield t' = yield t).
Proof. intros Hn Hi. exact (contributed_trees num unnum Hn rho Hi tnum tok tmatch kept0 G0 X). Qed.
Print Assumptions C17_contributed_trees.

(* inside ANY importing grammar G that contains the contributed rules and has no other rule for the
   contributed names (no later %extend / %override of them), an imported name has exactly the language
   it has in the module's own grammar G0 (G0 closed: every rule it uses is one of its own) - i.e. the
   importing grammar and the grammar with the module written out by hand agree on it, up to rho *)
Theorem C17_imported_language num unnum rho tnum tnum' (tok : Type) (tmatch : nat -> tok -> bool) kept0 G0 G :
  (forall s, unnum (num s) = s) -> (forall x y, rho x = rho y -> x = y) -> (forall x, tnum' (rho x) = tnum x) ->
  compile num tnum kept0 = Some G0 ->
  (forall r a, In r G0 -> In a (nts (rhs r)) -> In a (map lhs G0)) ->
  let Gc := rename_grammar (rho' num unnum rho) G0 in
  incl Gc G ->
  (forall r, In r G -> In (lhs r) (map lhs Gc) -> In r Gc) ->
  forall X w, In (num X) (map lhs G0) ->
    (sentence G tok tmatch (num (rho X)) w <-> sentence G0 tok tmatch (num X) w).
Proof.
  intros Hn Hi Ht. exact (imported_language num unnum Hn rho Hi tnum tnum' Ht tok tmatch kept0 G0 G).
Qed.
Print Assumptions C17_imported_language.

Theorem C17_numbering_exists : forall s, unnum_of (num_of s) = s.
Proof. exact numbering_exists. Qed.
Print Assumptions C17_numbering_exists.

(* ---- mangle is the function of the current source (coq/Gen/Mangle.v is regenerated from
        lark/load_grammar.py:_get_mangle on every run) -------------------------------------------------- *)
Theorem C17_mangle_is_source l ls s :
  s <> "" ->
  get_mangle_src (fst l) (snd l) None s = Some (mangle1 l s) /\
  get_mangle_src (fst l) (snd l) (Some (mangle ls)) s = Some (mangle (l :: ls) s).
Proof. intros Hs. split. exact (mangle1_is_source l s Hs). exact (mangle_is_source l ls s Hs). Qed.
Print Assumptions C17_mangle_is_source.

(* no capture: a private name of an imported module is never spelled like itself after mangling;
   a contributed name that is already defined is an error (EClash), and so is a later local
   definition of a contributed name (EDup) *)
Theorem C17_no_capture l s g d defs :
  (assoc s (snd l) = None -> mangle1 l s <> s) /\
  (defined (d_name d) defs = true -> define g false d defs = Err EDup).
Proof. split. exact (no_capture l s). exact (local_after_import_is_error g d defs). Qed.
Print Assumptions C17_no_capture.

Theorem C17_import_clash_is_error loader fs ls b imp ms gb kept d :
  lookup_module (fst imp) fs = Some ms ->
  loader (b_next b) ((join "__" (fst imp), snd imp) :: ls) ms = Ok gb ->
  remove_unused (b_defs gb) (map (mangle ((join "__" (fst imp), snd imp) :: ls)) (map fst (snd imp))) = Ok kept ->
  In d kept -> defined (d_name d) (b_defs b) = true ->
  do_import loader fs ls b imp = Err EClash.
Proof. exact (import_clash_is_error loader fs ls b imp ms gb kept d). Qed.
Print Assumptions C17_import_clash_is_error.

(* ---- %extend / %override ----------------------------------------------------------------------- *)
Theorem C17_extend_is_alternative d l l' :
  extend d l = Ok l' ->
  forall exp, d_tree d = Some exp ->
  exists old base,
    find_def (d_name d) l = Some old /\ d_tree old = Some base /\
    d_term old = d_term d /\ d_params old = d_params d /\
    find_def (d_name d) l' =
      Some (mkDef (d_name old) (d_term old) (Some (add_alternative exp base)) (d_params old) (d_opts old)) /\
    map d_name l' = map d_name l /\
    (forall n, n <> d_name d -> find_def n l' = find_def n l).
Proof. exact (extend_is_alternative d l l'). Qed.
Print Assumptions C17_extend_is_alternative.

Theorem C17_extend_keeps_alternatives exp dd ch :
  add_alternative exp (Nd dd ch) = Nd dd (exp :: ch) /\ incl ch (exp :: ch) /\ In exp (exp :: ch).
Proof. exact (add_alternative_spec exp dd ch). Qed.
Print Assumptions C17_extend_keeps_alternatives.

Theorem C17_override_replaces g d l l' :
  define g true d l = Ok l' ->
  defined (d_name d) l = true /\
  map d_name l' = map d_name l /\
  find_def (d_name d) l' = Some (norm_def g d) /\
  (forall n, n <> d_name d -> find_def n l' = find_def n l).
Proof. exact (override_replaces g d l l'). Qed.
Print Assumptions C17_override_replaces.

(* terminals: the tree of a terminal definition is an OBJECT that other terminals built from it hold by
   reference (resolve_term_references).  %extend changes the object in place, so the terminals built
   from it - also those imported earlier - see the new alternative, as they do in the grammar written
   out by hand ... *)
Theorem C17_extend_term_in_place d b b' old o base exp :
  extend_stmt d b = Ok b' ->
  find_def (d_name d) (b_defs b) = Some old -> d_tree old = Some (Ptr o) ->
  hget o (b_heap b) = Some base -> d_tree d = Some exp ->
  hget o (b_heap b') = Some (add_alternative exp base) /\
  (forall o', o' <> o -> hget o' (b_heap b') = hget o' (b_heap b)) /\
  map d_name (b_defs b') = map d_name (b_defs b) /\
  (forall n, option_map d_tree (find_def n (b_defs b')) = option_map d_tree (find_def n (b_defs b))) /\
  b_ignore b' = b_ignore b.
Proof. exact (extend_term_in_place d b b' old o base exp). Qed.
Print Assumptions C17_extend_term_in_place.

(* ... whereas %override of a terminal makes a new object and leaves the old one to those who hold it *)
Theorem C17_override_term_fresh_object g d b b' t :
  d_term d = true -> d_tree d = Some t -> define_stmt g true d b = Ok b' ->
  b_heap b' = (b_next b, t) :: b_heap b /\
  find_def (d_name d) (b_defs b') =
    Some (norm_def g (mkDef (d_name d) true (Some (Ptr (b_next b))) (d_params d) (d_opts d))).
Proof. exact (override_term_fresh_object g d b b' t). Qed.
Print Assumptions C17_override_term_fresh_object.

(* ---- templates --------------------------------------------------------------------------------- *)
Theorem C17_template_is_substitution created rds name args created' rds' rn :
  template_usage_step created rds name args = Ok (created', rds', rn) ->
  rn = instance_name name args /\
  ((mem rn created = true /\ created' = created /\ rds' = rds) \/
   (mem rn created = false /\ created' = (created ++ [rn])%list /\
    exists r, find_rdef name rds = [r] /\ List.length (r_params r) = List.length args /\
      rds' = (rds ++ [mkR rn [] (subst (zip_dict (r_params r) args []) (r_tree r)) (r_opts r)])%list)).
Proof. exact (template_is_substitution created rds name args created' rds' rn). Qed.
Print Assumptions C17_template_is_substitution.

(* the substitution is capture-free: parameters in value / template-head position are replaced by
   the arguments, other symbols are untouched, no other symbol appears *)
Theorem C17_subst_no_capture names t :
  ((forall s, In s (syms t) -> assoc s names = None) -> subst names t = t) /\
  (forall s, In s (syms (subst names t)) ->
             In s (syms t) \/ exists a, In a (map snd names) /\ In s (syms a)) /\
  (forall b p a, assoc p names = Some a -> subst names (Nd "value" [Sy b p]) = a).
Proof.
  split. exact (subst_fresh names t). split. exact (subst_syms names t).
  intros b p a. exact (subst_value names b p a).
Qed.
Print Assumptions C17_subst_no_capture.

Theorem C17_instance_name_injective f args f' args' :
  has_char "{" f = false -> has_char "{" f' = false ->
  Forall flat_name (map arg_name args) -> Forall flat_name (map arg_name args') ->
  instance_name f args = instance_name f' args' ->
  f = f' /\ map arg_name args = map arg_name args'.
Proof. exact (instance_name_injective f args f' args'). Qed.
Print Assumptions C17_instance_name_injective.

(* ---- a concrete program: non-vacuity and a refutation -------------------------------------------- *)
Definition lit (s : string) : tree := Nd "value" [Nd "literal" [Tk s]].
Definition ref (t : bool) (s : string) : tree := Nd "value" [Sy t s].
Definition alts (l : list (list tree)) : tree := Nd "expansions" (map (Nd "expansion") l).
Definition rl (n : string) (ps : list string) (body : tree) : stmt :=
  SDef KDefine (mkDef n false (Some body) ps
                      (ORule false false None (match ps with [] => None | _ => Some n end))).
Definition tm (n : string) (body : tree) : stmt := SDef KDefine (mkDef n true (Some body) [] (OTerm 0)).

(*  m.lark:  a: f{Y} b?      b: "b"      f{t}: t t      Y: "y"      unused: "u"  *)
Definition ex_m : list stmt :=
  [ rl "a" [] (alts [[Nd "value" [Nd "template_usage" [Sy false "f"; ref true "Y"]];
                      Nd "expr" [ref false "b"; Tk "?"]]]);
    rl "b" [] (alts [[lit """b"""]]);
    rl "f" ["t"] (alts [[ref false "t"; ref false "t"]]);
    tm "Y" (alts [[lit """y"""]]);
    rl "unused" [] (alts [[lit """u"""]]) ].
(*  main:    start: a f b    f: "q"      b: "c"     %import m.a  *)
Definition ex_main : list stmt :=
  [ rl "start" [] (alts [[ref false "a"; ref false "f"; ref false "b"]]);
    rl "f" [] (alts [[lit """q"""]]);
    rl "b" [] (alts [[lit """c"""]]);
    SImport ["m"] [("a", "a")] ].
Definition ex_fs : module_files := [(["m"], ex_m)].

(* the import brings a (under its own name), the private b, f, Y under the m__ prefix - next to
   the local b and f, which are different definitions - and drops `unused` *)
Example C17_example :
  exists b, load_and_validate 8 ex_fs false ex_main = Ok b /\
    map d_name (b_defs b) = ["a"; "m__b"; "m__f"; "m__Y"; "start"; "f"; "b"] /\
    find_def "m__Y" (export b) = Some (mkDef "m__Y" true (Some (alts [[lit """y"""]])) [] (OTerm 0)) /\
    find_def "m__b" (b_defs b) = Some (mkDef "m__b" false (Some (alts [[lit """b"""]])) [] (ORule false false None None)) /\
    find_def "b" (b_defs b) = Some (mkDef "b" false (Some (alts [[lit """c"""]])) [] (ORule false false None None)) /\
    (exists d, find_def "m__f" (b_defs b) = Some d /\ d_params d = ["m__t"] /\
               d_tree d = Some (alts [[ref false "m__t"; ref false "m__t"]])).
Proof. eexists. split. vm_compute. reflexivity. vm_compute. repeat split. eexists. repeat split. Qed.

(* the tree label of the instances of an imported template (RuleOptions.template_source) is renamed
   with the template (lark fix bb8205d; before it the label stayed "f" and clashed with the label of
   the unrelated local rule f - regression case of the exotic stream in harness/props/C17.py) *)
Theorem C17_template_label_renamed l ls d k e p :
  d_term d = false -> d_opts d = ORule k e p (Some (d_name d)) ->
  d_opts (mangle_def (l :: ls) d) = ORule k e p (Some (d_name (mangle_def (l :: ls) d))).
Proof. exact (template_label_renamed l ls d k e p). Qed.
Print Assumptions C17_template_label_renamed.

Example C17_template_label_example :
  exists b d,
    load_and_validate 8 ex_fs false ex_main = Ok b /\
    find_def "m__f" (b_defs b) = Some d /\ d_params d <> [] /\
    d_opts d = ORule false false None (Some "m__f") /\ defined "f" (b_defs b) = true.
Proof.
  eexists. eexists. split. vm_compute. reflexivity.
  vm_compute. repeat split. discriminate.
Qed.

(*  units.lark:  UNIT: "cm" | "mm"     LENGTH: /\d+/ UNIT     length: LENGTH
    main:        start: length UNIT    %import units (length, UNIT)    %extend UNIT: "km"  *)
Definition re (s : string) : tree := Nd "value" [Nd "literal" [Tk s]].
Definition ex_units : list stmt :=
  [ tm "UNIT" (alts [[lit """cm"""]; [lit """mm"""]]);
    tm "LENGTH" (alts [[re "/\d+/"; ref true "UNIT"]]);
    rl "length" [] (alts [[ref true "LENGTH"]]) ].
Definition ex_units_main (k : defkind) : list stmt :=
  [ rl "start" [] (alts [[ref false "length"; ref true "UNIT"]]);
    SImport ["units"] [("length", "length"); ("UNIT", "UNIT")];
    SDef k (mkDef "UNIT" true (Some (alts [[lit """km"""]])) [] (OTerm 0)) ].

(* %extend of the imported UNIT is seen inside the imported LENGTH (pulled in as a dependency of
   length), exactly as in the grammar written out by hand *)
Example C17_extend_terminal_is_seen :
  exists b, load_and_validate 8 [(["units"], ex_units)] false (ex_units_main KExtend) = Ok b /\
    find_def "units__LENGTH" (export b) =
      Some (mkDef "units__LENGTH" true
              (Some (alts [[re "/\d+/";
                            Nd "value" [Nd "expansions" [alts [[lit """km"""]];   (* the %extend body, inserted in front *)
                                                         Nd "expansion" [lit """cm"""];
                                                         Nd "expansion" [lit """mm"""]]]]])) [] (OTerm 0)).
Proof. eexists. split. vm_compute. reflexivity. vm_compute. reflexivity. Qed.

(* REFUTED for %override (finding F35, replayed by the exotic stream of harness/props/C17.py): the
   imported LENGTH keeps the overridden UNIT's old tree; by hand it would be (km) *)
Theorem C17_override_terminal_refuted :
  exists fs main b,
    load_and_validate 8 fs false main = Ok b /\
    find_def "UNIT" (export b) = Some (mkDef "UNIT" true (Some (alts [[lit """km"""]])) [] (OTerm 0)) /\
    find_def "units__LENGTH" (export b) =
      Some (mkDef "units__LENGTH" true
              (Some (alts [[re "/\d+/"; Nd "value" [alts [[lit """cm"""]; [lit """mm"""]]]]])) [] (OTerm 0)).
Proof.
  exists [(["units"], ex_units)], (ex_units_main KOverride). eexists. split. vm_compute. reflexivity.
  vm_compute. split; reflexivity.
Qed.
Print Assumptions C17_override_terminal_refuted.

(* ---- instances of the full import theorem and of the semantic corollary --------------------------------- *)
(*  mid.lark:  %import units (LENGTH, UNIT)   %extend UNIT: "km"   size: LENGTH "!"
               pair{t}: t t                    two: pair{LENGTH}    WS: " "   %ignore WS        *)
Definition ex_mid : list stmt :=
  [ SImport ["units"] [("LENGTH", "LENGTH"); ("UNIT", "UNIT")];
    SDef KExtend (mkDef "UNIT" true (Some (alts [[lit """km"""]])) [] (OTerm 0));
    rl "size" [] (alts [[ref true "LENGTH"; lit """!"""]]);
    rl "pair" ["t"] (alts [[ref false "t"; ref false "t"]]);
    rl "two" [] (alts [[Nd "value" [Nd "template_usage" [Sy false "pair"; ref true "LENGTH"]]]]);
    tm "WS" (alts [[lit """ """]]);
    SIgnore (alts [[ref true "WS"]]) ].
Definition ex_fs2 : module_files := [(["units"], ex_units); (["mid"], ex_mid)].
Definition ex_imp : list string * list (string * string) := (["mid"], [("size", "size"); ("two", "two")]).

(* the hypotheses of C17_import_is_inlining hold for a module with a nested import, %extend of a shared
   terminal, a template and an %ignore; the import adds exactly the renamed reachable definitions *)
Example C17_import_is_inlining_example :
  exists gb0 b' kept0,
    forallb layer_ok [(join "__" (fst ex_imp), snd ex_imp)] = true /\
    load 8 ex_fs2 false [] (strip_ignore ex_mid) (fresh_builder 0) = Ok gb0 /\
    do_import (fun next ls0 ms0 => load 8 ex_fs2 false ls0 ms0 (fresh_builder next)) ex_fs2 [] empty_builder ex_imp = Ok b' /\
    remove_unused (b_defs gb0) (map fst (snd ex_imp)) = Ok kept0 /\
    map d_name (b_defs gb0) = ["UNIT"; "LENGTH"; "size"; "pair"; "two"; "WS"] /\
    b_defs b' = map (rn_def (mangle [(join "__" (fst ex_imp), snd ex_imp)])) kept0 /\
    map d_name (b_defs b') = ["mid__LENGTH"; "size"; "mid__pair"; "two"].
Proof.
  eexists. eexists. eexists.
  split. vm_compute; reflexivity.
  split. vm_compute; reflexivity.
  split. vm_compute; reflexivity.
  split. vm_compute; reflexivity.
  split. vm_compute; reflexivity.
  split. vm_compute; reflexivity.
  vm_compute; reflexivity.
Qed.

(*  a: b X | X      b: X b | X     (a rule-only module, closed)  *)
Definition ex_bnf : list defn :=
  [ mkDef "a" false (Some (alts [[ref false "b"; ref true "X"]; [ref true "X"]])) [] (ORule false false None None);
    mkDef "b" false (Some (alts [[ref true "X"; ref false "b"]; [ref true "X"]])) [] (ORule false false None None) ].

Example C17_semantic_example (num tnum : string -> nat) :
  exists G0, compile num tnum ex_bnf = Some G0 /\
    (forall r a, In r G0 -> In a (nts (rhs r)) -> In a (map lhs G0)) /\
    In (num "a") (map lhs G0) /\ List.length G0 = 4.
Proof.
  eexists. split. reflexivity. split.
  - intros r a Hr Ha. simpl in Hr.
    destruct Hr as [<-|[<-|[<-|[<-|[]]]]]; simpl in Ha; simpl; tauto.
  - split. simpl. auto. reflexivity.
Qed.

(* ==== round 12: the file search, the statement front, the conditions of the current source ============ *)

(* ---- which file a dotted path denotes ------------------------------------------------------------------ *)
(* do_import tries import_paths (in order), then the directory of the importing grammar (relative imports
   only), then lark's bundled grammars; the module is the first of them that has the file: everything before
   it raised IOError (a FromPackageLoader raises it for a directory base path or another package) *)
Theorem C17_import_resolution_order e b p n c :
  resolve e b p = Ok (n, c) <->
  exists l1 x l2, to_try e b = (l1 ++ x :: l2)%list /\
    Forall (skips e b (grammar_path p)) l1 /\ try_candidate e b (grammar_path p) x = Found n c.
Proof. exact (resolve_order e b p n c). Qed.
Print Assumptions C17_import_resolution_order.

Theorem C17_import_not_found e b p :
  resolve e b p = Err ENoModule <->
  Forall (skips e b (grammar_path p)) (to_try e b) /\ read_file e (grammar_path p) = None.
Proof. exact (resolve_not_found e b p). Qed.
Print Assumptions C17_import_not_found.

(* %import a.b.c (library import) never looks into the directory of the importing grammar; %import .a.b.c
   looks into import_paths FIRST, then into that directory, then into the bundled grammars *)
Theorem C17_import_candidates e d :
  to_try e BNone = (map CSrc (e_paths e) ++ [CSrc (e_std e)])%list /\
  to_try e (BDir d) = (map CSrc (e_paths e) ++ [CBase (BDir d)] ++ [CSrc (e_std e)])%list.
Proof. split. exact (lib_import_candidates e). exact (rel_import_candidates e d). Qed.
Print Assumptions C17_import_candidates.

Theorem C17_import_path_shadows e b p l1 d l2 c :
  e_paths e = (l1 ++ SrcDir d :: l2)%list ->
  Forall (fun s => try_candidate e b (grammar_path p) (CSrc s) = Skip) l1 ->
  read_file e (path_join d (grammar_path p)) = Some c ->
  resolve e b p = Ok (GName (path_join d (grammar_path p)), c).
Proof. exact (import_path_shadows e b p l1 d l2 c). Qed.
Print Assumptions C17_import_path_shadows.

Theorem C17_stdlib_is_last e b p n c :
  Forall (skips e b (grammar_path p)) (map CSrc (e_paths e) ++ (match b with BNone => [] | _ => [CBase b] end))%list ->
  try_candidate e b (grammar_path p) (CSrc (e_std e)) = Found n c ->
  resolve e b p = Ok (n, c).
Proof. exact (stdlib_is_last e b p n c). Qed.
Print Assumptions C17_stdlib_is_last.

(* load_grammar over the file system (raw statement trees, _make_rule_tuple, _unpack_import, the search) is
   load over the table keyed by dotted path whenever the table describes the file system along the imports:
   every theorem above about load / do_import / import_is_inlining is a theorem about the grammar the search
   finds *)
Theorem C17_search_is_dotted_lookup e fs g fuel ls name rs ss b :
  coherent fuel e fs name rs -> unpack_stmts rs = Ok ss ->
  load_fs fuel e g ls name rs b = load fuel fs g ls ss b /\
  load_fs_and_validate fuel e g name rs = load_and_validate fuel fs g ss.
Proof.
  intros Hc Hu. split. exact (load_fs_is_load e fs g fuel ls name rs ss b Hc Hu).
  exact (load_fs_and_validate_is_load e fs g fuel name rs ss Hc Hu).
Qed.
Print Assumptions C17_search_is_dotted_lookup.

(* ---- %declare, %ignore --------------------------------------------------------------------------------- *)
Theorem C17_declare_is_bodyless_terminal g ls n b :
  (defined (mangle ls n) (b_defs b) = false -> String.prefix "__" (mangle ls n) = false ->
   apply_stmt g ls (SDeclare [(true, n)]) b =
     Ok (mkB (b_defs b ++ [mkDef (mangle ls n) true None [] (OTerm 1)]) (b_ignore b) (b_heap b) (b_next b))) /\
  (forall rest, apply_stmt g ls (SDeclare ((false, n) :: rest)) b = Err EDeclareRule) /\
  (forall d l old, find_def (d_name d) l = Some old -> d_tree old = None ->
     d_term d = d_term old -> d_params d = d_params old -> extend d l = Err EExtAbstract).
Proof.
  split. exact (declare_is_bodyless_terminal g ls n b). split.
  intros rest. exact (declare_rule_is_error g ls n rest b). exact declared_cannot_be_extended.
Qed.
Print Assumptions C17_declare_is_bodyless_terminal.

(* %ignore is never imported: loading a module under an import - its own %ignore statements and those of
   every module it imports included - leaves the ignore list untouched; at top level %ignore NAME of an
   (imported or local) terminal appends that name and defines nothing *)
Theorem C17_ignore_is_not_imported fs g fuel ls ms b b' :
  ls <> [] -> load fuel fs g ls ms b = Ok b' -> b_ignore b' = b_ignore b.
Proof. exact (imported_module_ignores_nothing fs g fuel ls ms b b'). Qed.
Print Assumptions C17_ignore_is_not_imported.

Theorem C17_ignore_named_terminal n b :
  ignore (Nd "expansions" [Nd "expansion" [Nd "value" [Sy true n]]]) b =
    mkB (b_defs b) (b_ignore b ++ [n]) (b_heap b) (b_next b).
Proof. exact (ignore_named_terminal n b). Qed.
Print Assumptions C17_ignore_named_terminal.

(* ---- _make_rule_tuple ---------------------------------------------------------------------------------- *)
Theorem C17_make_rule_tuple mods name params prio exp d :
  make_rule_tuple mods name params prio exp = Ok d ->
  d_name d = name /\ d_term d = false /\ d_tree d = Some exp /\ d_params d = params /\
  exists keep expand1,
    d_opts d = ORule keep expand1 prio (match params with [] => None | _ => Some name end) /\
    (keep = true <-> exists m, mods = Some m /\ has_chr "!" m = true) /\
    (expand1 = true <-> exists m, mods = Some m /\ has_chr "?" m = true) /\
    (expand1 = true -> String.prefix "_" name = false).
Proof. exact (make_rule_tuple_spec mods name params prio exp d). Qed.
Print Assumptions C17_make_rule_tuple.

(* ---- the conditions of the model are those of the current source (coq/Gen/ModSrc.v is regenerated from
        lark/load_grammar.py on every run; every mirrored function is pinned by a template) ----------------- *)
Theorem C17_define_extend_are_source g o d l :
  define g o d l =
    match define_raise_src (defined (d_name d) l) o (d_name d) with
    | Some 0 => Err EDup
    | Some 1 => Err ENoOverride
    | Some _ => Err EReserved
    | None => Ok (set_def (mkDef (d_name d) (d_term d) (d_tree d) (d_params d) (check_options g (d_opts d))) l)
    end /\
  extend d l =
    match find_def (d_name d) l with
    | None =>
        match extend_raise_src false (d_term d) false (d_params d) [] false with
        | Some 0 => Err EExtUndefined
        | _ => Err EFuel
        end
    | Some old =>
        match extend_raise_src true (d_term d) (d_term old) (d_params d) (d_params old) (is_none (d_tree old)) with
        | Some 0 => Err EExtUndefined
        | Some 1 => Err EExtKind
        | Some 2 => Err EExtParams
        | Some _ => Err EExtAbstract
        | None =>
            match d_tree old, d_tree d with
            | Some base, Some exp =>
                Ok (set_def (mkDef (d_name old) (d_term old) (Some (add_alternative exp base)) (d_params old) (d_opts old)) l)
            | _, _ => Ok l
            end
        end
    end.
Proof. split. exact (define_is_source g o d l). exact (extend_is_source d l). Qed.
Print Assumptions C17_define_extend_are_source.

Theorem C17_validate_is_source l d :
  validate_def l d =
  match scan_params l [] (d_params d) with
  | Some _ => if existsb (fun p => defined p l) (d_params d) then Err EParamConflict else Err EParamDup
  | None =>
      match d_tree d with
      | None => Ok tt
      | Some t =>
          _ <- fold_left (fun acc tu => _ <- acc ;; template_check l (d_params d) tu) (find_data "template_usage" t) (Ok tt) ;;
          if forallb (fun s => negb (validate_sym_src (defined s l) (mem s (d_params d)))) (used_symbols t)
          then Ok tt else Err ESymUndefined
      end
  end.
Proof. exact (validate_def_is_source l d). Qed.
Print Assumptions C17_validate_is_source.

Theorem C17_dispatch_is_source g ls r b :
  (stmt_action_src (stmt_data r) (is_nil ls) = action_of r ls) /\
  (forall t, r = RIgnore t -> apply_raw g ls r b = (if is_nil ls then Ok (ignore t b) else Ok b)) /\
  (forall rel p a, r = RImport rel p a -> apply_raw g ls r b = Ok b) /\
  (forall n rest, r = RDeclare ((false, n) :: rest) -> declare_rejects_src false = true /\ apply_raw g ls r b = Err EDeclareRule).
Proof. exact (dispatch_is_source g ls r b). Qed.
Print Assumptions C17_dispatch_is_source.

Theorem C17_search_order_is_source e b m name params prio exp :
  to_try e b = to_try_src CSrc CBase (e_paths e) (match b with BNone => None | _ => Some b end) (e_std e) /\
  make_rule_tuple (Some m) name params prio exp =
    (if mrt_reject_src (mrt_expand1_src m) name then Err EInlineExpand1
     else Ok (mkDef name false (Some exp) params
                    (ORule (mrt_keep_src m) (mrt_expand1_src m) prio (match params with [] => None | _ => Some name end)))).
Proof. split. exact (to_try_is_source e b). exact (make_rule_tuple_is_source m name params prio exp). Qed.
Print Assumptions C17_search_order_is_source.

Theorem C17_constants_are_source :
  TOKEN_DEFAULT_PRIORITY = TOKEN_DEFAULT_PRIORITY_SRC /\ EXT = EXT_SRC /\
  STDLIB = SrcPkg STDLIB_PKG_SRC IMPORT_PATHS_SRC /\
  (forall name args, instance_name name args = INSTANCE_NAME_SRC name (join INSTANCE_ARG_SEP_SRC (map arg_name args))) /\
  (forall m n ps p e, def_data (RawRule m n ps p e) = KIND_RULE_SRC) /\
  (forall g ls n b b', apply_stmt g ls (SDeclare [(true, n)]) b = Ok b' ->
      exists d, find_def (mangle ls n) (b_defs b') = Some d /\ d_opts d = OTerm DECLARED_OPTIONS_SRC).
Proof. exact constants_are_source. Qed.
Print Assumptions C17_constants_are_source.

(* ---- templates: the instance has the template's options (seeded change C17-g) ---------------------------- *)
Theorem C17_template_instance_keeps_options created rds name args created' rds' rn :
  template_usage_step created rds name args = Ok (created', rds', rn) -> mem rn created = false ->
  exists r inst, find_rdef name rds = [r] /\ rds' = (rds ++ [inst])%list /\
    r_name inst = rn /\ r_params inst = [] /\ r_opts inst = r_opts r /\
    r_tree inst = subst (zip_dict (r_params r) args []) (r_tree r).
Proof. exact (template_instance_keeps_options created rds name args created' rds' rn). Qed.
Print Assumptions C17_template_instance_keeps_options.

(* ---- a concrete directory layout ------------------------------------------------------------------------ *)
(*  /p0/m.lark: X: "p0"      /home/m.lark: X: "home"     /home/n.lark: %import .m.X   Y: X "y"
    /home/main.lark: %import m.X -> A     %import .n.Y     start: A Y        import_paths = [/p0]
    the library import m and the relative import .m inside n.lark both find /p0/m.lark (import_paths come
    first); without /p0 the relative one finds /home/m.lark and the library one fails *)
Definition sx (s : string) : raw_stmt :=
  RDefine (RawTerm "X" None (Nd "expansions" [Nd "expansion" [Nd "value" [Nd "literal" [Tk s]]]])).
Definition ex_n : list raw_stmt :=
  [ RImport true ["m"; "X"] ANone;
    RDefine (RawTerm "Y" None (Nd "expansions" [Nd "expansion" [Nd "value" [Sy true "X"]; Nd "value" [Nd "literal" [Tk """y"""]]]])) ].
Definition ex_main_raw : list raw_stmt :=
  [ RImport false ["m"; "X"] (AAlias "A"); RImport true ["n"; "Y"] ANone;
    RDefine (RawRule None "start" [] None (Nd "expansions" [Nd "expansion" [Nd "value" [Sy true "A"]; Nd "value" [Sy true "Y"]]])) ].
Definition ex_env (paths : list source) : env :=
  mkEnv [("/p0/m.lark", [sx """p0"""]); ("/home/m.lark", [sx """home"""]); ("/home/n.lark", ex_n)] [] "/cwd" None paths STDLIB.

Example C17_search_example :
  resolve (ex_env [SrcDir "/p0"]) BNone ["m"] = Ok (GName "/p0/m.lark", [sx """p0"""]) /\
  resolve (ex_env [SrcDir "/p0"]) (BDir "/home") ["m"] = Ok (GName "/p0/m.lark", [sx """p0"""]) /\
  resolve (ex_env []) (BDir "/home") ["m"] = Ok (GName "/home/m.lark", [sx """home"""]) /\
  resolve (ex_env []) BNone ["m"] = Err ENoModule /\
  used_files 8 (ex_env [SrcDir "/p0"]) (GName "/home/main.lark") ex_main_raw [] =
    [GName "/p0/m.lark"; GName "/home/n.lark"] /\
  exists b, load_fs_and_validate 8 (ex_env [SrcDir "/p0"]) false (GName "/home/main.lark") ex_main_raw = Ok b /\
    map d_name (b_defs b) = ["A"; "Y"; "start"].
Proof.
  split. vm_compute; reflexivity. split. vm_compute; reflexivity. split. vm_compute; reflexivity.
  split. vm_compute; reflexivity. split. vm_compute; reflexivity.
  eexists. split. vm_compute; reflexivity. vm_compute; reflexivity.
Qed.

(* the hypotheses of C17_search_is_dotted_lookup hold for this layout (table computed from the files found) *)
Definition ex_unpacked (rs : list raw_stmt) : list stmt := match unpack_stmts rs with Ok l => l | Err _ => [] end.
Definition ex_tab : module_files := [(["m"], ex_unpacked [sx """p0"""]); (["n"], ex_unpacked ex_n)].
Definition ex_imps : list (import_entry base) :=
  match collect_imports_b base_eqb (base_of (ex_env [SrcDir "/p0"]) (GName "/home/main.lark")) ex_main_raw with
  | Ok l => l | Err _ => [] end.

Example C17_coherent_example :
  unpack_stmts ex_main_raw = Ok (ex_unpacked ex_main_raw) /\
  coherent 1 (ex_env [SrcDir "/p0"]) ex_tab (GName "/home/main.lark") ex_main_raw /\
  load_fs_and_validate 1 (ex_env [SrcDir "/p0"]) false (GName "/home/main.lark") ex_main_raw =
    load_and_validate 1 ex_tab false (ex_unpacked ex_main_raw).
Proof.
  assert (Hu : unpack_stmts ex_main_raw = Ok (ex_unpacked ex_main_raw)) by (vm_compute; reflexivity).
  assert (Hc : coherent 1 (ex_env [SrcDir "/p0"]) ex_tab (GName "/home/main.lark") ex_main_raw).
  { exists ex_imps, (ex_unpacked ex_main_raw). split. vm_compute; reflexivity. split. exact Hu.
    unfold ex_imps. vm_compute collect_imports_b.
    constructor.
    - exists (GName "/p0/m.lark"), [sx """p0"""], (ex_unpacked [sx """p0"""]).
      split. vm_compute; reflexivity. split. vm_compute; reflexivity. split. vm_compute; reflexivity. exact I.
    - constructor; [|constructor].
      exists (GName "/home/n.lark"), ex_n, (ex_unpacked ex_n).
      split. vm_compute; reflexivity. split. vm_compute; reflexivity. split. vm_compute; reflexivity. exact I. }
  split. exact Hu. split. exact Hc.
  exact (proj2 (C17_search_is_dotted_lookup _ _ false 1 [] _ _ _ empty_builder Hc Hu)).
Qed.

(* ---- %override of a terminal means textual replacement exactly when its tree object is not shared
        (finding F35: C17_override_terminal_refuted is the shared case) ------------------------------------- *)
Theorem C17_override_term_seen_iff_unshared g d b b' t :
  d_term d = true -> d_tree d = Some t -> ptrs t = [] -> define_stmt g true d b = Ok b' ->
  forall o, (exists o' t', hget o' (b_heap b') = Some t' /\ In o (ptrs t')) <->
            (exists o' t', o' <> b_next b /\ hget o' (b_heap b) = Some t' /\ In o (ptrs t')).
Proof. exact (override_term_seen_iff_unshared g d b b' t). Qed.
Print Assumptions C17_override_term_seen_iff_unshared.
