(* C09 - Repetition and optional operators match exactly the stated counts.
   Property theorems only; proofs are in Ebnf/*_proofs.v.  small_factors and the two
   thresholds are regenerated from lark/utils.py and lark/load_grammar.py on every run. *)
From Coq Require Import ZArith List Bool String Lia.
From LV Require Import Base.Prelude Gen.Consts Gen.SmallFactors Cfg.Grammar Ebnf.Repeat
  Ebnf.SmallFactors_proofs Ebnf.Repeat_proofs Ebnf.Compile Ebnf.Compile_proofs.
Import ListNotations.

(* small_factors terminates (fuel n+1 suffices, no assertion fails) for every n >= 0 and
   max_factor > 2, and folding its result back gives n. *)
Theorem C09_small_factors_spec n mf :
  (0 <= n)%Z -> (2 < mf)%Z ->
  exists l, small_factors (S (Z.to_nat n)) n mf = Ok l /\ sf_value l = n /\ sf_wf mf n l.
Proof. exact (small_factors_spec n mf). Qed.
Print Assumptions C09_small_factors_spec.

(* x~n..m (x~n when n = m): the compiled fragment exists (both schemes, whatever the
   threshold) and derives exactly the counts n..m. *)
Theorem C09_repeat mn mx :
  (0 <= mn <= mx)%Z ->
  exists e, generate_repeats Atom mn mx = Ok e /\
            forall k, cnt e k <-> Z.to_nat mn <= k <= Z.to_nat mx.
Proof. exact (generate_repeats_count mn mx). Qed.
Print Assumptions C09_repeat.

(* the same for x an arbitrary language (terminal, rule, group, template argument) *)
Theorem C09_repeat_language (tok : Type) (A : list tok -> Prop) mn mx :
  (0 <= mn <= mx)%Z ->
  exists e, generate_repeats Atom mn mx = Ok e /\
    forall w, den tok A e w <-> exists k, Z.to_nat mn <= k <= Z.to_nat mx /\ pow tok A k w.
Proof. exact (generate_repeats_language tok A mn mx). Qed.
Print Assumptions C09_repeat_language.

Theorem C09_opt k : cnt (op_opt Atom) k <-> k <= 1.
Proof. exact (op_opt_count k). Qed.
Print Assumptions C09_opt.

Theorem C09_plus k : cnt (op_plus Atom) k <-> 1 <= k.
Proof. exact (op_plus_count k). Qed.
Print Assumptions C09_plus.

Theorem C09_star k : cnt (op_star Atom) k <-> True.
Proof. exact (op_star_count k). Qed.
Print Assumptions C09_star.

Theorem C09_language_of_counts (tok : Type) (A : list tok -> Prop) e w :
  den tok A e w <-> exists k, cnt e k /\ pow tok A k w.
Proof. exact (den_cnt tok A e w). Qed.
Print Assumptions C09_language_of_counts.

(* helper rules are named with a leading underscore, hence inlined by the tree builder *)
Example C09_helpers_inlined : String.prefix "_" HELPER_NAME_PREFIX = true.
Proof. reflexivity. Qed.

(* Non-vacuity / sanity: an instance (with the current threshold it goes through the factored scheme). *)
Example C09_example :
  exists e, generate_repeats Atom 3 60 = Ok e /\ cnt e 3 /\ cnt e 60 /\ ~ cnt e 2 /\ ~ cnt e 61.
Proof.
  destruct (generate_repeats_count 3 60 ltac:(lia)) as (e & He & Hc).
  exists e. split; auto. repeat split; try (apply Hc; simpl; lia); intros H; apply Hc in H; simpl in H; lia.
Qed.

(* ---- the EBNF-to-BNF compilation as a whole (Ebnf/Compile.v: EBNF_to_BNF with its rule cache and
   counter, SimplifyRule_Visitor, one Rule per alternative) on arbitrary nested expressions -------- *)

(* For every expression e over the user's symbols (sequences, alternations, ? * + ~n ~n..m nested in
   any way): in the compiled grammar (alternatives of the rule + all helper rules) the rule derives w
   iff e denotes w, where eden gives ? exactly 0..1, * any number, + at least one and ~mn..mx exactly
   mn..mx consecutive occurrences of the operand's language. *)
Theorem C09_compile_preserves_language e G :
  compile e = Ok G -> forall w, derives G nat Nat.eqb [NT 0] w <-> eden e w.
Proof. exact (compile_preserves_language e G). Qed.
Print Assumptions C09_compile_preserves_language.

(* the same after "Filter out unused rules" (what Lark.rules holds) *)
Theorem C09_compile_pruned_preserves_language e G :
  compile_pruned e = Ok G -> forall w, derives G nat Nat.eqb [NT 0] w <-> eden e w.
Proof. exact (compile_pruned_preserves_language e G). Qed.
Print Assumptions C09_compile_pruned_preserves_language.

(* the compiler succeeds (no GrammarError, small_factors within its fuel) whenever 0 <= mn <= mx in every ~ *)
Theorem C09_compile_total e : ranges_ok e -> exists G, compile e = Ok G.
Proof. exact (compile_total e). Qed.
Print Assumptions C09_compile_total.

(* Non-vacuity:  start: X0 (X1 | X2+ X0?)* (X1)~2..3 | X2+ X1~50..52 *)
Definition C09_ex : expr :=
  Alt [Seq [Sym 0; Star (Alt [Seq [Sym 1]; Seq [Plus (Sym 2); Opt (Sym 0)]]); Rep (Alt [Seq [Sym 1]]) 2 3];
       Seq [Plus (Sym 2); Rep (Sym 1) 50 52]].

Definition C09_ex_rules : grammar :=
  map (fun p => mkRule (fst p) (snd p))
  [(0, [T 0; NT 2; T 1; T 1]); (0, [T 0; NT 2; T 1; T 1; T 1]); (0, [T 0; T 1; T 1]); (0, [T 0; T 1; T 1; T 1]);
   (0, [NT 1; NT 5; NT 6]);
   (1, [T 2]); (1, [NT 1; T 2]);                                         (* __start_plus: shared by both X2+ *)
   (2, [T 1]); (2, [NT 1; T 0]); (2, [NT 1]);
   (2, [NT 2; T 1]); (2, [NT 2; NT 1; T 0]); (2, [NT 2; NT 1]);          (* __start_star *)
   (3, [T 1; T 1]); (4, [NT 3; NT 3; NT 3; NT 3; NT 3]); (5, [NT 4; NT 4; NT 4; NT 4; NT 4]);   (* 50 = ((1*2)*5)*5 *)
   (6, []); (6, [T 1]); (6, [T 1; T 1])].                                (* repeat_opt: 0..2 more *)

Example C09_compile_example : compile_pruned C09_ex = Ok C09_ex_rules.
Proof. vm_compute. reflexivity. Qed.

Example C09_compile_example_sentence :
  eden C09_ex [0; 2; 2; 1; 1] /\ derives C09_ex_rules nat Nat.eqb [NT 0] [0; 2; 2; 1; 1].
Proof.
  assert (H : eden C09_ex [0; 2; 2; 1; 1]).
  { left. exists [0], [2; 2; 1; 1]. split; [reflexivity|]. split; [reflexivity|].
    exists [2; 2], [1; 1]. split; [reflexivity|]. split.
    - exists 1. apply (powS nat _ 0 [2; 2] []); [|constructor].
      right. left. exists [2; 2], []. split; [reflexivity|]. split.
      + exists 2. split; [lia|]. apply (powS nat _ 1 [2] [2]); [reflexivity|].
        apply (powS nat _ 0 [2] []); [reflexivity|constructor].
      + exists [], []. split; [reflexivity|]. split; [|reflexivity]. exists 0. split; [lia|constructor].
    - exists [1; 1], []. split; [reflexivity|]. split; [|reflexivity].
      exists 2. split; [simpl; lia|]. apply (powS nat _ 1 [1] [1]).
      + left. exists [1], []. split; [reflexivity|]. split; reflexivity.
      + apply (powS nat _ 0 [1] []); [|constructor]. left. exists [1], []. split; [reflexivity|]. split; reflexivity. }
  split; auto. apply (C09_compile_pruned_preserves_language C09_ex C09_ex_rules C09_compile_example). exact H.
Qed.

(* ---- operators INSIDE terminals: the regular-expression level (Re/) --------------------------------------
   Re/TermPattern.compile models TerminalTreeToPattern (format strings and the sort key of the alternatives
   regenerated from the source); Re/Lang.bt_match / bt_fullmatch model Python's re.match / re.fullmatch
   (leftmost alternative first, greedy quantifiers, backtracking) on the AST of the compiled regexp. *)
From Coq Require Import Ascii.
From LV Require Import Re.Syntax Re.Lang Re.Lang_proofs Re.Width Re.TermPattern Re.TermPattern_proofs.

(* x~n..m inside a terminal, for every operand x and all n <= m: the compiled pattern fully matches w
   iff w is k consecutive full matches of x's compiled pattern for some n <= k <= m *)
Theorem C09_terminal_repeat_exact x n m w :
  n <= m ->
  (bt_fullmatch (p_re (compile (TOp x (OpRange n m)))) w = true <->
   exists k, n <= k <= m /\ rpow (fun u => bt_fullmatch (p_re (compile x)) u = true) k w).
Proof. intros H. exact (compile_op_fullmatch x (OpRange n m) w (proj2 (Nat.leb_le n m) H)). Qed.
Print Assumptions C09_terminal_repeat_exact.

Theorem C09_terminal_exact_exact x n w :
  bt_fullmatch (p_re (compile (TOp x (OpExact n)))) w = true <->
  exists k, k = n /\ rpow (fun u => bt_fullmatch (p_re (compile x)) u = true) k w.
Proof. exact (compile_op_fullmatch x (OpExact n) w eq_refl). Qed.
Print Assumptions C09_terminal_exact_exact.

Theorem C09_terminal_opt_exact x w :
  bt_fullmatch (p_re (compile (TOp x OpOpt))) w = true <->
  exists k, k <= 1 /\ rpow (fun u => bt_fullmatch (p_re (compile x)) u = true) k w.
Proof. exact (compile_op_fullmatch x OpOpt w eq_refl). Qed.
Print Assumptions C09_terminal_opt_exact.

Theorem C09_terminal_star_exact x w :
  bt_fullmatch (p_re (compile (TOp x OpStar))) w = true <->
  exists k, True /\ rpow (fun u => bt_fullmatch (p_re (compile x)) u = true) k w.
Proof. exact (compile_op_fullmatch x OpStar w eq_refl). Qed.
Print Assumptions C09_terminal_star_exact.

Theorem C09_terminal_plus_exact x w :
  bt_fullmatch (p_re (compile (TOp x OpPlus))) w = true <->
  exists k, 1 <= k /\ rpow (fun u => bt_fullmatch (p_re (compile x)) u = true) k w.
Proof. exact (compile_op_fullmatch x OpPlus w eq_refl). Qed.
Print Assumptions C09_terminal_plus_exact.

(* a whole terminal definition (operators nested in any way, alternatives sorted by lark): the compiled
   pattern fully matches exactly the documented meaning of the definition; what re.match reports is a
   prefix with that meaning, and None means no prefix has it *)
Theorem C09_terminal_definition_exact t w :
  tt_ok t = true -> (bt_fullmatch (p_re (compile t)) w = true <-> tden t w).
Proof. exact (compile_fullmatch t w). Qed.
Print Assumptions C09_terminal_definition_exact.

Theorem C09_terminal_match_sound t s n :
  tt_ok t = true -> bt_match (p_re (compile t)) s = Some n -> tden t (firstn n s).
Proof. exact (compile_match_sound t s n). Qed.
Print Assumptions C09_terminal_match_sound.

Theorem C09_terminal_match_none t s :
  tt_ok t = true -> bt_match (p_re (compile t)) s = None -> forall n, ~ tden t (firstn n s).
Proof. exact (compile_match_none t s). Qed.
Print Assumptions C09_terminal_match_none.

(* the string lark hands to `re` is the concrete syntax of the AST the matcher runs on, bracketed where
   regexp precedence needs it *)
Theorem C09_terminal_regexp_string t :
  show (p_re (compile t)) = to_regexp (compile t) /\ bracketed (p_re (compile t)) = true.
Proof. exact (conj (show_compile t) (bracketed_compile t)). Qed.
Print Assumptions C09_terminal_regexp_string.

(* the matcher itself: sound and complete for the declarative language of any regexp of the class *)
Theorem C09_re_match_sound r s n : bt_match r s = Some n -> n <= List.length s /\ lang r (firstn n s).
Proof. exact (bt_match_sound r s n). Qed.
Print Assumptions C09_re_match_sound.

Theorem C09_re_match_none r s : bt_match r s = None -> forall n, ~ lang r (firstn n s).
Proof. exact (bt_match_none r s). Qed.
Print Assumptions C09_re_match_none.

Theorem C09_re_fullmatch r s : bt_fullmatch r s = true <-> lang r s.
Proof. exact (bt_fullmatch_iff r s). Qed.
Print Assumptions C09_re_fullmatch.

(* Non-vacuity:  T: ("a(" | "b"+)~2..3 /[a-c]/ "x".."z" ["q"] |      (an empty second alternative) *)
Definition C09_tex : ttree :=
  TAlt [TSeq [TOp (TAlt [TSeq [TStr "a("]; TSeq [TOp (TStr "b") OpPlus]]) (OpRange 2 3);
              TCls false [("a"%char, "c"%char)]; TRange "x" "z"; TOp (TAlt [TSeq [TStr "q"]]) OpOpt];
        TSeq []].

Example C09_terminal_example :
  tt_ok C09_tex = true /\
  to_regexp (compile C09_tex) = "(?:(?:(?:(?:b)+|a\()){2,3}[a-c][x-z](?:q)?|)"%string /\
  bt_match (p_re (compile C09_tex)) (codes "bba(bbcxqq") = Some 9 /\
  bt_fullmatch (p_re (compile C09_tex)) (codes "a(a(a(a(by") = false /\
  bt_fullmatch (p_re (compile C09_tex)) (codes "a(a(a(by") = true /\
  bt_fullmatch (p_re (compile C09_tex)) (codes "bby") = false.
Proof. vm_compute. repeat split; reflexivity. Qed.
