(* C09 - Repetition and optional operators match exactly the stated counts.
   Property theorems only; proofs are in Ebnf/*_proofs.v.  small_factors and the two
   thresholds are regenerated from lark/utils.py and lark/load_grammar.py on every run. *)
From Coq Require Import ZArith List Bool String Lia.
From LV Require Import Base.Prelude Gen.Consts Gen.SmallFactors Cfg.Grammar Ebnf.Repeat
  Ebnf.SmallFactors_proofs Ebnf.Repeat_proofs Ebnf.Compile Ebnf.Compile_proofs.
Import ListNotations.

(* small_factors terminates (fuel n+1 suffices, no assertion fails) for every n >= 0 and
   max_factor > 2, and folding its result back gives n. *)
Theorem C09_small_factors_spec n mf :
  (0 <= n)%Z -> (2 < mf)%Z ->
  exists l, small_factors (S (Z.to_nat n)) n mf = Ok l /\ sf_value l = n /\ sf_wf mf n l.
Proof. exact (small_factors_spec n mf). Qed.
Print Assumptions C09_small_factors_spec.

(* x~n..m (x~n when n = m): the compiled fragment exists (both schemes, whatever the
   threshold) and derives exactly the counts n..m. *)
Theorem C09_repeat mn mx :
  (0 <= mn <= mx)%Z ->
  exists e, generate_repeats Atom mn mx = Ok e /\
            forall k, cnt e k <-> Z.to_nat mn <= k <= Z.to_nat mx.
Proof. exact (generate_repeats_count mn mx). Qed.
Print Assumptions C09_repeat.

(* the same for x an arbitrary language (terminal, rule, group, template argument) *)
Theorem C09_repeat_language (tok : Type) (A : list tok -> Prop) mn mx :
  (0 <= mn <= mx)%Z ->
  exists e, generate_repeats Atom mn mx = Ok e /\
    forall w, den tok A e w <-> exists k, Z.to_nat mn <= k <= Z.to_nat mx /\ pow tok A k w.
Proof. exact (generate_repeats_language tok A mn mx). Qed.
Print Assumptions C09_repeat_language.

Theorem C09_opt k : cnt (op_opt Atom) k <-> k <= 1.
Proof. exact (op_opt_count k). Qed.
Print Assumptions C09_opt.

Theorem C09_plus k : cnt (op_plus Atom) k <-> 1 <= k.
Proof. exact (op_plus_count k). Qed.
Print Assumptions C09_plus.

Theorem C09_star k : cnt (op_star Atom) k <-> True.
Proof. exact (op_star_count k). Qed.
Print Assumptions C09_star.

Theorem C09_language_of_counts (tok : Type) (A : list tok -> Prop) e w :
  den tok A e w <-> exists k, cnt e k /\ pow tok A k w.
Proof. exact (den_cnt tok A e w). Qed.
Print Assumptions C09_language_of_counts.

(* helper rules are named with a leading underscore, hence inlined by the tree builder *)
Example C09_helpers_inlined : String.prefix "_" HELPER_NAME_PREFIX = true.
Proof. reflexivity. Qed.

(* Non-vacuity / sanity: an instance (with the current threshold it goes through the factored scheme). *)
Example C09_example :
  exists e, generate_repeats Atom 3 60 = Ok e /\ cnt e 3 /\ cnt e 60 /\ ~ cnt e 2 /\ ~ cnt e 61.
Proof.
  destruct (generate_repeats_count 3 60 ltac:(lia)) as (e & He & Hc).
  exists e. split; auto. repeat split; try (apply Hc; simpl; lia); intros H; apply Hc in H; simpl in H; lia.
Qed.

(* ---- the EBNF-to-BNF compilation as a whole (Ebnf/Compile.v: EBNF_to_BNF with its rule cache and
   counter, SimplifyRule_Visitor, one Rule per alternative) on arbitrary nested expressions -------- *)

(* For every expression e over the user's symbols (sequences, alternations, ? * + ~n ~n..m nested in
   any way): in the compiled grammar (alternatives of the rule + all helper rules) the rule derives w
   iff e denotes w, where eden gives ? exactly 0..1, * any number, + at least one and ~mn..mx exactly
   mn..mx consecutive occurrences of the operand's language. *)
Theorem C09_compile_preserves_language e G :
  compile e = Ok G -> forall w, derives G nat Nat.eqb [NT 0] w <-> eden e w.
Proof. exact (compile_preserves_language e G). Qed.
Print Assumptions C09_compile_preserves_language.

(* the same after "Filter out unused rules" (what Lark.rules holds) *)
Theorem C09_compile_pruned_preserves_language e G :
  compile_pruned e = Ok G -> forall w, derives G nat Nat.eqb [NT 0] w <-> eden e w.
Proof. exact (compile_pruned_preserves_language e G). Qed.
Print Assumptions C09_compile_pruned_preserves_language.

(* the compiler succeeds (no GrammarError, small_factors within its fuel) whenever 0 <= mn <= mx in every ~ *)
Theorem C09_compile_total e : ranges_ok e -> exists G, compile e = Ok G.
Proof. exact (compile_total e). Qed.
Print Assumptions C09_compile_total.

(* Non-vacuity:  start: X0 (X1 | X2+ X0?)* (X1)~2..3 | X2+ X1~50..52 *)
Definition C09_ex : expr :=
  Alt [Seq [Sym 0; Star (Alt [Seq [Sym 1]; Seq [Plus (Sym 2); Opt (Sym 0)]]); Rep (Alt [Seq [Sym 1]]) 2 3];
       Seq [Plus (Sym 2); Rep (Sym 1) 50 52]].

Definition C09_ex_rules : grammar :=
  map (fun p => mkRule (fst p) (snd p))
  [(0, [T 0; NT 2; T 1; T 1]); (0, [T 0; NT 2; T 1; T 1; T 1]); (0, [T 0; T 1; T 1]); (0, [T 0; T 1; T 1; T 1]);
   (0, [NT 1; NT 5; NT 6]);
   (1, [T 2]); (1, [NT 1; T 2]);                                         (* __start_plus: shared by both X2+ *)
   (2, [T 1]); (2, [NT 1; T 0]); (2, [NT 1]);
   (2, [NT 2; T 1]); (2, [NT 2; NT 1; T 0]); (2, [NT 2; NT 1]);          (* __start_star *)
   (3, [T 1; T 1]); (4, [NT 3; NT 3; NT 3; NT 3; NT 3]); (5, [NT 4; NT 4; NT 4; NT 4; NT 4]);   (* 50 = ((1*2)*5)*5 *)
   (6, []); (6, [T 1]); (6, [T 1; T 1])].                                (* repeat_opt: 0..2 more *)

Example C09_compile_example : compile_pruned C09_ex = Ok C09_ex_rules.
Proof. vm_compute. reflexivity. Qed.

Example C09_compile_example_sentence :
  eden C09_ex [0; 2; 2; 1; 1] /\ derives C09_ex_rules nat Nat.eqb [NT 0] [0; 2; 2; 1; 1].
Proof.
  assert (H : eden C09_ex [0; 2; 2; 1; 1]).
  { left. exists [0], [2; 2; 1; 1]. split; [reflexivity|]. split; [reflexivity|].
    exists [2; 2], [1; 1]. split; [reflexivity|]. split.
    - exists 1. apply (powS nat _ 0 [2; 2] []); [|constructor].
      right. left. exists [2; 2], []. split; [reflexivity|]. split.
      + exists 2. split; [lia|]. apply (powS nat _ 1 [2] [2]); [reflexivity|].
        apply (powS nat _ 0 [2] []); [reflexivity|constructor].
      + exists [], []. split; [reflexivity|]. split; [|reflexivity]. exists 0. split; [lia|constructor].
    - exists [1; 1], []. split; [reflexivity|]. split; [|reflexivity].
      exists 2. split; [simpl; lia|]. apply (powS nat _ 1 [1] [1]).
      + left. exists [1], []. split; [reflexivity|]. split; reflexivity.
      + apply (powS nat _ 0 [1] []); [|constructor]. left. exists [1], []. split; [reflexivity|]. split; reflexivity. }
  split; auto. apply (C09_compile_pruned_preserves_language C09_ex C09_ex_rules C09_compile_example). exact H.
Qed.
