(* C09 - Repetition and optional operators match exactly the stated counts.
   Property theorems only; proofs are in Ebnf/*_proofs.v.  small_factors and the two
   thresholds are regenerated from lark/utils.py and lark/load_grammar.py on every run. *)
From Coq Require Import ZArith List Bool String Lia.
From LV Require Import Base.Prelude Gen.Consts Gen.SmallFactors Ebnf.Repeat
  Ebnf.SmallFactors_proofs Ebnf.Repeat_proofs.
Import ListNotations.

(* small_factors terminates (fuel n+1 suffices, no assertion fails) for every n >= 0 and
   max_factor > 2, and folding its result back gives n. *)
Theorem C09_small_factors_spec n mf :
  (0 <= n)%Z -> (2 < mf)%Z ->
  exists l, small_factors (S (Z.to_nat n)) n mf = Ok l /\ sf_value l = n /\ sf_wf mf n l.
Proof. exact (small_factors_spec n mf). Qed.
Print Assumptions C09_small_factors_spec.

(* x~n..m (x~n when n = m): the compiled fragment exists (both schemes, whatever the
   threshold) and derives exactly the counts n..m. *)
Theorem C09_repeat mn mx :
  (0 <= mn <= mx)%Z ->
  exists e, generate_repeats Atom mn mx = Ok e /\
            forall k, cnt e k <-> Z.to_nat mn <= k <= Z.to_nat mx.
Proof. exact (generate_repeats_count mn mx). Qed.
Print Assumptions C09_repeat.

(* the same for x an arbitrary language (terminal, rule, group, template argument) *)
Theorem C09_repeat_language (tok : Type) (A : list tok -> Prop) mn mx :
  (0 <= mn <= mx)%Z ->
  exists e, generate_repeats Atom mn mx = Ok e /\
    forall w, den tok A e w <-> exists k, Z.to_nat mn <= k <= Z.to_nat mx /\ pow tok A k w.
Proof. exact (generate_repeats_language tok A mn mx). Qed.
Print Assumptions C09_repeat_language.

Theorem C09_opt k : cnt (op_opt Atom) k <-> k <= 1.
Proof. exact (op_opt_count k). Qed.
Print Assumptions C09_opt.

Theorem C09_plus k : cnt (op_plus Atom) k <-> 1 <= k.
Proof. exact (op_plus_count k). Qed.
Print Assumptions C09_plus.

Theorem C09_star k : cnt (op_star Atom) k <-> True.
Proof. exact (op_star_count k). Qed.
Print Assumptions C09_star.

Theorem C09_language_of_counts (tok : Type) (A : list tok -> Prop) e w :
  den tok A e w <-> exists k, cnt e k /\ pow tok A k w.
Proof. exact (den_cnt tok A e w). Qed.
Print Assumptions C09_language_of_counts.

(* helper rules are named with a leading underscore, hence inlined by the tree builder *)
Example C09_helpers_inlined : String.prefix "_" HELPER_NAME_PREFIX = true.
Proof. reflexivity. Qed.

(* Non-vacuity / sanity: an instance (with the current threshold it goes through the factored scheme). *)
Example C09_example :
  exists e, generate_repeats Atom 3 60 = Ok e /\ cnt e 3 /\ cnt e 60 /\ ~ cnt e 2 /\ ~ cnt e 61.
Proof.
  destruct (generate_repeats_count 3 60 ltac:(lia)) as (e & He & Hc).
  exists e. split; auto. repeat split; try (apply Hc; simpl; lia); intros H; apply Hc in H; simpl in H; lia.
Qed.
