(* C19 - Reconstructor output re-parses to the same tree.  Property theorems only; the model is
   Recons/Recons.v (+ Text.v), the proofs are in Recons/*_proofs.v. *)
From Coq Require Import ZArith String Ascii List Arith Bool.
From LV Require Import Forest.ExplicitBuild Forest.ExplicitAlgBuild.
From LV Require Import Base.Prelude Cfg.Grammar Earley.Spec Recons.Recons Recons.Recons_proofs Recons.ReconsCheck
     Recons.ReconsCheck_proofs Recons.Text Recons.Text_proofs Recons.Complete_proofs Recons.Link_proofs Recons.Extra_proofs Recons.Roundtrip_proofs
     Recons.EarleyM Recons.EarleyM_proofs Recons.EarleyM_sel Lex.LexerBase Lex.Lexer Recons.Relex Recons.Relex_proofs
     Recons.Char_proofs Recons.RelexSafe Recons.RelexSafe_proofs Recons.CharSafe_proofs
     Recons.GenBase Gen.ReconsHoles Recons.Gen_proofs Recons.Findings_proofs.
Import ListNotations.

(* core: one node.  For a supported match u of node (Node data cs) - root rule from rules_for_root[data], inner
   rules from TreeMatcher.rules - the items written by WriteTokensTransformer are the yield of a derivation of
   the matched parser rule whose shape is the node and whose sub-derivations for the child subtrees are the
   given ones (Y c = token sequence of the derivation given for child c). *)
Theorem C19_write_tokens_yield :
  forall (us : nat -> bool) (P : list prule), cls us P ->
  forall (lit : nat -> option string) (Y : stree -> list token) data cs u items,
    supported us P u data cs -> write lit u = OList (Ok items) -> items_ok us P Y items ->
    exists pr ds, wf P (DNode pr ds) /\ sym_name pr = data /\ kids us (DNode pr ds) = cs /\
                  shape us (DNode pr ds) = Node data cs /\ yield (DNode pr ds) = expandY Y items.
Proof. exact write_tokens_yield. Qed.
Print Assumptions C19_write_tokens_yield.

(* whole tree: whatever _reconstruct yields is the yield of a derivation with the same shape *)
Theorem C19_recons_token_sound :
  forall (us : nat -> bool) (P : list prule), cls us P ->
  forall (lit : nat -> option string) (M : stree -> option utree),
    (forall t u, M t = Some u -> exists data cs, t = Node data cs /\ supported us P u data cs) ->
  forall fuel t toks, recon lit M fuel t = Ok toks ->
    exists data cs pr ds, t = Node data cs /\ wf P (DNode pr ds) /\ sym_name pr = data /\
                          shape us (DNode pr ds) = t /\ yield (DNode pr ds) = toks.
Proof. exact recons_token_sound. Qed.
Print Assumptions C19_recons_token_sound.

(* token-level round trip, proved part: if reconstruction of a parser tree returns, the tokens are accepted with
   that tree, and for an unambiguous grammar every parse of them gives that tree *)
Theorem C19_recons_token_roundtrip_partial :
  forall (us : nat -> bool) (P : list prule), cls us P ->
  forall (lit : nat -> option string) (M : stree -> option utree),
    (forall t u, M t = Some u -> exists data cs, t = Node data cs /\ supported us P u data cs) ->
  forall start pr0 ds0 fuel toks,
    wf P (DNode pr0 ds0) -> p_origin pr0 = start -> ~ In start (expand1s P) ->
    recon lit M fuel (shape us (DNode pr0 ds0)) = Ok toks ->
    parses us P start toks (shape us (DNode pr0 ds0)) /\
    (unambiguous P start -> forall t', parses us P start toks t' -> t' = shape us (DNode pr0 ds0)).
Proof. exact recons_token_roundtrip_partial. Qed.
Print Assumptions C19_recons_token_roundtrip_partial.

(* stretch, the token-level round trip in full: for a matcher that returns only supported matches (M_ok) and returns
   one whenever one exists, literals for all filtered terminals and terminal names distinct from rule/alias names,
   reconstruction of every tree the parser can return succeeds, and its tokens parse back to exactly that tree.
   (M_ok is a hypothesis about the Earley resolution inside match_tree; the harness checks it on every recorded
   match; findings C19-F14 / C19-F16 show grammars where lark's matcher violates it.) *)
Theorem C19_recons_token_roundtrip :
  forall (us : nat -> bool) (P : list prule), cls us P -> cls_extra us P ->
  forall (lit : nat -> option string),
    (forall r n, In r P -> In (Tm n true) (p_exp r) -> lit n <> None) ->
    (forall r n fo, In r P -> In (Tm n fo) (p_exp r) ->
                    forall r', In r' P -> p_origin r' <> n /\ p_alias r' <> Some n) ->
  forall (M : stree -> option utree),
    (forall t u, M t = Some u -> exists data cs, t = Node data cs /\ supported us P u data cs) ->
    (forall data cs, (exists u, supported us P u data cs) -> M (Node data cs) <> None) ->
  forall start pr0 ds0,
    wf P (DNode pr0 ds0) -> p_origin pr0 = start -> ~ In start (expand1s P) -> us start = false ->
    exists fuel toks, recon lit M fuel (shape us (DNode pr0 ds0)) = Ok toks /\
      parses us P start toks (shape us (DNode pr0 ds0)) /\
      (unambiguous P start -> forall t', parses us P start toks t' -> t' = shape us (DNode pr0 ds0)).
Proof. exact recons_token_roundtrip. Qed.
Print Assumptions C19_recons_token_roundtrip.

(* stretch, completeness of _build_recons_rules: every tree the parser can return has a supported match *)
Theorem C19_match_exists :
  forall (us : nat -> bool) (P : list prule), cls us P -> cls_extra us P ->
  forall pr ds, wf P (DNode pr ds) -> uncollapsed us (DNode pr ds) ->
    exists u, supported us P u (sym_name pr) (kids us (DNode pr ds)).
Proof. exact match_exists. Qed.
Print Assumptions C19_match_exists.

(* ... and so the Earley chart of Earley/Spec.v, run over the node's children with the tree-matching rules the
   model derives (terminals matched by _match), accepts: match_tree does not fail at the specification level *)
Theorem C19_matcher_accepts :
  forall (us : nat -> bool) (P : list prule), cls us P -> cls_extra us P ->
  forall pr ds, wf P (DNode pr ds) -> uncollapsed us (DNode pr ds) ->
    accepts_spec (to_cfg (G_for us P (sym_name pr))) stree cmatch (kids us (DNode pr ds)) (sym_name pr).
Proof. exact matcher_accepts. Qed.
Print Assumptions C19_matcher_accepts.

(* text level, under H_relex: the joined text lexes back to the written tokens *)
Theorem C19_text :
  forall (us : nat -> bool) (P : list prule), cls us P ->
  forall (lit : nat -> option string) (M : stree -> option utree),
    (forall t u, M t = Some u -> exists data cs, t = Node data cs /\ supported us P u data cs) ->
  forall (lex : string -> option (list token)) start pr0 ds0 fuel toks,
    wf P (DNode pr0 ds0) -> p_origin pr0 = start -> ~ In start (expand1s P) ->
    recon lit M fuel (shape us (DNode pr0 ds0)) = Ok toks ->
    lex (reconstruct_text toks) = Some toks ->                                  (* H_relex *)
    parses_text us P lex start (reconstruct_text toks) (shape us (DNode pr0 ds0)) /\
    (unambiguous P start ->
     forall t', parses_text us P lex start (reconstruct_text toks) t' -> t' = shape us (DNode pr0 ds0)).
Proof. exact text_roundtrip. Qed.
Print Assumptions C19_text.

(* F12: H_relex does not hold in general.  PLUS: "+"  PP: "++"  start: PLUS PLUS | PP : the tree of "+ +" is
   written as the tokens + +, joined to "++", which lexes as PP and parses to another tree. *)
Theorem C19_H_relex_refuted :
  class_b f12_us f12_P = true /\ table_ok f12_us f12_P f12_ms = true /\
  wf f12_P f12_d0 /\ shape f12_us f12_d0 = f12_tree /\
  recon (lookup_lit f12_lits) (lookup_match f12_ms) 2 f12_tree = Ok f12_toks /\
  reconstruct_text f12_toks = "++"%string /\
  minilex f12_lits (reconstruct_text f12_toks) = Some [(2, "++"%string)] /\
  minilex f12_lits (reconstruct_text f12_toks) <> Some f12_toks /\
  parses f12_us f12_P 0 [(2, "++"%string)] (Node 0 [Tok 2 "++"%string]) /\
  Node 0 [Tok 2 "++"%string] <> f12_tree.
Proof. exact H_relex_refuted. Qed.
Print Assumptions C19_H_relex_refuted.

(* non-vacuity: a recorded run of lark on  f(a, b+c) * (d + -e)  with ?rules, aliases, an inlined _args list and
   filtered punctuation satisfies every hypothesis (class, supported matches), and the theorem's conclusion holds
   for the 15 tokens it writes *)
Definition ex_case : rcase :=
  (mkCase ["start"%string; "expr"%string; "add"%string; "PLUS"%string; "term"%string; "STAR"%string; "atom"%string; "NAME"%string; "LPAR"%string; "RPAR"%string; "neg"%string; "MINUS"%string; "call"%string; "_args"%string; "___args_star_0"%string; "COMMA"%string; "__IGNORE_0"%string] [(mkP 0 [(Nt 1)] None false); (mkP 1 [(Nt 1); (Tm 3 true); (Nt 4)] (Some 2) true); (mkP 1 [(Nt 4)] None true); (mkP 4 [(Nt 4); (Tm 5 true); (Nt 6)] None true); (mkP 4 [(Nt 6)] None true); (mkP 6 [(Tm 7 false)] None true); (mkP 6 [(Tm 8 true); (Nt 1); (Tm 9 true)] None true); (mkP 6 [(Tm 11 true); (Nt 6)] (Some 10) true); (mkP 6 [(Tm 7 false); (Tm 8 true); (Nt 13); (Tm 9 true)] (Some 12) true); (mkP 13 [(Nt 1); (Nt 14)] None false); (mkP 13 [(Nt 1)] None false); (mkP 14 [(Tm 15 true); (Nt 1)] None false); (mkP 14 [(Nt 14); (Tm 15 true); (Nt 1)] None false)] [(15, ","%string); (8, "("%string); (11, "-"%string); (3, "+"%string); (9, ")"%string); (5, "*"%string); (16, " "%string)] [(mkR 6 [(T 6)] [(Nt 6)]); (mkR 6 [(T 12)] [(Nt 12)]); (mkR 6 [(T 10)] [(Nt 10)]); (mkR 1 [(T 1)] [(Nt 1)]); (mkR 1 [(T 2)] [(Nt 2)]); (mkR 14 [(NT 1)] [(Tm 15 true); (Nt 1)]); (mkR 13 [(NT 1)] [(Nt 1)]); (mkR 6 [(NT 1)] [(Tm 8 true); (Nt 1); (Tm 9 true)]); (mkR 6 [(T 7)] [(Tm 7 false)]); (mkR 4 [(NT 6)] [(Nt 6)]); (mkR 4 [(T 4)] [(Nt 4)]); (mkR 1 [(NT 4)] [(Nt 4)]); (mkR 14 [(NT 14); (NT 1)] [(Nt 14); (Tm 15 true); (Nt 1)]); (mkR 13 [(NT 1); (NT 14)] [(Nt 1); (Nt 14)])] [[(mkR 0 [(NT 1)] [(Nt 1)])]; []; [(mkR 2 [(NT 1); (NT 4)] [(Nt 1); (Tm 3 true); (Nt 4)])]; []; [(mkR 4 [(NT 4); (NT 6)] [(Nt 4); (Tm 5 true); (Nt 6)])]; []; []; []; []; []; [(mkR 10 [(NT 6)] [(Tm 11 true); (Nt 6)])]; []; [(mkR 12 [(T 7); (NT 13)] [(Tm 7 false); (Tm 8 true); (Nt 13); (Tm 9 true)])]; []; []; []; []] true true false [((Node 0 [(Node 4 [(Node 12 [(Tok 7 "f"%string); (Tok 7 "a"%string); (Node 2 [(Tok 7 "b"%string); (Tok 7 "c"%string)])]); (Node 2 [(Tok 7 "d"%string); (Node 10 [(Tok 7 "e"%string)])])])]), [(0, (CU 0 [(Nt 1)] [(CU 1 [(Nt 4)] [(CU 4 [(Nt 4)] [(CL 0)])])]), [(CC 0)]); (1, (CU 4 [(Nt 4); (Tm 5 true); (Nt 6)] [(CU 4 [(Nt 6)] [(CU 6 [(Nt 12)] [(CL 0)])]); (CU 6 [(Tm 8 true); (Nt 1); (Tm 9 true)] [(CU 1 [(Nt 2)] [(CL 1)])])]), [(CC 0); (CS "*"%string); (CS "("%string); (CC 1); (CS ")"%string)]); (2, (CU 12 [(Tm 7 false); (Tm 8 true); (Nt 13); (Tm 9 true)] [(CL 0); (CU 13 [(Nt 1); (Nt 14)] [(CU 1 [(Nt 4)] [(CU 4 [(Nt 6)] [(CU 6 [(Tm 7 false)] [(CL 1)])])]); (CU 14 [(Tm 15 true); (Nt 1)] [(CU 1 [(Nt 2)] [(CL 2)])])])]), [(CC 0); (CS "("%string); (CC 1); (CS ","%string); (CC 2); (CS ")"%string)]); (5, (CU 2 [(Nt 1); (Tm 3 true); (Nt 4)] [(CU 1 [(Nt 4)] [(CU 4 [(Nt 6)] [(CU 6 [(Tm 7 false)] [(CL 0)])])]); (CU 4 [(Nt 6)] [(CU 6 [(Tm 7 false)] [(CL 1)])])]), [(CC 0); (CS "+"%string); (CC 1)]); (8, (CU 2 [(Nt 1); (Tm 3 true); (Nt 4)] [(CU 1 [(Nt 4)] [(CU 4 [(Nt 6)] [(CU 6 [(Tm 7 false)] [(CL 0)])])]); (CU 4 [(Nt 6)] [(CU 6 [(Nt 10)] [(CL 1)])])]), [(CC 0); (CS "+"%string); (CC 1)]); (10, (CU 10 [(Tm 11 true); (Nt 6)] [(CU 6 [(Tm 7 false)] [(CL 0)])]), [(CS "-"%string); (CC 0)])], ["f"%string; "("%string; "a"%string; ","%string; "b"%string; "+"%string; "c"%string; ")"%string; "*"%string; "("%string; "d"%string; "+"%string; "-"%string; "e"%string; ")"%string], "f(a,b+c)*(d+-e)"%string)]).

Example C19_example :
  let us := uscore_of (c_names ex_case) in
  let P := c_rules ex_case in
  check_case ex_case = true /\ cls us P /\ cls_extra us P /\
  forall t ms items text, In (t, ms, items, text) (c_runs ex_case) ->
    (forall t0 u, lookup_match ms t0 = Some u -> exists data cs, t0 = Node data cs /\ supported us P u data cs) /\
    exists toks, recon (lookup_lit (c_lits ex_case)) (lookup_match ms) (S (height t)) t = Ok toks /\
                 List.length toks = 15 /\
                 exists data cs pr ds, t = Node data cs /\ wf P (DNode pr ds) /\ sym_name pr = data /\
                                       shape us (DNode pr ds) = t /\ yield (DNode pr ds) = toks.
Proof.
  intros us P.
  assert (Hcls : cls us P) by (apply class_b_sound; vm_compute; reflexivity).
  split; [vm_compute; reflexivity|]. split; [exact Hcls|].
  split; [apply extra_b_sound; vm_compute; reflexivity|].
  intros t ms items text Hin. destruct Hin as [Hin|[]]. inversion Hin; subst t ms items text. clear Hin.
  match goal with |- (forall t0 u, lookup_match ?ms t0 = Some u -> _) /\ _ =>
    assert (HM : forall t0 u, lookup_match ms t0 = Some u ->
                              exists data cs, t0 = Node data cs /\ supported us P u data cs)
      by (apply table_ok_sound; vm_compute; reflexivity)
  end.
  split; [exact HM|].
  match goal with |- exists toks, ?R = Ok toks /\ _ =>
    let v := eval vm_compute in R in
    match v with Ok ?l => exists l; assert (Hr : R = Ok l) by (vm_compute; reflexivity) end
  end.
  split; [exact Hr|]. split; [reflexivity|].
  exact (recons_token_sound us P Hcls _ _ HM _ _ _ Hr).
Qed.
Print Assumptions C19_example.

(* ---------------------------------------------------------------------------------------------------------------
   Round 6: match_tree instantiated with the executable model of lark's Earley parser (Earley/Alg.v instrumented
   with the SPPF: Forest/ExplicitAlgBuild.v) over the children list, matcher _match = cmatch, grammar
   cfg_of (G_for data), start symbol data: Recons/EarleyM.v M_earley.  The only parameter left is `sel`, the choice
   ForestToParseTree(resolve) makes among the derivations stored in the forest. *)

(* under the decidable condition plain_roots (no name that owns rules_for_root rules is an inlined non-terminal of the
   tree-matching grammar: every un-collapsing ?alternative and every alternative of an aliased origin has an alias)
   EVERY match of G_for data rooted at data is a supported one - lark's ambiguity resolution cannot go wrong *)
Theorem C19_earley_matches_supported :
  forall (us : nat -> bool) (P : list prule), cls us P ->
  forall data, is_nonterminal us P data = false ->
  forall r args cs, In r (G_for us P data) -> r_origin r = data ->
    uargs_gen (uvalid (G_for us P data)) (r_exp r) args -> leaves (UNode r args) = cs ->
    supported us P (UNode r args) data cs.
Proof. exact all_supported. Qed.
Print Assumptions C19_earley_matches_supported.

(* what the Earley matcher returns is a derivation of G_for data over the children (C04_A_exact_gen, hence C01) *)
Theorem C19_M_earley_sound :
  forall (us : nat -> bool) (P : list prule) (sel : nat -> list stree -> list (fam stree) -> option (dt stree)),
    (forall data cs fams d, sel data cs fams = Some d ->
       den stree (in_forest stree fams) (NSym stree data 0 (List.length cs)) [d]) ->
  forall data cs u, M_earley us P sel (Node data cs) = Some u ->
    exists r args, u = UNode r args /\ In r (G_for us P data) /\ r_origin r = data /\
                   uargs_gen (uvalid (G_for us P data)) (r_exp r) args /\ leaves u = cs.
Proof. intros us P sel Hs. exact (M_earley_sound us P sel Hs). Qed.
Print Assumptions C19_M_earley_sound.

Theorem C19_M_earley_ok :
  forall (us : nat -> bool) (P : list prule), cls us P -> cls_extra us P -> plain_roots us P ->
  forall (sel : nat -> list stree -> list (fam stree) -> option (dt stree)),
    (forall data cs fams d, sel data cs fams = Some d ->
       den stree (in_forest stree fams) (NSym stree data 0 (List.length cs)) [d]) ->
  forall t u, ptree us P t -> M_earley us P sel t = Some u ->
    exists data cs, t = Node data cs /\ supported us P u data cs.
Proof. intros us P Hc Hx Hp sel Hs. exact (M_earley_ok us P Hc Hx Hp sel Hs). Qed.
Print Assumptions C19_M_earley_ok.

(* M_complete from C01 completeness: a supported match exists => the parser accepts, its forest stores that
   derivation, and a match is returned *)
Theorem C19_M_earley_complete :
  forall (us : nat -> bool) (P : list prule) (sel : nat -> list stree -> list (fam stree) -> option (dt stree)),
    (forall data cs fams d, den stree (in_forest stree fams) (NSym stree data 0 (List.length cs)) [d] ->
       sel data cs fams <> None) ->
  forall data cs, (exists u, supported us P u data cs) -> M_earley us P sel (Node data cs) <> None.
Proof. intros us P sel Ht. exact (M_earley_complete us P sel Ht). Qed.
Print Assumptions C19_M_earley_complete.

(* the token-level round trip with lark's Earley tree matcher, selection included: match_tree = the Earley model run
   over the children (M_earley) with sel = the model of ForestToParseTree(resolve) on label-keyed, possibly cyclic
   forests (Forest/GraphResolve.v; sel_graph_sound / sel_graph_total are theorems).  No hypothesis about the matcher is
   left; `order` is any rearrangement of the packed children (SymbolNode.children), sel_resolve keeps insertion order. *)
Theorem C19_recons_token_roundtrip_earley :
  forall (order : nlabel stree -> list (family stree) -> list (family stree)),
    (forall l fs f, In f (order l fs) <-> In f fs) ->
  forall (us : nat -> bool) (P : list prule), cls us P -> cls_extra us P -> plain_roots us P ->
  forall (lit : nat -> option string),
    (forall r n, In r P -> In (Tm n true) (p_exp r) -> lit n <> None) ->
    (forall r n fo, In r P -> In (Tm n fo) (p_exp r) ->
                    forall r', In r' P -> p_origin r' <> n /\ p_alias r' <> Some n) ->
  forall start pr0 ds0,
    wf P (DNode pr0 ds0) -> p_origin pr0 = start -> ~ In start (expand1s P) -> us start = false ->
    exists fuel toks, recon lit (M_earley us P (sel_graph order)) fuel (shape us (DNode pr0 ds0)) = Ok toks /\
      parses us P start toks (shape us (DNode pr0 ds0)) /\
      (unambiguous P start -> forall t', parses us P start toks t' -> t' = shape us (DNode pr0 ds0)).
Proof. exact recons_token_roundtrip_earley_graph. Qed.
Print Assumptions C19_recons_token_roundtrip_earley.

(* the former full statement (a sound and total selector on the model's forests exists) is now a theorem *)
Theorem C19_resolve_selector_exists :
  exists sel : nat -> list stree -> list (fam stree) -> option (dt stree),
    (forall data cs fams d, sel data cs fams = Some d ->
       den stree (in_forest stree fams) (NSym stree data 0 (List.length cs)) [d]) /\
    (forall data cs fams d, den stree (in_forest stree fams) (NSym stree data 0 (List.length cs)) [d] ->
       sel data cs fams <> None).
Proof. exists sel_resolve. split; [exact sel_resolve_sound|exact sel_resolve_total]. Qed.
Print Assumptions C19_resolve_selector_exists.

(* ---------------------------------------------------------------------------------------------------------------
   Round 9: the character level.  Reconstructor.reconstruct joins the written items (join_sp); term_subs is an
   override of the literal lookup (Relex.lit_subs; all theorems above hold for every `lit`). *)

(* what reconstruct() writes: the items in order, each preceded by its separator, which is the single blank exactly when
   the neighbouring characters are both id-continue characters - nothing else is added, dropped or reordered *)
Theorem C19_join_spec :
  (forall prev items, join_sp prev items = cat (pieces prev items)) /\
  (forall prev it, need_space prev it = true <->
     exists a b, last_char prev = Some a /\ first_char it = Some b /\
                 is_id_continue a = true /\ is_id_continue b = true) /\
  (forall prev items, Forall (fun x => strip_sp x = x) items -> strip_sp (join_sp prev items) = cat items).
Proof. exact (conj join_pieces (conj need_space_spec join_strip)). Qed.
Print Assumptions C19_join_spec.

(* H_relex derived: under the decidable boundary condition bc_b - at the start of every written token the scanner of
   the BasicLexer model (Lex/Lexer.v, C07) picks a terminal reported under the token's type with exactly the token's
   length, and every inserted blank is scanned as one ignored terminal - the model lexes the joined text back to the
   written tokens *)
Theorem C19_relex :
  forall m cok names terms ign L toks,
    make_lexer m cok terms ign = Some L ->
    bc_b m names L (reconstruct_text toks) 0 EmptyString toks = true ->
    lex_model m cok names terms ign (reconstruct_text toks) = Some toks.
Proof. exact relex_model. Qed.
Print Assumptions C19_relex.

(* the char-level round trip parse(reconstruct(t)) = t, parser = BasicLexer model followed by the parser
   specification, matcher = the Earley model with graph resolve.  _partial: bc_b is a condition on the written tokens
   of the tree at hand (decidable, evaluated by the harness on every case), not yet a consequence of a per-grammar
   condition; F12 (C19_H_relex_refuted) is a grammar where it fails. *)
Theorem C19_char_roundtrip_partial :
  forall (us : nat -> bool) (P : list prule), cls us P -> cls_extra us P -> plain_roots us P ->
  forall (order : nlabel stree -> list (family stree) -> list (family stree)),
    (forall l fs f, In f (order l fs) <-> In f fs) ->
  forall (lit : nat -> option string),
    (forall r n, In r P -> In (Tm n true) (p_exp r) -> lit n <> None) ->
    (forall r n fo, In r P -> In (Tm n fo) (p_exp r) ->
                    forall r', In r' P -> p_origin r' <> n /\ p_alias r' <> Some n) ->
  forall m cok names terms ign L, make_lexer m cok terms ign = Some L ->
  forall start pr0 ds0,
    wf P (DNode pr0 ds0) -> p_origin pr0 = start -> ~ In start (expand1s P) -> us start = false ->
    exists fuel toks,
      recon lit (M_earley us P (sel_graph order)) fuel (shape us (DNode pr0 ds0)) = Ok toks /\
      (bc_b m names L (reconstruct_text toks) 0 EmptyString toks = true ->
       lex_model m cok names terms ign (reconstruct_text toks) = Some toks /\
       parses_text us P (lex_model m cok names terms ign) start (reconstruct_text toks) (shape us (DNode pr0 ds0)) /\
       (unambiguous P start ->
        forall t', parses_text us P (lex_model m cok names terms ign) start (reconstruct_text toks) t' ->
                   t' = shape us (DNode pr0 ds0))).
Proof.
  intros us P Hc Hx Hp order Ho lit Hl Hd m cok names terms ign L HL.
  exact (char_roundtrip_earley us P Hc Hx Hp order Ho lit Hl Hd m cok names terms ign L HL).
Qed.
Print Assumptions C19_char_roundtrip_partial.

(* full statement: the same without the boundary condition - what the property says at face value.  It does not hold:
   C19_H_relex_refuted (finding F12) is a rule set of the class whose written tokens + + are joined to "++" and lexed
   as one PP.  bc_b is exactly what is missing. *)
Definition C19_char_roundtrip_full_statement : Prop :=
  forall (us : nat -> bool) (P : list prule), cls us P -> cls_extra us P -> plain_roots us P ->
  forall (order : nlabel stree -> list (family stree) -> list (family stree)),
    (forall l fs f, In f (order l fs) <-> In f fs) ->
  forall (lit : nat -> option string),
    (forall r n, In r P -> In (Tm n true) (p_exp r) -> lit n <> None) ->
  forall m cok names terms ign L, make_lexer m cok terms ign = Some L ->
  forall start pr0 ds0 fuel toks,
    wf P (DNode pr0 ds0) -> p_origin pr0 = start -> ~ In start (expand1s P) -> us start = false ->
    recon lit (M_earley us P (sel_graph order)) fuel (shape us (DNode pr0 ds0)) = Ok toks ->
    lex_model m cok names terms ign (reconstruct_text toks) = Some toks.

(* non-vacuity of plain_roots: a recorded run of lark on the same input with every multi-child ?alternative aliased
   (expr/add, term/mul, atom/neg/call) satisfies class, cls_extra and plain_roots *)
Definition ex2_case : rcase :=
  (mkCase ["start"%string; "expr"%string; "add"%string; "PLUS"%string; "term"%string; "mul"%string; "STAR"%string; "atom"%string; "NAME"%string; "LPAR"%string; "RPAR"%string; "neg"%string; "MINUS"%string; "call"%string; "_args"%string; "___args_star_0"%string; "COMMA"%string; "__IGNORE_0"%string] [(mkP 0 [(Nt 1)] None false); (mkP 1 [(Nt 1); (Tm 3 true); (Nt 4)] (Some 2) true); (mkP 1 [(Nt 4)] None true); (mkP 4 [(Nt 4); (Tm 6 true); (Nt 7)] (Some 5) true); (mkP 4 [(Nt 7)] None true); (mkP 7 [(Tm 8 false)] None true); (mkP 7 [(Tm 9 true); (Nt 1); (Tm 10 true)] None true); (mkP 7 [(Tm 12 true); (Nt 7)] (Some 11) true); (mkP 7 [(Tm 8 false); (Tm 9 true); (Nt 14); (Tm 10 true)] (Some 13) true); (mkP 14 [(Nt 1); (Nt 15)] None false); (mkP 14 [(Nt 1)] None false); (mkP 15 [(Tm 16 true); (Nt 1)] None false); (mkP 15 [(Nt 15); (Tm 16 true); (Nt 1)] None false)] [(16, ","%string); (9, "("%string); (12, "-"%string); (3, "+"%string); (10, ")"%string); (6, "*"%string); (17, " "%string)] [(mkR 7 [(T 7)] [(Nt 7)]); (mkR 7 [(T 13)] [(Nt 13)]); (mkR 7 [(T 11)] [(Nt 11)]); (mkR 4 [(T 4)] [(Nt 4)]); (mkR 4 [(T 5)] [(Nt 5)]); (mkR 1 [(T 1)] [(Nt 1)]); (mkR 1 [(T 2)] [(Nt 2)]); (mkR 15 [(NT 1)] [(Tm 16 true); (Nt 1)]); (mkR 14 [(NT 1)] [(Nt 1)]); (mkR 7 [(NT 1)] [(Tm 9 true); (Nt 1); (Tm 10 true)]); (mkR 7 [(T 8)] [(Tm 8 false)]); (mkR 4 [(NT 7)] [(Nt 7)]); (mkR 1 [(NT 4)] [(Nt 4)]); (mkR 15 [(NT 15); (NT 1)] [(Nt 15); (Tm 16 true); (Nt 1)]); (mkR 14 [(NT 1); (NT 15)] [(Nt 1); (Nt 15)])] [[(mkR 0 [(NT 1)] [(Nt 1)])]; []; [(mkR 2 [(NT 1); (NT 4)] [(Nt 1); (Tm 3 true); (Nt 4)])]; []; []; [(mkR 5 [(NT 4); (NT 7)] [(Nt 4); (Tm 6 true); (Nt 7)])]; []; []; []; []; []; [(mkR 11 [(NT 7)] [(Tm 12 true); (Nt 7)])]; []; [(mkR 13 [(T 8); (NT 14)] [(Tm 8 false); (Tm 9 true); (Nt 14); (Tm 10 true)])]; []; []; []; []] true true true [((Node 0 [(Node 5 [(Node 13 [(Tok 8 "f"%string); (Tok 8 "a"%string); (Node 2 [(Tok 8 "b"%string); (Tok 8 "c"%string)])]); (Node 2 [(Tok 8 "d"%string); (Node 11 [(Tok 8 "e"%string)])])])]), [(0, (CU 0 [(Nt 1)] [(CU 1 [(Nt 4)] [(CU 4 [(Nt 5)] [(CL 0)])])]), [(CC 0)]); (1, (CU 5 [(Nt 4); (Tm 6 true); (Nt 7)] [(CU 4 [(Nt 7)] [(CU 7 [(Nt 13)] [(CL 0)])]); (CU 7 [(Tm 9 true); (Nt 1); (Tm 10 true)] [(CU 1 [(Nt 2)] [(CL 1)])])]), [(CC 0); (CS "*"%string); (CS "("%string); (CC 1); (CS ")"%string)]); (2, (CU 13 [(Tm 8 false); (Tm 9 true); (Nt 14); (Tm 10 true)] [(CL 0); (CU 14 [(Nt 1); (Nt 15)] [(CU 1 [(Nt 4)] [(CU 4 [(Nt 7)] [(CU 7 [(Tm 8 false)] [(CL 1)])])]); (CU 15 [(Tm 16 true); (Nt 1)] [(CU 1 [(Nt 2)] [(CL 2)])])])]), [(CC 0); (CS "("%string); (CC 1); (CS ","%string); (CC 2); (CS ")"%string)]); (5, (CU 2 [(Nt 1); (Tm 3 true); (Nt 4)] [(CU 1 [(Nt 4)] [(CU 4 [(Nt 7)] [(CU 7 [(Tm 8 false)] [(CL 0)])])]); (CU 4 [(Nt 7)] [(CU 7 [(Tm 8 false)] [(CL 1)])])]), [(CC 0); (CS "+"%string); (CC 1)]); (8, (CU 2 [(Nt 1); (Tm 3 true); (Nt 4)] [(CU 1 [(Nt 4)] [(CU 4 [(Nt 7)] [(CU 7 [(Tm 8 false)] [(CL 0)])])]); (CU 4 [(Nt 7)] [(CU 7 [(Nt 11)] [(CL 1)])])]), [(CC 0); (CS "+"%string); (CC 1)]); (10, (CU 11 [(Tm 12 true); (Nt 7)] [(CU 7 [(Tm 8 false)] [(CL 0)])]), [(CS "-"%string); (CC 0)])], ["f"%string; "("%string; "a"%string; ","%string; "b"%string; "+"%string; "c"%string; ")"%string; "*"%string; "("%string; "d"%string; "+"%string; "-"%string; "e"%string; ")"%string], "f(a,b+c)*(d+-e)"%string)]).

Example C19_plain_roots_example :
  let us := uscore_of (c_names ex2_case) in let P := c_rules ex2_case in
  check_case ex2_case = true /\ cls us P /\ cls_extra us P /\ plain_roots us P.
Proof.
  intros us P.
  split; [vm_compute; reflexivity|].
  split; [apply class_b_sound; vm_compute; reflexivity|].
  split; [apply extra_b_sound; vm_compute; reflexivity|].
  apply plain_roots_b_sound; vm_compute; reflexivity.
Qed.
Print Assumptions C19_plain_roots_example.

(* ---------------------------------------------------------------------------------------------------------------
   Round 12: the boundary condition as a consequence of a decidable per-grammar condition.  relex_safe_b (Recons/RelexSafe.v)
   speaks about the terminals of the grammar only: string terminals and class-plus regexp terminals [..]+ with the
   computed matcher m_cp (compared with Python's re on every recorded text), the scanner's trial order, the literals
   the Reconstructor re-inserts, the characters that can follow a token in a reconstructed text (spacing rule included)
   and the ignored blank. *)

(* pure lexer level: for a relex-safe lexer, the joined text of ANY list of tokens the lexer can produce (a token that
   some terminal scans with exactly its length in front of some rest, reported under its type) satisfies bc_b *)
Theorem C19_relex_safe_bc :
  forall (names : list string) (L : blexer) (lits toks : list (nat * string)),
    relex_safe_b names L lits = true -> Forall (lexable names L) toks ->
    bc_b m_cp names L (reconstruct_text toks) 0 EmptyString toks = true.
Proof. exact relex_safe_bc. Qed.
Print Assumptions C19_relex_safe_bc.

(* every token the BasicLexer model returns on any text is such a token *)
Theorem C19_lexed_tokens_lexable :
  forall (names : list string) (L : blexer), forallb term_ok (flat L) = true ->
  forall src toks, lex_with m_cp names L src = Some toks -> Forall (lexable names L) toks.
Proof. exact lex_with_lexable. Qed.
Print Assumptions C19_lexed_tokens_lexable.

(* relex_safe G -> bc_b (written tokens of t) for every tree whose tokens the lexer produced: what _reconstruct writes
   are tokens of the tree and re-inserted literals (S4), each stable in its new context (S1-S3) *)
Theorem C19_relex_safe_implies_bc :
  forall (us : nat -> bool) (P : list prule)
         (order : nlabel stree -> list (family stree) -> list (family stree)),
    (forall l fs f, In f (order l fs) <-> In f fs) ->
  forall (lits : list (nat * string)) (names : list string) (L : blexer),
    relex_safe_b names L lits = true ->
  forall fuel t toks,
    Forall (lexable names L) (tokens_of t) ->
    recon (lookup_lit lits) (M_earley us P (sel_graph order)) fuel t = Ok toks ->
    bc_b m_cp names L (reconstruct_text toks) 0 EmptyString toks = true.
Proof. exact relex_safe_implies_bc. Qed.
Print Assumptions C19_relex_safe_implies_bc.

(* the character-level round trip with no per-tree hypothesis: for a relex-safe grammar of the class, EVERY tree the
   char-level parser (BasicLexer model with m_cp, then the parser specification) returns on ANY source text is
   reconstructed to a text that lexes back to the written tokens and parses back to that tree *)
Theorem C19_char_roundtrip :
  forall (us : nat -> bool) (P : list prule), cls us P -> cls_extra us P -> plain_roots us P ->
  forall (order : nlabel stree -> list (family stree) -> list (family stree)),
    (forall l fs f, In f (order l fs) <-> In f fs) ->
  forall (lits : list (nat * string)),
    (forall r n, In r P -> In (Tm n true) (p_exp r) -> lookup_lit lits n <> None) ->
    (forall r n fo, In r P -> In (Tm n fo) (p_exp r) ->
                    forall r', In r' P -> p_origin r' <> n /\ p_alias r' <> Some n) ->
  forall cok names terms ign L, make_lexer m_cp cok terms ign = Some L ->
    relex_safe_b names L lits = true ->
  forall start src t,
    ~ In start (expand1s P) -> us start = false ->
    parses_text us P (lex_model m_cp cok names terms ign) start src t ->
    exists fuel toks,
      recon (lookup_lit lits) (M_earley us P (sel_graph order)) fuel t = Ok toks /\
      lex_model m_cp cok names terms ign (reconstruct_text toks) = Some toks /\
      parses_text us P (lex_model m_cp cok names terms ign) start (reconstruct_text toks) t /\
      (unambiguous P start ->
       forall t', parses_text us P (lex_model m_cp cok names terms ign) start (reconstruct_text toks) t' -> t' = t).
Proof. exact char_roundtrip_safe. Qed.
Print Assumptions C19_char_roundtrip.

(* for string terminals without flags m_cp is the prefix test the C07 theorems assume of the regex oracle *)
Theorem C19_m_cp_string :
  forall t text p, tre t = false -> tflags t = [] -> m_cp t text p = str_match_at lower t text p.
Proof. exact m_cp_str. Qed.
Print Assumptions C19_m_cp_string.

(* F12's grammar is not relex-safe: PLUS "+" is a proper prefix of PP "++", tried first, and "+" can follow PLUS *)
Definition f12_terms : list term :=
  [mkTerm "PLUS" 0%Z false "+" [] 1%Z; mkTerm "PP" 0%Z false "++" [] 2%Z; mkTerm "WS" 0%Z false " " [] 1%Z].
Definition f12_names : list string := ["start"; "PLUS"; "PP"; "WS"]%string.
Example C19_F12_not_relex_safe :
  exists L, make_lexer m_cp (fun _ => true) f12_terms ["WS"%string] = Some L /\
            map tname (flat L) = ["PP"; "PLUS"; "WS"]%string /\
            s2_b L = false /\ relex_safe_b f12_names L f12_lits = false.
Proof. eexists. split; [vm_compute; reflexivity|]. repeat split; vm_compute; reflexivity. Qed.

(* non-vacuity of C19_char_roundtrip:  start: NAME "+" NAME   NAME: /[a-z]+/   %ignore " "   on the source "ab + c" *)
Definition sf_terms : list term :=
  [mkTerm "NAME" 0%Z true "[a-z]+" [] 4294967295%Z; mkTerm "PLUS" 0%Z false "+" [] 1%Z; mkTerm "WS" 0%Z false " " [] 1%Z].
Definition sf_names : list string := ["start"; "NAME"; "PLUS"; "WS"]%string.
Definition sf_rule : prule := mkP 0 [Tm 1 false; Tm 2 true; Tm 1 false] None false.
Definition sf_P : list prule := [sf_rule].
Definition sf_lits : list (nat * string) := [(2, "+"%string)].
Definition sf_us (n : nat) : bool := false.
Definition sf_lex := lex_model m_cp (fun _ => true) sf_names sf_terms ["WS"%string].
Example C19_char_roundtrip_example :
  exists L, make_lexer m_cp (fun _ => true) sf_terms ["WS"%string] = Some L /\
    relex_safe_b sf_names L sf_lits = true /\
    parses_text sf_us sf_P sf_lex 0 "ab + c"%string (Node 0 [Tok 1 "ab"%string; Tok 1 "c"%string]) /\
    exists fuel toks,
      recon (lookup_lit sf_lits) (M_earley sf_us sf_P (sel_graph order_id)) fuel
            (Node 0 [Tok 1 "ab"%string; Tok 1 "c"%string]) = Ok toks /\
      sf_lex (reconstruct_text toks) = Some toks /\
      parses_text sf_us sf_P sf_lex 0 (reconstruct_text toks) (Node 0 [Tok 1 "ab"%string; Tok 1 "c"%string]).
Proof.
  eexists. split; [vm_compute; reflexivity|]. split; [vm_compute; reflexivity|].
  assert (Hp : parses_text sf_us sf_P sf_lex 0 "ab + c"%string (Node 0 [Tok 1 "ab"%string; Tok 1 "c"%string])).
  { exists [(1, "ab"%string); (2, "+"%string); (1, "c"%string)]. split; [vm_compute; reflexivity|].
    exists sf_rule, [DTok 1 "ab"%string; DTok 2 "+"%string; DTok 1 "c"%string]. repeat split.
    constructor; [left; reflexivity|]. repeat constructor. }
  split; [exact Hp|].
  destruct (char_roundtrip_safe sf_us sf_P) with (order := order_id) (lits := sf_lits) (cok := fun _ : list term => true)
    (names := sf_names) (terms := sf_terms) (ign := ["WS"%string]) (start := 0) (src := "ab + c"%string)
    (t := Node 0 [Tok 1 "ab"%string; Tok 1 "c"%string])
    (L := mkLexer (sort_terms sf_terms) [sort_terms sf_terms] ["WS"%string])
    as (fuel & toks & Hr & Hl & Hp' & _).
  - apply class_b_sound; vm_compute; reflexivity.
  - apply extra_b_sound; vm_compute; reflexivity.
  - apply plain_roots_b_sound; vm_compute; reflexivity.
  - exact order_id_perm.
  - apply lits_b_sound; vm_compute; reflexivity.
  - apply disj_b_sound; vm_compute; reflexivity.
  - vm_compute; reflexivity.
  - vm_compute; reflexivity.
  - intros H. vm_compute in H. exact H.
  - reflexivity.
  - exact Hp.
  - exists fuel, toks. auto.
Qed.
Print Assumptions C19_char_roundtrip_example.

(* ---------------------------------------------------------------------------------------------------------------
   Round 12: the conditions of the hand-written model are the ones regenerated from the source.  translator/gen_recons.py
   pins Reconstructor.__init__/_reconstruct/reconstruct, WriteTokensTransformer (all four methods), is_iter_empty,
   is_discarded_terminal, _MakeTreeMatch, _best_from_group, _best_rules_from_group, _match, make_recons_rule(_to_term),
   ChildrenLexer.lex, TreeMatcher.__init__/_build_recons_rules/match_tree, utils.is_id_continue/_test_unicode_category by
   fail-closed templates and writes their conditions to Gen/ReconsHoles.v (g_...); the model uses exactly these. *)
Theorem C19_model_conditions_regenerated :
  (* the spacing rule and is_id_continue (ASCII) *)
  (forall prev item, need_space prev item = g_need_space is_id_continue true prev item) /\
  forallb (fun n => Bool.eqb (is_id_continue (ascii_of_nat n)) (idc_of_cats g_idc_cats (ascii_of_nat n))) (seq 0 128) = true /\
  (* is_discarded_terminal *)
  (forall s, discarded s = match s with Tm _ fo => g_discarded true fo | Nt _ => g_discarded false false end) /\
  (* _build_recons_rules: inlined non-terminals, skipped alternatives, the loop's classification *)
  (forall us P n, is_nonterminal us P n =
                  memn n (rule_names P) && g_is_nt (us n) (memn n (expand1s P)) (memn n (aliased P))) /\
  (forall us P r, skipped us P r = g_skip (list_eqb symbol_eqb (recons_exp us P r) [NT (p_origin r)]) (has_alias r)) /\
  (forall us P rs seen, Recons.build_loop us P rs seen = build_loop_g us P rs seen) /\
  (* _best_from_group never replaces inside a group (equal expansions); the sort is by ascending length *)
  (forall len, g_better (g_cmp_key len) (g_cmp_key len) = false) /\
  (forall x r, Nat.ltb (length (r_exp x)) (length (r_exp r)) =
               Z.ltb (g_sort_key (Z.of_nat (length (r_exp x)))) (g_sort_key (Z.of_nat (length (r_exp r))))).
Proof.
  exact (conj need_space_gen (conj is_id_continue_gen (conj discarded_gen (conj is_nonterminal_gen
        (conj skipped_gen (conj build_loop_gen (conj best_never_replaces sort_key_gen))))))).
Qed.
Print Assumptions C19_model_conditions_regenerated.

(* F38 at model level: `?x: _l` with three children.  Every class condition but c_single (single_ok_b) holds, the tree is
   the shape of a derivation, and the Earley tree matcher of the model finds no match for start[x[a a a]]: reconstruction
   fails.  c_single is therefore necessary in C19_match_exists and the round-trip theorems. *)
Theorem C19_F38_refuted :
  closed_b f38_P = true /\ alias_ok_b f38_us f38_P = true /\ uscore_plain_b f38_us f38_P = true /\
  expand1_uniform_b f38_P = true /\ extra_b f38_us f38_P = true /\
  single_ok_b f38_us f38_P = false /\
  wf f38_P f38_d /\ shape f38_us f38_d = f38_tree /\
  M_earley f38_us f38_P sel_resolve f38_tree = None /\
  (forall lit fuel, recon lit (M_earley f38_us f38_P sel_resolve) (S fuel) f38_tree = AssertFail).
Proof. exact F38_refuted. Qed.
Print Assumptions C19_F38_refuted.
