From LV Require Import Base.Prelude Forest.ExplicitToTree Forest.ExplicitCheck.
