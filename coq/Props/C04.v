(* C04 - ambiguity='explicit' enumerates exactly all derivations.
   Property theorems only; proofs are in Forest/ExplicitToTree_proofs.v (layer B: forest -> trees) and
   Forest/ExplicitBuild_proofs.v (layer A: parser -> forest).  The models are hand-written
   (Forest/ExplicitToTree.v, Forest/ExplicitBuild.v) and tied to lark on every run by harness/props/C04.py. *)
From Coq Require Import String Ascii Bool Arith List.
From LV Require Import Base.Prelude Cfg.Grammar Earley.Spec Forest.ExplicitToTree Forest.ExplicitCheck Forest.ExplicitToTree_proofs
  Forest.ExplicitBuild Forest.ExplicitBuild_proofs Forest.ExplicitBuildCheck
  Earley.Alg Earley.Alg_proofs Forest.ExplicitAlgBuild Forest.ExplicitAlgBuild_proofs
  Earley.Dyn Earley.Dyn_proofs Forest.ExplicitDynBuild Forest.ExplicitDynSound Forest.ExplicitDynBuild_proofs
  Forest.ExplicitDynFamilies_proofs Forest.ExplicitDynComplete_proofs Forest.ExplicitDynExact_proofs
  Forest.ExplicitGraph Forest.ExplicitGraphCheck Forest.ExplicitGraph_proofs Gen.ExplicitWalk Forest.ExplicitWalkTie.
Import ListNotations.
Local Open Scope string_scope.
Local Open Scope list_scope.

(* Layer B.  For every acyclic forest of the shape the Earley parser builds (root_okb: the decidable
   well-formedness predicate of Forest/ExplicitCheck.v, evaluated on every forest the harness exports):
   a tree is obtained by choosing one alternative at every _ambig of the model's explicit tree iff it is the
   shape (plain callback chain: token filtering, _rule inlining, None placeholders, ?rule, alias) of a
   derivation stored in the forest.  Covers the _iambig/_inter machinery, PackedData, _collapse_ambig,
   AmbiguousExpander's cartesian product and AmbiguousIntermediateExpander's nested collapse. *)
Theorem C04_B_expand_exact n :
  root_okb n = true ->
  forall t, In t (expand (to_tree_explicit n)) <-> In t (map shape (derivs n)).
Proof. exact (B_expand_exact n). Qed.
Print Assumptions C04_B_expand_exact.

(* the explicit tree contains no _iambig/_inter leftovers and no _ambig without alternatives, and the forest
   has at least one derivation *)
Theorem C04_B_tree_tidy n :
  root_okb n = true -> gdb (to_tree_explicit n) = true /\ derivs n <> [].
Proof. exact (B_tree_tidy n). Qed.
Print Assumptions C04_B_tree_tidy.

(* CollapseAmbiguities (as repaired in /repo): whenever it returns, it returns the expansion, in order;
   it returns on every tree without an empty _ambig, in particular on every explicit tree of layer B. *)
Theorem C04_collapse_is_expand t l : collapse t = Ok l -> l = expand t.
Proof. exact (collapse_ok_is_expand t l). Qed.
Print Assumptions C04_collapse_is_expand.

Theorem C04_collapse_total t : noempty t = true -> collapse t = Ok (expand t).
Proof. exact (collapse_total t). Qed.
Print Assumptions C04_collapse_total.

Theorem C04_collapse_explicit n :
  root_okb n = true -> collapse (to_tree_explicit n) = Ok (expand (to_tree_explicit n)).
Proof. exact (collapse_explicit n). Qed.
Print Assumptions C04_collapse_explicit.

(* Finding F6 (and its residue F6b): the utility of the lark 1.3.1 snapshot raises on a None placeholder child
   although the tree has a well-defined expansion; the repaired model does not.
   f6_tree / f6b_tree are lark's explicit trees for  start: [A] b / b: A? "c"  on "ac"  and
   start: q A / ?q: [A] | b / b: B*  on "a" (both replayed on the code by the exotic stream). *)
Theorem C04_collapse_none_refuted :
  collapse_old false false f6_tree = AssertFail
  /\ expand f6_tree = [Nd "start" [Tk "A" "a"; Nd "b" []]; Nd "start" [Nn; Nd "b" [Tk "A" "a"]]]
  /\ collapse_old true false f6b_tree = AssertFail
  /\ expand f6b_tree = [Nd "start" [Nd "b" []; Tk "A" "a"]; Nd "start" [Nn; Tk "A" "a"]]
  /\ collapse f6_tree = Ok (expand f6_tree) /\ collapse f6b_tree = Ok (expand f6b_tree).
Proof. exact collapse_none_refuted. Qed.
Print Assumptions C04_collapse_none_refuted.

(* Layer A.  A forest is a set of (node label, packed family) pairs; labels carry the span, as lark's node cache
   keys (s, start, end) do.  If every family has the local form of an add_family call (forest_okb, evaluated by
   the harness on every captured forest, cyclic ones included), then every derivation stored below a node -
   every finite unfolding, so this covers cyclic forests - is a well-formed derivation of the node's symbol
   whose lexemes tile the input between the node's positions. *)
Theorem C04_A_sound (G : grammar) (tok : Type) tmatch tlen occurs fams :
  forest_okb G tok tmatch tlen occurs fams = true ->
  forall lbl ds, den tok (in_forest tok fams) lbl ds -> sound G tok tmatch tlen occurs lbl ds.
Proof. exact (A_sound G tok tmatch tlen occurs fams). Qed.
Print Assumptions C04_A_sound.

Theorem C04_A_sound_root (G : grammar) (tok : Type) tmatch tlen occurs fams a i j ds :
  forest_okb G tok tmatch tlen occurs fams = true ->
  den tok (in_forest tok fams) (NSym tok a i j) ds ->
  exists d, ds = [d] /\ derives G tok tmatch [NT a] (yield tok d) /\ tiles tok tlen occurs i j (yield tok d).
Proof. exact (A_sound_root G tok tmatch tlen occurs fams a i j ds). Qed.
Print Assumptions C04_A_sound_root.

(* the families added at the three add_family call sites over the chart of Earley/Spec have that local form,
   hence every tree below the root (start, 0, |w|) of the forest the parser builds derives exactly w *)
Theorem C04_A_added_ok (G : grammar) (tok : Type) tmatch (w : list tok) start occurs :
  (forall x i, occurs x i = true <-> nth_error w i = Some x) ->
  forall lbl f, added G tok tmatch w start lbl f -> fam_ok G tok tmatch (tlen1 tok) occurs lbl f.
Proof. exact (A_added_ok G tok tmatch w start occurs). Qed.
Print Assumptions C04_A_added_ok.

Theorem C04_A_sound_sentence (G : grammar) (tok : Type) tmatch (w : list tok) start occurs :
  (forall x i, occurs x i = true <-> nth_error w i = Some x) ->
  forall ds, den tok (added G tok tmatch w start) (NSym tok start 0 (length w)) ds ->
  exists d, ds = [d] /\ yield tok d = w /\ derives G tok tmatch [NT start] w.
Proof. exact (A_sound_sentence G tok tmatch w start occurs). Qed.
Print Assumptions C04_A_sound_sentence.

(* Completeness of layer A, proved at the specification level: the forest whose families are those the three
   add_family call sites add over the chart of Earley/Spec stores EVERY derivation tree of w below its root, and
   nothing else (exactness); so does any forest containing those families.
   _partial: that lark's worklist (predict_and_complete / scan with the per-column node cache) adds exactly these
   families is not proved here - it is the content of C01's worklist = chart theorem plus the bookkeeping of
   item.node; on every run the harness compares, per case, the families of the captured forest with the
   families generated by these rules (stream added-vs-forest) and the expansion of the explicit tree with a
   brute-force enumeration of all derivations. *)
Definition C04_A_complete_full_statement : Prop :=
  forall (G : grammar) (tok : Type) tmatch (w : list tok) start (occurs : tok -> nat -> bool)
         (lark_forest : nlabel tok -> family tok -> Prop),
    (forall x i, occurs x i = true <-> nth_error w i = Some x) ->
    (* lark_forest = the families earley.Parser.parse leaves in the SPPF *)
    (forall lbl f, lark_forest lbl f <-> added G tok tmatch w start lbl f) ->
    forall ds, den tok lark_forest (NSym tok start 0 (length w)) ds
               <-> exists d, ds = [d] /\ wfd G tok tmatch d (NT start) /\ yield tok d = w.

Theorem C04_A_complete_partial (G : grammar) (tok : Type) tmatch (w : list tok) start occurs :
  (forall x i, occurs x i = true <-> nth_error w i = Some x) ->
  (forall ds, den tok (added G tok tmatch w start) (NSym tok start 0 (length w)) ds
              <-> exists d, ds = [d] /\ wfd G tok tmatch d (NT start) /\ yield tok d = w)
  /\ (forall F : nlabel tok -> family tok -> Prop,
        (forall lbl f, added G tok tmatch w start lbl f -> F lbl f) ->
        forall d, wfd G tok tmatch d (NT start) -> yield tok d = w ->
                  den tok F (NSym tok start 0 (length w)) [d]).
Proof.
  intros H. split.
  - exact (A_exact_chart G tok tmatch w start occurs H).
  - exact (A_complete_superset G tok tmatch w start occurs H).
Qed.
Print Assumptions C04_A_complete_partial.

(* Layer A for the executable model of lark's Earley parser.  Forest/ExplicitAlgBuild.v is the recogniser model
   Earley/Alg.v (LIFO worklist, to_scan, held completions; C01) instrumented with the add_family calls of the three
   call sites of earley.py, nodes being their node_cache keys.  (1) Erasing the log gives back Alg's run.
   (2) Every logged family is one of the specification relation `added`.  (3) When the run consumed the whole input,
   every family of `added` is logged - for a completion inside one column whichever of the two items is popped second
   adds it: the completer from the column, or the predictor from held_completions.  (4) Hence the model's forest
   stores exactly the derivation trees of the input, and contains every derivation tree whenever one exists.
   This closes the gap named in C04_A_complete_partial for the model; the model itself is tied to lark on every run
   by comparing the log of all SymbolNode.add_family calls of a real parse with the model's log (stream alg-families)
   and, in C01, the item sets of every column. *)
Theorem C04_A_alg_erasure G start toks : fst (iearley_parse G start toks) = earley_parse G start toks.
Proof. exact (iearley_erasure G start toks). Qed.
Print Assumptions C04_A_alg_erasure.

Theorem C04_A_alg_families_sound G start toks f :
  In f (snd (iearley_parse G start toks)) -> added G nat Nat.eqb toks start (fst f) (snd f).
Proof. exact (iearley_families_sound G start toks f). Qed.
Print Assumptions C04_A_alg_families_sound.

Theorem C04_A_alg_families_complete G start toks lbl f :
  r_out (fst (iearley_parse G start toks)) = Accept \/ r_out (fst (iearley_parse G start toks)) = RejectEOF ->
  added G nat Nat.eqb toks start lbl f -> In (lbl, f) (snd (iearley_parse G start toks)).
Proof. exact (iearley_families_complete G start toks lbl f). Qed.
Print Assumptions C04_A_alg_families_complete.

Theorem C04_A_exact G start toks :
  r_out (fst (iearley_parse G start toks)) = Accept \/ r_out (fst (iearley_parse G start toks)) = RejectEOF ->
  forall ds, den nat (in_forest nat (snd (iearley_parse G start toks))) (NSym nat start 0 (length toks)) ds
             <-> exists d, ds = [d] /\ wfd G nat Nat.eqb d (NT start) /\ yield nat d = toks.
Proof. exact (iearley_forest_exact G start toks). Qed.
Print Assumptions C04_A_exact.

Theorem C04_A_complete G start toks d :
  wfd G nat Nat.eqb d (NT start) -> yield nat d = toks ->
  r_out (fst (iearley_parse G start toks)) = Accept
  /\ den nat (in_forest nat (snd (iearley_parse G start toks))) (NSym nat start 0 (length toks)) [d].
Proof. exact (iearley_forest_complete G start toks d). Qed.
Print Assumptions C04_A_complete.

(* the same for any token type, matcher and prediction table (Alg's generality) *)
Theorem C04_A_exact_gen G predictions (tok : Type) tmatch start (w : list tok) occurs :
  (forall a r, In r (predictions a) -> In r G /\ Analysis_proofs.lc_reach G a (lhs r)) ->
  (forall a r, In r G -> lhs r = a -> In r (predictions a)) ->
  (forall x i, occurs x i = true <-> nth_error w i = Some x) ->
  r_out (fst (iparse G predictions tok tmatch start w)) = Accept
    \/ r_out (fst (iparse G predictions tok tmatch start w)) = RejectEOF ->
  forall ds, den tok (in_forest tok (snd (iparse G predictions tok tmatch start w))) (NSym tok start 0 (length w)) ds
             <-> exists d, ds = [d] /\ wfd G tok tmatch d (NT start) /\ yield tok d = w.
Proof. intros ps pd os. exact (model_forest_exact G predictions tok tmatch start w ps pd occurs os). Qed.
Print Assumptions C04_A_exact_gen.

(* non-vacuity: S -> S S | a on "aaa" (0 = S, terminal 0 = a): accepted, 13 add_family calls, and the two
   derivation trees are stored below the root *)
Definition exA_G : grammar := [mkRule 0 [NT 0; NT 0]; mkRule 0 [T 0]].
Example C04_A_example :
  r_out (fst (iearley_parse exA_G 0 [0; 0; 0])) = Accept
  /\ length (snd (iearley_parse exA_G 0 [0; 0; 0])) = 13
  /\ forest_okb exA_G nat Nat.eqb (fun _ => 1) (occurs_nat [0; 0; 0]) (snd (iearley_parse exA_G 0 [0; 0; 0])) = true.
Proof. repeat split; vm_compute; reflexivity. Qed.

(* Layer A for the dynamic lexers.  Forest/ExplicitDynBuild.v is the recogniser model Earley/Dyn.v (xearley.py; C01)
   instrumented with the add_family calls of xearley.scan - token nodes identified by (terminal, start, end), and the
   carry-over of items across %ignore-d text, which copies the packed children of the carried node into the node with
   the later end position (a completed start item only with origin 0) - and of the shared predict_and_complete.
   (1) Erasing the log gives back Dyn's run.
   (2) Soundness over the position graph of the text (tokedge t i j: terminal t matches text[i:j]; ign i j: an ignored
       terminal does): if every family has the local form dfam_ok - ignored text may precede a rule's first child and
       follow any child - then every tree stored below a node consists of rule applications whose leaves are token
       edges and whose leaf spans, joined by ignore paths, tile the node's span: it spells the input.  The decidable
       checker dfam_okb implies the local form.
   That every family logged by the model has that form is theorem (3) below (C04_A_dynamic_families_sound), so the
   soundness is unconditional for the model (C04_A_dynamic_model_sound); the model is tied to lark on every run by the
   stream dyn-families (log of all SymbolNode.add_family calls of real dynamic / dynamic_complete parses = the model's
   log, as sets, on recorded regex answers; the checker is also evaluated on the whole log against a position graph
   computed by re.fullmatch).  Completeness w.r.t. Dyn's chart over the position graph is proved for the families of
   predict_and_complete (C04_A_dynamic_complete_partial below); for the scanner's token families and the carry-over
   copies it stays with the stream and the derivation oracle of the ignore / acyclic streams. *)
Theorem C04_A_dynamic_erasure G start n rmatch rtrunc complete_lex ignore :
  fst (idyn_parse G start n rmatch rtrunc complete_lex ignore) = dyn_parse G start n rmatch rtrunc complete_lex ignore.
Proof. exact (dyn_erasure G (pred_lookup G (pred_table G)) start n rmatch rtrunc complete_lex ignore). Qed.
Print Assumptions C04_A_dynamic_erasure.

Theorem C04_A_dynamic_sound (G : grammar) tokedge ign (F : nlabel span -> family span -> Prop) :
  (forall lbl f, F lbl f -> dfam_ok G tokedge ign lbl f) ->
  forall lbl ds, den span F lbl ds -> dsound G tokedge ign lbl ds.
Proof. exact (dyn_sound_gen G tokedge ign F). Qed.
Print Assumptions C04_A_dynamic_sound.

(* in particular below a symbol node (a, i, j): one tree, a derivation of a, whose token spans and ignore paths tile i..j *)
Theorem C04_A_dynamic_sound_checked (G : grammar) te ig (fams : list (nlabel nat * family nat)) a i j ds :
  forallb (dfam_okb G te ig) fams = true ->
  den span (in_forest span (map span_fam fams)) (NSym span a i j) ds ->
  exists d, ds = [d] /\ dwfd G (tokedge_t te) d (NT a) /\ gtiles (tokedge_t te) (ign_t ig) i j (yield span d).
Proof. intros H Hd. exact (dyn_forest_sound G te ig fams H _ _ Hd). Qed.
Print Assumptions C04_A_dynamic_sound_checked.

(* (3) The invariant of the run: every family the instrumented dynamic model logs has that local form over the
   position graph of the run itself - token edge t i j iff j is one of the ends Dyn.ends_of puts into delayed_matches for
   terminal t tried at i, ignore edge i j iff an ignored terminal matches from i to j.  A token entry adds
   (advance item at i+1, (rule, node at the scan position, token node)) and the match table says the terminal matches
   from the scan position to i+1: a token edge; a carried entry copies the families of (s, start, scan position) to
   (s, start, i+1) along an ignore edge; predict_and_complete adds completer / held-completion families between chart
   items (Dyn_proofs.gchart), an item with the dot at the start having only been carried over ignored text since it
   was predicted.  Hence, unconditionally for the model: every tree stored below a node of its forest is built from
   rule applications, its leaves are token edges, and the leaf spans joined by ignore paths tile the node's span. *)
Theorem C04_A_dynamic_families_sound G start n rmatch rtrunc complete_lex ignore f :
  In f (snd (idyn_parse G start n rmatch rtrunc complete_lex ignore)) ->
  dfam_ok G (run_tokedge rmatch rtrunc complete_lex) (ign_edge rmatch ignore) (fst (span_fam f)) (snd (span_fam f)).
Proof. exact (idyn_families_sound G start n rmatch rtrunc complete_lex ignore f). Qed.
Print Assumptions C04_A_dynamic_families_sound.

Theorem C04_A_dynamic_model_sound G start n rmatch rtrunc complete_lex ignore a i j ds :
  den span (in_forest span (map span_fam (snd (idyn_parse G start n rmatch rtrunc complete_lex ignore)))) (NSym span a i j) ds ->
  exists d, ds = [d] /\ dwfd G (run_tokedge rmatch rtrunc complete_lex) d (NT a)
            /\ gtiles (run_tokedge rmatch rtrunc complete_lex) (ign_edge rmatch ignore) i j (yield span d).
Proof. exact (idyn_model_sound_root G start n rmatch rtrunc complete_lex ignore a i j ds). Qed.
Print Assumptions C04_A_dynamic_model_sound.

(* Completeness for the dynamic model, _partial: the families of predict_and_complete.  For every column the run
   builds, every completion between two items of the chart over the position graph (Dyn_proofs.gchart: originator y in
   column i expecting a, completed item x of a in column k with origin i) has its family
   (label of advance y at k, (rule, node of y at i, (a, i, k))) in the log - inside one column whichever of the two is
   popped second adds it - and every completed empty rule has its (None, None) family.  Not proved: that the token
   family of every scan step and every copy made by the carry-over is logged (it needs the delayed_matches invariant of
   Dyn_proofs lifted to the instrumented entries, and the copy is of the first family per (left, right) only); the
   dyn-families stream compares exactly these sets with lark on every run. *)
Theorem C04_A_dynamic_complete_partial G start n rmatch rtrunc complete_lex ignore :
  fwd rmatch rtrunc ->
  (forall i k y x a,
      gchart G start rmatch rtrunc complete_lex ignore i y -> expect y = Some (NT a) ->
      gchart G start rmatch rtrunc complete_lex ignore k x -> expect x = None -> orig x = i -> lhs (irule x) = a ->
      k < length (d_cols (fst (idyn_parse G start n rmatch rtrunc complete_lex ignore))) ->
      In (comp_fam nat k i a y) (snd (idyn_parse G start n rmatch rtrunc complete_lex ignore)))
  /\ (forall k x,
      gchart G start rmatch rtrunc complete_lex ignore k x -> expect x = None -> dot x = 0 ->
      k < length (d_cols (fst (idyn_parse G start n rmatch rtrunc complete_lex ignore))) ->
      In (NSym nat (lhs (irule x)) (orig x) k, (irule x, None, None))
         (snd (idyn_parse G start n rmatch rtrunc complete_lex ignore))).
Proof.
  intros Hf. split.
  - exact (idyn_completion_families G start n rmatch rtrunc complete_lex ignore Hf).
  - exact (idyn_empty_families G start n rmatch rtrunc complete_lex ignore Hf).
Qed.
Print Assumptions C04_A_dynamic_complete_partial.

(* Completeness of the scanner's bookkeeping in the dynamic model (delayed_matches invariant lifted to the instrumented
   entries): for every column the run builds,
   - every chart item advanced over a token edge has its token family
     (label of advance x at j, (rule, node of x at k, token node (t, k, j))) in the log;
   - every carry-over (a to_scan item, or a completed start item, carried along an ignore edge k -> j) has copied the
     packed children of the carried node (s, start, k) to (s, start, j).  What lark copies is node.children, i.e. the
     first family per (left, right) - PackedNode equality ignores the rule -, so the statement is modulo that
     equality: for every family f logged under (s, start, k) there is a family f0 under the same label with the same
     (left, right) whose (rule, left, right) is logged under (s, start, j).
   Together with C04_A_dynamic_complete_partial (completions, empty rules) every add_family call site of the dynamic
   parser is covered; the assembly into tree-level exactness is C04_A_dynamic_exact below. *)
Theorem C04_A_dynamic_scan_complete G start n rmatch rtrunc complete_lex ignore :
  fwd rmatch rtrunc ->
  (forall k x t j,
      gchart G start rmatch rtrunc complete_lex ignore k x -> expect x = Some (T t) ->
      In j (ends_of rmatch rtrunc complete_lex t k) ->
      j < length (d_cols (fst (idyn_parse G start n rmatch rtrunc complete_lex ignore))) ->
      In (tok_fam x k t j) (snd (idyn_parse G start n rmatch rtrunc complete_lex ignore)))
  /\ (forall k x j f,
      gchart G start rmatch rtrunc complete_lex ignore k x -> is_term_item x = true \/ is_solution start x = true ->
      ign_edge rmatch ignore k j ->
      j < length (d_cols (fst (idyn_parse G start n rmatch rtrunc complete_lex ignore))) -> has_node x ->
      In f (snd (idyn_parse G start n rmatch rtrunc complete_lex ignore)) -> fst f = node_label x k ->
      exists f0, fst f0 = node_label x k /\ same_children f f0 = true
                 /\ In (node_label x j, snd f0) (snd (idyn_parse G start n rmatch rtrunc complete_lex ignore))).
Proof.
  intros Hf. split.
  - exact (idyn_token_families G start n rmatch rtrunc complete_lex ignore Hf).
  - exact (idyn_carry_copies G start n rmatch rtrunc complete_lex ignore Hf).
Qed.
Print Assumptions C04_A_dynamic_scan_complete.

(* packed_dedup_safe: a node's packed children are a set under PackedNode equality, which compares (left, right) and
   ignores the rule.  For families of the local form this loses nothing: label, left and right determine the rule (an
   intermediate left child names it; without one the rule is the node's symbol -> the right child's symbol, or the
   empty rule of the symbol).  Hence the carry-over, which copies node.children = the first family per (left, right),
   copies every family. *)
Theorem C04_A_packed_dedup_safe (G : grammar) tokedge ign lbl r1 r2 l rt :
  dfam_ok G tokedge ign lbl (r1, l, rt) -> dfam_ok G tokedge ign lbl (r2, l, rt) -> r1 = r2.
Proof. exact (packed_dedup_safe G tokedge ign lbl r1 r2 l rt). Qed.
Print Assumptions C04_A_packed_dedup_safe.

(* Tree-level exactness for the dynamic lexers (the former C04_A_dynamic_exact_full_statement, kept below, follows).
   Over the run's own position graph - token edge (t, i, j) iff j is one of the ends xearley.scan explores for terminal
   t at i (the regex engine's match; with complete_lex also the matches on its truncations, which is where finding F7
   lives: the graph is what the scanner explores, not all matches), ignore edge iff an %ignore terminal matches -
   the trees stored below the root (start, 0, n) of the model's forest are exactly the derivation trees of the start
   symbol whose leaves are token edges and whose leaf spans, joined by ignore paths, tile 0..n.  The only hypothesis
   is fwd (the engine returns no empty match); the outcome of the run is not assumed: a derivation tree forces
   acceptance (C04_A_dynamic_complete).  Proof: the tree is walked left to right along Dyn's chart; an item waiting for
   a terminal is carried along the ignore path in front of the token (every step copies the node's families:
   C04_A_dynamic_scan_complete + packed_dedup_safe), the token family advances it; a non-terminal child is predicted
   where the item stands, built recursively, and completed (C04_A_dynamic_complete_partial); the finished start item
   is carried over the trailing ignore path. *)
Theorem C04_A_dynamic_exact G start n rmatch rtrunc complete_lex ignore :
  fwd rmatch rtrunc ->
  forall ds,
    den span (in_forest span (map span_fam (snd (idyn_parse G start n rmatch rtrunc complete_lex ignore))))
        (NSym span start 0 n) ds
    <-> exists d, ds = [d] /\ dwfd G (run_tokedge rmatch rtrunc complete_lex) d (NT start)
                  /\ gtiles (run_tokedge rmatch rtrunc complete_lex) (ign_edge rmatch ignore) 0 n (yield span d).
Proof. exact (idyn_forest_exact G start n rmatch rtrunc complete_lex ignore). Qed.
Print Assumptions C04_A_dynamic_exact.

Theorem C04_A_dynamic_complete G start n rmatch rtrunc complete_lex ignore d :
  fwd rmatch rtrunc ->
  dwfd G (run_tokedge rmatch rtrunc complete_lex) d (NT start) ->
  gtiles (run_tokedge rmatch rtrunc complete_lex) (ign_edge rmatch ignore) 0 n (yield span d) ->
  d_out (fst (idyn_parse G start n rmatch rtrunc complete_lex ignore)) = DAccept
  /\ den span (in_forest span (map span_fam (snd (idyn_parse G start n rmatch rtrunc complete_lex ignore))))
         (NSym span start 0 n) [d].
Proof. intros Hf. exact (idyn_forest_complete G start n rmatch rtrunc complete_lex ignore Hf d). Qed.
Print Assumptions C04_A_dynamic_complete.

Definition C04_A_dynamic_exact_full_statement : Prop :=
  forall G start n rmatch rtrunc complete_lex ignore,
    fwd rmatch rtrunc ->
    d_out (fst (idyn_parse G start n rmatch rtrunc complete_lex ignore)) = DAccept ->
    forall ds,
      den span (in_forest span (map span_fam (snd (idyn_parse G start n rmatch rtrunc complete_lex ignore))))
          (NSym span start 0 n) ds
      <-> exists d, ds = [d] /\ dwfd G (run_tokedge rmatch rtrunc complete_lex) d (NT start)
                    /\ gtiles (run_tokedge rmatch rtrunc complete_lex) (ign_edge rmatch ignore) 0 n (yield span d).

Theorem C04_A_dynamic_exact_closed : C04_A_dynamic_exact_full_statement.
Proof. intros G start n rmatch rtrunc complete_lex ignore Hf _. exact (idyn_forest_exact G start n rmatch rtrunc complete_lex ignore Hf). Qed.
Print Assumptions C04_A_dynamic_exact_closed.

(* fwd is needed.  start: E A | A with E matching the empty string at 0 and A matching 0..1, text of length 1: the
   position graph has the token edge (E, 0, 0), the tree start(E@0..0, A@0..1) is a derivation over the graph that
   tiles 0..1, the run accepts (through start: A) - and the tree is not stored: delayed_matches[0] is never read once
   column 0 exists.  lark raises GrammarError for zero-width terminals under the dynamic lexers. *)
Theorem C04_A_dynamic_exact_fwd_refuted :
  let G := [fx_r1; fx_r2] in
  let rt := fun _ _ _ : nat => @None nat in
  let run := idyn_parse G 0 1 fx_rm rt false [] in
  ~ fwd fx_rm rt
  /\ d_out (fst run) = DAccept
  /\ dwfd G (run_tokedge fx_rm rt false) fx_d (NT 0)
  /\ gtiles (run_tokedge fx_rm rt false) (ign_edge fx_rm []) 0 1 (yield span fx_d)
  /\ ~ den span (in_forest span (map span_fam (snd run))) (NSym span 0 0 1) [fx_d].
Proof. exact dyn_exact_fwd_refuted. Qed.
Print Assumptions C04_A_dynamic_exact_fwd_refuted.

(* non-vacuity: start: X with %ignore " " on "x " (terminal 0 = X matches 0..1, terminal 1 = the ignored blank matches
   1..2): accepted; the family of (start, 0, 1) is copied to (start, 0, 2) by the carry-over; all families have the
   local form, so the tree below (start, 0, 2) spells "x " *)
Definition exD_rm (t i : nat) : option nat :=
  match t, i with 0, 0 => Some 1 | 1, 1 => Some 2 | _, _ => None end.
Example C04_A_dynamic_example :
  let r := idyn_parse [mkRule 0 [T 0]] 0 2 exD_rm (fun _ _ _ => None) false [1] in
  d_out (fst r) = DAccept
  /\ snd r = [(NSym nat 0 0 1, (mkRule 0 [T 0], None, Some (NTok nat 0 0 0 1)));
              (NSym nat 0 0 2, (mkRule 0 [T 0], None, Some (NTok nat 0 0 0 1)))]
  /\ forallb (dfam_okb [mkRule 0 [T 0]] [(0, 0, 1)] [(1, 2)]) (snd r) = true.
Proof. repeat split; vm_compute; reflexivity. Qed.

(* ... and by exactness the one tree start(X@0..1) is stored below the root (start, 0, 2), the trailing blank being
   absorbed by the carry-over of the finished start item *)
Lemma exD_fwd : fwd exD_rm (fun _ _ _ => None).
Proof.
  split; [|intros; discriminate].
  intros [|[|t]] [|[|i]] j H; simpl in H; inversion H; auto.
Qed.
Example C04_A_dynamic_exact_example :
  let G := [mkRule 0 [T 0]] in
  let run := idyn_parse G 0 2 exD_rm (fun _ _ _ => None) false [1] in
  forall ds, den span (in_forest span (map span_fam (snd run))) (NSym span 0 0 2) ds
             <-> ds = [DN span (mkRule 0 [T 0]) [DL span 0 (0, 1)]].
Proof.
  cbv zeta. intros ds. rewrite (C04_A_dynamic_exact _ _ _ _ _ _ _ exD_fwd). split.
  - intros (d & -> & Hw & Ht). f_equal.
    destruct d as [t x|r ks]; [apply dwfd_leaf_inv in Hw; destruct Hw; discriminate|].
    apply dwfd_node_inv in Hw. destruct Hw as (_ & [<- |[]] & HF). cbn [rhs] in HF.
    destruct ks as [|k [|k2 ks]]; [inversion HF| |inversion HF as [|? ? ? ? ? HF2]; inversion HF2]. f_equal.
    assert (Hk : dwfd [mkRule 0 [T 0]] (run_tokedge exD_rm (fun _ _ _ => None) false) k (T 0)) by (inversion HF; auto).
    destruct k as [t [m e]|r ks]; [|apply dwfd_node_inv in Hk; destruct Hk; discriminate].
    apply dwfd_leaf_inv in Hk. destruct Hk as (Et & He). inversion Et. subst t. cbn [fst snd] in He.
    unfold run_tokedge in He. rewrite ends_spec in He.
    destruct He as (e0 & Hm & [-> |(Hc & _)]); [|discriminate].
    destruct m as [|[|m]]; simpl in Hm; inversion Hm. reflexivity.
  - intros ->. eexists. split; [reflexivity|]. split.
    + apply (dwfd_node _ _ (mkRule 0 [T 0])); [left; reflexivity|]. repeat constructor; unfold run_tokedge; vm_compute; auto.
    + simpl. apply gt_cons with (m := 0) (e := 1); [constructor|exists 0; unfold run_tokedge; vm_compute; auto|].
      constructor. apply gap_step with (m := 2); [|constructor]. exists 1. split; [left; reflexivity|reflexivity].
Qed.

(* Layer B on cyclic forests (cyclic grammars).  Forest/ExplicitGraph.v models the explicit-mode walk of
   ForestToParseTree on the SPPF as a numbered graph: a child already on the path is not entered (on_cycle), a packed
   node is kept iff both children are kept, a symbol / intermediate node iff one of its packed children is, once the
   left child is not kept the right one contributes nothing (it is entered in retreat), and the transformation of a kept
   packed node is cached by identity and reused under other paths.  The model computes the kept part as an acyclic
   forest (gunfold) and the tree as to_tree_explicit of it; lark's tree is compared with it exactly on every cyclic
   forest of the streams cyclic-corpus / cyclic.
   C04_B_cyclic_sound: for a graph of the local form gwfb (evaluated on every exported graph), the kept part is a
   well-formed forest (root_okb), so C04_B_expand_exact applies to it - the alternatives of the returned tree are exactly
   the shapes of the derivations of the kept part - and each of those is a finite unfolding of the graph (gder): every
   returned alternative is the shape of a derivation stored in the forest, which by C04_A_sound tiles the input.
   C04_B_cyclic_total: the model's fuel |g| + 1 always suffices (the path is duplicate-free); termination of the coded
   loop for any callbacks is C20_visit_terminates / C20_loop_eq_rec. *)
Theorem C04_B_cyclic_sound g root nd :
  gwfb g = true -> groot_okb g root = true -> gunfold g root = Some (Some nd) ->
  root_okb nd = true
  /\ (forall t, In t (expand (to_tree_explicit nd)) <-> In t (map shape (derivs nd)))
  /\ (forall d, In d (derivs nd) -> gder g root [d]).
Proof. intros Hw. exact (graph_explicit_sound g Hw root nd). Qed.
Print Assumptions C04_B_cyclic_sound.

Theorem C04_B_cyclic_total g root : gwfb g = true -> root < length g -> gunfold g root <> None.
Proof. intros Hw. exact (gunfold_total g Hw root). Qed.
Print Assumptions C04_B_cyclic_total.

(* What is kept on a cyclic forest is not "the derivations in which no node repeats on a path" (sder), in either
   direction, and depends on the order of the alternatives: the packed-node cache is filled under the path of the first
   visit and reused under other paths.  Witnesses (forests lark builds on "a", exported by the harness; stream
   cyclic-corpus compares lark's trees with cx_tree / cx_tree2 through the model):
     start: a | x   a: x | A   x: y   y: a | A    3 alternatives; start(x(y(a))) repeats no node and is lost
     start: x | a   (same otherwise)              5 alternatives; start(a(x(y(a)))) passes through a twice and is kept
   Soundness is not affected (C04_B_cyclic_sound); the property claims exactness for acyclic grammars only. *)
Definition C04_B_cyclic_cycle_free_exact_full_statement : Prop :=
  forall g root nd, gwfb g = true -> groot_okb g root = true -> gunfold g root = Some (Some nd) ->
    forall d, In d (derivs nd) <-> sder g [] root [d].

Theorem C04_B_cyclic_cycle_free_exact_refuted :
  (gwfb cx_g = true /\ groot_okb cx_g 0 = true /\
   exists nd, gunfold cx_g 0 = Some (Some nd) /\ to_tree_explicit nd = cx_tree /\ length (derivs nd) = 3 /\
              sder cx_g [] 0 [cx_lost] /\ ~ In cx_lost (derivs nd))
  /\
  (gwfb cx_g2 = true /\ groot_okb cx_g2 0 = true /\
   exists nd, gunfold cx_g2 0 = Some (Some nd) /\ to_tree_explicit nd = cx_tree2 /\ length (derivs nd) = 5 /\
              In cx_pumped (derivs nd) /\ ~ sder cx_g2 [] 0 [cx_pumped]).
Proof. exact cyclic_kept_is_order_dependent. Qed.
Print Assumptions C04_B_cyclic_cycle_free_exact_refuted.

(* Tie by regeneration.  translator/gen_explicit.py pins, by fail-closed source templates, the bodies of
   ForestToParseTree.on_cycle, _check_cycle, visit_symbol_node_in, visit_packed_node_in / _out, transform_symbol_node,
   transform_intermediate_node, transform_packed_node, _call_ambig_func, _collapse_ambig, visit, of
   ForestTransformer._visit_node_out_helper and of PackedData.__init__, and regenerates their conditions into
   Gen/ExplicitWalk.v on every run.  The conditions the hand models build in are equal to the regenerated ones: for the
   walk over cyclic forests (Forest/ExplicitGraph.v) and for the tree construction (Forest/ExplicitToTree.v). *)
Theorem C04_walk_conditions_are_source :
  on_cycle_sets_retreat = true
  /\ retreat_stops false false = false
  /\ (forall c, retreat_stops c true = true)
  /\ (forall r, sym_in_skips r = r)
  /\ (forall ps, packed_in_visits false ps = true)
  /\ (forall cached, packed_in_uncached true cached = negb cached)
  /\ (forall r, packed_out_marks r = negb r).
Proof. exact walk_conditions_are_source. Qed.
Print Assumptions C04_walk_conditions_are_source.

Theorem C04_tree_conditions_are_source :
  iambig_above = 1 /\ ambig_above = 1
  /\ (forall x, call_ambig [x] = x)
  /\ (forall x y l, call_ambig (x :: y :: l) = Nd AMBIG (x :: y :: l))
  /\ (forall li ll, left_spliced li ll = li && ll).
Proof. exact tree_conditions_are_source. Qed.
Print Assumptions C04_tree_conditions_are_source.

(* Non-vacuity: the forest lark builds for
     start: _i q _i     _i: A | A A     ?q: A? "a"     A: "a"          on "aaaa" (dynamic lexer)
   (exported by the harness) satisfies the hypothesis, its explicit tree is lark's tree, and its three
   expansions are the shapes of its three derivations. *)
Definition ex_r0 := mkX "start"%string "start"%string false false false [(mkSym "_i"%string false false); (mkSym "q"%string false false); (mkSym "_i"%string false false)] [].
Definition ex_r1 := mkX "_i"%string "_i"%string false false false [(mkSym "A"%string true false); (mkSym "A"%string true false)] [].
Definition ex_r2 := mkX "q"%string "q"%string false true false [(mkSym "A"%string true true)] [].
Definition ex_r3 := mkX "_i"%string "_i"%string false false false [(mkSym "A"%string true false)] [].
Definition ex_r4 := mkX "q"%string "q"%string false true false [(mkSym "A"%string true false); (mkSym "A"%string true true)] [].
Definition ex_forest : node :=
  (SymN (LSym "start"%string) [(Pack ex_r0 (Some (SymN (LInter ex_r0 2%nat) [(Pack ex_r0 (Some (SymN (LInter ex_r0 1%nat) [(Pack ex_r0 None (Some (SymN (LSym "_i"%string) [(Pack ex_r1 (Some (SymN (LInter ex_r1 1%nat) [(Pack ex_r1 None (Some (TokN "A"%string "a"%string)))])) (Some (TokN "A"%string "a"%string)))])))])) (Some (SymN (LSym "q"%string) [(Pack ex_r2 None (Some (TokN "A"%string "a"%string)))]))); (Pack ex_r0 (Some (SymN (LInter ex_r0 1%nat) [(Pack ex_r0 None (Some (SymN (LSym "_i"%string) [(Pack ex_r3 None (Some (TokN "A"%string "a"%string)))])))])) (Some (SymN (LSym "q"%string) [(Pack ex_r4 (Some (SymN (LInter ex_r4 1%nat) [(Pack ex_r4 None (Some (TokN "A"%string "a"%string)))])) (Some (TokN "A"%string "a"%string)))])))])) (Some (SymN (LSym "_i"%string) [(Pack ex_r3 None (Some (TokN "A"%string "a"%string)))]))); (Pack ex_r0 (Some (SymN (LInter ex_r0 2%nat) [(Pack ex_r0 (Some (SymN (LInter ex_r0 1%nat) [(Pack ex_r0 None (Some (SymN (LSym "_i"%string) [(Pack ex_r3 None (Some (TokN "A"%string "a"%string)))])))])) (Some (SymN (LSym "q"%string) [(Pack ex_r2 None (Some (TokN "A"%string "a"%string)))])))])) (Some (SymN (LSym "_i"%string) [(Pack ex_r1 (Some (SymN (LInter ex_r1 1%nat) [(Pack ex_r1 None (Some (TokN "A"%string "a"%string)))])) (Some (TokN "A"%string "a"%string)))])))]).
Definition ex_tree : tree :=
  (Nd "_ambig"%string [(Nd "start"%string [(Tk "A"%string "a"%string); (Tk "A"%string "a"%string); (Nd "q"%string []); (Tk "A"%string "a"%string)]); (Nd "start"%string [(Tk "A"%string "a"%string); (Tk "A"%string "a"%string); (Tk "A"%string "a"%string)]); (Nd "start"%string [(Tk "A"%string "a"%string); (Nd "q"%string []); (Tk "A"%string "a"%string); (Tk "A"%string "a"%string)])]).

Example C04_example :
  root_okb ex_forest = true /\ to_tree_explicit ex_forest = ex_tree /\ length (expand ex_tree) = 3
  /\ expand ex_tree = map shape (derivs ex_forest).
Proof. repeat split; vm_compute; reflexivity. Qed.
