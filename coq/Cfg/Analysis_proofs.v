(* Proofs about Cfg/Analysis.v: expand_rule terminates within its fuel and computes exactly the rules of
   the non-terminals reachable through first symbols (left-corner closure). *)
From Coq Require Import List Arith Bool Lia.
From LV Require Import Cfg.Grammar Cfg.Analysis.
Import ListNotations.

Lemma NoDup_snoc {A} (l : list A) (x : A) : NoDup l -> ~ In x l -> NoDup (l ++ [x]).
Proof.
  induction 1 as [|y l Hy ND IH]; intros Hx; simpl.
  - repeat constructor. intros [].
  - constructor.
    + rewrite in_app_iff. simpl. intros [?|[->|[]]]; auto. apply Hx; left; auto.
    + apply IH. intros ?; apply Hx; right; auto.
Qed.

Section LC.
  Variable G : grammar.

  (* b is reachable from a by repeatedly taking the first symbol of a rule *)
  Inductive lc_reach (a : nat) : nat -> Prop :=
  | lc_refl : lc_reach a a
  | lc_step b r c rest : lc_reach a b -> In r G -> lhs r = b -> rhs r = NT c :: rest -> lc_reach a c.

  Lemma rules_by_origin_In a r : In r (rules_by_origin G a) <-> In r G /\ lhs r = a.
  Proof.
    unfold rules_by_origin. rewrite filter_In. split; intros [H1 H2]; split; auto.
    - apply Nat.eqb_eq; auto.
    - apply Nat.eqb_eq; auto.
  Qed.

  Lemma first_nt_In r c : In c (first_nt r) <-> exists rest, rhs r = NT c :: rest.
  Proof.
    unfold first_nt. destruct (rhs r) as [|[t|b] rest]; simpl.
    - split; [tauto | intros (x & H); discriminate].
    - split; [tauto | intros (x & H); discriminate].
    - split.
      + intros [H|[]]; subst. eauto.
      + intros (x & H); inversion H; auto.
  Qed.

  (* ---- the two folds of one bfs round ---- *)
  Lemma visit_spec l : forall o v o' v',
    fold_left bfs_visit l (o, v) = (o', v') ->
    incl o o' /\ incl v v' /\ (forall b, In b l -> In b v') /\
    (forall b, In b v' -> In b v \/ (In b l /\ In b o')) /\
    (forall b, In b o' -> In b o \/ In b v') /\
    (NoDup v -> NoDup v') /\
    length o' + length v = length o + length v'.
  Proof.
    induction l as [|b l IH]; intros o v o' v' H; simpl in H.
    - inversion H; subst. repeat split; auto using incl_refl; try tauto. intros b [].
    - unfold bfs_visit at 2 in H. cbn [fst snd] in H.
      destruct (in_dec Nat.eq_dec b v) as [Hin|Hnin].
      + destruct (IH _ _ _ _ H) as (A & B & C & D & E & F & L). repeat split; auto.
        * intros c [->|Hc]; auto.
        * intros c Hc. destruct (D c Hc) as [?|[? ?]]; auto. right; split; auto. right; auto.
      + destruct (IH _ _ _ _ H) as (A & B & C & D & E & F & L). repeat split.
        * intros x Hx. apply A, in_or_app; auto.
        * intros x Hx. apply B, in_or_app; auto.
        * intros c [->|Hc]; auto. apply B, in_or_app; right; left; auto.
        * intros c Hc. destruct (D c Hc) as [Hv|[? ?]].
          -- apply in_app_or in Hv. destruct Hv as [?|[->|[]]]; auto.
             right; split; [left; auto|]. apply A, in_or_app; right; left; auto.
          -- right; split; auto. right; auto.
        * intros c Hc. destruct (E c Hc) as [Ho|?]; auto.
          apply in_app_or in Ho. destruct Ho as [?|[->|[]]]; auto.
          right. apply B, in_or_app; right; left; auto.
        * intros ND. apply F. apply NoDup_snoc; auto.
        * rewrite !app_length in L. simpl in L. lia.
  Qed.

  Lemma rule_add_spec rs : forall acc r, In r (fold_left rule_add rs acc) <-> In r acc \/ In r rs.
  Proof.
    induction rs as [|x rs IH]; intros acc r; simpl.
    - tauto.
    - rewrite IH. unfold rule_add. destruct (in_dec rule_eq_dec x acc) as [Hin|Hnin].
      + split; [tauto|]. intros [?|[->|?]]; auto.
      + rewrite in_app_iff. simpl. tauto.
  Qed.

  Variable a0 : nat.
  Let U := a0 :: flat_map first_nt G.

  Definition expanded (visited : list nat) (acc : list rule) (b : nat) : Prop :=
    forall r, In r G -> lhs r = b -> In r acc /\ forall c, In c (first_nt r) -> In c visited.

  Definition bfs_inv (open visited : list nat) (acc : list rule) : Prop :=
    NoDup visited /\ incl visited U /\ incl open visited /\
    (forall b, In b visited -> lc_reach a0 b) /\
    (forall r, In r acc -> In r G /\ lc_reach a0 (lhs r)) /\
    (forall b, In b visited -> In b open \/ expanded visited acc b).

  Lemma bfs_spec fuel : forall open visited acc,
    bfs_inv open visited acc ->
    length U + length open <= fuel + length visited ->
    exists acc' visited',
      bfs G fuel open visited acc = Some acc' /\ incl visited visited' /\
      (forall r, In r acc' -> In r G /\ lc_reach a0 (lhs r)) /\
      (forall b, In b visited' -> expanded visited' acc' b).
  Proof.
    induction fuel as [|f IH]; intros open visited acc (ND & HU & HO & HR & HA & HE) Hlen.
    - assert (length visited <= length U) by (apply NoDup_incl_length; auto).
      destruct open as [|a open']; [|unfold U in *; simpl in *; lia].
      exists acc, visited. simpl. split; [|split; [|split]]; auto using incl_refl.
      intros b Hb. destruct (HE b Hb) as [[]|]; auto.
    - destruct open as [|a open'].
      + exists acc, visited. simpl. split; [|split; [|split]]; auto using incl_refl.
        intros b Hb. destruct (HE b Hb) as [[]|]; auto.
      + cbn [bfs].
        destruct (fold_left bfs_visit (flat_map first_nt (rules_by_origin G a)) (open', visited)) as [o' v'] eqn:EV.
        cbn [fst snd].
        destruct (visit_spec _ _ _ _ _ EV) as (A & B & C & D & E & F & L).
        assert (Ha : lc_reach a0 a) by (apply HR, HO; left; auto).
        destruct (IH o' v' (fold_left rule_add (rules_by_origin G a) acc)) as (acc' & vis' & E1 & E2 & E3 & E4);
          [| | exists acc', vis'; split; [exact E1 | split; [intros x Hx; apply E2, B; auto | split; assumption]]].
        * assert (I1 : NoDup v') by auto.
          assert (I2 : incl v' U).
          { intros b Hb. destruct (D b Hb) as [?|[Hl _]]; auto.
            apply in_flat_map in Hl. destruct Hl as (r & Hr & Hc).
            apply rules_by_origin_In in Hr. right. apply in_flat_map. exists r; tauto. }
          assert (I3 : incl o' v').
          { intros b Hb. destruct (E b Hb) as [?|?]; auto. apply B, HO. right; auto. }
          assert (I4 : forall b, In b v' -> lc_reach a0 b).
          { intros b Hb. destruct (D b Hb) as [?|[Hl _]]; auto.
            apply in_flat_map in Hl. destruct Hl as (r & Hr & Hc).
            apply rules_by_origin_In in Hr. apply first_nt_In in Hc. destruct Hc as (rest & Hc).
            eapply lc_step; eauto; tauto. }
          assert (I5 : forall r, In r (fold_left rule_add (rules_by_origin G a) acc) -> In r G /\ lc_reach a0 (lhs r)).
          { intros r H. apply rule_add_spec in H. destruct H as [?|Hr]; [apply HA; auto|].
            apply rules_by_origin_In in Hr. destruct Hr as [? ->]; auto. }
          assert (I6 : forall b, In b v' -> In b o' \/ expanded v' (fold_left rule_add (rules_by_origin G a) acc) b).
          { intros b Hb.
            assert (Hexp_a : expanded v' (fold_left rule_add (rules_by_origin G a) acc) a).
            { intros r Hr Hl. split.
              - apply rule_add_spec. right. apply rules_by_origin_In; auto.
              - intros c Hc. apply C. apply in_flat_map. exists r. split; auto.
                apply rules_by_origin_In; auto. }
            destruct (D b Hb) as [Hv|[_ Ho]]; auto.
            destruct (HE b Hv) as [[->|Ho]|Hx]; auto.
            right. intros r Hr Hl. destruct (Hx r Hr Hl) as [X1 X2]. split.
            - apply rule_add_spec; auto.
            - intros c Hc. apply B; auto. }
          exact (conj I1 (conj I2 (conj I3 (conj I4 (conj I5 I6))))).
        * unfold U in *; simpl in *. lia.
  Qed.

  Lemma bfs_inv_init : bfs_inv [a0] [a0] [].
  Proof.
    repeat split.
    - repeat constructor. intros [].
    - intros b [->|[]]. left; auto.
    - apply incl_refl.
    - intros b [->|[]]. constructor.
    - destruct H.
    - destruct H.
    - intros b [->|[]]. left; left; auto.
  Qed.

  Lemma expand_rule_spec :
    exists l, expand_rule G a0 = Some l /\
              forall r, In r l <-> In r G /\ lc_reach a0 (lhs r).
  Proof.
    destruct (bfs_spec (bfs_fuel G) [a0] [a0] [] bfs_inv_init) as (acc & vis & E & Hinc & Hs & Hc).
    { unfold bfs_fuel, U. simpl. lia. }
    exists acc. split; auto. intros r. split; [apply Hs|].
    intros [Hr Hreach].
    assert (Hv : forall b, lc_reach a0 b -> In b vis).
    { induction 1 as [|b r' c rest Hb IHb Hr' Hl Hrhs].
      - apply Hinc; left; auto.
      - apply (Hc b IHb r' Hr' Hl). apply first_nt_In; eauto. }
    apply (Hc _ (Hv _ Hreach) r Hr eq_refl).
  Qed.
End LC.

Theorem expand_rule_total G a : exists l, expand_rule G a = Some l.
Proof. destruct (expand_rule_spec G a) as (l & H & _); eauto. Qed.

(* Parser.predictions[a] = the rules of every non-terminal reachable from a through first symbols *)
Theorem predictions_spec G a r : In r (predictions G a) <-> In r G /\ lc_reach G a (lhs r).
Proof.
  unfold predictions. destruct (expand_rule_spec G a) as (l & -> & H). apply H.
Qed.

Corollary predictions_direct G a r : In r G -> lhs r = a -> In r (predictions G a).
Proof. intros H <-. apply predictions_spec. split; auto. constructor. Qed.
