(* Proofs about Cfg/Analysis.v: expand_rule terminates within its fuel and computes exactly the rules of
   the non-terminals reachable through first symbols (left-corner closure). *)
From Coq Require Import List Arith Bool Lia.
From LV Require Import Cfg.Grammar Cfg.Analysis.
Import ListNotations.

Lemma NoDup_snoc {A} (l : list A) (x : A) : NoDup l -> ~ In x l -> NoDup (l ++ [x]).
Proof.
  induction 1 as [|y l Hy ND IH]; intros Hx; simpl.
  - repeat constructor. intros [].
  - constructor.
    + rewrite in_app_iff. simpl. intros [?|[->|[]]]; auto. apply Hx; left; auto.
    + apply IH. intros ?; apply Hx; right; auto.
Qed.

Section LC.
  Variable G : grammar.

  (* b is reachable from a by repeatedly taking the first symbol of a rule *)
  Inductive lc_reach (a : nat) : nat -> Prop :=
  | lc_refl : lc_reach a a
  | lc_step b r c rest : lc_reach a b -> In r G -> lhs r = b -> rhs r = NT c :: rest -> lc_reach a c.

  Lemma rules_by_origin_In a r : In r (rules_by_origin G a) <-> In r G /\ lhs r = a.
  Proof.
    unfold rules_by_origin. rewrite filter_In. split; intros [H1 H2]; split; auto.
    - apply Nat.eqb_eq; auto.
    - apply Nat.eqb_eq; auto.
  Qed.

  Lemma first_nt_In r c : In c (first_nt r) <-> exists rest, rhs r = NT c :: rest.
  Proof.
    unfold first_nt. destruct (rhs r) as [|[t|b] rest]; simpl.
    - split; [tauto | intros (x & H); discriminate].
    - split; [tauto | intros (x & H); discriminate].
    - split.
      + intros [H|[]]; subst. eauto.
      + intros (x & H); inversion H; auto.
  Qed.

  (* ---- the two folds of one bfs round ---- *)
  Lemma visit_spec l : forall o v o' v',
    fold_left bfs_visit l (o, v) = (o', v') ->
    incl o o' /\ incl v v' /\ (forall b, In b l -> In b v') /\
    (forall b, In b v' -> In b v \/ (In b l /\ In b o')) /\
    (forall b, In b o' -> In b o \/ In b v') /\
    (NoDup v -> NoDup v') /\
    length o' + length v = length o + length v'.
  Proof.
    induction l as [|b l IH]; intros o v o' v' H; simpl in H.
    - inversion H; subst. repeat split; auto using incl_refl; try tauto. intros b [].
    - unfold bfs_visit at 2 in H. cbn [fst snd] in H.
      destruct (in_dec Nat.eq_dec b v) as [Hin|Hnin].
      + destruct (IH _ _ _ _ H) as (A & B & C & D & E & F & L). repeat split; auto.
        * intros c [->|Hc]; auto.
        * intros c Hc. destruct (D c Hc) as [?|[? ?]]; auto. right; split; auto. right; auto.
      + destruct (IH _ _ _ _ H) as (A & B & C & D & E & F & L). repeat split.
        * intros x Hx. apply A, in_or_app; auto.
        * intros x Hx. apply B, in_or_app; auto.
        * intros c [->|Hc]; auto. apply B, in_or_app; right; left; auto.
        * intros c Hc. destruct (D c Hc) as [Hv|[? ?]].
          -- apply in_app_or in Hv. destruct Hv as [?|[->|[]]]; auto.
             right; split; [left; auto|]. apply A, in_or_app; right; left; auto.
          -- right; split; auto. right; auto.
        * intros c Hc. destruct (E c Hc) as [Ho|?]; auto.
          apply in_app_or in Ho. destruct Ho as [?|[->|[]]]; auto.
          right. apply B, in_or_app; right; left; auto.
        * intros ND. apply F. apply NoDup_snoc; auto.
        * rewrite !app_length in L. simpl in L. lia.
  Qed.

  Lemma rule_add_spec rs : forall acc r, In r (fold_left rule_add rs acc) <-> In r acc \/ In r rs.
  Proof.
    induction rs as [|x rs IH]; intros acc r; simpl.
    - tauto.
    - rewrite IH. unfold rule_add. destruct (in_dec rule_eq_dec x acc) as [Hin|Hnin].
      + split; [tauto|]. intros [?|[->|?]]; auto.
      + rewrite in_app_iff. simpl. tauto.
  Qed.

  Variable a0 : nat.
  Let U := a0 :: flat_map first_nt G.

  Definition expanded (visited : list nat) (acc : list rule) (b : nat) : Prop :=
    forall r, In r G -> lhs r = b -> In r acc /\ forall c, In c (first_nt r) -> In c visited.

  Definition bfs_inv (open visited : list nat) (acc : list rule) : Prop :=
    NoDup visited /\ incl visited U /\ incl open visited /\
    (forall b, In b visited -> lc_reach a0 b) /\
    (forall r, In r acc -> In r G /\ lc_reach a0 (lhs r)) /\
    (forall b, In b visited -> In b open \/ expanded visited acc b).

  Lemma bfs_spec fuel : forall open visited acc,
    bfs_inv open visited acc ->
    length U + length open <= fuel + length visited ->
    exists acc' visited',
      bfs G fuel open visited acc = Some acc' /\ incl visited visited' /\
      (forall r, In r acc' -> In r G /\ lc_reach a0 (lhs r)) /\
      (forall b, In b visited' -> expanded visited' acc' b).
  Proof.
    induction fuel as [|f IH]; intros open visited acc (ND & HU & HO & HR & HA & HE) Hlen.
    - assert (length visited <= length U) by (apply NoDup_incl_length; auto).
      destruct open as [|a open']; [|unfold U in *; simpl in *; lia].
      exists acc, visited. simpl. split; [|split; [|split]]; auto using incl_refl.
      intros b Hb. destruct (HE b Hb) as [[]|]; auto.
    - destruct open as [|a open'].
      + exists acc, visited. simpl. split; [|split; [|split]]; auto using incl_refl.
        intros b Hb. destruct (HE b Hb) as [[]|]; auto.
      + cbn [bfs].
        destruct (fold_left bfs_visit (flat_map first_nt (rules_by_origin G a)) (open', visited)) as [o' v'] eqn:EV.
        cbn [fst snd].
        destruct (visit_spec _ _ _ _ _ EV) as (A & B & C & D & E & F & L).
        assert (Ha : lc_reach a0 a) by (apply HR, HO; left; auto).
        destruct (IH o' v' (fold_left rule_add (rules_by_origin G a) acc)) as (acc' & vis' & E1 & E2 & E3 & E4);
          [| | exists acc', vis'; split; [exact E1 | split; [intros x Hx; apply E2, B; auto | split; assumption]]].
        * assert (I1 : NoDup v') by auto.
          assert (I2 : incl v' U).
          { intros b Hb. destruct (D b Hb) as [?|[Hl _]]; auto.
            apply in_flat_map in Hl. destruct Hl as (r & Hr & Hc).
            apply rules_by_origin_In in Hr. right. apply in_flat_map. exists r; tauto. }
          assert (I3 : incl o' v').
          { intros b Hb. destruct (E b Hb) as [?|?]; auto. apply B, HO. right; auto. }
          assert (I4 : forall b, In b v' -> lc_reach a0 b).
          { intros b Hb. destruct (D b Hb) as [?|[Hl _]]; auto.
            apply in_flat_map in Hl. destruct Hl as (r & Hr & Hc).
            apply rules_by_origin_In in Hr. apply first_nt_In in Hc. destruct Hc as (rest & Hc).
            eapply lc_step; eauto; tauto. }
          assert (I5 : forall r, In r (fold_left rule_add (rules_by_origin G a) acc) -> In r G /\ lc_reach a0 (lhs r)).
          { intros r H. apply rule_add_spec in H. destruct H as [?|Hr]; [apply HA; auto|].
            apply rules_by_origin_In in Hr. destruct Hr as [? ->]; auto. }
          assert (I6 : forall b, In b v' -> In b o' \/ expanded v' (fold_left rule_add (rules_by_origin G a) acc) b).
          { intros b Hb.
            assert (Hexp_a : expanded v' (fold_left rule_add (rules_by_origin G a) acc) a).
            { intros r Hr Hl. split.
              - apply rule_add_spec. right. apply rules_by_origin_In; auto.
              - intros c Hc. apply C. apply in_flat_map. exists r. split; auto.
                apply rules_by_origin_In; auto. }
            destruct (D b Hb) as [Hv|[_ Ho]]; auto.
            destruct (HE b Hv) as [[->|Ho]|Hx]; auto.
            right. intros r Hr Hl. destruct (Hx r Hr Hl) as [X1 X2]. split.
            - apply rule_add_spec; auto.
            - intros c Hc. apply B; auto. }
          exact (conj I1 (conj I2 (conj I3 (conj I4 (conj I5 I6))))).
        * unfold U in *; simpl in *. lia.
  Qed.

  Lemma bfs_inv_init : bfs_inv [a0] [a0] [].
  Proof.
    repeat split.
    - repeat constructor. intros [].
    - intros b [->|[]]. left; auto.
    - apply incl_refl.
    - intros b [->|[]]. constructor.
    - destruct H.
    - destruct H.
    - intros b [->|[]]. left; left; auto.
  Qed.

  Lemma expand_rule_spec :
    exists l, expand_rule G a0 = Some l /\
              forall r, In r l <-> In r G /\ lc_reach a0 (lhs r).
  Proof.
    destruct (bfs_spec (bfs_fuel G) [a0] [a0] [] bfs_inv_init) as (acc & vis & E & Hinc & Hs & Hc).
    { unfold bfs_fuel, U. simpl. lia. }
    exists acc. split; auto. intros r. split; [apply Hs|].
    intros [Hr Hreach].
    assert (Hv : forall b, lc_reach a0 b -> In b vis).
    { induction 1 as [|b r' c rest Hb IHb Hr' Hl Hrhs].
      - apply Hinc; left; auto.
      - apply (Hc b IHb r' Hr' Hl). apply first_nt_In; eauto. }
    apply (Hc _ (Hv _ Hreach) r Hr eq_refl).
  Qed.
End LC.

Theorem expand_rule_total G a : exists l, expand_rule G a = Some l.
Proof. destruct (expand_rule_spec G a) as (l & H & _); eauto. Qed.

(* Parser.predictions[a] = the rules of every non-terminal reachable from a through first symbols *)
Theorem predictions_spec G a r : In r (predictions G a) <-> In r G /\ lc_reach G a (lhs r).
Proof.
  unfold predictions. destruct (expand_rule_spec G a) as (l & -> & H). apply H.
Qed.

Corollary predictions_direct G a r : In r G -> lhs r = a -> In r (predictions G a).
Proof. intros H <-. apply predictions_spec. split; auto. constructor. Qed.

(* ---------------------------------------------------------------------------------------- *)
(* NULLABLE of calculate_sets: the iteration stops within its fuel at the set of non-terminals that derive
   the empty string. *)
Section Nullable.
  Variable G : grammar.
  Variable tok : Type.
  Variable tmatch : nat -> tok -> bool.
  Notation derives := (derives G tok tmatch).

  Definition null_step (N : list nat) (r : rule) : list nat :=
    if forallb (sym_nullable N) (rhs r)
    then (if in_dec Nat.eq_dec (lhs r) N then N else N ++ [lhs r]) else N.

  Lemma sweep_unfold l N : nullable_sweep l N = fold_left null_step l N.
  Proof. reflexivity. Qed.

  Definition null_sound (N : list nat) : Prop := forall a, In a N -> derives [NT a] [].
  Definition null_closed (N : list nat) : Prop :=
    forall r, In r G -> forallb (sym_nullable N) (rhs r) = true -> In (lhs r) N.

  Lemma sym_nullable_In N a : sym_nullable N (NT a) = true <-> In a N.
  Proof. simpl. destruct (in_dec Nat.eq_dec a N); split; auto; discriminate. Qed.

  Lemma derives_nil_of_sound N ss : null_sound N -> forallb (sym_nullable N) ss = true -> derives ss [].
  Proof.
    intros HS. induction ss as [|[t|a] ss IH]; simpl; intros H.
    - constructor.
    - discriminate.
    - apply andb_true_iff in H. destruct H as [H1 H2].
      assert (Ha : In a N) by (apply sym_nullable_In; exact H1).
      pose proof (HS a Ha) as Hd. inversion Hd as [| |a' r ss' w1 w2 Hr Hl Hd1 Hd2 E1 E2]; subst.
      apply app_eq_nil in E2. destruct E2 as [-> ->].
      change (@nil tok) with (@nil tok ++ []). eapply d_nt; eauto.
  Qed.

  Lemma null_step_props N r : In r G -> null_sound N -> NoDup N -> incl N (map lhs G) ->
    let N' := null_step N r in
    null_sound N' /\ NoDup N' /\ incl N' (map lhs G) /\ incl N N' /\ length N <= length N' /\
    (length N' = length N -> N' = N /\ (forallb (sym_nullable N) (rhs r) = true -> In (lhs r) N)).
  Proof.
    intros Hr HS ND HI. unfold null_step.
    destruct (forallb (sym_nullable N) (rhs r)) eqn:E.
    - destruct (in_dec Nat.eq_dec (lhs r) N) as [Hin|Hnin].
      + repeat split; auto using incl_refl.
      + repeat split.
        * intros a Ha. apply in_app_or in Ha. destruct Ha as [?|[<- |[]]]; auto.
          change (@nil tok) with (@nil tok ++ []). eapply d_nt; eauto.
          -- eapply derives_nil_of_sound; eauto.
          -- constructor.
        * apply NoDup_snoc; auto.
        * intros a Ha. apply in_app_or in Ha. destruct Ha as [?|[<- |[]]]; auto. apply in_map; auto.
        * intros a Ha. apply in_or_app; auto.
        * rewrite app_length. simpl. lia.
        * rewrite app_length in H. simpl in H. lia.
        * rewrite app_length in H. simpl in H. lia.
    - repeat split; auto using incl_refl. discriminate.
  Qed.

  Lemma sweep_props l : forall N, incl l G -> null_sound N -> NoDup N -> incl N (map lhs G) ->
    let N' := fold_left null_step l N in
    null_sound N' /\ NoDup N' /\ incl N' (map lhs G) /\ length N <= length N' /\
    (length N' = length N -> N' = N /\
        forall r, In r l -> forallb (sym_nullable N) (rhs r) = true -> In (lhs r) N).
  Proof.
    induction l as [|r l IH]; intros N Hl HS ND HI; simpl.
    - repeat split; auto. intros r [].
    - assert (Hr : In r G) by (apply Hl; left; auto).
      destruct (null_step_props N r Hr HS ND HI) as (S1 & D1 & I1 & _ & L1 & E1).
      destruct (IH (null_step N r)) as (S2 & D2 & I2 & L2 & E2); auto.
      { intros x Hx. apply Hl. right; auto. }
      repeat split; auto; try lia.
      + assert (length (null_step N r) = length N) by lia.
        destruct (E1 H0) as [EN _]. destruct E2 as [E2 _]; [lia|]. congruence.
      + assert (HL : length (null_step N r) = length N) by lia.
        destruct (E1 HL) as [EN Hc]. destruct E2 as [_ E2]; [lia|].
        intros r0 [<- |Hr0] Hf; auto. rewrite EN in E2. apply E2; auto.
  Qed.

  Lemma nullable_iter_props fuel : forall N,
    null_sound N -> NoDup N -> incl N (map lhs G) -> length G < fuel + length N ->
    null_sound (nullable_iter G fuel N) /\ null_closed (nullable_iter G fuel N).
  Proof.
    induction fuel as [|f IH]; intros N HS ND HI Hlen.
    - assert (length N <= length (map lhs G)) by (apply NoDup_incl_length; auto).
      rewrite map_length in H. simpl in Hlen. lia.
    - cbn [nullable_iter]. rewrite sweep_unfold.
      destruct (sweep_props G N (incl_refl G) HS ND HI) as (S1 & D1 & I1 & L1 & E1).
      destruct (Nat.eqb_spec (length (fold_left null_step G N)) (length N)) as [Heq|Hne].
      + split; auto. destruct (E1 Heq) as [_ Hc]. intros r Hr Hf. apply Hc; auto.
      + apply IH; auto. lia.
  Qed.

  Lemma closed_complete_nullable N : null_closed N ->
    forall ss w, derives ss w -> w = [] -> forallb (sym_nullable N) ss = true.
  Proof.
    intros HC. induction 1 as [| t k ss w Hm Hd IH | a r ss w1 w2 Hr Hl Hd1 IH1 Hd2 IH2]; intros E; auto.
    - discriminate.
    - apply app_eq_nil in E. destruct E as [-> ->]. cbn [forallb]. apply andb_true_iff. split; auto.
      apply sym_nullable_In. rewrite <- Hl. apply HC; auto.
  Qed.

  (* NULLABLE (restricted to non-terminals) = the non-terminals deriving the empty string *)
  Theorem nullable_set_spec a : In a (nullable_set G) <-> derives [NT a] [].
  Proof.
    unfold nullable_set.
    destruct (nullable_iter_props (S (length G)) []) as (HS & HC).
    - intros x [].
    - constructor.
    - intros x [].
    - simpl. lia.
    - split; [apply HS|].
      intros Hd. pose proof (closed_complete_nullable _ HC _ _ Hd eq_refl) as H.
      cbn [forallb] in H. apply andb_true_iff in H. apply sym_nullable_In. apply H.
  Qed.
End Nullable.
