(* Context-free grammars over numbered terminals / non-terminals, and derivability as a
   relation between symbol lists and token lists.  Shared by the parser models. *)
From Coq Require Import List Arith Lia Bool.
Import ListNotations.

Inductive symbol := T (t : nat) | NT (a : nat).

Definition symbol_eq_dec : forall x y : symbol, {x = y} + {x <> y}.
Proof. decide equality; apply Nat.eq_dec. Defined.

Definition symbol_eqb (x y : symbol) : bool :=
  match x, y with
  | T a, T b => Nat.eqb a b
  | NT a, NT b => Nat.eqb a b
  | _, _ => false
  end.

Lemma symbol_eqb_spec x y : reflect (x = y) (symbol_eqb x y).
Proof.
  destruct x as [a|a], y as [b|b]; simpl; try (constructor; congruence);
    destruct (Nat.eqb_spec a b); constructor; congruence.
Qed.

Record rule := mkRule { lhs : nat; rhs : list symbol }.
Definition grammar := list rule.

Definition rule_eq_dec : forall x y : rule, {x = y} + {x <> y}.
Proof. decide equality; [apply (list_eq_dec symbol_eq_dec) | apply Nat.eq_dec]. Defined.

Section Derives.
  Variable G : grammar.
  Variable tok : Type.
  (* tmatch t k: token k is an occurrence of terminal t *)
  Variable tmatch : nat -> tok -> bool.

  (* ss derives w: the sentential form ss rewrites to the token string w *)
  Inductive derives : list symbol -> list tok -> Prop :=
  | d_nil : derives [] []
  | d_term t k ss w : tmatch t k = true -> derives ss w -> derives (T t :: ss) (k :: w)
  | d_nt a r ss w1 w2 : In r G -> lhs r = a -> derives (rhs r) w1 -> derives ss w2 ->
      derives (NT a :: ss) (w1 ++ w2).

  Lemma derives_app a b u v : derives a u -> derives b v -> derives (a ++ b) (u ++ v).
  Proof.
    induction 1; intros; simpl; auto.
    - constructor; auto.
    - rewrite <- app_assoc. econstructor; eauto.
  Qed.

  Lemma derives_split a b w :
    derives (a ++ b) w -> exists u v, w = u ++ v /\ derives a u /\ derives b v.
  Proof.
    revert w; induction a as [|x a IH]; simpl; intros w H.
    - exists [], w; repeat split; auto; constructor.
    - inversion H as [|t k ss w' Hm Hd|a0 r ss w1 w2 Hin Hl Hd1 Hd2]; subst.
      + destruct (IH _ Hd) as (u & v & -> & Hu & Hv).
        exists (k :: u), v; repeat split; auto. constructor; auto.
      + destruct (IH _ Hd2) as (u & v & -> & Hu & Hv).
        exists (w1 ++ u), v. rewrite app_assoc. repeat split; auto. econstructor; eauto.
  Qed.

  (* the language of the grammar from a start symbol *)
  Definition sentence (start : nat) (w : list tok) : Prop := derives [NT start] w.
End Derives.
