(* Set-level model of lark/load_grammar.py SimplifyRule_Visitor: a rule body after EBNF_to_BNF is a tree of
   `expansions` (GAlt) and `expansion` (GSeq) nodes over symbols; the visitor distributes every group of alternatives
   over the sequence it occurs in, flattens nested nodes and removes duplicate alternatives.  `flat` computes the
   resulting list of flat alternatives (order of first occurrence, no duplicates).  Definitions only; proofs are in
   Cfg/AnalysisDistribute_proofs.v. *)
From Coq Require Import List Arith Bool.
From LV Require Import Cfg.Grammar.
Import ListNotations.

Inductive gexp := GSym (s : symbol) | GSeq (l : list gexp) | GAlt (l : list gexp).

Fixpoint alt_eqb (a b : list symbol) : bool :=
  match a, b with
  | [], [] => true
  | x :: a', y :: b' => symbol_eqb x y && alt_eqb a' b'
  | _, _ => false
  end.

(* dedup_list *)
Definition add_alt (acc : list (list symbol)) (a : list symbol) : list (list symbol) :=
  if existsb (alt_eqb a) acc then acc else acc ++ [a].
Definition dedup (l : list (list symbol)) : list (list symbol) := fold_left add_alt l [].

(* a : b (c|d) e  -->  b c e | b d e *)
Definition cross (A B : list (list symbol)) : list (list symbol) :=
  flat_map (fun a => map (fun b => a ++ b) B) A.

Fixpoint flat (e : gexp) : list (list symbol) :=
  match e with
  | GSym s => [[s]]
  | GSeq l => dedup (fold_right (fun x acc => cross (flat x) acc) [[]] l)
  | GAlt l => dedup (flat_map flat l)
  end.

(* comparison with the alternatives lark compiled (as sets; lark's list must be duplicate free) *)
Definition alts_subset (a b : list (list symbol)) : bool := forallb (fun x => existsb (alt_eqb x) b) a.
Definition distribute_check (c : gexp * list (list symbol)) : bool :=
  let '(e, observed) := c in
  alts_subset (flat e) observed && alts_subset observed (flat e)
  && Nat.eqb (length (dedup observed)) (length observed).
