(* Distribution of groups + flattening + removal of duplicate alternatives preserves the language: a word is
   denoted by the rule body (sequences = concatenation, groups = union, symbols = what the grammar derives from
   them) iff some flat alternative derives it; the flat alternatives are pairwise distinct. *)
From Coq Require Import List Arith Bool Lia.
From LV Require Import Cfg.Grammar Cfg.AnalysisDistribute.
Import ListNotations.

Lemma alt_eqb_spec a : forall b, alt_eqb a b = true <-> a = b.
Proof.
  induction a as [|x a IH]; intros [|y b]; simpl; split; try discriminate; auto.
  - rewrite andb_true_iff. intros [H1 H2]. apply IH in H2. destruct (symbol_eqb_spec x y); try discriminate.
    subst; auto.
  - intros H. inversion H; subst. rewrite andb_true_iff. split; [|apply IH; auto].
    destruct (symbol_eqb_spec y y); auto.
Qed.

Lemma add_alt_In acc a x : In x (add_alt acc a) <-> In x acc \/ x = a.
Proof.
  unfold add_alt. destruct (existsb (alt_eqb a) acc) eqn:E.
  - split; auto. intros [?| ->]; auto. apply existsb_exists in E. destruct E as (y & Hy & He).
    apply alt_eqb_spec in He. subst; auto.
  - rewrite in_app_iff. simpl. split; intros [?|?]; auto. destruct H; auto; tauto.
Qed.

Lemma add_alt_nodup acc a : NoDup acc -> NoDup (add_alt acc a).
Proof.
  unfold add_alt. destruct (existsb (alt_eqb a) acc) eqn:E; auto. intros ND.
  assert (Hn : ~ In a acc).
  { intros H. assert (existsb (alt_eqb a) acc = true); [|congruence].
    apply existsb_exists. exists a. split; auto. apply alt_eqb_spec; auto. }
  clear E. induction ND as [|y l Hy ND IH]; simpl.
  - repeat constructor. intros [].
  - constructor.
    + rewrite in_app_iff. simpl. intros [?|[->|[]]]; auto. apply Hn; left; auto.
    + apply IH. intros ?; apply Hn; right; auto.
Qed.

Lemma dedup_spec l : (forall x, In x (dedup l) <-> In x l) /\ NoDup (dedup l).
Proof.
  unfold dedup.
  assert (H : forall l acc, (forall x, In x (fold_left add_alt l acc) <-> In x acc \/ In x l) /\
                            (NoDup acc -> NoDup (fold_left add_alt l acc))).
  { induction l0 as [|a l0 IH]; intros acc; simpl.
    - split; [intros x; tauto|auto].
    - destruct (IH (add_alt acc a)) as [I1 I2]. split.
      + intros x. rewrite I1, add_alt_In. split; [intros [[?|?]|?]|intros [?|[?|?]]]; auto.
      + intros ND. apply I2, add_alt_nodup; auto. }
  destruct (H l []) as [H1 H2]. split; [|apply H2; constructor].
  intros x. rewrite H1. simpl. tauto.
Qed.

Lemma In_cross A B c : In c (cross A B) <-> exists a b, In a A /\ In b B /\ c = a ++ b.
Proof.
  unfold cross. rewrite in_flat_map. split.
  - intros (a & Ha & Hc). apply in_map_iff in Hc. destruct Hc as (b & <- & Hb). eauto.
  - intros (a & b & Ha & Hb & ->). exists a. split; auto. apply in_map; auto.
Qed.

(* induction over the nested lists *)
Fixpoint gexp_ind' (P : gexp -> Prop) (Hs : forall s, P (GSym s))
         (Hq : forall l, Forall P l -> P (GSeq l)) (Ha : forall l, Forall P l -> P (GAlt l)) (e : gexp) : P e :=
  match e with
  | GSym s => Hs s
  | GSeq l => Hq l ((fix go (l : list gexp) : Forall P l :=
                      match l return Forall P l with
                      | [] => Forall_nil P
                      | x :: r => Forall_cons x (gexp_ind' P Hs Hq Ha x) (go r)
                      end) l)
  | GAlt l => Ha l ((fix go (l : list gexp) : Forall P l :=
                      match l return Forall P l with
                      | [] => Forall_nil P
                      | x :: r => Forall_cons x (gexp_ind' P Hs Hq Ha x) (go r)
                      end) l)
  end.

Section Den.
  Variable G : grammar.
  Variable tok : Type.
  Variable tmatch : nat -> tok -> bool.
  Notation derives := (derives G tok tmatch).

  (* concatenation of languages / union of languages *)
  Fixpoint seqden (ds : list (list tok -> Prop)) (w : list tok) : Prop :=
    match ds with
    | [] => w = []
    | d :: r => exists u v, w = u ++ v /\ d u /\ seqden r v
    end.

  Fixpoint den (e : gexp) : list tok -> Prop :=
    match e with
    | GSym s => fun w => derives [s] w
    | GSeq l => seqden (map den l)
    | GAlt l => fun w => Exists (fun d => d w) (map den l)
    end.

  Lemma derives_nil_inv w : derives [] w -> w = [].
  Proof. inversion 1; auto. Qed.

  Theorem flat_den e : forall w, den e w <-> exists a, In a (flat e) /\ derives a w.
  Proof.
    induction e as [s|l IH|l IH] using gexp_ind'; intros w; cbn [den flat].
    - split.
      + intros H. exists [s]. split; [left; auto|auto].
      + intros (a & [<- |[]] & H). auto.
    - destruct (dedup_spec (fold_right (fun x acc => cross (flat x) acc) [[]] l)) as [D _].
      assert (H : forall w, seqden (map den l) w <->
                 exists a, In a (fold_right (fun x acc => cross (flat x) acc) [[]] l) /\ derives a w).
      { clear D. induction IH as [|x r Hx Hr IHr]; intros w0; simpl.
        - split.
          + intros ->. exists []. split; [left; auto|constructor].
          + intros (a & [<- |[]] & H). apply derives_nil_inv; auto.
        - split.
          + intros (u & v & -> & Hu & Hv). apply Hx in Hu. apply IHr in Hv.
            destruct Hu as (a & Ha & Da). destruct Hv as (b & Hb & Db).
            exists (a ++ b). split; [apply In_cross; eauto|apply derives_app; auto].
          + intros (c & Hc & Dc). apply In_cross in Hc. destruct Hc as (a & b & Ha & Hb & ->).
            apply derives_split in Dc. destruct Dc as (u & v & -> & Du & Dv).
            exists u, v. split; auto. split; [apply Hx; eauto|apply IHr; eauto]. }
      rewrite H. split; intros (a & Ha & Da); exists a; split; auto; apply D; auto.
    - destruct (dedup_spec (flat_map flat l)) as [D _].
      assert (H : Exists (fun d => d w) (map den l) <-> exists a, In a (flat_map flat l) /\ derives a w).
      { clear D. induction IH as [|x r Hx Hr IHr]; simpl.
        - split; [intros H; inversion H|intros (a & [] & _)].
        - rewrite Exists_cons, IHr, Hx. split.
          + intros [(a & Ha & Da)|(a & Ha & Da)]; exists a; split; auto; apply in_or_app; auto.
          + intros (a & Ha & Da). apply in_app_or in Ha. destruct Ha; [left|right]; eauto. }
      rewrite H. split; intros (a & Ha & Da); exists a; split; auto; apply D; auto.
  Qed.
End Den.

Theorem flat_nodup e : NoDup (flat e).
Proof.
  destruct e; cbn [flat].
  - repeat constructor. intros [].
  - apply dedup_spec.
  - apply dedup_spec.
Qed.
