(* Executable model of the parts of lark/parsers/grammar_analysis.py that the Earley parser uses:
   GrammarAnalyzer.expand_rule (prediction closure through first symbols, utils.bfs order) and the
   NULLABLE part of calculate_sets.  Definitions only; proofs are in Cfg/Analysis_proofs.v. *)
From Coq Require Import List Arith Bool.
From LV Require Import Cfg.Grammar.
Import ListNotations.

(* classify(rules, lambda r: r.origin)[a] : the rules of a, in grammar order *)
Definition rules_by_origin (G : grammar) (a : nat) : list rule :=
  filter (fun r => Nat.eqb (lhs r) a) G.

(* what _expand_rule yields for one rule: its first symbol when that is a non-terminal *)
Definition first_nt (r : rule) : list nat :=
  match rhs r with NT b :: _ => [b] | _ => [] end.

(* utils.bfs: `if next_node not in visited: visited.add(next_node); open_q.append(next_node)` *)
Definition bfs_visit (ov : list nat * list nat) (b : nat) : list nat * list nat :=
  if in_dec Nat.eq_dec b (snd ov) then ov else (fst ov ++ [b], snd ov ++ [b]).

(* OrderedSet.add *)
Definition rule_add (acc : list rule) (r : rule) : list rule :=
  if in_dec rule_eq_dec r acc then acc else acc ++ [r].

(* the loop of utils.bfs specialised to _expand_rule; acc is init_ptrs (every RulePtr has index 0,
   so it is represented by its rule) *)
Fixpoint bfs (G : grammar) (fuel : nat) (open visited : list nat) (acc : list rule) : option (list rule) :=
  match open with
  | [] => Some acc
  | a :: open' =>
      match fuel with
      | 0 => None
      | S f =>
          let rs := rules_by_origin G a in
          let ov := fold_left bfs_visit (flat_map first_nt rs) (open', visited) in
          bfs G f (fst ov) (snd ov) (fold_left rule_add rs acc)
      end
  end.

(* every visited non-terminal is the source or the first symbol of a rule, and is expanded once *)
Definition bfs_fuel (G : grammar) : nat := S (S (length (flat_map first_nt G))).

Definition expand_rule (G : grammar) (a : nat) : option (list rule) :=
  bfs G (bfs_fuel G) [a] [a] [].

(* Parser.predictions[a]  (the None case never happens: Analysis_proofs.expand_rule_total) *)
Definition predictions (G : grammar) (a : nat) : list rule :=
  match expand_rule G a with Some l => l | None => [] end.

(* ---- NULLABLE of calculate_sets (FIRST/FOLLOW are not used by the Earley recogniser) ---- *)
Definition sym_nullable (N : list nat) (s : symbol) : bool :=
  match s with T _ => false | NT a => if in_dec Nat.eq_dec a N then true else false end.

(* one `for rule in rules` sweep: `if set(rule.expansion) <= NULLABLE: NULLABLE |= {rule.origin}` *)
Definition nullable_sweep (G : grammar) (N : list nat) : list nat :=
  fold_left (fun N r => if forallb (sym_nullable N) (rhs r)
                        then (if in_dec Nat.eq_dec (lhs r) N then N else N ++ [lhs r]) else N) G N.

(* `while changed` : at most |G| sweeps add something, one more sees no change *)
Fixpoint nullable_iter (G : grammar) (fuel : nat) (N : list nat) : list nat :=
  match fuel with
  | 0 => N
  | S f => let N' := nullable_sweep G N in
           if Nat.eqb (length N') (length N) then N else nullable_iter G f N'
  end.

Definition nullable_set (G : grammar) : list nat := nullable_iter G (S (length G)) [].
