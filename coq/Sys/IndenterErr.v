(* The error paths of the Indenter model (C18): when a stream ends with DedentError / AssertionError, stated over the
   token stream.  Definitions; proofs in IndenterErr_proofs.v. *)
From Coq Require Import ZArith List Bool String Ascii.
From LV Require Import Base.Prelude Sys.IndenterBase Gen.IndenterHoles Sys.Indenter.
Import ListNotations.
Local Open Scope Z_scope.

(* a closing bracket without an open one: the bracket depth would become negative *)
Fixpoint unmatched (cfg : icfg) (p : Z) (ts : list tok) : bool :=
  match ts with
  | [] => false
  | t :: r =>
      if mem_string (ttype t) (open_types cfg) then unmatched cfg (p + 1) r
      else if mem_string (ttype t) (close_types cfg)
           then (if p - 1 >=? 0 then unmatched cfg (p - 1) r else true)
           else unmatched cfg p r
  end.

(* the loop of _process over a prefix, without the end-of-input DEDENTs: the state reached, None after an error *)
Fixpoint steps (cfg : icfg) (st : istate) (ts : list tok) : option istate :=
  match ts with
  | [] => Some st
  | t :: rest =>
      let '(o1, st1, e1) :=
        if String.eqb (ttype t) (nl_type cfg) then handle_NL cfg st t else ([t], st, None) in
      match e1 with
      | Some _ => None
      | None => let '(st2, e2) := step_paren cfg st1 t in
                match e2 with Some _ => None | None => steps cfg st2 rest end
      end
  end.
