(* The Indenter with token positions (C18): lark/indenter.py builds INDENT / DEDENT tokens with
   Token.new_borrow_pos(type, value, token) - all six position fields copied from `token` (Gen/IndenterPos.v) - where `token`
   is the newline token being handled, or, for the DEDENTs at the end of the stream, the last token of the stream
   (`Token(DEDENT_type, '', 0, 0, 0, 0, 0, 0)` when the stream is empty).  A position is abstract here: one value
   standing for the six fields.  Definitions only; proofs in IndenterPos_proofs.v. *)
From Coq Require Import ZArith List Bool String Ascii.
From LV Require Import Base.Prelude Sys.IndenterBase Gen.IndenterHoles Sys.Indenter.
Import ListNotations.

Section Pos.
Variable P : Type.                       (* a position: (start_pos, line, column, end_line, end_column, end_pos) *)
Definition ptok := (tok * P)%type.

(* None = the six zeros of the explicit Token(...) of an empty stream *)
Definition otok := (tok * option P)%type.

Definition phase1 (cfg : icfg) (st : istate) (t : tok) :=
  if String.eqb (ttype t) (nl_type cfg) then handle_NL cfg st t else ([t], st, None).

Fixpoint run_pos (cfg : icfg) (st : istate) (last : option P) (ts : list ptok) : list otok * istate * istatus :=
  match ts with
  | [] =>
      let '(o, s, e) := final_pops cfg (stack st) in
      let st' := mkSt (paren st) s in
      let out := map (fun t => (t, last)) o in          (* new_borrow_pos(DEDENT, '', token) if token else zeros *)
      match e with
      | Some err => (out, st', err)
      | None => (out, st', if list_Z_eqb s [h_bottom] then Done else AssertErr)
      end
  | (t, p) :: rest =>
      let '(o1, st1, e1) := phase1 cfg st t in
      let out1 := map (fun x => (x, Some p)) o1 in      (* the token itself, and INDENT / DEDENTs borrowing from it *)
      match e1 with
      | Some err => (out1, st1, err)
      | None =>
          let '(st2, e2) := step_paren cfg st1 t in
          match e2 with
          | Some err => (out1, st2, err)
          | None => let '(o, s, e) := run_pos cfg st2 (Some p) rest in (out1 ++ o, s, e)
          end
      end
  end.

Definition process_pos (cfg : icfg) (ts : list ptok) := run_pos cfg (mkSt h_p0 [h_i0]) None ts.
End Pos.

(* comparison for the harness: positions are naturals (index of the token in the input + 1; 0 = the six zeros) *)
Definition pos_code (q : option nat) : nat := match q with Some p => p | None => 0 end.
Fixpoint nats_eqb (a b : list nat) : bool :=
  match a, b with
  | [], [] => true
  | x :: a', y :: b' => Nat.eqb x y && nats_eqb a' b'
  | _, _ => false
  end.
(* one stream on a fresh reset: input tokens with positions, observed positions of the output tokens *)
Definition check_pos (c : icfg * list (tok * nat) * list nat) : bool :=
  let '(cfg, ts, obs) := c in
  let '(o, _, _) := process_pos nat cfg ts in nats_eqb (map (fun x => pos_code (snd x)) o) obs.
