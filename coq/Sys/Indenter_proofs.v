(* Proofs about the Indenter model (C18, and the reuse half of C10). *)
From Coq Require Import ZArith List Bool String Ascii Lia.
From LV Require Import Base.Prelude Sys.IndenterBase Gen.IndenterHoles Sys.Indenter.
Import ListNotations.
Local Open Scope Z_scope.


Lemma gtb_false a b : a <= b -> (a >? b) = false.
Proof. intros. rewrite Z.gtb_ltb. apply Z.ltb_ge. lia. Qed.
Lemma gtb_true a b : a > b -> (a >? b) = true.
Proof. intros. rewrite Z.gtb_ltb. apply Z.ltb_lt. lia. Qed.
Lemma gtb_true_inv a b : (a >? b) = true -> a > b.
Proof. rewrite Z.gtb_ltb. intros H. apply Z.ltb_lt in H. lia. Qed.
Lemma gtb_false_inv a b : (a >? b) = false -> a <= b.
Proof. rewrite Z.gtb_ltb. intros H. apply Z.ltb_ge in H. lia. Qed.

(* The level stack, top first: strictly decreasing, bottom 0. *)
Fixpoint wf_stack (l : list Z) : Prop :=
  match l with
  | [] => False
  | x :: r => match r with [] => x = 0 | y :: _ => x > y /\ wf_stack r end
  end.

Lemma wf_stack_nonneg l : wf_stack l -> Forall (fun x => 0 <= x) l.
Proof.
  induction l as [|x r IH]; simpl; intros H; [contradiction|].
  destruct r as [|y r'].
  - subst. constructor; [lia|constructor].
  - destruct H as [Hxy Hr]. specialize (IH Hr). constructor; auto.
    inversion IH; subst. lia.
Qed.

Lemma wf_stack_below_top x r : wf_stack (x :: r) -> Forall (fun y => y < x) r.
Proof.
  revert x. induction r as [|y r IH]; intros x H; [constructor|].
  simpl in H. destruct H as [Hxy Hr]. constructor; [lia|].
  specialize (IH y Hr). eapply Forall_impl; [|exact IH]. simpl. intros; lia.
Qed.

Lemma wf_stack_tail x y r : wf_stack (x :: y :: r) -> wf_stack (y :: r).
Proof. simpl. tauto. Qed.

Lemma wf_stack_NoDup l : wf_stack l -> NoDup l.
Proof.
  induction l as [|x r IH]; intros H; [constructor|].
  constructor.
  - intro Hin. pose proof (wf_stack_below_top _ _ H) as Hb.
    rewrite Forall_forall in Hb. specialize (Hb _ Hin). lia.
  - destruct r as [|y r']; [constructor|]. apply IH. eapply wf_stack_tail; eauto.
Qed.

Definition is_dedent cfg s (t : tok) := t = DEDENT cfg s.

(* ---- pop_while ----------------------------------------------------------------- *)
Lemma pop_while_spec cfg indent s stk o stk' e :
  wf_stack stk -> 0 <= indent ->
  pop_while cfg indent s stk = (o, stk', e) ->
  exists popped,
    stk = popped ++ stk' /\
    o = map (fun _ => DEDENT cfg s) popped /\
    Forall (fun x => indent < x) popped /\
    wf_stack stk' /\
    match e with
    | None => exists r, stk' = indent :: r
    | Some DedentErr => (exists t r, stk' = t :: r /\ t < indent) /\ ~ In indent stk
    | Some _ => False
    end.
Proof.
  revert o stk' e. induction stk as [|top rest IH]; intros o stk' e Hwf Hi H.
  - simpl in Hwf. contradiction.
  - simpl in H. unfold h_lt, h_ne in H.
    destruct (indent <? top) eqn:Hlt.
    + apply Z.ltb_lt in Hlt.
      destruct rest as [|y rest'].
      * simpl in Hwf. subst top. lia.
      * destruct (pop_while cfg indent s (y :: rest')) as [[o1 s1] e1] eqn:Hp.
        inversion H; subst; clear H.
        destruct (IH _ _ _ (wf_stack_tail _ _ _ Hwf) Hi eq_refl) as (popped & E & Eo & Hall & Hwf' & He).
        exists (top :: popped). repeat split; auto.
        -- simpl. rewrite E. reflexivity.
        -- simpl. rewrite Eo. reflexivity.
        -- destruct e as [[| | |]|]; auto.
           destruct He as [He Hn]. split; auto.
           intros [Heq|Hin]; [lia|auto].
    + apply Z.ltb_ge in Hlt.
      destruct (negb (indent =? top)) eqn:Hne; inversion H; subst; clear H.
      * apply negb_true_iff, Z.eqb_neq in Hne.
        exists []. repeat split; auto.
        -- exists top, rest. split; auto. lia.
        -- intros [Heq|Hin]; [lia|].
           pose proof (wf_stack_below_top _ _ Hwf) as Hb. rewrite Forall_forall in Hb.
           specialize (Hb _ Hin). lia.
      * apply negb_false_iff, Z.eqb_eq in Hne. subst top.
        exists []. repeat split; auto. exists rest. reflexivity.
Qed.

(* ---- handle_NL ------------------------------------------------------------------- *)
Lemma h_indent_nonneg cfg s : 0 < tab_len cfg -> 0 <= h_indent cfg s.
Proof. intros. unfold h_indent. nia. Qed.

(* bracket_silent *)
Lemma handle_NL_in_brackets cfg st t :
  paren st > 0 -> handle_NL cfg st t = ([], st, None).
Proof. intros H. unfold handle_NL, h_inparen. replace (paren st >? 0) with true; auto. symmetry. apply gtb_true. lia. Qed.

Definition line_indent cfg (t : tok) : option Z :=
  option_map (h_indent cfg) (after_last_nl (tval t)).

(* what handle_NL does outside brackets, as a specification that does not mention the loop *)
Lemma handle_NL_spec cfg st t o st' e indent :
  0 < tab_len cfg -> paren st <= 0 -> wf_stack (stack st) ->
  line_indent cfg t = Some indent ->
  handle_NL cfg st t = (o, st', e) ->
  exists top rest istr, stack st = top :: rest /\ after_last_nl (tval t) = Some istr /\
  paren st' = paren st /\ wf_stack (stack st') /\
  ( (* INDENT *) (indent > top /\ o = [t; INDENT cfg istr] /\ stack st' = indent :: stack st /\ e = None)
    \/ (* same level *) (indent = top /\ o = [t] /\ stack st' = stack st /\ e = None)
    \/ (* DEDENT(s) to an open level *)
       (indent < top /\ e = None /\ exists popped,
          popped <> [] /\ stack st = popped ++ stack st' /\ hd 0 (stack st') = indent /\
          Forall (fun x => indent < x) popped /\
          o = t :: map (fun _ => DEDENT cfg istr) popped)
    \/ (* DedentError: not an open level *)
       (indent < top /\ e = Some DedentErr /\ ~ In indent (stack st)) ).
Proof.
  intros Htab Hp Hwf Hli H. unfold handle_NL, h_inparen in H.
  replace (paren st >? 0) with false in H by (symmetry; apply gtb_false; lia).
  unfold line_indent in Hli. destruct (after_last_nl (tval t)) as [istr|] eqn:Ha; [|discriminate].
  simpl in Hli. inversion Hli; subst indent; clear Hli.
  destruct (stack st) as [|top rest] eqn:Hs; [simpl in Hwf; contradiction|].
  exists top, rest, istr. split; auto. split; auto.
  unfold h_gt in H. destruct (h_indent cfg istr >? top) eqn:Hgt.
  - apply gtb_true_inv in Hgt. inversion H; subst; clear H. simpl.
    split; auto. split.
    + destruct rest; simpl in *; [split; [lia|auto]|]. split; [lia|]. auto.
    + left. repeat split; auto; lia.
  - apply gtb_false_inv in Hgt.
    destruct (pop_while cfg (h_indent cfg istr) istr (top :: rest)) as [[o1 s1] e1] eqn:Hpw.
    inversion H; subst; clear H. simpl.
    pose proof (h_indent_nonneg cfg istr Htab) as Hnn.
    destruct (pop_while_spec _ _ _ _ _ _ _ Hwf Hnn Hpw) as (popped & E & Eo & Hall & Hwf' & He).
    split; auto. split; auto.
    destruct e as [[| | |]|]; try contradiction.
    + (* DedentErr *) destruct He as [(t0 & r0 & Es1 & Hlt) Hnin].
      right; right; right. repeat split; auto.
      destruct popped as [|p ps].
      * simpl in E. rewrite Es1 in E. inversion E; subst. lia.
      * simpl in E. inversion E; subst. inversion Hall; subst. lia.
    + destruct He as [r Es1]. destruct popped as [|p ps].
      * simpl in E. rewrite Es1 in E. inversion E; subst.
        right; left. repeat split; auto.
      * right; right; left. simpl in E. inversion E; subst p.
        inversion Hall; subst. repeat split; auto; try lia.
        exists (top :: ps). repeat split; auto; try discriminate.
Qed.

(* ---- counting INDENT/DEDENT -------------------------------------------------------- *)
Definition cnt (ty : string) (l : list tok) : Z :=
  Z.of_nat (List.length (filter (fun t => String.eqb (ttype t) ty) l)).

Lemma cnt_app ty a b : cnt ty (a ++ b) = cnt ty a + cnt ty b.
Proof. unfold cnt. rewrite filter_app, app_length. lia. Qed.

Lemma cnt_cons ty t l : cnt ty (t :: l) = (if String.eqb (ttype t) ty then 1 else 0) + cnt ty l.
Proof. unfold cnt. cbn [filter]. destruct (String.eqb (ttype t) ty); cbn [List.length]; lia. Qed.

Lemma cnt_nil ty : cnt ty [] = 0.
Proof. reflexivity. Qed.

Lemma cnt_map_const ty (t : tok) {A} (l : list A) :
  cnt ty (map (fun _ => t) l) = (if String.eqb (ttype t) ty then Z.of_nat (List.length l) else 0).
Proof.
  induction l as [|x l IH]; simpl.
  - rewrite cnt_nil. destruct (String.eqb (ttype t) ty); reflexivity.
  - rewrite cnt_cons, IH. destruct (String.eqb (ttype t) ty); lia.
Qed.

(* the stream itself carries no INDENT/DEDENT tokens, and the two types differ *)
Definition fresh cfg (ts : list tok) : Prop :=
  indent_type cfg <> dedent_type cfg /\
  Forall (fun t => ttype t <> indent_type cfg /\ ttype t <> dedent_type cfg) ts.

Definition balance cfg (o : list tok) : Z := cnt (indent_type cfg) o - cnt (dedent_type cfg) o.
Definition depth (stk : list Z) : Z := Z.of_nat (List.length stk) - 1.

Lemma eqb_refl' s : String.eqb s s = true. Proof. apply String.eqb_refl. Qed.
Lemma eqb_neq' a b : a <> b -> String.eqb a b = false. Proof. apply String.eqb_neq. Qed.

Lemma final_pops_spec cfg stk o s e :
  wf_stack stk -> final_pops cfg stk = (o, s, e) ->
  e = None /\ s = [0] /\ o = map (fun _ => DEDENT cfg EmptyString) (removelast stk).
Proof.
  revert o s e. induction stk as [|top rest IH]; intros o s e Hwf H; [simpl in Hwf; contradiction|].
  simpl in H. unfold h_more in H.
  destruct rest as [|y rest'].
  - simpl in H. inversion H; subst. simpl in Hwf. subst. auto.
  - replace (Z.of_nat (List.length (top :: y :: rest')) >? 1) with true in H
      by (symmetry; apply gtb_true; simpl List.length; lia).
    destruct (final_pops cfg (y :: rest')) as [[o1 s1] e1] eqn:Hf.
    inversion H; subst; clear H.
    destruct (IH _ _ _ (wf_stack_tail _ _ _ Hwf) eq_refl) as (He & Hs & Ho).
    subst. repeat split; auto.
Qed.

Lemma length_removelast {A} (l : list A) : l <> [] -> List.length (removelast l) = (List.length l - 1)%nat.
Proof.
  induction l as [|x l IH]; intros H; [congruence|].
  destruct l as [|y l']; [reflexivity|].
  change (removelast (x :: y :: l')) with (x :: removelast (y :: l')).
  specialize (IH ltac:(discriminate)). cbn [List.length] in *. lia.
Qed.

(* ---- the whole stream ---------------------------------------------------------------- *)
Definition no_index_err (e : istatus) := e <> IndexErr.

(* every NL token of the stream has a newline in it (the NL terminal's contract) *)
Definition nl_ok cfg (ts : list tok) : Prop :=
  Forall (fun t => ttype t = nl_type cfg -> after_last_nl (tval t) <> None) ts.

Lemma step_paren_spec cfg st t st2 e2 :
  0 <= paren st -> step_paren cfg st t = (st2, e2) ->
  stack st2 = stack st /\ (e2 = None -> 0 <= paren st2) /\ (e2 = None \/ e2 = Some AssertErr).
Proof.
  intros Hp H. unfold step_paren in H.
  destruct (mem_string (ttype t) (open_types cfg)).
  - inversion H; subst; simpl. unfold h_inc. repeat split; auto. intros; lia.
  - destruct (mem_string (ttype t) (close_types cfg)).
    + inversion H; subst; simpl. unfold h_parenok, h_dec.
      destruct (paren st - 1 >=? 0) eqn:Hg; repeat split; auto; try discriminate.
      intros _. apply Z.geb_le in Hg. lia.
    + inversion H; subst. repeat split; auto.
Qed.

(* first half of the loop body: NL handling or pass-through *)
Definition phase1 cfg st t :=
  if String.eqb (ttype t) (nl_type cfg) then handle_NL cfg st t else ([t], st, None).

Lemma balance_app cfg a b : balance cfg (a ++ b) = balance cfg a + balance cfg b.
Proof. unfold balance. rewrite !cnt_app. lia. Qed.

Lemma balance_plain cfg t l :
  ttype t <> indent_type cfg -> ttype t <> dedent_type cfg -> balance cfg (t :: l) = balance cfg l.
Proof.
  intros A B. unfold balance. rewrite !cnt_cons.
  rewrite (eqb_neq' _ _ A), (eqb_neq' _ _ B). lia.
Qed.

Lemma balance_dedents cfg s {A} (l : list A) :
  indent_type cfg <> dedent_type cfg ->
  balance cfg (map (fun _ => DEDENT cfg s) l) = - Z.of_nat (List.length l).
Proof.
  intros Hne. unfold balance. rewrite !cnt_map_const. simpl ttype.
  rewrite eqb_refl', (eqb_neq' (dedent_type cfg) (indent_type cfg)) by congruence. lia.
Qed.

Lemma balance_indent cfg s l :
  indent_type cfg <> dedent_type cfg -> balance cfg (INDENT cfg s :: l) = 1 + balance cfg l.
Proof.
  intros Hne. unfold balance. rewrite !cnt_cons. simpl ttype.
  rewrite eqb_refl', (eqb_neq' (indent_type cfg) (dedent_type cfg)) by auto. lia.
Qed.

Lemma phase1_spec cfg st t o1 st1 e1 :
  0 < tab_len cfg -> indent_type cfg <> dedent_type cfg ->
  ttype t <> indent_type cfg -> ttype t <> dedent_type cfg ->
  (ttype t = nl_type cfg -> after_last_nl (tval t) <> None) ->
  wf_stack (stack st) -> 0 <= paren st ->
  phase1 cfg st t = (o1, st1, e1) ->
  wf_stack (stack st1) /\ paren st1 = paren st /\
  balance cfg o1 = depth (stack st1) - depth (stack st) /\
  (e1 = None \/ e1 = Some DedentErr).
Proof.
  intros Htab Hne Hti Htd Hnlt Hwf Hp H. unfold phase1 in H.
  destruct (String.eqb (ttype t) (nl_type cfg)) eqn:Hisnl.
  2:{ inversion H; subst. repeat split; auto. rewrite balance_plain by auto. unfold balance; rewrite !cnt_nil. lia. }
  apply String.eqb_eq in Hisnl.
  destruct (Z_gt_le_dec (paren st) 0) as [Hin|Hout].
  { rewrite handle_NL_in_brackets in H by auto. inversion H; subst. repeat split; auto.
    unfold balance; rewrite !cnt_nil. lia. }
  destruct (after_last_nl (tval t)) as [istr|] eqn:Ha; [|exfalso; apply (Hnlt Hisnl); auto].
  assert (Hli : line_indent cfg t = Some (h_indent cfg istr)) by (unfold line_indent; rewrite Ha; reflexivity).
  destruct (handle_NL_spec _ _ _ _ _ _ _ Htab Hout Hwf Hli H)
    as (top & rs & istr' & Hs & Ha' & Hp1 & Hwf1 & Hcases).
  split; auto. split; auto.
  destruct Hcases as [(Hg & Ho & Hs1 & He)|[(Hg & Ho & Hs1 & He)|[(Hg & He & popped & Hne' & Hs1 & Hhd & Hall & Ho)|(Hg & He & Hnin)]]].
  - subst o1. rewrite Hs1. rewrite balance_plain, balance_indent by auto. split; auto.
    unfold balance, depth. rewrite !cnt_nil. cbn [List.length]. lia.
  - subst o1. rewrite Hs1. rewrite balance_plain by auto. split; auto. unfold balance. rewrite !cnt_nil. lia.
  - subst o1. rewrite Hs1. rewrite balance_plain, balance_dedents by auto. split; auto.
    unfold depth. rewrite app_length. lia.
  - split; auto.
    (* on a DedentError the DEDENTs already yielded match the levels already popped *)
    unfold handle_NL, h_inparen in H. rewrite (gtb_false _ _ Hout) in H.
    rewrite Ha, Hs in H. unfold h_gt in H. rewrite (gtb_false (h_indent cfg istr) top) in H by lia.
    destruct (pop_while cfg (h_indent cfg istr) istr (top :: rs)) as [[o' s'] e'] eqn:Hpw.
    inversion H; subst o1 st1 e1; clear H. rewrite <- Hs in Hpw.
    destruct (pop_while_spec _ _ _ _ _ _ _ Hwf (h_indent_nonneg cfg istr Htab) Hpw) as (popped & E & Eo & _ & _ & _).
    simpl stack. rewrite balance_plain, Eo, balance_dedents by auto.
    unfold depth. rewrite E. rewrite app_length. lia.
Qed.

Lemma run_cons cfg st t rest :
  run cfg st (t :: rest) =
  let '(o1, st1, e1) := phase1 cfg st t in
  match e1 with
  | Some err => (o1, st1, err)
  | None =>
      let '(st2, e2) := step_paren cfg st1 t in
      match e2 with
      | Some err => (o1, st2, err)
      | None => let '(o, s, e) := run cfg st2 rest in (o1 ++ o, s, e)
      end
  end.
Proof. reflexivity. Qed.

Theorem run_invariant cfg ts : forall st o st' e,
  0 < tab_len cfg -> fresh cfg ts -> nl_ok cfg ts -> wf_stack (stack st) -> 0 <= paren st ->
  run cfg st ts = (o, st', e) ->
  wf_stack (stack st') /\ e <> IndexErr /\
  balance cfg o = depth (stack st') - depth (stack st) /\
  (e = Done -> stack st' = [0] /\ balance cfg o = - depth (stack st)).
Proof.
  induction ts as [|t rest IH]; intros st o st' e Htab Hfresh Hnl Hwf Hp H.
  - simpl in H. destruct (final_pops cfg (stack st)) as [[o1 s1] e1] eqn:Hf.
    destruct (final_pops_spec _ _ _ _ _ Hwf Hf) as (He & Hs & Ho). subst e1 s1.
    unfold h_bottom in H. simpl in H. inversion H; subst; clear H. simpl.
    destruct Hfresh as [Hne _].
    assert (Hb : balance cfg (map (fun _ => DEDENT cfg EmptyString) (removelast (stack st)))
                 = - depth (stack st)).
    { rewrite balance_dedents by auto.
      unfold depth. rewrite length_removelast by (destruct (stack st); simpl in *; [contradiction|discriminate]).
      destruct (stack st) as [|q qs]; [simpl in Hwf; contradiction|]. cbn [List.length]. lia. }
    repeat split; auto; try discriminate; rewrite Hb; unfold depth at 1; simpl; lia.
  - destruct Hfresh as [Hne Hfr]. inversion Hfr as [|? ? [Hti Htd] Hfr']; subst.
    inversion Hnl as [|? ? Hnlt Hnl']; subst.
    rewrite run_cons in H.
    destruct (phase1 cfg st t) as [[o1 st1] e1] eqn:Hph.
    destruct (phase1_spec _ _ _ _ _ _ Htab Hne Hti Htd Hnlt Hwf Hp Hph) as (Hwf1 & Hp1 & Hb1 & He1).
    destruct He1 as [-> | ->].
    2:{ inversion H; subst; clear H. repeat split; auto; discriminate. }
    destruct (step_paren cfg st1 t) as [st2 e2] eqn:Hsp.
    assert (Hp1' : 0 <= paren st1) by lia.
    destruct (step_paren_spec _ _ _ _ _ Hp1' Hsp) as (Hs2 & Hp2 & He2).
    destruct He2 as [-> | ->].
    2:{ inversion H; subst; clear H. rewrite Hs2. repeat split; auto; discriminate. }
    destruct (run cfg st2 rest) as [[o2 s2] e2'] eqn:Hr. inversion H; subst; clear H.
    assert (Hwf2 : wf_stack (stack st2)) by (rewrite Hs2; auto).
    destruct (IH _ _ _ _ Htab (conj Hne Hfr') Hnl' Hwf2 (Hp2 eq_refl) Hr) as (A & B & C & D).
    rewrite Hs2 in *. rewrite balance_app.
    repeat split; auto.
    + lia.
    + apply D; auto.
    + destruct (D H) as [_ D2]. lia.
Qed.

(* ---- consequences for process() ------------------------------------------------------- *)
Theorem process_reset cfg old1 old2 ts : process cfg old1 ts = process cfg old2 ts.
Proof. reflexivity. Qed.

Theorem process_balanced cfg old ts o st' e :
  0 < tab_len cfg -> fresh cfg ts -> nl_ok cfg ts ->
  process cfg old ts = (o, st', e) ->
  e <> IndexErr /\ wf_stack (stack st') /\
  balance cfg o = depth (stack st') /\
  (e = Done -> balance cfg o = 0 /\ stack st' = [0]).
Proof.
  intros Htab Hf Hnl H. unfold process, h_p0, h_i0 in H.
  destruct (run_invariant cfg ts _ _ _ _ Htab Hf Hnl (eq_refl : wf_stack (stack (mkSt 0 [0]))) (Z.le_refl 0) H)
    as (A & B & C & D).
  simpl stack in *. unfold depth in C at 2. unfold depth in D at 1. simpl in C, D.
  repeat split; auto.
  - lia.
  - destruct (D H0); lia.
  - destruct (D H0); auto.
Qed.

(* ---- a declarative reading of the level stack ------------------------------------------ *)
(* One logical line of indentation c, outside brackets, without error, takes stack S to S'. *)
Definition lstep (c : Z) (S S' : list Z) : Prop :=
  (exists top r, S = top :: r /\ c > top /\ S' = c :: S) \/
  (exists popped r, S = popped ++ S' /\ S' = c :: r /\ Forall (fun x => c < x) popped).

Lemma handle_NL_lstep cfg st t o st' indent :
  0 < tab_len cfg -> paren st <= 0 -> wf_stack (stack st) ->
  line_indent cfg t = Some indent ->
  handle_NL cfg st t = (o, st', None) -> lstep indent (stack st) (stack st').
Proof.
  intros Htab Hp Hwf Hli H.
  destruct (handle_NL_spec _ _ _ _ _ _ _ Htab Hp Hwf Hli H) as (top & rs & istr & Hs & Ha & Hp1 & Hwf1 & Hc).
  destruct Hc as [(Hg & _ & Hs1 & _)|[(Hg & _ & Hs1 & _)|[(Hg & _ & popped & _ & Hs1 & Hhd & Hall & _)|(_ & He & _)]]].
  - left. exists top, rs. auto.
  - right. exists [], rs. rewrite Hs1, Hs. subst. repeat split; auto.
  - right. destruct (stack st') as [|c r] eqn:E; [simpl in Hwf1; contradiction|].
    simpl in Hhd. subst c. exists popped, r. auto.
  - discriminate.
Qed.

Lemma lstep_wf c S S' : wf_stack S -> 0 <= c -> lstep c S S' -> wf_stack S'.
Proof.
  intros Hwf Hc [(top & r & -> & Hg & ->)|(popped & r & E & E' & Hall)].
  - simpl. split; [lia|]. exact Hwf.
  - subst S. clear Hall. induction popped as [|p ps IH]; [exact Hwf|].
    apply IH. simpl app in Hwf. destruct (ps ++ S') eqn:E; [destruct ps; subst; discriminate|].
    eapply wf_stack_tail; eauto.
Qed.

Lemma lstep_members c S S' l :
  wf_stack S -> lstep c S S' -> (In l S' <-> (In l S /\ l <= c) \/ l = c).
Proof.
  intros Hwf [(top & r & -> & Hg & ->)|(popped & r & E & E' & Hall)].
  - pose proof (wf_stack_below_top _ _ Hwf) as Hb. rewrite Forall_forall in Hb.
    split.
    + intros [->|[->|Hin]]; auto; left; split; simpl; auto; try lia.
      specialize (Hb _ Hin). lia.
    + intros [[Hin _]| ->]; simpl; auto.
  - assert (Hwf' : wf_stack S') by (eapply lstep_wf with (c:=c); eauto;
      [subst S'; assert (Forall (fun x => 0 <= x) (popped ++ c :: r)) by (rewrite <- E; apply wf_stack_nonneg; auto);
       rewrite Forall_forall in H; apply H; apply in_or_app; right; left; auto
      | right; exists popped, r; auto]).
    rewrite E' in Hwf'. pose proof (wf_stack_below_top _ _ Hwf') as Hb. rewrite Forall_forall in Hb.
    rewrite Forall_forall in Hall.
    split.
    + intros Hin. rewrite E' in Hin. destruct Hin as [->|Hin]; auto.
      left. split; [rewrite E, E'; apply in_or_app; right; right; auto|]. specialize (Hb _ Hin). lia.
    + intros [[Hin Hle]| ->]; [|rewrite E'; left; auto].
      rewrite E in Hin. apply in_app_or in Hin. destruct Hin as [Hin|Hin]; auto.
      specialize (Hall _ Hin). lia.
Qed.

Inductive lsteps : list Z -> list Z -> list Z -> Prop :=
| ls_nil S : lsteps [] S S
| ls_cons c cs S S1 S' : lstep c S S1 -> lsteps cs S1 S' -> lsteps (c :: cs) S S'.

(* A level is open after the lines cs iff it was open before and no later line went below
   it, or it is the indentation of some line that no later line went below. *)
Theorem open_levels_declarative cs : forall S S' l,
  wf_stack S -> Forall (fun c => 0 <= c) cs -> lsteps cs S S' ->
  (In l S' <->
     (In l S /\ Forall (fun c => l <= c) cs) \/
     (exists pre post, cs = pre ++ l :: post /\ Forall (fun c => l <= c) post)).
Proof.
  induction cs as [|c cs IH]; intros S S' l Hwf Hnn H; inversion H; subst.
  - split.
    + intros Hin. left. split; auto.
    + intros [[Hin _]|(pre & post & E & _)]; auto. destruct pre; discriminate.
  - inversion Hnn as [|? ? Hc0 Hcs0]; subst.
    assert (Hwf1 : wf_stack S1) by (eapply lstep_wf; eauto).
    match goal with Hl : lsteps cs S1 S' |- _ => pose proof (IH _ _ l Hwf1 Hcs0 Hl) as I1 end.
    match goal with Hl : lstep c S S1 |- _ => pose proof (lstep_members _ _ _ l Hwf Hl) as I2 end.
    split.
    + intros Hin. apply I1 in Hin. destruct Hin as [[Hin Hall]|(pre & post & -> & Hall)].
      * apply I2 in Hin. destruct Hin as [[Hin Hle]| ->].
        -- left. split; auto.
        -- right. exists [], cs. split; auto.
      * right. exists (c :: pre), post. split; auto.
    + intros [[Hin Hall]|(pre & post & E & Hall)].
      * inversion Hall; subst. apply I1. left. split; auto. apply I2. left; auto.
      * destruct pre as [|p pre]; simpl in E; inversion E; subst.
        -- apply I1. left. split; auto. apply I2. right; auto.
        -- apply I1. right. exists pre, post. split; auto.
Qed.
