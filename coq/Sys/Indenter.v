(* Executable model of lark/indenter.py:Indenter. The conditions and constants (the h_ definitions)
   come from Gen/IndenterHoles.v, regenerated from the source on every run; the
   control skeleton below is the one the translator's templates pin down. *)
From Coq Require Import ZArith List Bool String Ascii.
From LV Require Import Base.Prelude Sys.IndenterBase Gen.IndenterHoles.
Import ListNotations.
Local Open Scope Z_scope.

Definition INDENT (cfg : icfg) (v : string) := mkTok (indent_type cfg) v.
Definition DEDENT (cfg : icfg) (v : string) := mkTok (dedent_type cfg) v.

(* while indent < self.indent_level[-1]: pop; yield DEDENT
   if indent != self.indent_level[-1]: raise DedentError *)
Fixpoint pop_while (cfg : icfg) (indent : Z) (indent_str : string) (stk : list Z)
  : list tok * list Z * option istatus :=
  match stk with
  | [] => ([], [], Some IndexErr)
  | top :: rest =>
      if h_lt indent top then
        let '(o, s, e) := pop_while cfg indent indent_str rest in (DEDENT cfg indent_str :: o, s, e)
      else if h_ne indent top then ([], stk, Some DedentErr)
      else ([], stk, None)
  end.

Definition handle_NL (cfg : icfg) (st : istate) (t : tok) : list tok * istate * option istatus :=
  if h_inparen (paren st) then ([], st, None) else
  match after_last_nl (tval t) with
  | None => ([t], st, Some IndexErr)
  | Some indent_str =>
      let indent := h_indent cfg indent_str in
      match stack st with
      | [] => ([t], st, Some IndexErr)
      | top :: _ =>
          if h_gt indent top
          then ([t; INDENT cfg indent_str], mkSt (paren st) (indent :: stack st), None)
          else let '(o, s, e) := pop_while cfg indent indent_str (stack st) in
               (t :: o, mkSt (paren st) s, e)
      end
  end.

(* the paren bookkeeping after each token *)
Definition step_paren (cfg : icfg) (st : istate) (t : tok) : istate * option istatus :=
  if mem_string (ttype t) (open_types cfg) then (mkSt (paren st + h_inc) (stack st), None)
  else if mem_string (ttype t) (close_types cfg) then
    let p := paren st - h_dec in
    (mkSt p (stack st), if h_parenok p then None else Some AssertErr)
  else (st, None).

(* while len(self.indent_level) > 1: pop; yield DEDENT *)
Fixpoint final_pops (cfg : icfg) (stk : list Z) : list tok * list Z * option istatus :=
  match stk with
  | [] => if h_more [] then ([], [], Some IndexErr) else ([], [], None)
  | top :: rest =>
      if h_more stk then
        let '(o, s, e) := final_pops cfg rest in (DEDENT cfg EmptyString :: o, s, e)
      else ([], stk, None)
  end.

Definition list_Z_eqb (a b : list Z) : bool :=
  if list_eq_dec Z.eq_dec a b then true else false.

Fixpoint run (cfg : icfg) (st : istate) (ts : list tok) : list tok * istate * istatus :=
  match ts with
  | [] =>
      let '(o, s, e) := final_pops cfg (stack st) in
      let st' := mkSt (paren st) s in
      match e with
      | Some err => (o, st', err)
      | None => (o, st', if list_Z_eqb s [h_bottom] then Done else AssertErr)
      end
  | t :: rest =>
      let '(o1, st1, e1) :=
        if String.eqb (ttype t) (nl_type cfg) then handle_NL cfg st t else ([t], st, None) in
      match e1 with
      | Some err => (o1, st1, err)
      | None =>
          let '(st2, e2) := step_paren cfg st1 t in
          match e2 with
          | Some err => (o1, st2, err)
          | None => let '(o, s, e) := run cfg st2 rest in (o1 ++ o, s, e)
          end
      end
  end.

(* process(): reset, then _process *)
Definition process (cfg : icfg) (old : istate) (ts : list tok) : list tok * istate * istatus :=
  run cfg (mkSt h_p0 [h_i0]) ts.
