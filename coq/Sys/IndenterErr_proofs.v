(* C18, error paths: a stream ends with DedentError exactly at the first newline token outside brackets whose indentation is
   below the current level and not an open level; with AssertionError exactly at the first closing bracket that has no open
   one (the final `assert self.indent_level == [0]` never fails); IndexError never (given the NL contract). *)
From Coq Require Import ZArith List Bool String Ascii Lia.
From LV Require Import Base.Prelude Sys.IndenterBase Gen.IndenterHoles Sys.Indenter Sys.Indenter_proofs Sys.IndenterErr.
Import ListNotations.
Local Open Scope Z_scope.

Lemma step_paren_cases cfg st t st2 e2 :
  step_paren cfg st t = (st2, e2) ->
  stack st2 = stack st /\
  ( (mem_string (ttype t) (open_types cfg) = true /\ paren st2 = paren st + 1 /\ e2 = None) \/
    (mem_string (ttype t) (open_types cfg) = false /\ mem_string (ttype t) (close_types cfg) = true /\
     paren st2 = paren st - 1 /\ ((paren st - 1 >=? 0) = true /\ e2 = None \/ (paren st - 1 >=? 0) = false /\ e2 = Some AssertErr)) \/
    (mem_string (ttype t) (open_types cfg) = false /\ mem_string (ttype t) (close_types cfg) = false /\
     paren st2 = paren st /\ e2 = None) ).
Proof.
  unfold step_paren, h_inc, h_dec, h_parenok. intros H.
  destruct (mem_string (ttype t) (open_types cfg)).
  - inversion H; subst; cbn. split; auto.
  - destruct (mem_string (ttype t) (close_types cfg)).
    + inversion H; subst; cbn. split; auto. right; left. repeat split; auto.
      destruct (paren st - 1 >=? 0); auto.
    + inversion H; subst. split; auto. right; right. auto.
Qed.

(* AssertionError comes from an unmatched closing bracket and from nothing else; in particular the final assert holds *)
Theorem run_assert_iff cfg ts : forall st o st' e,
  0 < tab_len cfg -> fresh cfg ts -> nl_ok cfg ts -> wf_stack (stack st) -> 0 <= paren st ->
  run cfg st ts = (o, st', e) ->
  (e = AssertErr -> unmatched cfg (paren st) ts = true) /\
  (unmatched cfg (paren st) ts = false -> e = Done \/ e = DedentErr).
Proof.
  induction ts as [|t rest IH]; intros st o st' e Htab Hfresh Hnl Hwf Hp H.
  - simpl in H. destruct (final_pops cfg (stack st)) as [[o1 s1] e1] eqn:Hf.
    destruct (final_pops_spec _ _ _ _ _ Hwf Hf) as (He & Hs & Ho). subst e1 s1.
    unfold h_bottom in H. simpl in H. inversion H; subst. split; [discriminate|auto].
  - destruct Hfresh as [Hne Hfr]. inversion Hfr as [|? ? [Hti Htd] Hfr']; subst.
    inversion Hnl as [|? ? Hnlt Hnl']; subst.
    rewrite run_cons in H.
    destruct (phase1 cfg st t) as [[o1 st1] e1] eqn:Hph.
    destruct (phase1_spec _ _ _ _ _ _ Htab Hne Hti Htd Hnlt Hwf Hp Hph) as (Hwf1 & Hp1 & Hb1 & He1).
    destruct He1 as [-> | ->].
    2:{ inversion H; subst. split; [discriminate|auto]. }
    destruct (step_paren cfg st1 t) as [st2 e2] eqn:Hsp.
    destruct (step_paren_cases _ _ _ _ _ Hsp) as (Hs2 & Hc). cbn [unmatched]. rewrite <- Hp1.
    destruct Hc as [(Ho & Hp2 & ->)|[(Ho & Hcl & Hp2 & [(Hg & ->)|(Hg & ->)])|(Ho & Hcl & Hp2 & ->)]]; rewrite Ho; try rewrite Hcl.
    + destruct (run cfg st2 rest) as [[o2 s2] e2'] eqn:Hr. inversion H; subst.
      rewrite <- Hp2. apply (IH st2 o2 st' e Htab (conj Hne Hfr') Hnl'); auto; [rewrite Hs2; auto|lia].
    + rewrite Hg. destruct (run cfg st2 rest) as [[o2 s2] e2'] eqn:Hr. inversion H; subst.
      rewrite <- Hp2. apply Z.geb_le in Hg.
      apply (IH st2 o2 st' e Htab (conj Hne Hfr') Hnl'); auto; [rewrite Hs2; auto|lia].
    + rewrite Hg. inversion H; subst. split; [auto|discriminate].
    + destruct (run cfg st2 rest) as [[o2 s2] e2'] eqn:Hr. inversion H; subst.
      rewrite <- Hp2. apply (IH st2 o2 st' e Htab (conj Hne Hfr') Hnl'); auto; [rewrite Hs2; auto|lia].
Qed.

Lemma steps_cons cfg st t rest :
  steps cfg st (t :: rest) =
  let '(o1, st1, e1) := phase1 cfg st t in
  match e1 with
  | Some _ => None
  | None => let '(st2, e2) := step_paren cfg st1 t in
            match e2 with Some _ => None | None => steps cfg st2 rest end
  end.
Proof. reflexivity. Qed.

(* DedentError: exactly when some newline token, reached without error and outside brackets, dedents to a column that is
   below the current level and not an open level *)
Theorem run_dedent_iff cfg ts : forall st o st' e,
  0 < tab_len cfg -> fresh cfg ts -> nl_ok cfg ts -> wf_stack (stack st) -> 0 <= paren st ->
  run cfg st ts = (o, st', e) ->
  (e = DedentErr <->
   exists pre t post st1 indent,
     ts = pre ++ t :: post /\ steps cfg st pre = Some st1 /\ ttype t = nl_type cfg /\ paren st1 <= 0 /\
     line_indent cfg t = Some indent /\ indent < hd 0 (stack st1) /\ ~ In indent (stack st1)).
Proof.
  induction ts as [|t rest IH]; intros st o st' e Htab Hfresh Hnl Hwf Hp H.
  - simpl in H. destruct (final_pops cfg (stack st)) as [[o1 s1] e1] eqn:Hf.
    destruct (final_pops_spec _ _ _ _ _ Hwf Hf) as (He & Hs & Ho). subst e1 s1.
    unfold h_bottom in H. simpl in H. inversion H; subst. split; [discriminate|].
    intros (pre & t & post & st1 & indent & E & _). destruct pre; discriminate.
  - destruct Hfresh as [Hne Hfr]. inversion Hfr as [|? ? [Hti Htd] Hfr']; subst.
    inversion Hnl as [|? ? Hnlt Hnl']; subst.
    rewrite run_cons in H.
    destruct (phase1 cfg st t) as [[o1 st1] e1] eqn:Hph.
    destruct (phase1_spec _ _ _ _ _ _ Htab Hne Hti Htd Hnlt Hwf Hp Hph) as (Hwf1 & Hp1 & Hb1 & He1).
    (* does this token raise DedentError ? *)
    assert (Hhere : e1 = Some DedentErr <->
                    (ttype t = nl_type cfg /\ paren st <= 0 /\ exists indent, line_indent cfg t = Some indent /\
                     indent < hd 0 (stack st) /\ ~ In indent (stack st))).
    { unfold phase1 in Hph. destruct (String.eqb (ttype t) (nl_type cfg)) eqn:Hisnl.
      2:{ inversion Hph; subst. split; [discriminate|]. intros (A & _). apply String.eqb_neq in Hisnl. contradiction. }
      apply String.eqb_eq in Hisnl.
      destruct (Z_gt_le_dec (paren st) 0) as [Hin|Hout].
      { rewrite handle_NL_in_brackets in Hph by auto. inversion Hph; subst. split; [discriminate|]. intros (_ & B & _). lia. }
      destruct (after_last_nl (tval t)) as [istr|] eqn:Ha; [|exfalso; apply (Hnlt Hisnl); auto].
      assert (Hli : line_indent cfg t = Some (h_indent cfg istr)) by (unfold line_indent; rewrite Ha; reflexivity).
      destruct (handle_NL_spec _ _ _ _ _ _ _ Htab Hout Hwf Hli Hph) as (top & rs & istr' & Hs & Ha' & _ & _ & Hcases).
      rewrite Hs. cbn [hd]. split.
      - intros ->. destruct Hcases as [(_ & _ & _ & He)|[(_ & _ & _ & He)|[(_ & He & _)|(Hg & _ & Hnin)]]]; try discriminate.
        repeat split; auto. exists (h_indent cfg istr). rewrite <- Hs. auto.
      - intros (_ & _ & indent & Hli' & Hlt & Hnin). rewrite Hli in Hli'. inversion Hli'; subst indent.
        destruct Hcases as [(Hg & _)|[(Hg & _)|[(Hg & He & popped & Hne' & Hs1 & Hhd & Hall & Ho)|(Hg & He & _)]]]; try lia; auto.
        exfalso. apply Hnin. rewrite <- Hs, Hs1. apply in_or_app. right.
        destruct (stack st1) as [|c r]; [simpl in Hwf1; contradiction|]. simpl in Hhd. subst c. left; auto. }
    destruct He1 as [-> | ->].
    2:{ inversion H; subst. split; auto. intros _. destruct Hhere as [Hh _]. destruct (Hh eq_refl) as (A & B & indent & C & D & E).
        exists [], t, rest, st, indent. repeat split; auto. }
    destruct (step_paren cfg st1 t) as [st2 e2] eqn:Hsp.
    assert (Hp1' : 0 <= paren st1) by lia.
    destruct (step_paren_spec _ _ _ _ _ Hp1' Hsp) as (Hs2 & Hp2 & He2).
    assert (Hnot : ~ (ttype t = nl_type cfg /\ paren st <= 0 /\ exists indent, line_indent cfg t = Some indent /\
                      indent < hd 0 (stack st) /\ ~ In indent (stack st))).
    { intros X. apply Hhere in X. discriminate. }
    destruct He2 as [-> | ->].
    2:{ inversion H; subst. split; [discriminate|].
        intros (pre & t0 & post & st0 & indent & E & Hst & A & B & C & D & F).
        destruct pre as [|p pre]; simpl in E; inversion E; subst.
        - simpl in Hst. inversion Hst; subst. exfalso. apply Hnot. repeat split; auto. exists indent. auto.
        - rewrite steps_cons, Hph, Hsp in Hst. discriminate. }
    destruct (run cfg st2 rest) as [[o2 s2] e2'] eqn:Hr. inversion H; subst.
    assert (Hwf2 : wf_stack (stack st2)) by (rewrite Hs2; auto).
    rewrite (IH st2 o2 st' e Htab (conj Hne Hfr') Hnl' Hwf2 (Hp2 eq_refl) Hr).
    split.
    + intros (pre & t0 & post & st0 & indent & E & Hst & R). exists (t :: pre), t0, post, st0, indent.
      split; [simpl; rewrite E; auto|]. split; [rewrite steps_cons, Hph, Hsp; exact Hst|exact R].
    + intros (pre & t0 & post & st0 & indent & E & Hst & A & B & C & D & F).
      destruct pre as [|p pre]; simpl in E; inversion E; subst.
      * simpl in Hst. inversion Hst; subst. exfalso. apply Hnot. repeat split; auto. exists indent. auto.
      * rewrite steps_cons, Hph, Hsp in Hst. exists pre, t0, post, st0, indent. repeat split; auto.
Qed.
