(* Positions of the tokens the Indenter emits (C18). *)
From Coq Require Import ZArith List Bool String Ascii Lia.
From LV Require Import Base.Prelude Sys.IndenterBase Gen.IndenterHoles Sys.Indenter Sys.Indenter_proofs Sys.IndenterPos.
Import ListNotations.

Section PosProofs.
Variable P : Type.

(* forgetting the positions gives the stream of the position-free model *)
Lemma run_pos_forget cfg ts : forall st last,
  let '(o, s, e) := run_pos P cfg st last ts in (map fst o, s, e) = run cfg st (map fst ts).
Proof.
  induction ts as [|[t p] rest IH]; intros st last; cbn [run_pos run map fst].
  - destruct (final_pops cfg (stack st)) as [[o s] e].
    assert (M : map fst (map (fun t : tok => (t, last)) o) = o) by (rewrite map_map; cbn [fst]; apply map_id).
    destruct e; cbn; rewrite M; reflexivity.
  - unfold IndenterPos.phase1.
    destruct (if String.eqb (ttype t) (nl_type cfg) then handle_NL cfg st t else ([t], st, None)) as [[o1 st1] e1].
    assert (M : map fst (map (fun x : tok => (x, Some p)) o1) = o1) by (rewrite map_map; cbn [fst]; apply map_id).
    destruct e1; [rewrite M; reflexivity|].
    destruct (step_paren cfg st1 t) as [st2 e2]. destruct e2; [rewrite M; reflexivity|].
    specialize (IH st2 (Some p)). destruct (run_pos P cfg st2 (Some p) rest) as [[o s] e].
    destruct (run cfg st2 (map fst rest)) as [[o' s'] e']. inversion IH; subst.
    rewrite map_app, M. reflexivity.
Qed.

Lemma pop_while_out cfg indent istr stk : forall o s e,
  pop_while cfg indent istr stk = (o, s, e) -> Forall (fun x => ttype x = dedent_type cfg) o.
Proof.
  induction stk as [|x r IH]; intros o s e Hp; cbn in Hp.
  - inversion Hp; constructor.
  - destruct (h_lt indent x).
    + destruct (pop_while cfg indent istr r) as [[o' s'] e'] eqn:Hr. inversion Hp; subst.
      constructor; [reflexivity|]. eapply IH; eauto.
    + destruct (h_ne indent x); inversion Hp; constructor.
Qed.

(* what the tokens handle_NL / the pass-through produce look like *)
Lemma phase1_out cfg st t o1 st1 e1 :
  IndenterPos.phase1 cfg st t = (o1, st1, e1) ->
  Forall (fun x => x = t \/ (ttype t = nl_type cfg /\ (ttype x = indent_type cfg \/ ttype x = dedent_type cfg))) o1.
Proof.
  unfold IndenterPos.phase1. destruct (String.eqb (ttype t) (nl_type cfg)) eqn:E.
  2:{ intros H; inversion H; subst. constructor; auto. }
  apply String.eqb_eq in E. unfold handle_NL.
  destruct (h_inparen (paren st)); [intros H; inversion H; constructor|].
  destruct (after_last_nl (tval t)) as [istr|]; [|intros H; inversion H; subst; constructor; auto].
  destruct (stack st) as [|top rs] eqn:Hs; [intros H; inversion H; subst; constructor; auto|].
  destruct (h_gt (h_indent cfg istr) top).
  - intros H; inversion H; subst. constructor; [auto|]. constructor; [right; cbn; auto|constructor].
  - destruct (pop_while cfg (h_indent cfg istr) istr (top :: rs)) as [[o s] e] eqn:Hp.
    pose proof (pop_while_out _ _ _ _ _ _ _ Hp) as Hd. intros H; inversion H; subst.
    constructor; [auto|]. eapply Forall_impl; [|exact Hd]. cbn. intros a Ha. right. auto.
Qed.

Lemma final_pops_out cfg stk o s e : final_pops cfg stk = (o, s, e) -> Forall (fun x => ttype x = dedent_type cfg) o.
Proof.
  revert o s e. induction stk as [|x r IH]; intros o s e H; cbn in H.
  - destruct (h_more []); inversion H; constructor.
  - destruct (h_more (x :: r)); [|inversion H; constructor].
    destruct (final_pops cfg r) as [[o' s'] e'] eqn:Hr. inversion H; subst. constructor; [reflexivity|]. eapply IH; eauto.
Qed.

Lemma last_default_irrelevant {A} (l : list A) : forall x d d', List.last (x :: l) d = List.last (x :: l) d'.
Proof.
  induction l as [|y l IH]; intros x d d'; [reflexivity|].
  change (List.last (x :: y :: l) d) with (List.last (y :: l) d).
  change (List.last (x :: y :: l) d') with (List.last (y :: l) d'). apply IH.
Qed.

(* INDENT / DEDENT positions: every token of the output is an input token at its own position, or an INDENT / DEDENT carrying
   the position of a NEWLINE token of the input (the one whose handling emitted it), or one of the end-of-stream DEDENTs,
   carrying the position of the last token of the stream (of [last] when the stream given is empty). *)
Theorem run_pos_positions cfg ts : forall st last o s e,
  run_pos P cfg st last ts = (o, s, e) ->
  Forall (fun x : otok P =>
            (exists p, snd x = Some p /\ In (fst x, p) ts) \/
            (exists t p, snd x = Some p /\ In (t, p) ts /\ ttype t = nl_type cfg /\
                         (ttype (fst x) = indent_type cfg \/ ttype (fst x) = dedent_type cfg)) \/
            (ttype (fst x) = dedent_type cfg /\ snd x = List.last (map (fun tp => Some (snd tp)) ts) last)) o.
Proof.
  induction ts as [|[t p] rest IH]; intros st last o s e H; cbn [run_pos] in H.
  - destruct (final_pops cfg (stack st)) as [[o1 s1] e1] eqn:Hf.
    pose proof (final_pops_out _ _ _ _ _ Hf) as Hd.
    assert (o = map (fun t => (t, last)) o1) by (destruct e1; inversion H; auto). subst o.
    clear H Hf. induction Hd as [|x l Hx Hl IHl]; cbn [map]; constructor; [|exact IHl].
    right; right. cbn. auto.
  - destruct (IndenterPos.phase1 cfg st t) as [[o1 st1] e1] eqn:Hph.
    pose proof (phase1_out _ _ _ _ _ _ Hph) as Hout.
    assert (H1 : Forall (fun x : otok P =>
            (exists p0, snd x = Some p0 /\ In (fst x, p0) ((t, p) :: rest)) \/
            (exists t0 p0, snd x = Some p0 /\ In (t0, p0) ((t, p) :: rest) /\ ttype t0 = nl_type cfg /\
                         (ttype (fst x) = indent_type cfg \/ ttype (fst x) = dedent_type cfg)) \/
            (ttype (fst x) = dedent_type cfg /\
             snd x = List.last (map (fun tp => Some (snd tp)) ((t, p) :: rest)) last))
            (map (fun x => (x, Some p)) o1)).
    { clear - Hout. induction Hout as [|x l Hx Hl IHl]; cbn [map]; constructor; [|exact IHl].
      destruct Hx as [-> | (Hnl & Hty)].
      - left. exists p. cbn. auto.
      - right; left. exists t, p. cbn. auto. }
    destruct e1; [inversion H; subst; exact H1|].
    destruct (step_paren cfg st1 t) as [st2 e2]. destruct e2; [inversion H; subst; exact H1|].
    destruct (run_pos P cfg st2 (Some p) rest) as [[o2 s2] e2] eqn:Hr. inversion H; subst.
    apply Forall_app. split; [exact H1|].
    specialize (IH _ _ _ _ _ Hr). eapply Forall_impl; [|exact IH].
    intros x [ (p0 & A & B) | [ (t0 & p0 & A & B & C) | (A & B) ] ].
    + left. exists p0. split; auto. right; auto.
    + right; left. exists t0, p0. split; auto. split; [right; auto|auto].
    + right; right. split; auto. rewrite B. cbn [map snd].
      destruct rest as [|r0 rest']; [reflexivity|]. cbn [map].
      change (List.last (Some p :: Some (snd r0) :: map (fun tp : tok * P => Some (snd tp)) rest') last)
        with (List.last (Some (snd r0) :: map (fun tp : tok * P => Some (snd tp)) rest') last).
      apply last_default_irrelevant.
Qed.

(* the explicit zero-position Token(...) of _process is dead code: process() starts at level [0], so a stream without
   tokens ends without any DEDENT *)
Theorem no_zero_position_dedent cfg : process_pos P cfg [] = ([], mkSt h_p0 [h_i0], Done).
Proof. reflexivity. Qed.
End PosProofs.
