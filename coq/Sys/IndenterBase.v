(* Types shared by the regenerated Indenter holes and the Indenter model. *)
From Coq Require Import ZArith List String.
Import ListNotations.

Record icfg := mkCfg {
  nl_type : string;
  open_types : list string;
  close_types : list string;
  indent_type : string;
  dedent_type : string;
  tab_len : Z }.

Record tok := mkTok { ttype : string; tval : string }.

Inductive istatus := Done | DedentErr | AssertErr | IndexErr.

(* stack: head = indent_level[-1] (top), last = indent_level[0] *)
Record istate := mkSt { paren : Z; stack : list Z }.
