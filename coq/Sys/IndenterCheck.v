(* Comparison functions used by the generated correspondence cases for C18 (no proofs). *)
From Coq Require Import ZArith List Bool String Ascii.
From LV Require Import Base.Prelude Sys.IndenterBase Gen.IndenterHoles Sys.Indenter.
Import ListNotations.

Definition status_code (e : istatus) : nat :=
  match e with Done => 0 | DedentErr => 1 | AssertErr => 2 | IndexErr => 3 end.

Definition tok_eqb (a b : tok) : bool := String.eqb (ttype a) (ttype b) && String.eqb (tval a) (tval b).

Fixpoint toks_eqb (a b : list tok) : bool :=
  match a, b with
  | [], [] => true
  | x :: a', y :: b' => tok_eqb x y && toks_eqb a' b'
  | _, _ => false
  end.

(* one recorded stream: input tokens, observed output, observed status code,
   observed paren_level and indent_level (top first) afterwards *)
Definition obs := (list tok * list tok * nat * Z * list Z)%type.

Fixpoint check_streams (cfg : icfg) (st : istate) (l : list obs) : bool :=
  match l with
  | [] => true
  | (ts, out, code, p, stk) :: r =>
      let '(o, st', e) := process cfg st ts in
      toks_eqb o out && Nat.eqb (status_code e) code && Z.eqb (paren st') p
      && list_Z_eqb (stack st') stk && check_streams cfg st' r
  end.

Definition check_case (c : icfg * list obs) : bool :=
  check_streams (fst c) (mkSt 0%Z [0%Z]) (snd c).
