(* C13 - model of lark/parsers/lalr_parser_state.py (ParserState.feed_token / copy),
   lark/parsers/lalr_interactive_parser.py (InteractiveParser / ImmutableInteractiveParser)
   and of the LALR callback chain of lark/parse_tree_builder.py
   (PropagatePositions . ChildFilterLALR[_NoPlaceholders] . ExpandSingleChild . Tree), over an
   abstract parse table, with Meta objects and lexer threads on the heap.  PropagatePositions is
   Pos.MetaSpan.propagate (the positions agent's model) applied to the Meta cell of the result.
   Model only, no proofs.  Terminal number 0 is $END. *)
From Coq Require Import List Arith Bool ZArith.
From LV Require Pos.MetaSpan.
From LV Require Import Inter.Heap.
Import ListNotations.

(* ------------------------------------------------------------------ parse table *)
Inductive act := Shift (s : nat) | Reduce (r : nat).

Record table := {
  action : nat -> nat -> option act;   (* states[state][TERMINAL]             *)
  goto   : nat -> nat -> option nat;   (* states[state][rule.origin.name] = (Shift, s) *)
  terms  : nat -> list nat;            (* the upper-case keys of states[state] (choices()) *)
  rlhs   : nat -> nat;                 (* rule.origin                          *)
  rarity : nat -> nat;                 (* len(rule.expansion)                  *)
  start_state : nat;
  end_state : nat }.

Definition END : nat := 0.

(* ------------------------------------------------------------------ callbacks *)
(* per child of the reduction, in order: what ChildFilterLALR does with it
   (nn = number of None placeholders inserted before it) *)
Inductive dir := DSkip | DKeep (nn : nat) | DExpand (nn : nat).

(* to_include = [(i, to_expand, add_none)] with strictly increasing i (it is built by
   enumerate(expansion)); converted to one directive per child *)
Fixpoint dirs_of (j arity : nat) (inc : list (nat * bool * nat)) : list dir :=
  match arity with
  | 0 => []
  | S a =>
      match inc with
      | (i, ex, nn) :: rest =>
          if i =? j then (if ex then DExpand nn else DKeep nn) :: dirs_of (S j) a rest
          else DSkip :: dirs_of (S j) a inc
      | [] => DSkip :: dirs_of (S j) a []
      end
  end.

Fixpoint inc_wf (j arity : nat) (inc : list (nat * bool * nat)) : bool :=
  match inc with
  | [] => true
  | (i, _, _) :: rest => (j <=? i) && (i <? arity) && inc_wf (S i) arity rest
  end.

Record cbshape := {
  cb_data : nat;                          (* alias or template_source or origin name *)
  cb_expand1 : bool;                      (* ExpandSingleChild present (expand1 and no alias) *)
  cb_filter : option (list dir * nat) }.  (* ChildFilterLALR: directives, append_none *)

(* callbacks = {}:  value = s  (the bare list; represented as a node with data 0) *)
Definition cb_none : cbshape := {| cb_data := 0; cb_expand1 := false; cb_filter := None |}.

(* the callbacks of one parser configuration *)
Record cbenv := {
  ce_cb : nat -> cbshape;             (* per rule *)
  ce_pp : bool;                       (* propagate_positions: PropagatePositions wraps every rule callback *)
  ce_tp : nat -> trip * trip }.       (* (start_pos, line, column), (end_pos, end_line, end_column) of token id *)

Definition env_none : cbenv :=
  {| ce_cb := fun _ => cb_none; ce_pp := false; ce_tp := fun _ => ((0, 0, 0), (0, 0, 0))%Z |}.

(* --- on immutable trees (the specification of the callback chain) *)
Definition pchildren (t : ptree) : list ptree :=
  match t with PNode _ _ ch => ch | _ => [] end.

Fixpoint pfilter (acc args : list ptree) (ds : list dir) : list ptree :=
  match args, ds with
  | c :: args', d :: ds' =>
      match d with
      | DSkip => pfilter acc args' ds'
      | DKeep nn => pfilter (acc ++ repeat PNone nn ++ [c]) args' ds'
      | DExpand nn => pfilter (acc ++ repeat PNone nn ++ pchildren c) args' ds'
      end
  | _, _ => acc
  end.

Definition pbuild (sh : cbshape) (ch : list ptree) : ptree :=
  match ch with
  | [x] => if cb_expand1 sh then x else PNode (cb_data sh) empty_meta ch
  | _ => PNode (cb_data sh) empty_meta ch
  end.

Definition pcb_inner (sh : cbshape) (args : list ptree) : ptree :=
  match cb_filter sh with
  | None => pbuild sh args
  | Some (ds, app) => pbuild sh (pfilter [] args ds ++ repeat PNone app)
  end.

(* a child as _pp_get_meta sees it *)
Definition pshape (tp : nat -> trip * trip) (t : ptree) : MetaSpan.shaped :=
  match t with
  | PTok _ id => MetaSpan.SHTok (fst (tp id)) (snd (tp id))
  | PNode _ mt _ => MetaSpan.SHTree mt
  | PNone => MetaSpan.SHNone
  end.

(* PropagatePositions.__call__ : res = node_builder(children); if res is a Tree its meta becomes
   propagate(res.meta, children) - children are the *unfiltered* values of the reduction *)
Definition ppp (tp : nat -> trip * trip) (res : ptree) (args : list ptree) : ptree :=
  match res with
  | PNode d mt ch => PNode d (MetaSpan.propagate mt (map (pshape tp) args)) ch
  | r => r
  end.

Definition pcb (E : cbenv) (r : nat) (args : list ptree) : ptree :=
  let res := pcb_inner (ce_cb E r) args in
  if ce_pp E then ppp (ce_tp E) res args else res.

(* --- on the heap (what the code does).  cur = the list object bound to `filtered` *)
Fixpoint hfilter (H : heap) (cur : loc) (args : list value) (ds : list dir) : heap * loc :=
  match args, ds with
  | c :: args', d :: ds' =>
      match d with
      | DSkip => hfilter H cur args' ds'
      | DKeep nn =>
          (* if add_none: filtered += [None]*add_none ; filtered.append(children[i]) *)
          hfilter (hext (hext H cur (repeat VNone nn)) cur [c]) cur args' ds'
      | DExpand nn =>
          let H1 := hext H cur (repeat VNone nn) in
          match c with
          | VTree _ lc _ =>
              match hget H1 cur with
              | [] => hfilter H1 lc args' ds'                         (* filtered = children[i].children *)
              | _ :: _ => hfilter (hext H1 cur (hget H1 lc)) cur args' ds'  (* filtered += children[i].children *)
              end
          | _ => hfilter H1 cur args' ds'   (* cannot happen: `_rule` values are Trees *)
          end
      end
  | _, _ => (H, cur)
  end.

(* ExpandSingleChild . Tree   applied to the list object at l; a new Tree gets a new (empty) Meta *)
Definition hbuild (sh : cbshape) (H : heap) (l : loc) : heap * value :=
  let fresh := (H ++ [CMeta empty_meta], VTree (cb_data sh) l (length H)) in
  match hget H l with
  | [x] => if cb_expand1 sh then (H, x) else fresh
  | _ => fresh
  end.

Definition hcb_inner (sh : cbshape) (H : heap) (args : list value) : heap * value :=
  match cb_filter sh with
  | None =>
      (* s = value_stack[-size:] is a new list; Tree(name, s) keeps it *)
      let (H1, l) := halloc H (CList args) in hbuild sh H1 l
  | Some (ds, app) =>
      let (H0, l0) := halloc H (CList []) in      (* filtered = [] *)
      let (H1, l) := hfilter H0 l0 args ds in
      let H2 := hext H1 l (repeat VNone app) in   (* filtered += [None]*append_none *)
      hbuild sh H2 l
  end.

Definition hshape (tp : nat -> trip * trip) (H : heap) (v : value) : MetaSpan.shaped :=
  match v with
  | VTok _ id => MetaSpan.SHTok (fst (tp id)) (snd (tp id))
  | VTree _ _ m => MetaSpan.SHTree (mget H m)
  | VNone => MetaSpan.SHNone
  end.

(* PropagatePositions.__call__ after node_builder returned res: first_meta / last_meta are looked up
   in the children as they are now (res may be one of them), then res.meta is written in place *)
Definition hpp (tp : nat -> trip * trip) (H : heap) (res : value) (args : list value) : heap :=
  match res with
  | VTree _ _ m => mset H m (MetaSpan.propagate (mget H m) (map (hshape tp H) args))
  | _ => H
  end.

Definition hcb (E : cbenv) (r : nat) (H : heap) (args : list value) : heap * value :=
  let (H1, res) := hcb_inner (ce_cb E r) H args in
  (if ce_pp E then hpp (ce_tp E) H1 res args else H1, res).

(* ------------------------------------------------------------------ feed_token *)
Inductive kind :=
| KShift     (* returned None after a shift *)
| KResult    (* is_end and the end state was reached: returned value_stack[-1] *)
| KError     (* UnexpectedToken *)
| KStuck     (* any other exception (assert, KeyError on goto, IndexError): malformed table *)
| KFuel.     (* model only *)

Definition kind_ok (k : kind) : bool := match k with KShift | KResult => true | _ => false end.

(* state stack: top first.  value stack: Python order (top last). *)
Fixpoint hfeed (k : nat) (T : table) (E : cbenv) (H : heap) (ss : list nat)
         (vs : list value) (ty id : nat) (is_end : bool) : heap * list nat * list value * kind :=
  match k with
  | 0 => (H, ss, vs, KFuel)
  | S k' =>
      match ss with
      | [] => (H, ss, vs, KStuck)
      | s :: _ =>
          match action T s ty with
          | None => (H, ss, vs, KError)
          | Some (Shift s') =>
              if is_end then (H, ss, vs, KStuck)
              else (H, s' :: ss, vs ++ [VTok ty id], KShift)
          | Some (Reduce r) =>
              let n := rarity T r in
              let '(H1, v) := hcb E r H (lastn n vs) in
              let ss0 := skipn n ss in
              let vs0 := droplast n vs in
              match ss0 with
              | [] => (H1, ss0, vs0, KStuck)
              | s0 :: _ =>
                  match goto T s0 (rlhs T r) with
                  | None => (H1, ss0, vs0, KStuck)
                  | Some s1 =>
                      if is_end && (s1 =? end_state T)
                      then (H1, s1 :: ss0, vs0 ++ [v], KResult)
                      else hfeed k' T E H1 (s1 :: ss0) (vs0 ++ [v]) ty id is_end
                  end
              end
          end
      end
  end.

(* the same function on immutable trees *)
Fixpoint pfeed (k : nat) (T : table) (E : cbenv) (ss : list nat)
         (ts : list ptree) (ty id : nat) (is_end : bool) : list nat * list ptree * kind :=
  match k with
  | 0 => (ss, ts, KFuel)
  | S k' =>
      match ss with
      | [] => (ss, ts, KStuck)
      | s :: _ =>
          match action T s ty with
          | None => (ss, ts, KError)
          | Some (Shift s') =>
              if is_end then (ss, ts, KStuck)
              else (s' :: ss, ts ++ [PTok ty id], KShift)
          | Some (Reduce r) =>
              let n := rarity T r in
              let v := pcb E r (lastn n ts) in
              let ss0 := skipn n ss in
              let ts0 := droplast n ts in
              match ss0 with
              | [] => (ss0, ts0, KStuck)
              | s0 :: _ =>
                  match goto T s0 (rlhs T r) with
                  | None => (ss0, ts0, KStuck)
                  | Some s1 =>
                      if is_end && (s1 =? end_state T)
                      then (s1 :: ss0, ts0 ++ [v], KResult)
                      else pfeed k' T E (s1 :: ss0) (ts0 ++ [v]) ty id is_end
                  end
              end
          end
      end
  end.

(* control only: the state stack never depends on values, heap or callbacks *)
Fixpoint cfeed (k : nat) (T : table) (ss : list nat) (ty : nat) (is_end : bool) : list nat * kind :=
  match k with
  | 0 => (ss, KFuel)
  | S k' =>
      match ss with
      | [] => (ss, KStuck)
      | s :: _ =>
          match action T s ty with
          | None => (ss, KError)
          | Some (Shift s') => if is_end then (ss, KStuck) else (s' :: ss, KShift)
          | Some (Reduce r) =>
              let ss0 := skipn (rarity T r) ss in
              match ss0 with
              | [] => (ss0, KStuck)
              | s0 :: _ =>
                  match goto T s0 (rlhs T r) with
                  | None => (ss0, KStuck)
                  | Some s1 =>
                      if is_end && (s1 =? end_state T) then (s1 :: ss0, KResult)
                      else cfeed k' T (s1 :: ss0) ty is_end
                  end
              end
          end
      end
  end.

(* InteractiveParser.feed_token(token) = parser_state.feed_token(token, token.type == '$END') *)
Definition hifeed k T E H ss vs (ty id : nat) := hfeed k T E H ss vs ty id (ty =? END).
Definition pifeed k T E ss ts (ty id : nat) := pfeed k T E ss ts ty id (ty =? END).

(* _Parser.parse_from_state: feed every token of the lexer with is_end=False, then $END
   with is_end=True; the first exception ends the loop (the state keeps what was done). *)
Fixpoint hparse_from (k : nat) (T : table) (E : cbenv) (H : heap) (ss : list nat)
         (vs : list value) (toks : list (nat * nat)) : heap * list nat * list value * kind :=
  match toks with
  | [] => hfeed k T E H ss vs END 0 true
  | (ty, id) :: rest =>
      let '(H1, ss1, vs1, kd) := hfeed k T E H ss vs ty id false in
      match kd with
      | KShift => hparse_from k T E H1 ss1 vs1 rest
      | _ => (H1, ss1, vs1, kd)
      end
  end.

Fixpoint pparse_from (k : nat) (T : table) (E : cbenv) (ss : list nat)
         (ts : list ptree) (toks : list (nat * nat)) : list nat * list ptree * kind :=
  match toks with
  | [] => pfeed k T E ss ts END 0 true
  | (ty, id) :: rest =>
      let '(ss1, ts1, kd) := pfeed k T E ss ts ty id false in
      match kd with
      | KShift => pparse_from k T E ss1 ts1 rest
      | _ => (ss1, ts1, kd)
      end
  end.

(* how many tokens parse_from_state takes from the lexer: all, or up to and including the first
   one whose feed raises (control only) *)
Fixpoint cparse_cnt (k : nat) (T : table) (ss : list nat) (toks : list (nat * nat)) : nat :=
  match toks with
  | [] => 0
  | (ty, _) :: rest =>
      let '(ss1, kd) := cfeed k T ss ty false in
      match kd with
      | KShift => S (cparse_cnt k T ss1 rest)
      | _ => 1
      end
  end.

(* Lark.parse on a token sequence, as a function to immutable trees *)
Definition pparse k T E toks := pparse_from k T E [start_state T] [] toks.

(* feeding tokens one by one through an InteractiveParser (stop at the first exception),
   then feed_eof() *)
Fixpoint hfeed_all (k : nat) (T : table) (E : cbenv) (H : heap) (ss : list nat)
         (vs : list value) (toks : list (nat * nat)) : heap * list nat * list value * kind :=
  match toks with
  | [] => hifeed k T E H ss vs END 0
  | (ty, id) :: rest =>
      let '(H1, ss1, vs1, kd) := hifeed k T E H ss vs ty id in
      match kd with
      | KShift => hfeed_all k T E H1 ss1 vs1 rest
      | _ => (H1, ss1, vs1, kd)
      end
  end.

(* ------------------------------------------------------------------ parsers and forks *)
(* an InteractiveParser: p_lt = self.lexer_thread, p_sl = self.parser_state.lexer (the thread
   resume_parse() reads from); both are LexerThread objects on the heap *)
Record parser := { p_imm : bool; p_ss : list nat; p_vs : list value; p_lt : loc; p_sl : loc }.
Record world := { w_heap : heap; w_ps : list parser }.

(* the three places where the copy code matters (regenerated / pinned: Gen/InterHoles.v) *)
Record impl := {
  im_deep : bool;    (* default of InteractiveParser.copy(deepcopy_values=...), through which copy(p),
                        as_immutable, as_mutable and ImmutableInteractiveParser.feed_token go *)
  im_meta : bool;    (* Tree.__deepcopy__ deep-copies the Meta object (F25 repaired) *)
  im_lex : bool }.   (* InteractiveParser.copy rebinds parser_state.lexer to the copied thread (F26 repaired) *)

Inductive op :=
| OFeed (i ty id : nat)        (* p_i.feed_token(Token): in place, or copy-then-feed if p_i is immutable *)
| OStep (i : nat)              (* one iteration of p_i.iter_parse(): next token of its own lexer thread, fed *)
| OCopy (i : nat) (deep : bool) (* p_i.copy(deepcopy_values=deep); copy(p_i) is deep=default *)
| OAsImm (i : nat)             (* p_i.as_immutable() *)
| OAsMut (i : nat)             (* p_i.as_mutable()   *)
| OAccepts (i : nat)           (* p_i.accepts()      *)
| OResume (i : nat).           (* p_i.resume_parse(): the rest of parser_state.lexer, then $END *)

Inductive obs :=
| ObsFeed (j : nat) (kd : kind) (ss : list nat)   (* parser j was fed: outcome, its state stack *)
| ObsNew (j : nat)
| ObsAccepts (l : list nat)
| ObsBad.

Fixpoint set_nth {A} (l : list A) (i : nat) (x : A) : list A :=
  match l, i with
  | [], _ => []
  | _ :: r, 0 => x :: r
  | y :: r, S i' => y :: set_nth r i' x
  end.

(* InteractiveParser.copy(deepcopy_values):
     lexer_thread = copy(self.lexer_thread)
     parser_state = self.parser_state.copy(deepcopy_values)   # state stack copied, values deep or shared
     parser_state.lexer = lexer_thread                        # (im_lex)
     return type(self)(self.parser, parser_state, lexer_thread) *)
Definition copy_parser (I : impl) (deep : bool) (H : heap) (p : parser) : heap * parser :=
  let (H0, lt) := halloc H (CLex (lget H (p_lt p))) in
  let (H1, vs1) := if deep then deepcopy (im_meta I) H0 (p_vs p) else (H0, p_vs p) in
  (H1, {| p_imm := p_imm p; p_ss := p_ss p; p_vs := vs1; p_lt := lt;
          p_sl := if im_lex I then lt else p_sl p |}).

(* one trial of accepts(): new_cursor = self.copy(deepcopy_values=False) with callbacks = {};
   new_cursor.feed_token(Token(t, '')) - which for an immutable cursor copies (default) first *)
Definition trial (I : impl) (k : nat) (T : table) (H : heap) (p : parser) (t : nat) : heap * kind :=
  let (H0, p0) := copy_parser I false H p in
  let (H1, p1) := if p_imm p0 then copy_parser I (im_deep I) H0 p0 else (H0, p0) in
  let '(H2, _, _, kd) := hifeed k T env_none H1 (p_ss p1) (p_vs p1) t 0 in
  (H2, kd).

Fixpoint accepts_loop (I : impl) (k : nat) (T : table) (H : heap) (p : parser) (ts : list nat) : heap * list nat :=
  match ts with
  | [] => (H, [])
  | t :: r =>
      let (H1, kd) := trial I k T H p t in
      let (H2, acc) := accepts_loop I k T H1 p r in
      (H2, if kind_ok kd then t :: acc else acc)
  end.

Definition choices (T : table) (p : parser) : list nat :=
  match p_ss p with s :: _ => terms T s | [] => [] end.

Definition with_state (p : parser) (ss : list nat) (vs : list value) : parser :=
  {| p_imm := p_imm p; p_ss := ss; p_vs := vs; p_lt := p_lt p; p_sl := p_sl p |}.
Definition with_imm (p : parser) (b : bool) : parser :=
  {| p_imm := b; p_ss := p_ss p; p_vs := p_vs p; p_lt := p_lt p; p_sl := p_sl p |}.

(* input = the tokens of the text given to parse_interactive(text) *)
Definition wstep (I : impl) (k : nat) (T : table) (E : cbenv) (input : list (nat * nat))
           (w : world) (o : op) : world * obs :=
  let H := w_heap w in
  let ps := w_ps w in
  match o with
  | OFeed i ty id =>
      match nth_error ps i with
      | None => (w, ObsBad)
      | Some p =>
          if p_imm p then
            let (H1, c) := copy_parser I (im_deep I) H p in
            let '(H2, ss2, vs2, kd) := hifeed k T E H1 (p_ss c) (p_vs c) ty id in
            ({| w_heap := H2; w_ps := ps ++ [with_state c ss2 vs2] |}, ObsFeed (length ps) kd ss2)
          else
            let '(H2, ss2, vs2, kd) := hifeed k T E H (p_ss p) (p_vs p) ty id in
            ({| w_heap := H2; w_ps := set_nth ps i (with_state p ss2 vs2) |}, ObsFeed i kd ss2)
      end
  | OStep i =>
      match nth_error ps i with
      | None => (w, ObsBad)
      | Some p =>
          if p_imm p then (w, ObsBad) else
          let pos := lget H (p_lt p) in
          match nth_error input pos with
          | None => (w, ObsBad)
          | Some (ty, id) =>
              let H0 := lset H (p_lt p) (S pos) in
              let '(H2, ss2, vs2, kd) := hifeed k T E H0 (p_ss p) (p_vs p) ty id in
              ({| w_heap := H2; w_ps := set_nth ps i (with_state p ss2 vs2) |}, ObsFeed i kd ss2)
          end
      end
  | OCopy i deep =>
      match nth_error ps i with
      | None => (w, ObsBad)
      | Some p => let (H1, c) := copy_parser I deep H p in
                  ({| w_heap := H1; w_ps := ps ++ [c] |}, ObsNew (length ps))
      end
  | OAsImm i =>
      match nth_error ps i with
      | None => (w, ObsBad)
      | Some p => let (H1, c) := copy_parser I (im_deep I) H p in
                  ({| w_heap := H1; w_ps := ps ++ [with_imm c true] |}, ObsNew (length ps))
      end
  | OAsMut i =>
      match nth_error ps i with
      | None => (w, ObsBad)
      | Some p => let (H1, c) := copy_parser I (im_deep I) H p in
                  ({| w_heap := H1; w_ps := ps ++ [with_imm c false] |}, ObsNew (length ps))
      end
  | OAccepts i =>
      match nth_error ps i with
      | None => (w, ObsBad)
      | Some p => let (H1, acc) := accepts_loop I k T H p (choices T p) in
                  ({| w_heap := H1; w_ps := ps |}, ObsAccepts acc)
      end
  | OResume i =>
      match nth_error ps i with
      | None => (w, ObsBad)
      | Some p =>
          let pos := lget H (p_sl p) in
          let rest := skipn pos input in
          let '(H2, ss2, vs2, kd) := hparse_from k T E H (p_ss p) (p_vs p) rest in
          let H3 := lset H2 (p_sl p) (pos + cparse_cnt k T (p_ss p) rest) in
          ({| w_heap := H3; w_ps := set_nth ps i (with_state p ss2 vs2) |}, ObsFeed i kd ss2)
      end
  end.

Fixpoint wrun (I : impl) (k : nat) (T : table) (E : cbenv) (input : list (nat * nat))
         (w : world) (os : list op) : world * list obs :=
  match os with
  | [] => (w, [])
  | o :: r => let (w1, ob) := wstep I k T E input w o in
              let (w2, obs) := wrun I k T E input w1 r in (w2, ob :: obs)
  end.

(* parse_interactive(text): one lexer thread at the start of the input, used by both references *)
Definition world0 (T : table) : world :=
  {| w_heap := [CLex 0];
     w_ps := [{| p_imm := false; p_ss := [start_state T]; p_vs := []; p_lt := 0; p_sl := 0 |}] |}.

(* ------------------------------------------------------------------ the same on immutable trees *)
Record pparser := { pp_imm : bool; pp_ss : list nat; pp_ts : list ptree; pp_pos : nat }.

Definition paccepts (k : nat) (T : table) (pp : pparser) : list nat :=
  filter (fun t => kind_ok (snd (cfeed k T (pp_ss pp) t (t =? END))))
         (match pp_ss pp with s :: _ => terms T s | [] => [] end).

Definition pstep (k : nat) (T : table) (E : cbenv) (input : list (nat * nat))
           (ps : list pparser) (o : op) : list pparser * obs :=
  match o with
  | OFeed i ty id =>
      match nth_error ps i with
      | None => (ps, ObsBad)
      | Some p =>
          let '(ss2, ts2, kd) := pifeed k T E (pp_ss p) (pp_ts p) ty id in
          if pp_imm p then (ps ++ [{| pp_imm := true; pp_ss := ss2; pp_ts := ts2; pp_pos := pp_pos p |}],
                            ObsFeed (length ps) kd ss2)
          else (set_nth ps i {| pp_imm := false; pp_ss := ss2; pp_ts := ts2; pp_pos := pp_pos p |}, ObsFeed i kd ss2)
      end
  | OStep i =>
      match nth_error ps i with
      | None => (ps, ObsBad)
      | Some p =>
          if pp_imm p then (ps, ObsBad) else
          match nth_error input (pp_pos p) with
          | None => (ps, ObsBad)
          | Some (ty, id) =>
              let '(ss2, ts2, kd) := pifeed k T E (pp_ss p) (pp_ts p) ty id in
              (set_nth ps i {| pp_imm := false; pp_ss := ss2; pp_ts := ts2; pp_pos := S (pp_pos p) |}, ObsFeed i kd ss2)
          end
      end
  | OCopy i _ =>
      match nth_error ps i with
      | None => (ps, ObsBad)
      | Some p => (ps ++ [p], ObsNew (length ps))
      end
  | OAsImm i =>
      match nth_error ps i with
      | None => (ps, ObsBad)
      | Some p => (ps ++ [{| pp_imm := true; pp_ss := pp_ss p; pp_ts := pp_ts p; pp_pos := pp_pos p |}], ObsNew (length ps))
      end
  | OAsMut i =>
      match nth_error ps i with
      | None => (ps, ObsBad)
      | Some p => (ps ++ [{| pp_imm := false; pp_ss := pp_ss p; pp_ts := pp_ts p; pp_pos := pp_pos p |}], ObsNew (length ps))
      end
  | OAccepts i =>
      match nth_error ps i with
      | None => (ps, ObsBad)
      | Some p => (ps, ObsAccepts (paccepts k T p))
      end
  | OResume i =>
      match nth_error ps i with
      | None => (ps, ObsBad)
      | Some p =>
          let rest := skipn (pp_pos p) input in
          let '(ss2, ts2, kd) := pparse_from k T E (pp_ss p) (pp_ts p) rest in
          (set_nth ps i {| pp_imm := pp_imm p; pp_ss := ss2; pp_ts := ts2;
                           pp_pos := pp_pos p + cparse_cnt k T (pp_ss p) rest |}, ObsFeed i kd ss2)
      end
  end.

Fixpoint prun (k : nat) (T : table) (E : cbenv) (input : list (nat * nat))
         (ps : list pparser) (os : list op) : list pparser * list obs :=
  match os with
  | [] => (ps, [])
  | o :: r => let (ps1, ob) := pstep k T E input ps o in
              let (ps2, obs) := prun k T E input ps1 r in (ps2, ob :: obs)
  end.

Definition pworld0 (T : table) : list pparser :=
  [{| pp_imm := false; pp_ss := [start_state T]; pp_ts := []; pp_pos := 0 |}].

(* ------------------------------------------------------------------ own history of a fork *)
(* what a parser has been through, as a function of the operation list alone *)
Inductive event := EFeed (ty id : nat) | EStep | EResume.

Definition lineage := (bool * list event)%type.   (* immutable?, events *)

(* a step on an immutable parser or at the end of the input does nothing (ObsBad); whether the input
   is exhausted depends on the history, so EStep is recorded and replayed as a no-op in that case *)
Definition lstep (hs : list lineage) (o : op) : list lineage :=
  match o with
  | OFeed i ty id =>
      match nth_error hs i with
      | None => hs
      | Some (imm, ev) => if imm then hs ++ [(true, ev ++ [EFeed ty id])]
                          else set_nth hs i (false, ev ++ [EFeed ty id])
      end
  | OStep i =>
      match nth_error hs i with
      | None => hs
      | Some (imm, ev) => if imm then hs else set_nth hs i (false, ev ++ [EStep])
      end
  | OCopy i _ => match nth_error hs i with None => hs | Some h => hs ++ [h] end
  | OAsImm i => match nth_error hs i with None => hs | Some (_, ev) => hs ++ [(true, ev)] end
  | OAsMut i => match nth_error hs i with None => hs | Some (_, ev) => hs ++ [(false, ev)] end
  | OAccepts _ => hs
  | OResume i =>
      match nth_error hs i with
      | None => hs
      | Some (imm, ev) => set_nth hs i (imm, ev ++ [EResume])
      end
  end.

Definition lineages (os : list op) : list lineage := fold_left lstep os [(false, [])].

(* replaying a history on a fresh parser (outcomes ignored: the state is what matters):
   state stack, value stack, position of the own lexer *)
Definition pstate := (list nat * list ptree * nat)%type.

Definition preplay1 k T E (input : list (nat * nat)) (st : pstate) (e : event) : pstate :=
  let '(ss0, ts0, pos) := st in
  match e with
  | EFeed ty id => let '(ss, ts, _) := pifeed k T E ss0 ts0 ty id in (ss, ts, pos)
  | EStep =>
      match nth_error input pos with
      | None => st
      | Some (ty, id) => let '(ss, ts, _) := pifeed k T E ss0 ts0 ty id in (ss, ts, S pos)
      end
  | EResume =>
      let rest := skipn pos input in
      let '(ss, ts, _) := pparse_from k T E ss0 ts0 rest in (ss, ts, pos + cparse_cnt k T ss0 rest)
  end.

Definition preplay k T E input (ev : list event) : pstate :=
  fold_left (preplay1 k T E input) ev ([start_state T], [], 0).

(* ------------------------------------------------------------------ tables given as data *)
Fixpoint assoc {A} (k : nat) (l : list (nat * A)) : option A :=
  match l with
  | [] => None
  | (k', v) :: r => if k' =? k then Some v else assoc k r
  end.

(* acts  : per state, the (terminal, action) entries in dict order
   gotos : per state, the (rule-origin number, target state) entries
   rules : (origin number, len(expansion)) by rule number *)
Definition mk_table (acts : list (nat * list (nat * act))) (gotos : list (nat * list (nat * nat)))
           (rules : list (nat * nat)) (s0 e0 : nat) : table :=
  {| action := fun s t => match assoc s acts with Some row => assoc t row | None => None end;
     goto := fun s a => match assoc s gotos with Some row => assoc a row | None => None end;
     terms := fun s => match assoc s acts with Some row => map fst row | None => [] end;
     rlhs := fun r => fst (nth r rules (0, 0));
     rarity := fun r => snd (nth r rules (0, 0));
     start_state := s0;
     end_state := e0 |}.

(* callbacks given as data: (name number, ExpandSingleChild?, ChildFilterLALR (to_include, append_none)?) *)
Definition cbdata := (nat * bool * option (list (nat * bool * nat) * nat))%type.

Definition mk_cb (rules : list (nat * nat)) (cbs : list cbdata) (r : nat) : cbshape :=
  match nth_error cbs r with
  | None => cb_none
  | Some (d, e1, f) =>
      {| cb_data := d; cb_expand1 := e1;
         cb_filter := match f with
                      | None => None
                      | Some (inc, app) => Some (dirs_of 0 (snd (nth r rules (0, 0))) inc, app)
                      end |}
  end.

(* token positions given as data: id -> ((start_pos, line, column), (end_pos, end_line, end_column)) *)
Definition mk_env (rules : list (nat * nat)) (cbs : list cbdata) (pp : bool)
           (tps : list (nat * (trip * trip))) : cbenv :=
  {| ce_cb := mk_cb rules cbs; ce_pp := pp;
     ce_tp := fun id => match assoc id tps with Some x => x | None => ((0, 0, 0), (0, 0, 0))%Z end |}.

Fixpoint cbs_wf (rules : list (nat * nat)) (cbs : list cbdata) : bool :=
  match rules, cbs with
  | [], [] => true
  | (_, ar) :: rules', (_, _, f) :: cbs' =>
      match f with None => true | Some (inc, _) => inc_wf 0 ar inc end && cbs_wf rules' cbs'
  | _, _ => false
  end.
