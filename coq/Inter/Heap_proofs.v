(* C13 - ownership ("separation") predicate for heap values and its basic lemmas. *)
From Coq Require Import List Arith Bool Lia.
From LV Require Import Inter.Heap.
Import ListNotations.

Definition disjoint (a b : list loc) : Prop := forall x, In x a -> In x b -> False.

(* own H t v f : in heap H the value v denotes the immutable tree t (metas included), the child
   lists and Meta objects it reaches are exactly the locations f, and no location is reached
   twice (no sharing). *)
Inductive own (H : heap) : ptree -> value -> list loc -> Prop :=
| own_tok a b : own H (PTok a b) (VTok a b) []
| own_none : own H PNone VNone []
| own_node d l m vs mt ts fp :
    nth_error H l = Some (CList vs) -> nth_error H m = Some (CMeta mt) ->
    owns H ts vs fp -> ~ In l fp -> ~ In m fp -> l <> m ->
    own H (PNode d mt ts) (VTree d l m) (l :: m :: fp)
with owns (H : heap) : list ptree -> list value -> list loc -> Prop :=
| owns_nil : owns H [] [] []
| owns_cons t ts v vs f fs :
    own H t v f -> owns H ts vs fs -> disjoint f fs ->
    owns H (t :: ts) (v :: vs) (f ++ fs).

Scheme own_mind := Minimality for own Sort Prop
  with owns_mind := Minimality for owns Sort Prop.
Combined Scheme own_owns_ind from own_mind, owns_mind.

(* ------------------------------------------------------------------ lists / heap cells *)
Lemma disjoint_nil_r a : disjoint a [].
Proof. intros x _ []. Qed.
Lemma disjoint_nil_l a : disjoint [] a.
Proof. intros x []. Qed.
Lemma disjoint_sym a b : disjoint a b -> disjoint b a.
Proof. intros h x hb ha. exact (h x ha hb). Qed.
Lemma disjoint_app_l a b c : disjoint (a ++ b) c <-> disjoint a c /\ disjoint b c.
Proof.
  split.
  - intros h; split; intros x hx hc; apply (h x); auto; apply in_or_app; auto.
  - intros [h1 h2] x hx hc. apply in_app_or in hx. destruct hx; [eapply h1|eapply h2]; eauto.
Qed.
Lemma disjoint_app_r a b c : disjoint c (a ++ b) <-> disjoint c a /\ disjoint c b.
Proof.
  split.
  - intros h. apply disjoint_sym in h. apply disjoint_app_l in h. destruct h; split; apply disjoint_sym; auto.
  - intros [h1 h2]. apply disjoint_sym. apply disjoint_app_l. split; apply disjoint_sym; auto.
Qed.
Lemma disjoint_cons_l x a c : disjoint (x :: a) c <-> ~ In x c /\ disjoint a c.
Proof.
  split.
  - intros h; split.
    + intros hc. apply (h x); simpl; auto.
    + intros y hy hc. apply (h y); simpl; auto.
  - intros [h1 h2] y [<-|hy] hc; [auto|eapply h2; eauto].
Qed.

Lemma hget_nth H l vs : nth_error H l = Some (CList vs) -> hget H l = vs.
Proof. unfold hget. intros ->. auto. Qed.
Lemma mget_nth H m mt : nth_error H m = Some (CMeta mt) -> mget H m = mt.
Proof. unfold mget. intros ->. auto. Qed.
Lemma lget_nth H l n : nth_error H l = Some (CLex n) -> lget H l = n.
Proof. unfold lget. intros ->. auto. Qed.

Lemma hset_length H l vs : length (hset H l vs) = length H.
Proof. revert l. induction H; destruct l; simpl; auto. Qed.

Lemma hset_same H l vs : l < length H -> nth_error (hset H l vs) l = Some vs.
Proof. revert l. induction H; destruct l; simpl; try lia; auto. intros. apply IHlist. lia. Qed.

Lemma hset_other H l l' vs : l <> l' -> nth_error (hset H l vs) l' = nth_error H l'.
Proof. revert l l'. induction H; destruct l, l'; simpl; auto; try congruence. Qed.

Lemma nth_error_app_old (H ext : heap) l : l < length H -> nth_error (H ++ ext) l = nth_error H l.
Proof. intros. apply nth_error_app1; auto. Qed.

Lemma nth_error_lt {A} (l : list A) n x : nth_error l n = Some x -> n < length l.
Proof. intros h. apply nth_error_Some. congruence. Qed.

(* ------------------------------------------------------------------ own: basic facts *)
Ltac own_induction :=
  apply own_owns_ind;
  [ intros a b | | intros d l m vs mt ts fp Hnth Hmth Hos IHos Hni Hmi Hlm | | intros t ts v vs f fs Ho IHo Hos IHos Hdj ].

Lemma own_bound_both H :
  (forall t v f, own H t v f -> forall l, In l f -> l < length H) /\
  (forall ts vs f, owns H ts vs f -> forall l, In l f -> l < length H).
Proof.
  own_induction; simpl; intros; try tauto.
  - destruct H0 as [<-|[<-|h]]; [eapply nth_error_lt; eauto|eapply nth_error_lt; eauto|auto].
  - apply in_app_or in H0. destruct H0; auto.
Qed.
Definition own_bound H := proj1 (own_bound_both H).
Definition owns_bound H := proj2 (own_bound_both H).

Lemma own_frame_both H :
  (forall t v f, own H t v f -> forall H', (forall l, In l f -> nth_error H' l = nth_error H l) -> own H' t v f) /\
  (forall ts vs f, owns H ts vs f -> forall H', (forall l, In l f -> nth_error H' l = nth_error H l) -> owns H' ts vs f).
Proof.
  own_induction; intros H' hf; try (constructor; fail).
  - apply own_node with (vs := vs); auto.
    + rewrite hf; simpl; auto.
    + rewrite hf; simpl; auto.
    + apply IHos. intros; apply hf; simpl; auto.
  - constructor; auto.
    + apply IHo. intros; apply hf. apply in_or_app; auto.
    + apply IHos. intros; apply hf. apply in_or_app; auto.
Qed.
Definition own_frame H := proj1 (own_frame_both H).
Definition owns_frame H := proj2 (own_frame_both H).

Lemma nodup_app_disjoint (f fs : list loc) : NoDup f -> NoDup fs -> disjoint f fs -> NoDup (f ++ fs).
Proof.
  induction f; simpl; auto. intros n1 n2 hd.
  inversion n1; subst. apply disjoint_cons_l in hd. destruct hd.
  constructor; auto. intros hi. apply in_app_or in hi. tauto.
Qed.

Lemma own_nodup_both H :
  (forall t v f, own H t v f -> NoDup f) /\ (forall ts vs f, owns H ts vs f -> NoDup f).
Proof.
  own_induction; try constructor; auto.
  - simpl. intros [h|h]; auto.
  - constructor; auto.
  - apply nodup_app_disjoint; auto.
Qed.
Definition own_nodup H := proj1 (own_nodup_both H).
Definition owns_nodup H := proj2 (own_nodup_both H).

Lemma owns_length H ts vs f : owns H ts vs f -> length ts = length vs.
Proof. induction 1; simpl; auto. Qed.

Lemma owns_app H ts1 vs1 f1 : owns H ts1 vs1 f1 -> forall ts2 vs2 f2,
  owns H ts2 vs2 f2 -> disjoint f1 f2 -> owns H (ts1 ++ ts2) (vs1 ++ vs2) (f1 ++ f2).
Proof.
  induction 1 as [|t ts v vs f fs Ho Hos IH Hdj]; simpl; intros ts2 vs2 f2 h2 hd; auto.
  rewrite <- app_assoc. apply disjoint_app_l in hd. destruct hd.
  constructor; auto. apply disjoint_app_r; auto.
Qed.

Lemma owns_one H t v f : own H t v f -> owns H [t] [v] f.
Proof. intros. rewrite <- (app_nil_r f). constructor; auto using disjoint_nil_r. constructor. Qed.

Lemma owns_one_inv H t v f : owns H [t] [v] f -> own H t v f.
Proof.
  intros h. inversion h as [|? ? ? ? ? ? Ho Hos]; subst. inversion Hos; subst. rewrite app_nil_r. auto.
Qed.

(* splitting a stack at any position of the value list *)
Lemma owns_split H ts vs f : owns H ts vs f -> forall n,
  exists f1 f2, f = f1 ++ f2 /\ disjoint f1 f2 /\
    owns H (firstn n ts) (firstn n vs) f1 /\ owns H (skipn n ts) (skipn n vs) f2.
Proof.
  induction 1 as [|t ts v vs f fs Ho Hos IH Hdj]; intros n.
  - exists [], []. destruct n; simpl; repeat split; auto using disjoint_nil_l; constructor.
  - destruct n.
    + exists [], (f ++ fs). simpl. repeat split; auto using disjoint_nil_l; constructor; auto.
    + destruct (IH n) as (f1 & f2 & -> & hd & h1 & h2).
      exists (f ++ f1), f2. simpl. rewrite app_assoc.
      apply disjoint_app_r in Hdj. destruct Hdj.
      repeat split; auto.
      * apply disjoint_app_l; auto.
      * constructor; auto.
Qed.

Lemma owns_app_inv H ts vs1 vs2 f : owns H ts (vs1 ++ vs2) f ->
  exists ts1 ts2 f1 f2, ts = ts1 ++ ts2 /\ f = f1 ++ f2 /\ disjoint f1 f2 /\
    owns H ts1 vs1 f1 /\ owns H ts2 vs2 f2.
Proof.
  intros h. destruct (owns_split _ _ _ _ h (length vs1)) as (f1 & f2 & -> & hd & h1 & h2).
  rewrite firstn_app, Nat.sub_diag, firstn_all, app_nil_r in h1. simpl in h1.
  rewrite skipn_app, Nat.sub_diag, skipn_all in h2. simpl in h2.
  exists (firstn (length vs1) ts), (skipn (length vs1) ts), f1, f2.
  rewrite firstn_skipn. auto 10.
Qed.

(* the footprint of a sharing-free value is no larger than the heap *)
Lemma nodup_bound_length (f : list loc) n : NoDup f -> (forall l, In l f -> l < n) -> length f <= n.
Proof.
  intros nd hb. rewrite <- (seq_length n 0). apply NoDup_incl_length; auto.
  intros x hx. apply in_seq. specialize (hb x hx). lia.
Qed.

Lemma owns_fp_le H ts vs f : owns H ts vs f -> length f <= length H.
Proof. intros h. apply nodup_bound_length; [eapply owns_nodup|eapply owns_bound]; eauto. Qed.

(* ------------------------------------------------------------------ read *)
Lemma read_own_both H :
  (forall t v f, own H t v f -> forall k, length f < k -> read k H v = t) /\
  (forall ts vs f, owns H ts vs f -> forall k, length f < k -> map (read k H) vs = ts).
Proof.
  own_induction; intros k hk; simpl; auto; try (destruct k; reflexivity).
  - destruct k; simpl in *; [lia|]. rewrite (hget_nth _ _ _ Hnth), (mget_nth _ _ _ Hmth). rewrite IHos; auto. lia.
  - rewrite app_length in hk. rewrite IHo, IHos; auto; lia.

Qed.
Definition read_own H := proj1 (read_own_both H).
Definition reads_own H := proj2 (read_own_both H).

(* ------------------------------------------------------------------ deepcopy *)
Definition fresh_above (n : nat) (f : list loc) : Prop := forall l, In l f -> n <= l.

Lemma dcopy_unfold cm k H d l m :
  dcopy cm (S k) H (VTree d l m) =
  let (H1, vs') := dcopys cm k H (hget H l) in
  if cm then (H1 ++ [CList vs'; CMeta (mget H1 m)], VTree d (length H1) (S (length H1)))
  else (H1 ++ [CList vs'], VTree d (length H1) m).
Proof.
  simpl. generalize (hget H l). intros vs.
  match goal with |- (let (_, _) := ?a in _) = (let (_, _) := ?b in _) => assert (a = b) as -> end; auto.
  revert H. induction vs; simpl; auto. intros. destruct (dcopy cm k H a). rewrite IHvs. auto.
Qed.

Lemma own_extend H t v f ext : own H t v f -> own (H ++ ext) t v f.
Proof.
  intros h. eapply own_frame; eauto. intros l hl. apply nth_error_app1. eapply own_bound; eauto.
Qed.
Lemma owns_extend H ts vs f ext : owns H ts vs f -> owns (H ++ ext) ts vs f.
Proof.
  intros h. eapply owns_frame; eauto. intros l hl. apply nth_error_app1. eapply owns_bound; eauto.
Qed.

(* What the proofs use of copy.deepcopy (as repaired: Meta objects are copied too): the copy denotes
   the same trees with the same metas, lives entirely in new locations, and the old heap is a
   prefix of the new one (nothing existing is written). *)
Lemma dcopy_spec_both H0 :
  (forall t v f, own H0 t v f -> forall k ext, length f < k ->
     exists ext' f', fst (dcopy true k (H0 ++ ext) v) = (H0 ++ ext) ++ ext' /\
                     own ((H0 ++ ext) ++ ext') t (snd (dcopy true k (H0 ++ ext) v)) f' /\
                     fresh_above (length (H0 ++ ext)) f') /\
  (forall ts vs f, owns H0 ts vs f -> forall k ext, length f < k ->
     exists ext' f', fst (dcopys true k (H0 ++ ext) vs) = (H0 ++ ext) ++ ext' /\
                     owns ((H0 ++ ext) ++ ext') ts (snd (dcopys true k (H0 ++ ext) vs)) f' /\
                     fresh_above (length (H0 ++ ext)) f').
Proof.
  own_induction; intros k ext hk.
  - exists [], []. destruct k; simpl; rewrite app_nil_r; repeat split; try constructor; intros ? [].
  - exists [], []. destruct k; simpl; rewrite app_nil_r; repeat split; try constructor; intros ? [].
  - destruct k; simpl in hk; [lia|].
    rewrite dcopy_unfold.
    assert (hg : hget (H0 ++ ext) l = vs).
    { apply hget_nth. rewrite nth_error_app1; auto. eapply nth_error_lt; eauto. }
    rewrite hg.
    destruct (IHos k ext ltac:(lia)) as (e1 & f' & a1 & o1 & fr).
    destruct (dcopys true k (H0 ++ ext) vs) as [H1' vs'] eqn:E. simpl in *. subst H1'.
    assert (hm : mget ((H0 ++ ext) ++ e1) m = mt).
    { apply mget_nth. rewrite <- app_assoc. rewrite nth_error_app1; auto. eapply nth_error_lt; eauto. }
    rewrite hm.
    set (n := length ((H0 ++ ext) ++ e1)).
    exists (e1 ++ [CList vs'; CMeta mt]), (n :: S n :: f'). repeat split.
    + rewrite app_assoc. auto.
    + rewrite app_assoc. apply own_node with (vs := vs').
      * unfold n. rewrite nth_error_app2, Nat.sub_diag; simpl; auto.
      * unfold n. rewrite nth_error_app2 by lia. replace (S _ - _) with 1 by lia. simpl; auto.
      * apply owns_extend; auto.
      * intros hi. apply (owns_bound _ _ _ _ o1) in hi. unfold n in hi. lia.
      * intros hi. apply (owns_bound _ _ _ _ o1) in hi. unfold n in hi. lia.
      * lia.
    + intros x [<-|[<-|hx]]; [unfold n; repeat rewrite app_length; lia|unfold n; repeat rewrite app_length; lia|auto].
  - exists [], []. simpl. rewrite app_nil_r. repeat split; try constructor. intros ? [].
  - rewrite app_length in hk. simpl.
    destruct (IHo k ext ltac:(lia)) as (e1 & f1 & a1 & o1 & fr1).
    destruct (dcopy true k (H0 ++ ext) v) as [H1 x'] eqn:E1. simpl in *. subst H1.
    destruct (IHos k (ext ++ e1) ltac:(lia)) as (e2 & f2 & a2 & o2 & fr2).
    rewrite app_assoc in a2, o2, fr2.
    destruct (dcopys true k ((H0 ++ ext) ++ e1) vs) as [H2 xs'] eqn:E2. simpl in *. subst H2.
    exists (e1 ++ e2), (f1 ++ f2). rewrite app_assoc. repeat split; auto.
    + constructor; auto.
      * apply own_extend; auto.
      * intros x h1 h2. apply (own_bound _ _ _ _ o1) in h1. apply fr2 in h2. lia.
    + intros x hx. apply in_app_or in hx. destruct hx as [hx|hx]; [auto|].
      apply fr2 in hx. rewrite app_length in hx. lia.
Qed.

Lemma deepcopy_spec H ts vs f : owns H ts vs f ->
  exists ext f', fst (deepcopy true H vs) = H ++ ext /\ owns (H ++ ext) ts (snd (deepcopy true H vs)) f' /\
                 fresh_above (length H) f'.
Proof.
  intros h. unfold deepcopy.
  destruct (proj2 (dcopy_spec_both H) _ _ _ h (S (length H)) []) as (e & f' & a & o & fr).
  - pose proof (owns_fp_le _ _ _ _ h). lia.
  - rewrite app_nil_r in *. eauto.
Qed.
