(* Inter/IGen_proofs.v - the hand model Inter/IDriver.v equals the functions written over the
   regenerated conditions of Gen/LalrHoles.v (see Inter/IGen.v). *)
From Coq Require Import List Arith Bool ZArith Lia.
From LV Require Import Inter.Heap Inter.IDriver Inter.ICheck Gen.LalrHoles Gen.InterHoles LR.DriverGen LR.DriverGen_proofs Inter.IGen.
Import ListNotations.

(* feed_token, control part: IDriver.cfeed (state stack top first) is the regenerated control on every table
   that never shifts a terminal into the end state *)
Theorem gcfeed_eq_cfeed T : no_end_shift T -> forall k ss ty is_end,
  gcfeed k T (rev ss) ty is_end = (rev (fst (cfeed k T ss ty is_end)), snd (cfeed k T ss ty is_end)).
Proof.
  intros NE. induction k as [|k IH]; intros ss ty is_end; [reflexivity|].
  cbn [gcfeed cfeed]. rewrite py_last_rev. destruct ss as [|s ss]; [reflexivity|].
  destruct (action T s ty) as [[s'|r]|] eqn:Ea; [| |reflexivity].
  - unfold ft_arg_ok, ft_is_shift, ft_shift_ok. cbn [act_is_shift act_arg_z negb].
    rewrite zeqb_nat, negb_involutive.
    destruct (Nat.eqb_spec s' (end_state T)) as [E|_]; [exfalso; exact (NE _ _ _ Ea E)|].
    rewrite negb_involutive. destruct is_end; reflexivity.
  - unfold ft_arg_ok, ft_is_shift. cbn [act_is_shift act_arg_z].
    replace (Z.eqb (-1) (Z.of_nat (end_state T))) with false by (symmetry; apply Z.eqb_neq; lia).
    cbn [negb]. unfold ft_pop_guard, ft_lo_del_states.
    remember (rarity T r) as n eqn:En.
    assert (Hss : (if negb (Z.eqb (Z.of_nat n) 0) then py_del_from (- Z.of_nat n) (rev (s :: ss)) else rev (s :: ss))
                  = rev (skipn n (s :: ss))).
    { destruct n as [|n]; [reflexivity|].
      replace (Z.eqb (Z.of_nat (S n)) 0) with false by (symmetry; apply Z.eqb_neq; lia).
      cbn [negb]. apply py_del_from_rev. lia. }
    cbn zeta. rewrite Hss, py_last_rev.
    destruct (skipn n (s :: ss)) as [|s0 ss0]; [reflexivity|].
    destruct (goto T s0 (rlhs T r)) as [s1|]; [|reflexivity].
    unfold ft_goto_ok, ft_accept. cbn [negb]. rewrite zeqb_nat.
    destruct (is_end && (s1 =? end_state T)); [reflexivity|].
    apply (IH (s1 :: s0 :: ss0)).
Qed.

Lemma no_end_shift_b_sound acts gotos rules s0 e0 :
  no_end_shift_b acts e0 = true -> no_end_shift (mk_table acts gotos rules s0 e0).
Proof.
  intros Hb s t s'. cbn [mk_table action end_state].
  destruct (assoc s acts) as [row|] eqn:Er; [|discriminate].
  intros Ha.
  assert (In_row : In (s, row) acts \/ True) by auto. clear In_row.
  assert (Hrow : forallb (fun ent : nat * act => match snd ent with Shift s' => negb (s' =? e0) | Reduce _ => true end) row = true).
  { clear Ha. unfold no_end_shift_b in Hb. rewrite forallb_forall in Hb.
    induction acts as [|[k' v] acts IHa]; [discriminate|].
    cbn [assoc] in Er. destruct (k' =? s) eqn:Ek.
    - inversion Er; subst. apply (Hb (k', row)). left; reflexivity.
    - apply IHa; auto. intros x Hx. apply Hb. right; exact Hx. }
  clear Er Hb. rewrite forallb_forall in Hrow.
  induction row as [|[k' v] row IHr]; [discriminate|].
  cbn [assoc] in Ha. destruct (k' =? t) eqn:Ek.
  - inversion Ha; subst. specialize (Hrow (k', Shift s') (or_introl eq_refl)). cbn in Hrow.
    intros E. subst. rewrite Nat.eqb_refl in Hrow. discriminate.
  - apply IHr; auto. intros x Hx. apply Hrow. right; exact Hx.
Qed.

(* the value-stack slices of IDriver.hfeed / pfeed (lastn / droplast) are the regenerated ones, with the guard *)
Theorem gvalues_popped_eq {A} is_end n e (vs : list A) : gvalues_popped is_end n e vs = lastn n vs.
Proof.
  unfold gvalues_popped, ft_pop_guard, ft_lo_values, lastn. destruct n as [|n].
  - cbn. rewrite Nat.sub_0_r, skipn_all. reflexivity.
  - replace (Z.eqb (Z.of_nat (S n)) 0) with false by (symmetry; apply Z.eqb_neq; lia).
    cbn [negb]. unfold py_from. rewrite py_lo_neg by lia. reflexivity.
Qed.

Theorem gvalues_left_eq {A} is_end n e (vs : list A) : gvalues_left is_end n e vs = droplast n vs.
Proof.
  unfold gvalues_left, ft_pop_guard, ft_lo_del_values, droplast. destruct n as [|n].
  - cbn. rewrite Nat.sub_0_r, firstn_all. reflexivity.
  - replace (Z.eqb (Z.of_nat (S n)) 0) with false by (symmetry; apply Z.eqb_neq; lia).
    cbn [negb]. unfold py_del_from. rewrite py_lo_neg by lia. reflexivity.
Qed.

(* InteractiveParser.feed_token passes is_end = (token.type == '$END'): hifeed / pifeed use ty =? END *)
Theorem ip_is_end_eq ty : ip_feed_is_end (Z.of_nat ty) (Z.of_nat END) = (ty =? END).
Proof. unfold ip_feed_is_end. apply zeqb_nat. Qed.

(* InteractiveParser.copy as regenerated = IDriver.copy_parser on the implementation as found *)
Theorem gcopy_eq_copy deep H p :
  gcopy_parser (im_meta impl_now) deep H p = Some (copy_parser impl_now deep H p).
Proof.
  unfold gcopy_parser, copy_parser. cbn [fresh ip_copy_lexer_thread lt_copy_state ls_copy_line_ctr andb negb
                                           ps_copy_state_stack ip_copy_rebinds_state_lexer].
  cbn [halloc]. unfold ps_copy_value_stack. cbn [impl_now im_lex copy_rebinds_state_lexer].
  destruct deep.
  - destruct (deepcopy _ _ _). reflexivity.
  - reflexivity.
Qed.

(* the two translators read the same defaults, and the trial cursors of accepts() are shallow copies *)
Theorem copy_defaults_agree :
  ip_copy_default = interactive_copy_default /\ ps_copy_default = parser_state_copy_default /\
  ip_accepts_trial_deep = accepts_trial_deep /\ ip_accepts_trial_deep = false /\ im_deep impl_now = ip_copy_default.
Proof. repeat split; reflexivity. Qed.

(* what the heap model relies on: no copy shares its state stack or its lexer position with the original,
   whatever deepcopy_values is; the value-stack list object is never shared; a deep copy is a deepcopy *)
Theorem copy_shape :
  (forall d, fresh (ps_copy_state_stack d) = true) /\ (forall d, fresh (ps_copy_value_stack d) = true) /\
  ps_copy_value_stack true = Deep /\ ps_copy_value_stack false = Shallow /\
  fresh ip_copy_lexer_thread = true /\ fresh lt_copy_state = true /\ fresh ls_copy_line_ctr = true /\
  ls_copy_text = Shared /\ ip_copy_rebinds_state_lexer = true.
Proof. repeat split; try reflexivity; intros []; reflexivity. Qed.
