(* C13 - the heap driver simulates the driver on immutable trees as long as no child list
   is shared (which deep copies guarantee); control never depends on values. *)
From Coq Require Import List Arith Bool Lia ZArith.
From LV Require Pos.MetaSpan.
From LV Require Import Inter.Heap Inter.IDriver Inter.Heap_proofs.
Import ListNotations.

(* F' is inside F or new;   H' agrees with H outside F *)
Definition sub (F' F : list loc) (n : nat) : Prop := forall l, In l F' -> In l F \/ n <= l.
Definition frame (H H' : heap) (F : list loc) : Prop :=
  length H <= length H' /\ forall l, l < length H -> ~ In l F -> nth_error H' l = nth_error H l.

Lemma sub_refl F n : sub F F n.
Proof. intros l; auto. Qed.
Lemma frame_refl H F : frame H H F.
Proof. split; auto. Qed.
Lemma sub_trans F'' F' F n n' : sub F'' F' n' -> sub F' F n -> n <= n' -> sub F'' F n.
Proof. intros h1 h2 hn l hl. destruct (h1 l hl) as [h|h]; [auto|right; lia]. Qed.
Lemma frame_trans H H1 H2 F F1 :
  frame H H1 F -> frame H1 H2 F1 -> sub F1 F (length H) -> frame H H2 F.
Proof.
  intros [l1 f1] [l2 f2] hs. split; [lia|]. intros l hl hn.
  rewrite f2, f1; auto; [lia|]. intros hi. destruct (hs l hi); [auto|lia].
Qed.
Lemma frame_weaken H H' F G : frame H H' F -> (forall l, In l F -> In l G) -> frame H H' G.
Proof. intros [a b] h. split; auto. Qed.

Lemma owns_nones H n : owns H (repeat PNone n) (repeat VNone n) [].
Proof.
  induction n; simpl; [constructor|]. change (@nil loc) with (@nil loc ++ []).
  constructor; auto using disjoint_nil_l. constructor.
Qed.

Ltac mem :=
  try (let h := fresh in intros h; try subst);
  simpl in *; rewrite ?app_nil_r in *; repeat rewrite in_app_iff in *; simpl in *;
  intuition (subst; eauto; tauto).

(* filtered += xs  on the list object cur *)
Lemma ext_step H cur cvs acc Fc xt xv Fx :
  nth_error H cur = Some (CList cvs) -> owns H acc cvs Fc -> ~ In cur Fc ->
  owns H xt xv Fx -> disjoint (cur :: Fc) Fx ->
  let H' := hext H cur xv in
  nth_error H' cur = Some (CList (cvs ++ xv)) /\ owns H' (acc ++ xt) (cvs ++ xv) (Fc ++ Fx) /\
  ~ In cur (Fc ++ Fx) /\ length H' = length H /\
  (forall l, l <> cur -> nth_error H' l = nth_error H l).
Proof.
  intros hn ho hni hx hd. apply disjoint_cons_l in hd. destruct hd as [hcx hd].
  unfold hext. rewrite hn. cbn zeta.
  assert (hfr : forall l, l <> cur -> nth_error (hset H cur (CList (cvs ++ xv))) l = nth_error H l).
  { intros. apply hset_other. auto. }
  repeat split; auto.
  - apply hset_same. eapply nth_error_lt; eauto.
  - apply owns_app; auto; eapply owns_frame; eauto; intros l hl; apply hfr; intros ->; auto.
  - intros hi. apply in_app_or in hi. tauto.
  - apply hset_length.
Qed.

Lemma hfilter_sim : forall args ds H cur cvs acc Fc ats Fa,
  nth_error H cur = Some (CList cvs) -> owns H acc cvs Fc -> ~ In cur Fc ->
  owns H ats args Fa -> disjoint (cur :: Fc) Fa ->
  exists cvs' Fc',
    nth_error (fst (hfilter H cur args ds)) (snd (hfilter H cur args ds)) = Some (CList cvs') /\
    owns (fst (hfilter H cur args ds)) (pfilter acc ats ds) cvs' Fc' /\
    ~ In (snd (hfilter H cur args ds)) Fc' /\
    (forall l, In l (snd (hfilter H cur args ds) :: Fc') -> In l (cur :: Fc) \/ In l Fa) /\
    length (fst (hfilter H cur args ds)) = length H /\
    (forall l, ~ In l (cur :: Fc) -> ~ In l Fa -> nth_error (fst (hfilter H cur args ds)) l = nth_error H l).
Proof.
  induction args as [|c args IH]; intros ds H cur cvs acc Fc ats Fa hn ho hni ha hd.
  - inversion ha; subst. simpl. exists cvs, Fc. repeat split; auto.
  - inversion ha as [|t ats' c' args' f fs hoc hos hdf]; subst.
    destruct ds as [|d ds].
    { simpl. exists cvs, Fc. repeat split; auto. }
    apply disjoint_app_r in hd. destruct hd as [hd1 hd2].
    destruct d as [|nn|nn]; simpl.
    + (* skip *)
      destruct (IH ds H cur cvs acc Fc ats' fs hn ho hni hos hd2) as (cvs' & Fc' & a & b & c0 & d0 & e & g).
      exists cvs', Fc'. repeat split; auto.
      * intros l hl. destruct (d0 l hl); auto. right. apply in_or_app; auto.
      * intros l h1 h2. apply g; auto. intros hi; apply h2; apply in_or_app; auto.
    + (* keep *)
      destruct (ext_step H cur cvs acc Fc _ _ [] hn ho hni (owns_nones H nn) (disjoint_nil_r _))
        as (n1 & o1 & ni1 & len1 & fr1).
      set (H1 := hext H cur (repeat VNone nn)) in *.
      assert (hoc1 : own H1 t c f).
      { eapply own_frame; eauto. intros l hl. apply fr1. intros ->. apply (hd1 cur); simpl; auto. }
      assert (hd1' : disjoint (cur :: Fc ++ []) f).
      { rewrite app_nil_r. auto. }
      destruct (ext_step H1 cur _ _ _ _ _ f n1 o1 ni1 (owns_one _ _ _ _ hoc1) hd1')
        as (n2 & o2 & ni2 & len2 & fr2).
      set (H2 := hext H1 cur [c]) in *.
      assert (hos2 : owns H2 ats' args fs).
      { eapply owns_frame; eauto. intros l hl. rewrite fr2, fr1; auto; intros ->; apply (hd2 cur); simpl; auto. }
      assert (hd2' : disjoint (cur :: (Fc ++ []) ++ f) fs).
      { rewrite app_nil_r. apply disjoint_cons_l. apply disjoint_cons_l in hd2. destruct hd2.
        split; auto. apply disjoint_app_l. split; auto. }
      destruct (IH ds H2 cur _ _ _ ats' fs n2 o2 ni2 hos2 hd2') as (cvs' & Fc' & a & b & c0 & d0 & e & g).
      exists cvs', Fc'. rewrite <- app_assoc in b. repeat split; auto.
      * intros l hl. clear IH. destruct (d0 l hl) as [h|h]; mem.
      * lia.
      * intros l h1 h2. clear IH. rewrite g, fr2, fr1; auto; clear - h1 h2; mem.
    + (* expand *)
      destruct (ext_step H cur cvs acc Fc _ _ [] hn ho hni (owns_nones H nn) (disjoint_nil_r _))
        as (n1 & o1 & ni1 & len1 & fr1).
      set (H1 := hext H cur (repeat VNone nn)) in *.
      rewrite app_nil_r in *.
      assert (hos1 : owns H1 ats' args fs).
      { eapply owns_frame; eauto. intros l hl. rewrite fr1; auto; intros ->; apply (hd2 cur); simpl; auto. }
      inversion hoc as [a0 b0|hh|d0 lc mc lvs cmt cts fc hnl hml hcs hnc hmc hlm]; subst.
      * (* a token: no children *)
        simpl. rewrite app_nil_r.
        destruct (IH ds H1 cur _ _ _ ats' fs n1 o1 ni1 hos1 hd2) as (cvs' & Fc' & a & b & c0 & d0 & e & g).
        exists cvs', Fc'. repeat split; auto.
        -- lia.
        -- intros l h1 h2. clear IH. rewrite g, fr1; auto; clear - h1 h2; mem.
      * simpl. rewrite app_nil_r.
        destruct (IH ds H1 cur _ _ _ ats' fs n1 o1 ni1 hos1 hd2) as (cvs' & Fc' & a & b & c0 & d0 & e & g).
        exists cvs', Fc'. repeat split; auto.
        -- lia.
        -- intros l h1 h2. clear IH. rewrite g, fr1; auto; clear - h1 h2; mem.
      * (* a tree *)
        assert (hlc : lc <> cur). { intros ->. apply (hd1 cur); simpl; auto. }
        assert (hnl1 : nth_error H1 lc = Some (CList lvs)). { rewrite fr1; auto. }
        assert (hcs1 : owns H1 cts lvs fc).
        { eapply owns_frame; eauto. intros l hl. apply fr1. intros ->. apply (hd1 cur); simpl; auto. }
        simpl pchildren.
        rewrite (hget_nth _ _ _ n1).
        destruct (cvs ++ repeat VNone nn) as [|x xs] eqn:Ecv.
        -- (* filtered is empty: alias the child's list *)
           assert (hacc : acc ++ repeat PNone nn = []).
           { apply owns_length in o1. destruct (acc ++ repeat PNone nn); auto; discriminate. }
           rewrite app_assoc, hacc. simpl app.
           assert (hdl : disjoint (lc :: fc) fs).
           { intros l h1 h2. apply (hdf l); auto. destruct h1 as [<-|h1]; simpl; auto. }
           destruct (IH ds H1 lc lvs cts fc ats' fs hnl1 hcs1 hnc hos1 hdl) as (cvs' & Fc' & a & b & c0 & d1 & e & g).
           exists cvs', Fc'. repeat split; auto.
           ++ intros l hl. clear IH. destruct (d1 l hl) as [h|h]; clear - h; mem.
           ++ lia.
           ++ intros l h1 h2. clear IH. rewrite g, fr1; auto; clear - h1 h2; mem.
        -- (* filtered += child.children *)
           rewrite (hget_nth _ _ _ hnl1).
           assert (hd3 : disjoint (cur :: Fc) fc).
           { intros l h1 h2. apply (hd1 l); simpl; auto. }
           rewrite <- Ecv in *.
           destruct (ext_step H1 cur _ _ _ _ _ fc n1 o1 ni1 hcs1 hd3) as (n2 & o2 & ni2 & len2 & fr2).
           set (H2 := hext H1 cur lvs) in *.
           assert (hos2 : owns H2 ats' args fs).
           { eapply owns_frame; eauto. intros l hl. rewrite fr2; auto; intros ->; apply (hd2 cur); simpl; auto. }
           assert (hd2' : disjoint (cur :: Fc ++ fc) fs).
           { apply disjoint_cons_l. apply disjoint_cons_l in hd2. destruct hd2.
             split; auto. apply disjoint_app_l. split; auto.
             intros l h1 h2. apply (hdf l); simpl; auto. }
           destruct (IH ds H2 cur _ _ _ ats' fs n2 o2 ni2 hos2 hd2') as (cvs' & Fc' & a & b & c0 & d1 & e & g).
           exists cvs', Fc'. rewrite <- app_assoc in b. repeat split; auto.
           ++ intros l hl. clear IH. destruct (d1 l hl) as [h|h]; clear - h; mem.
           ++ lia.
           ++ intros l h1 h2. clear IH. rewrite g, fr2, fr1; auto; clear - h1 h2; mem.
Qed.


(* ------------------------------------------------------------------ node_builder never writes a Meta *)
Lemma hset_keeps H l c m x : l <> m -> nth_error H m = Some x -> nth_error (hset H l c) m = Some x.
Proof. intros hne h. rewrite hset_other; auto. Qed.

Lemma hext_meta H l vs m mt :
  nth_error H m = Some (CMeta mt) -> nth_error (hext H l vs) m = Some (CMeta mt).
Proof.
  intros h. unfold hext. destruct (nth_error H l) as [[old| |]|] eqn:E; auto.
  apply hset_keeps; auto. intros ->. congruence.
Qed.

Lemma hfilter_meta : forall args ds H cur m mt,
  nth_error H m = Some (CMeta mt) -> nth_error (fst (hfilter H cur args ds)) m = Some (CMeta mt).
Proof.
  induction args as [|c args IH]; intros ds H cur m mt h; simpl; auto.
  destruct ds as [|d ds]; simpl; auto.
  destruct d as [|nn|nn]; auto.
  - apply IH. repeat apply hext_meta. auto.
  - destruct c; try (apply IH; apply hext_meta; auto).
    destruct (hget (hext H cur (repeat VNone nn)) cur); apply IH; repeat apply hext_meta; auto.
Qed.

Lemma app_keeps (H ext : heap) m x : nth_error H m = Some x -> nth_error (H ++ ext) m = Some x.
Proof. intros h. rewrite nth_error_app1; auto. eapply nth_error_lt; eauto. Qed.

(* ExpandSingleChild . Tree *)
Lemma hbuild_sim sh H l cvs acc Fc :
  nth_error H l = Some (CList cvs) -> owns H acc cvs Fc -> ~ In l Fc ->
  exists f ext, fst (hbuild sh H l) = H ++ ext /\
    own (H ++ ext) (pbuild sh acc) (snd (hbuild sh H l)) f /\
    (forall x, In x f -> In x (l :: Fc) \/ length H <= x).
Proof.
  intros hn ho hni. unfold hbuild, pbuild. rewrite (hget_nth _ _ _ hn).
  assert (hnode : exists f ext, H ++ [CMeta empty_meta] = H ++ ext /\
            own (H ++ ext) (PNode (cb_data sh) empty_meta acc) (VTree (cb_data sh) l (length H)) f /\
            (forall x, In x f -> In x (l :: Fc) \/ length H <= x)).
  { exists (l :: length H :: Fc), [CMeta empty_meta]. split; auto. split.
    - apply own_node with (vs := cvs).
      + apply app_keeps; auto.
      + rewrite nth_error_app2, Nat.sub_diag; auto.
      + apply owns_extend; auto.
      + auto.
      + intros hi. apply (owns_bound _ _ _ _ ho) in hi. lia.
      + apply nth_error_lt in hn. lia.
    - intros x [<-|[<-|hx]]; simpl; auto. }
  assert (hsame : forall t v f, own H t v f -> (forall x, In x f -> In x Fc) ->
            exists f ext, H = H ++ ext /\ own (H ++ ext) t v f /\ (forall x, In x f -> In x (l :: Fc) \/ length H <= x)).
  { intros t v f h hs. exists f, []. rewrite app_nil_r. repeat split; auto. intros x hx. left. right. auto. }
  inversion ho as [|t ts v vs f fs h1 h2 h3]; subst; auto.
  inversion h2; subst; auto.
  destruct (cb_expand1 sh); auto.
  simpl. apply (hsame _ _ f); auto. intros x hx. apply in_or_app; auto.
Qed.

(* ChildFilterLALR . ExpandSingleChild . Tree: the result denotes what the chain computes on immutable
   trees, reaches only locations of its arguments or new ones, writes only inside its arguments,
   and leaves every Meta object as it was *)
Lemma hcb_inner_sim sh H args ats Fa :
  owns H ats args Fa ->
  exists f, own (fst (hcb_inner sh H args)) (pcb_inner sh ats) (snd (hcb_inner sh H args)) f /\
            sub f Fa (length H) /\ frame H (fst (hcb_inner sh H args)) Fa /\
            (forall m mt, nth_error H m = Some (CMeta mt) ->
                          nth_error (fst (hcb_inner sh H args)) m = Some (CMeta mt)).
Proof.
  intros ha. unfold hcb_inner, pcb_inner.
  destruct (cb_filter sh) as [[ds app]|].
  - unfold halloc.
    set (H0 := H ++ [CList []]). set (l0 := length H).
    assert (hn0 : nth_error H0 l0 = Some (CList [])).
    { unfold H0, l0. rewrite nth_error_app2, Nat.sub_diag; auto. }
    assert (ha0 : owns H0 ats args Fa) by (apply owns_extend; auto).
    assert (hd0 : disjoint [l0] Fa).
    { intros x [<-|[]] hx. apply (owns_bound _ _ _ _ ha) in hx. unfold l0 in hx. lia. }
    destruct (hfilter_sim args ds H0 l0 [] [] [] ats Fa hn0 (owns_nil _) (fun x => x) ha0 hd0)
      as (cvs' & Fc' & a & b & c & d & e & g).
    pose proof (hfilter_meta args ds H0 l0) as hmeta.
    destruct (hfilter H0 l0 args ds) as [H1 l] eqn:E. simpl in *.
    destruct (ext_step H1 l cvs' _ Fc' _ _ [] a b c (owns_nones H1 app) (disjoint_nil_r _))
      as (n2 & o2 & ni2 & len2 & fr2).
    pose proof (fun m mt => hext_meta H1 l (repeat VNone app) m mt) as hmeta2.
    set (H2 := hext H1 l (repeat VNone app)) in *.
    destruct (hbuild_sim sh H2 l _ _ _ n2 o2 ni2) as (f & ext & hb & hf & hsub).
    destruct (hbuild sh H2 l) as [H3 v]. simpl in *. subst H3.
    exists f. split; auto. split; [|split].
    + intros x hx. destruct (hsub x hx) as [hx'|hx'].
      * rewrite app_nil_r in hx'. destruct (d x hx') as [[<-|[]]|h]; auto.
      * right. assert (length H2 = S l0) by (rewrite len2, e; unfold H0, l0; rewrite app_length; simpl; lia). lia.
    + split.
      * rewrite app_length, len2, e. unfold H0. rewrite app_length. lia.
      * intros x hx hnx.
        assert (x <> l).
        { intros ->. destruct (d l (or_introl eq_refl)) as [[h|[]]|h]; auto. unfold l0 in h. lia. }
        rewrite nth_error_app1 by (rewrite len2, e; unfold H0; rewrite app_length; lia).
        rewrite fr2, g; auto.
        -- unfold H0. apply nth_error_app1; auto.
        -- intros [h|[]]. unfold l0 in h. lia.
    + intros m mt hm. apply app_keeps. apply hmeta2. apply hmeta. unfold H0. apply app_keeps. auto.
  - unfold halloc. set (H1 := H ++ [CList args]). set (l := length H).
    assert (hn : nth_error H1 l = Some (CList args)).
    { unfold H1, l. rewrite nth_error_app2, Nat.sub_diag; auto. }
    assert (ha1 : owns H1 ats args Fa) by (apply owns_extend; auto).
    assert (hni : ~ In l Fa).
    { intros hx. apply (owns_bound _ _ _ _ ha) in hx. unfold l in hx. lia. }
    destruct (hbuild_sim sh H1 l _ _ _ hn ha1 hni) as (f & ext & hb & hf & hsub).
    destruct (hbuild sh H1 l) as [H3 v]. simpl in *. subst H3.
    exists f. split; auto. split; [|split].
    + intros x hx. destruct (hsub x hx) as [[<-|h]|h]; auto.
      * right. unfold H1 in h. rewrite app_length in h. unfold l. lia.
    + split.
      * unfold H1. repeat rewrite app_length. lia.
      * intros x hx _. unfold H1. rewrite <- app_assoc. apply nth_error_app1; auto.
    + intros m mt hm. unfold H1. apply app_keeps. apply app_keeps. auto.
Qed.

(* the children as PropagatePositions sees them *)
Lemma owns_shapes tp H ts vs f : owns H ts vs f -> forall H1,
  (forall m mt, nth_error H m = Some (CMeta mt) -> nth_error H1 m = Some (CMeta mt)) ->
  map (hshape tp H1) vs = map (pshape tp) ts.
Proof.
  induction 1 as [|t ts v vs f fs Ho Hos IH Hdj]; intros H1 hm; simpl; auto.
  rewrite IH; auto. f_equal.
  inversion Ho; subst; simpl; auto.
  rewrite (mget_nth _ _ _ (hm _ _ H2)). auto.
Qed.

(* the in-place write of res.meta *)
Lemma hpp_sim tp H t v f args ats :
  own H t v f -> map (hshape tp H) args = map (pshape tp) ats ->
  own (hpp tp H v args) (ppp tp t ats) v f /\ length (hpp tp H v args) = length H /\
  (forall l, ~ In l f -> nth_error (hpp tp H v args) l = nth_error H l).
Proof.
  intros ho hs. inversion ho as [a b|h0|d l m vs mt ts fp hn hmn hos hni hmi hlm]; subst; simpl;
    try (repeat split; auto; fail).
  - unfold mset. rewrite hmn. rewrite (mget_nth _ _ _ hmn), hs.
    set (mt' := MetaSpan.propagate mt (map (pshape tp) ats)).
    assert (hfr : forall x, x <> m -> nth_error (hset H m (CMeta mt')) x = nth_error H x).
    { intros. apply hset_other. auto. }
    repeat split.
    + apply own_node with (vs := vs); auto.
      * rewrite hfr; auto.
      * apply hset_same. eapply nth_error_lt; eauto.
      * eapply owns_frame; eauto. intros x hx. apply hfr. intros ->. auto.
    + apply hset_length.
    + intros x hx. apply hfr. intros ->. apply hx. simpl. auto.
Qed.

(* one rule callback (with or without PropagatePositions) *)
Lemma hcb_sim E r H args ats Fa :
  owns H ats args Fa ->
  exists f, own (fst (hcb E r H args)) (pcb E r ats) (snd (hcb E r H args)) f /\
            sub f Fa (length H) /\ frame H (fst (hcb E r H args)) Fa.
Proof.
  intros ha. unfold hcb, pcb.
  destruct (hcb_inner_sim (ce_cb E r) H args ats Fa ha) as (f & ho & hsub & hfr & hmeta).
  destruct (hcb_inner (ce_cb E r) H args) as [H1 res]. simpl in *.
  destruct (ce_pp E); [|exists f; auto].
  pose proof (owns_shapes (ce_tp E) _ _ _ _ ha H1 hmeta) as hsh.
  destruct (hpp_sim (ce_tp E) H1 _ _ _ args ats ho hsh) as (ho2 & hlen & hfr2).
  exists f. split; auto. split; auto.
  destruct hfr as [hl hf]. split; [lia|].
  intros l hl' hni. rewrite hfr2; auto.
  intros hi. destruct (hsub l hi); [auto|lia].
Qed.

(* ------------------------------------------------------------------ feed_token *)
Definition rH (r : heap * list nat * list value * kind) := fst (fst (fst r)).
Definition rss (r : heap * list nat * list value * kind) := snd (fst (fst r)).
Definition rvs (r : heap * list nat * list value * kind) := snd (fst r).
Definition rkd (r : heap * list nat * list value * kind) := snd r.
Definition qss (r : list nat * list ptree * kind) := fst (fst r).
Definition qts (r : list nat * list ptree * kind) := snd (fst r).
Definition qkd (r : list nat * list ptree * kind) := snd r.

(* the simulation statement for one operation on one parser state *)
Definition sim_res (H : heap) (F : list loc)
           (r : heap * list nat * list value * kind) (q : list nat * list ptree * kind) : Prop :=
  rss r = qss q /\ rkd r = qkd q /\
  exists F', owns (rH r) (qts q) (rvs r) F' /\ sub F' F (length H) /\ frame H (rH r) F.

Lemma lastn_droplast {A} n (l : list A) : droplast n l ++ lastn n l = l.
Proof. unfold droplast, lastn. apply firstn_skipn. Qed.

Lemma hfeed_sim T E k : forall H ss vs ts F ty id e,
  owns H ts vs F ->
  sim_res H F (hfeed k T E H ss vs ty id e) (pfeed k T E ss ts ty id e).
Proof.
  induction k as [|k IH]; intros H ss vs ts F ty id e ho.
  - simpl. repeat split; auto. exists F. auto using sub_refl, frame_refl.
  - simpl. destruct ss as [|s ss'].
    { repeat split; auto. exists F. auto using sub_refl, frame_refl. }
    destruct (action T s ty) as [[s'|r]|].
    + destruct e.
      * repeat split; auto. exists F. auto using sub_refl, frame_refl.
      * repeat split; auto. exists (F ++ []). repeat split; auto.
        -- apply owns_app; auto using disjoint_nil_r. apply owns_one. constructor.
        -- rewrite app_nil_r. apply sub_refl.
    + set (n := rarity T r).
      pose proof (owns_length _ _ _ _ ho) as hlen.
      destruct (owns_split _ _ _ _ ho (length vs - n)) as (F0 & Fa & -> & hd & h0 & ha).
      fold (droplast n vs) in h0. fold (lastn n vs) in ha.
      replace (firstn (length vs - n) ts) with (droplast n ts) in h0 by (unfold droplast; rewrite hlen; auto).
      replace (skipn (length vs - n) ts) with (lastn n ts) in ha by (unfold lastn; rewrite hlen; auto).
      destruct (hcb_sim E r H _ _ _ ha) as (f & hv & hsub & hfr).
      destruct (hcb E r H (lastn n vs)) as [H1 v] eqn:Ehcb. simpl in hv, hfr.
      assert (h01 : owns H1 (droplast n ts) (droplast n vs) F0).
      { pose proof hfr as [hfl hff]. apply (owns_frame _ _ _ _ h0). intros l hl. apply hff.
        - apply (owns_bound _ _ _ _ h0); auto.
        - intros hx. apply (hd l); auto. }
      assert (hsub0 : sub F0 (F0 ++ Fa) (length H)).
      { intros l hl. left. apply in_or_app; auto. }
      assert (hfr0 : frame H H1 (F0 ++ Fa)).
      { eapply frame_weaken; eauto. intros; apply in_or_app; auto. }
      assert (h1 : owns H1 (droplast n ts ++ [pcb E r (lastn n ts)]) (droplast n vs ++ [v]) (F0 ++ f)).
      { apply owns_app; auto. apply owns_one; auto.
        intros l hl hf. destruct (hsub l hf) as [h|h]; [apply (hd l); auto|].
        apply (owns_bound _ _ _ _ h0) in hl. lia. }
      assert (hsub1 : sub (F0 ++ f) (F0 ++ Fa) (length H)).
      { intros l hl. apply in_app_or in hl. destruct hl as [hl|hl]; [left; apply in_or_app; auto|].
        destruct (hsub l hl); [left; apply in_or_app; auto|auto]. }
      destruct (skipn n (s :: ss')) as [|s0 ss0] eqn:Ess.
      { repeat split; auto. exists F0. auto. }
      destruct (goto T s0 (rlhs T r)) as [s1|].
      2:{ repeat split; auto. exists F0. auto. }
      destruct (e && (s1 =? end_state T)).
      { repeat split; auto. exists (F0 ++ f). auto. }
      destruct (IH H1 (s1 :: s0 :: ss0) _ _ _ ty id e h1) as (a & b & F' & o' & s' & f').
      repeat split; auto. exists F'. repeat split; auto.
      * eapply sub_trans; eauto. apply hfr0.
      * apply (proj1 (frame_trans _ _ _ _ _ hfr0 f' hsub1)).
      * apply (proj2 (frame_trans _ _ _ _ _ hfr0 f' hsub1)).
    + repeat split; auto. exists F. auto using sub_refl, frame_refl.
Qed.

Lemma hparse_from_sim T E k toks : forall H ss vs ts F,
  owns H ts vs F ->
  sim_res H F (hparse_from k T E H ss vs toks) (pparse_from k T E ss ts toks).
Proof.
  induction toks as [|[ty id] rest IH]; intros H ss vs ts F ho; simpl.
  - apply hfeed_sim; auto.
  - pose proof (hfeed_sim T E k H ss vs ts F ty id false ho) as hs.
    destruct (hfeed k T E H ss vs ty id false) as [[[H1 ss1] vs1] kd1].
    destruct (pfeed k T E ss ts ty id false) as [[qs1 ts1] qk1].
    destruct hs as (a & b & F' & o' & s' & f'). unfold rss, rkd, rH, rvs, qss, qkd, qts in *. simpl in *. subst.
    destruct qk1; try (repeat split; auto; exists F'; auto; fail).
    destruct (IH H1 qs1 vs1 ts1 F' o') as (a & b & F'' & o'' & s'' & f'').
    repeat split; auto. exists F''. repeat split; auto.
    + eapply sub_trans; eauto. apply f'.
    + apply (proj1 (frame_trans _ _ _ _ _ f' f'' s')).
    + apply (proj2 (frame_trans _ _ _ _ _ f' f'' s')).
Qed.

(* ------------------------------------------------------------------ control *)
Lemma hfeed_ctrl T E k : forall H ss vs ty id e,
  (rss (hfeed k T E H ss vs ty id e), rkd (hfeed k T E H ss vs ty id e)) = cfeed k T ss ty e.
Proof.
  induction k as [|k IH]; intros; simpl; auto.
  destruct ss as [|s ss']; auto.
  destruct (action T s ty) as [[s'|r]|]; auto.
  - destruct e; auto.
  - destruct (hcb E r H (lastn (rarity T r) vs)) as [H1 v].
    destruct (skipn (rarity T r) (s :: ss')) as [|s0 ss0]; auto.
    destruct (goto T s0 (rlhs T r)) as [s1|]; auto.
    destruct (e && (s1 =? end_state T)); auto.
Qed.

Lemma pfeed_ctrl T E k : forall ss ts ty id e,
  (qss (pfeed k T E ss ts ty id e), qkd (pfeed k T E ss ts ty id e)) = cfeed k T ss ty e.
Proof.
  induction k as [|k IH]; intros; simpl; auto.
  destruct ss as [|s ss']; auto.
  destruct (action T s ty) as [[s'|r]|]; auto.
  - destruct e; auto.
  - destruct (skipn (rarity T r) (s :: ss')) as [|s0 ss0]; auto.
    destruct (goto T s0 (rlhs T r)) as [s1|]; auto.
    destruct (e && (s1 =? end_state T)); auto.
Qed.

(* ------------------------------------------------------------------ callback-free feeds write nothing *)
Definition plain_env (E : cbenv) : Prop := (forall r, cb_filter (ce_cb E r) = None) /\ ce_pp E = false.

Lemma hcb_pure E r H args : plain_env E -> exists ext, fst (hcb E r H args) = H ++ ext.
Proof.
  intros [hc hp]. unfold hcb, hcb_inner. rewrite hc, hp. unfold halloc, hbuild.
  destruct (hget (H ++ [CList args]) (length H)) as [|x [|y l]]; simpl;
    try destruct (cb_expand1 (ce_cb E r)); simpl; try rewrite <- app_assoc; eauto.
Qed.

Lemma hfeed_pure T E k : plain_env E ->
  forall H ss vs ty id e, exists ext, rH (hfeed k T E H ss vs ty id e) = H ++ ext.
Proof.
  intros hc. induction k as [|k IH]; intros; simpl.
  - exists []. unfold rH; simpl. rewrite app_nil_r; auto.
  - assert (h0 : exists ext, H = H ++ ext) by (exists []; rewrite app_nil_r; auto).
    destruct ss as [|s ss']; auto.
    destruct (action T s ty) as [[s'|r]|]; auto.
    + destruct e; auto.
    + destruct (hcb_pure E r H (lastn (rarity T r) vs) hc) as [ext1 hx1].
      destruct (hcb E r H (lastn (rarity T r) vs)) as [H1 v]. simpl in hx1. subst H1.
      assert (h1 : exists ext, H ++ ext1 = H ++ ext) by eauto.
      destruct (skipn (rarity T r) (s :: ss')) as [|s0 ss0]; auto.
      destruct (goto T s0 (rlhs T r)) as [s1|]; auto.
      destruct (e && (s1 =? end_state T)); auto.
      match goal with |- exists _, rH (hfeed k T E (H ++ ext1) ?a ?b ty id e) = _ =>
        destruct (IH (H ++ ext1) a b ty id e) as [ext hx] end.
      rewrite hx. rewrite <- app_assoc. eauto.
Qed.

Lemma env_none_plain : plain_env env_none.
Proof. split; auto. Qed.


(* ------------------------------------------------------------------ several parsers on one heap *)
(* the code as it is now: copies deep by default, Meta objects copied, lexer thread rebound *)
Definition impl_fixed : impl := {| im_deep := true; im_meta := true; im_lex := true |}.

(* parser p denotes the immutable parser pp: same stacks (values with their metas read off the
   heap), both lexer references are one thread of its own standing at pp's position; f = that
   thread and everything the values reach *)
Definition prel (H : heap) (pp : pparser) (p : parser) (f : list loc) : Prop :=
  p_imm p = pp_imm pp /\ p_ss p = pp_ss pp /\ p_sl p = p_lt p /\
  nth_error H (p_lt p) = Some (CLex (pp_pos pp)) /\
  exists fv, f = p_lt p :: fv /\ ~ In (p_lt p) fv /\ owns H (pp_ts pp) (p_vs p) fv.

Lemma prel_bound H pp p f : prel H pp p f -> forall l, In l f -> l < length H.
Proof.
  intros (_ & _ & _ & hl & fv & -> & _ & ho) l [<-|h].
  - eapply nth_error_lt; eauto.
  - eapply owns_bound; eauto.
Qed.

Lemma prel_frame H pp p f H' : prel H pp p f ->
  (forall l, In l f -> nth_error H' l = nth_error H l) -> prel H' pp p f.
Proof.
  intros (a & b & c & hl & fv & -> & hni & ho) hf. repeat split; auto.
  - rewrite hf; simpl; auto.
  - exists fv. repeat split; auto. eapply owns_frame; eauto. intros; apply hf; simpl; auto.
Qed.

(* every parser denotes its immutable counterpart and no two parsers reach a common location *)
Inductive wowns (H : heap) : list pparser -> list parser -> list loc -> Prop :=
| wo_nil : wowns H [] [] []
| wo_cons pp pps p ps f fs :
    prel H pp p f -> wowns H pps ps fs -> disjoint f fs ->
    wowns H (pp :: pps) (p :: ps) (f ++ fs).

Lemma wowns_bound H pps ps F : wowns H pps ps F -> forall l, In l F -> l < length H.
Proof.
  induction 1 as [|pp pps p ps f fs hp hw IH hd]; simpl; [tauto|].
  intros l hl. apply in_app_or in hl. destruct hl; auto. eapply prel_bound; eauto.
Qed.

Lemma wowns_frame H pps ps F : wowns H pps ps F -> forall H',
  (forall l, In l F -> nth_error H' l = nth_error H l) -> wowns H' pps ps F.
Proof.
  induction 1 as [|pp pps p ps f fs hp hw IH hd]; intros H' hf; constructor; auto.
  - eapply prel_frame; eauto. intros; apply hf; apply in_or_app; auto.
  - apply IH. intros; apply hf; apply in_or_app; auto.
Qed.

Lemma wowns_length H pps ps F : wowns H pps ps F -> length pps = length ps.
Proof. induction 1; simpl; auto. Qed.

Lemma wowns_snoc H pps ps F : wowns H pps ps F -> forall pp p f,
  prel H pp p f -> disjoint F f -> wowns H (pps ++ [pp]) (ps ++ [p]) (F ++ f ++ []).
Proof.
  induction 1 as [|pp0 pps p0 ps f0 fs hp hw IH hd]; intros pp p f hpr hdj; simpl.
  - constructor; auto using disjoint_nil_r. constructor.
  - rewrite <- app_assoc. apply disjoint_app_l in hdj. destruct hdj.
    constructor; auto. rewrite app_nil_r. apply disjoint_app_r; auto.
Qed.

(* a new parser whose footprint is entirely new, in a heap that kept everything old *)
Lemma wowns_append H pps ps F H' pp p f :
  wowns H pps ps F -> (forall l, l < length H -> nth_error H' l = nth_error H l) ->
  prel H' pp p f -> fresh_above (length H) f ->
  exists F', wowns H' (pps ++ [pp]) (ps ++ [p]) F'.
Proof.
  intros hw hold hp hfr. exists (F ++ f ++ []).
  apply wowns_snoc; auto.
  - eapply wowns_frame; eauto. intros l hl. apply hold. eapply wowns_bound; eauto.
  - intros l h1 h2. apply (wowns_bound _ _ _ _ hw) in h1. apply hfr in h2. lia.
Qed.

(* replacing parser i by the outcome of an operation that stayed inside i's footprint *)
Lemma wowns_set H pps ps F : wowns H pps ps F -> forall i p, nth_error ps i = Some p ->
  exists pp f, nth_error pps i = Some pp /\ prel H pp p f /\ (forall x, In x f -> In x F) /\
    forall H' pp' p' f', prel H' pp' p' f' -> sub f' f (length H) -> frame H H' f ->
      exists F', wowns H' (set_nth pps i pp') (set_nth ps i p') F' /\ sub F' F (length H).
Proof.
  induction 1 as [|pp0 pps p0 ps f0 fs hp hw IH hd]; intros i p hn.
  - destruct i; discriminate.
  - destruct i as [|i]; simpl in hn.
    + inversion hn; subst p0. exists pp0, f0.
      split; [reflexivity|]. split; [exact hp|]. split; [intros; apply in_or_app; auto|].
      intros H' pp' p' f' hp' hs [hl hf]. exists (f' ++ fs). split.
      * simpl. constructor; auto.
        -- eapply wowns_frame; eauto. intros l hx. apply hf.
           ++ eapply wowns_bound; eauto.
           ++ intros h0. apply (hd l); auto.
        -- intros l h1 h2. destruct (hs l h1) as [h|h]; [apply (hd l); auto|].
           apply (wowns_bound _ _ _ _ hw) in h2. lia.
      * intros l hx. apply in_app_or in hx. destruct hx as [hx|hx].
        -- destruct (hs l hx); [left; apply in_or_app; auto|auto].
        -- left; apply in_or_app; auto.
    + destruct (IH i p hn) as (pp & f & a & b & c & d).
      exists pp, f.
      split; [exact a|]. split; [exact b|]. split; [intros; apply in_or_app; auto|].
      intros H' pp' p' f' hp' hs hfr.
      destruct (d H' pp' p' f' hp' hs hfr) as (F' & hw' & hs').
      exists (f0 ++ F'). split.
      * simpl. constructor; auto.
        -- apply (prel_frame _ _ _ _ _ hp). intros l hl. destruct hfr as [_ hf]. apply hf.
           ++ apply (prel_bound _ _ _ _ hp); auto.
           ++ intros h0. apply (hd l); auto.
        -- intros l h1 h2. destruct (hs' l h2) as [h|h]; [apply (hd l); auto|].
           apply (prel_bound _ _ _ _ hp) in h1. lia.
      * intros l hx. apply in_app_or in hx. destruct hx as [hx|hx].
        -- left; apply in_or_app; auto.
        -- destruct (hs' l hx); [left; apply in_or_app; auto|auto].
Qed.

Lemma wowns_none H pps ps F i : wowns H pps ps F -> nth_error ps i = None -> nth_error pps i = None.
Proof.
  intros hw hn. apply nth_error_None. apply nth_error_None in hn.
  rewrite (wowns_length _ _ _ _ hw). auto.
Qed.

(* an operation on parser p's values (and possibly its lexer position) that stayed inside p's footprint *)
Lemma prel_inplace H pp p f H' ss2 vs2 ts2 pos2 F' fv :
  prel H pp p f -> f = p_lt p :: fv ->
  owns H' ts2 vs2 F' -> sub F' fv (length H) ->
  length H <= length H' ->
  (forall l, l < length H -> ~ In l (p_lt p :: fv) -> nth_error H' l = nth_error H l) ->
  nth_error H' (p_lt p) = Some (CLex pos2) ->
  prel H' {| pp_imm := pp_imm pp; pp_ss := ss2; pp_ts := ts2; pp_pos := pos2 |} (with_state p ss2 vs2) (p_lt p :: F') /\
  sub (p_lt p :: F') f (length H) /\ frame H H' f.
Proof.
  intros (a & b & c & hl & fv0 & e0 & hni & ho) -> ho' hs hlen hfr hlex.
  inversion e0; subst fv0.
  split; [|split].
  - repeat split; simpl; auto. exists F'. repeat split; auto.
    intros hi. destruct (hs _ hi) as [h|h]; auto. apply nth_error_lt in hl. lia.
  - intros l [<-|hx]; [left; simpl; auto|]. destruct (hs l hx); [left; simpl; auto|auto].
  - split; auto.
Qed.

(* ------------------------------------------------------------------ copies *)
Lemma copy_parser_deep_spec H pp p f : prel H pp p f ->
  exists ext f', fst (copy_parser impl_fixed true H p) = H ++ ext /\
    prel (H ++ ext) pp (snd (copy_parser impl_fixed true H p)) f' /\ fresh_above (length H) f' /\
    p_ss (snd (copy_parser impl_fixed true H p)) = p_ss p.
Proof.
  intros (a & b & c & hl & fv & -> & hni & ho).
  unfold copy_parser, halloc. simpl im_meta. simpl im_lex. cbv iota.
  rewrite (lget_nth _ _ _ hl).
  set (H0 := H ++ [CLex (pp_pos pp)]).
  destruct (deepcopy_spec H0 _ _ _ (owns_extend _ _ _ _ [CLex (pp_pos pp)] ho)) as (ext & f' & e1 & o1 & fr).
  destruct (deepcopy true H0 (p_vs p)) as [H1 vs1]. simpl in *. subst H1.
  exists ([CLex (pp_pos pp)] ++ ext), (length H :: f'). unfold H0 in *. rewrite <- app_assoc in *.
  repeat split; simpl; auto.
  - rewrite nth_error_app2, Nat.sub_diag; auto.
  - exists f'. repeat split; auto. intros hi. apply fr in hi. rewrite app_length in hi. simpl in hi. lia.
  - intros l [<-|hx]; auto. apply fr in hx. rewrite app_length in hx. lia.
Qed.

(* any copy (deep or not) only appends to the heap and keeps the state stack; its values are owned *)
Lemma copy_parser_ext deep H p ts fv : owns H ts (p_vs p) fv ->
  exists ext fv', fst (copy_parser impl_fixed deep H p) = H ++ ext /\
    p_ss (snd (copy_parser impl_fixed deep H p)) = p_ss p /\
    p_imm (snd (copy_parser impl_fixed deep H p)) = p_imm p /\
    owns (H ++ ext) ts (p_vs (snd (copy_parser impl_fixed deep H p))) fv'.
Proof.
  intros ho. unfold copy_parser, halloc. simpl im_meta. simpl im_lex. cbv iota.
  set (c := CLex (lget H (p_lt p))).
  destruct deep.
  - destruct (deepcopy_spec (H ++ [c]) _ _ _ (owns_extend _ _ _ _ [c] ho)) as (ext & f' & e1 & o1 & fr).
    destruct (deepcopy true (H ++ [c]) (p_vs p)) as [H1 vs1]. simpl in *. subst H1.
    exists ([c] ++ ext), f'. rewrite <- app_assoc in *. auto.
  - exists [c], fv. simpl. repeat split; auto. apply owns_extend; auto.
Qed.

(* ------------------------------------------------------------------ accepts *)
Lemma trial_spec k T H p t ts f : owns H ts (p_vs p) f ->
  (exists ext, fst (trial impl_fixed k T H p t) = H ++ ext) /\
  snd (trial impl_fixed k T H p t) = snd (cfeed k T (p_ss p) t (t =? END)).
Proof.
  intros ho. unfold trial. change (im_deep impl_fixed) with true.
  destruct (copy_parser_ext false H p ts f ho) as (e0 & f0 & a0 & b0 & c0 & o0).
  destruct (copy_parser impl_fixed false H p) as [H0 p0]. simpl in a0, b0, c0, o0. subst H0.
  match goal with |- context [let (_, _) := ?X in _] =>
    assert (hh : exists ext ts' f', fst X = H ++ ext /\ p_ss (snd X) = p_ss p /\
                                    owns (H ++ ext) ts' (p_vs (snd X)) f');
    [| destruct hh as (ext & ts' & f' & a & b & c); destruct X as [H1 p1] ] end.
  { destruct (p_imm p0).
    - destruct (copy_parser_ext true (H ++ e0) p0 ts f0 o0) as (e1 & f1 & a1 & b1 & c1 & o1).
      exists (e0 ++ e1), ts, f1. rewrite a1, b1, app_assoc. auto.
    - exists e0, ts, f0. simpl. auto. }
  simpl in a, b, c. subst H1.
  unfold hifeed.
  pose proof (hfeed_ctrl T env_none k (H ++ ext) (p_ss p1) (p_vs p1) t 0 (t =? END)) as hc.
  destruct (hfeed_pure T env_none k env_none_plain (H ++ ext) (p_ss p1) (p_vs p1) t 0 (t =? END)) as [ext2 hx].
  destruct (hfeed k T env_none (H ++ ext) (p_ss p1) (p_vs p1) t 0 (t =? END)) as [[[H2 ss2] vs2] kd].
  unfold rH, rss, rkd in *. simpl in *. subst H2. rewrite b in hc. rewrite <- hc. simpl.
  split; auto. rewrite <- app_assoc. eauto.
Qed.

Lemma accepts_loop_spec k T p ts f tl : forall H, owns H ts (p_vs p) f ->
  (exists ext, fst (accepts_loop impl_fixed k T H p tl) = H ++ ext) /\
  snd (accepts_loop impl_fixed k T H p tl) =
    filter (fun t => kind_ok (snd (cfeed k T (p_ss p) t (t =? END)))) tl.
Proof.
  induction tl as [|t tl IH]; intros H ho; simpl.
  - split; auto. exists []. rewrite app_nil_r; auto.
  - destruct (trial_spec k T H p t ts f ho) as [[e1 h1] h2].
    destruct (trial impl_fixed k T H p t) as [H1 kd]. simpl in h1, h2. subst H1 kd.
    destruct (IH (H ++ e1) (owns_extend _ _ _ _ _ ho)) as [[e2 h3] h4].
    destruct (accepts_loop impl_fixed k T (H ++ e1) p tl) as [H2 acc]. simpl in *. subst H2 acc.
    split; auto. rewrite <- app_assoc. eauto.
Qed.

(* ------------------------------------------------------------------ one operation on a world of forks *)
Definition all_deep (o : op) : Prop := match o with OCopy _ false => False | _ => True end.

Lemma paccepts_eq k T pp p : p_ss p = pp_ss pp ->
  filter (fun t => kind_ok (snd (cfeed k T (p_ss p) t (t =? END)))) (choices T p) = paccepts k T pp.
Proof. intros h. unfold paccepts, choices. rewrite h. auto. Qed.

(* an operation on the stacks of p that is simulated on immutable trees *)
Lemma prel_valop H pp p f r q :
  prel H pp p f ->
  (forall fv, owns H (pp_ts pp) (p_vs p) fv -> sim_res H fv r q) ->
  rss r = qss q /\ rkd r = qkd q /\
  exists f', prel (rH r) {| pp_imm := pp_imm pp; pp_ss := qss q; pp_ts := qts q; pp_pos := pp_pos pp |}
                  (with_state p (rss r) (rvs r)) f' /\
             sub f' f (length H) /\ frame H (rH r) f.
Proof.
  intros hp hsim. pose proof hp as (a & b & c & hl & fv & -> & hni & ho).
  destruct (hsim fv ho) as (x & y & F' & o' & s' & [fl ff]).
  split; auto. split; auto.
  destruct (prel_inplace H pp p _ (rH r) (qss q) (rvs r) (qts q) (pp_pos pp) F' fv hp eq_refl o' s' fl) as (h1 & h2 & h3).
  - intros l hl' hn. apply ff; auto. intros hi. apply hn. simpl. auto.
  - rewrite ff; auto. eapply nth_error_lt; eauto.
  - exists (p_lt p :: F'). rewrite x. auto.
Qed.

(* the lexer thread of p advances *)
Lemma prel_lset H pp p f n :
  prel H pp p f ->
  prel (lset H (p_lt p) n) {| pp_imm := pp_imm pp; pp_ss := pp_ss pp; pp_ts := pp_ts pp; pp_pos := n |} p f /\
  length (lset H (p_lt p) n) = length H /\
  (forall l, l <> p_lt p -> nth_error (lset H (p_lt p) n) l = nth_error H l).
Proof.
  intros (a & b & c & hl & fv & -> & hni & ho). unfold lset. rewrite hl.
  assert (hfr : forall l, l <> p_lt p -> nth_error (hset H (p_lt p) (CLex n)) l = nth_error H l).
  { intros. apply hset_other. auto. }
  repeat split; simpl; auto.
  - apply hset_same. eapply nth_error_lt; eauto.
  - exists fv. repeat split; auto. eapply owns_frame; eauto. intros l hx. apply hfr. intros ->. auto.
  - apply hset_length.
Qed.

Lemma prel_with_imm H pp p f b :
  prel H pp p f ->
  prel H {| pp_imm := b; pp_ss := pp_ss pp; pp_ts := pp_ts pp; pp_pos := pp_pos pp |} (with_imm p b) f.
Proof. intros (a & b0 & c & hl & fv & -> & hni & ho). repeat split; simpl; auto. exists fv. auto. Qed.

Lemma pp_eta pp : {| pp_imm := pp_imm pp; pp_ss := pp_ss pp; pp_ts := pp_ts pp; pp_pos := pp_pos pp |} = pp.
Proof. destruct pp; auto. Qed.

Lemma hparse_from_cons k T E H ss vs ty id rest :
  hparse_from k T E H ss vs ((ty, id) :: rest) =
  let '(H1, ss1, vs1, kd) := hfeed k T E H ss vs ty id false in
  match kd with KShift => hparse_from k T E H1 ss1 vs1 rest | _ => (H1, ss1, vs1, kd) end.
Proof. reflexivity. Qed.
Lemma hparse_from_nil k T E H ss vs : hparse_from k T E H ss vs [] = hfeed k T E H ss vs END 0 true.
Proof. reflexivity. Qed.
Lemma pparse_from_cons k T E ss ts ty id rest :
  pparse_from k T E ss ts ((ty, id) :: rest) =
  let '(ss1, ts1, kd) := pfeed k T E ss ts ty id false in
  match kd with KShift => pparse_from k T E ss1 ts1 rest | _ => (ss1, ts1, kd) end.
Proof. reflexivity. Qed.
Lemma pparse_from_nil k T E ss ts : pparse_from k T E ss ts [] = pfeed k T E ss ts END 0 true.
Proof. reflexivity. Qed.

Arguments copy_parser : simpl never.
Arguments hifeed : simpl never.
Arguments pifeed : simpl never.
Arguments accepts_loop : simpl never.
Arguments hparse_from : simpl never.
Arguments pparse_from : simpl never.
Arguments cparse_cnt : simpl never.
Arguments lset : simpl never.
Arguments lget : simpl never.

Ltac unproj := unfold rss, rkd, rH, rvs, qss, qkd, qts in *; simpl in *.

Lemma wstep_sim k T E input w pps o F :
  wowns (w_heap w) pps (w_ps w) F -> all_deep o ->
  (exists F', wowns (w_heap (fst (wstep impl_fixed k T E input w o))) (fst (pstep k T E input pps o))
                    (w_ps (fst (wstep impl_fixed k T E input w o))) F') /\
  snd (wstep impl_fixed k T E input w o) = snd (pstep k T E input pps o).
Proof.
  intros hw hdeep. destruct w as [H ps]. simpl in hw.
  pose proof (wowns_length _ _ _ _ hw) as hlen.
  destruct o as [i ty id|i|i deep|i|i|i|i]; simpl;
    (destruct (nth_error ps i) as [p|] eqn:En;
     [|rewrite (wowns_none _ _ _ _ _ hw En); simpl; eauto]);
    destruct (wowns_set _ _ _ _ hw i p En) as (pp & f & a & hp & c & d);
    pose proof hp as (hi & hs & hsl & hlx & fv & ef & hnf & ho);
    rewrite a.
  - (* feed *)
    rewrite <- hi.
    destruct (p_imm p) eqn:Eimm.
    + destruct (copy_parser_deep_spec H pp p f hp) as (ext & f1 & e1 & hp1 & fr1 & ess).
      destruct (copy_parser impl_fixed true H p) as [H1 c0]. simpl in e1, hp1, ess. subst H1.
      pose proof hp1 as (hi1 & hs1 & _).
      destruct (prel_valop (H ++ ext) pp c0 f1
                  (hifeed k T E (H ++ ext) (p_ss c0) (p_vs c0) ty id)
                  (pifeed k T E (pp_ss pp) (pp_ts pp) ty id) hp1) as (x & y & f2 & hp2 & s2 & [fl ff]).
      { intros fv0 h0. rewrite hs1. apply hfeed_sim; auto. }
      change (im_deep impl_fixed) with true.
      destruct (hifeed k T E (H ++ ext) (p_ss c0) (p_vs c0) ty id) as [[[H2 ss2] vs2] kd].
      destruct (pifeed k T E (pp_ss pp) (pp_ts pp) ty id) as [[qs2 ts2] qk].
      unproj. subst. rewrite hlen. split; auto.
      rewrite <- hi in hp2.
      apply wowns_append with (F := F) (H := H) (f := f2); auto.
      * intros l hl. rewrite ff.
        -- apply nth_error_app1; auto.
        -- rewrite app_length; lia.
        -- intros hx. apply fr1 in hx. lia.
      * intros l hl. destruct (s2 l hl) as [h|h]; [auto|]. rewrite app_length in h. lia.
    + destruct (prel_valop H pp p f
                  (hifeed k T E H (p_ss p) (p_vs p) ty id)
                  (pifeed k T E (pp_ss pp) (pp_ts pp) ty id) hp) as (x & y & f2 & hp2 & s2 & fr2).
      { intros fv0 h0. rewrite hs. apply hfeed_sim; auto. }
      destruct (hifeed k T E H (p_ss p) (p_vs p) ty id) as [[[H2 ss2] vs2] kd].
      destruct (pifeed k T E (pp_ss pp) (pp_ts pp) ty id) as [[qs2 ts2] qk].
      unproj. subst. rewrite <- hi in hp2.
      destruct (d _ _ _ _ hp2 s2 fr2) as (F'' & hw'' & _). eauto.
  - (* step *)
    rewrite <- hi.
    destruct (p_imm p) eqn:Eimm; [simpl; eauto|].
    rewrite (lget_nth _ _ _ hlx).
    destruct (nth_error input (pp_pos pp)) as [[ty id]|] eqn:Ein; [|simpl; eauto].
    destruct (prel_lset H pp p f (S (pp_pos pp)) hp) as (hp0 & len0 & fr0).
    set (H0 := lset H (p_lt p) (S (pp_pos pp))) in *.
    destruct (prel_valop H0 _ p f
                (hifeed k T E H0 (p_ss p) (p_vs p) ty id)
                (pifeed k T E (pp_ss pp) (pp_ts pp) ty id) hp0) as (x & y & f2 & hp2 & s2 & [fl ff]).
    { intros fv0 h0. rewrite hs. apply hfeed_sim; auto. }
    destruct (hifeed k T E H0 (p_ss p) (p_vs p) ty id) as [[[H2 ss2] vs2] kd].
    destruct (pifeed k T E (pp_ss pp) (pp_ts pp) ty id) as [[qs2 ts2] qk].
    unproj. subst. rewrite <- hi in hp2. rewrite len0 in *.
    destruct (d _ _ _ _ hp2 s2) as (F'' & hw'' & _); eauto.
    split; auto. intros l hl hn. rewrite ff, fr0; auto. intros ->. apply hn. simpl. auto.
  - (* copy *)
    destruct deep; [|contradiction].
    destruct (copy_parser_deep_spec H pp p f hp) as (ext & f1 & e1 & hp1 & fr1 & ess).
    destruct (copy_parser impl_fixed true H p) as [H1 c0]. simpl in *. subst H1. rewrite hlen. split; auto.
    apply wowns_append with (F := F) (H := H) (f := f1); auto.
    intros l hl. apply nth_error_app1; auto.
  - (* as_immutable *)
    change (im_deep impl_fixed) with true.
    destruct (copy_parser_deep_spec H pp p f hp) as (ext & f1 & e1 & hp1 & fr1 & ess).
    destruct (copy_parser impl_fixed true H p) as [H1 c0]. simpl in *. subst H1. rewrite hlen. split; auto.
    apply wowns_append with (F := F) (H := H) (f := f1); auto.
    + intros l hl. apply nth_error_app1; auto.
    + apply prel_with_imm; auto.
  - (* as_mutable *)
    change (im_deep impl_fixed) with true.
    destruct (copy_parser_deep_spec H pp p f hp) as (ext & f1 & e1 & hp1 & fr1 & ess).
    destruct (copy_parser impl_fixed true H p) as [H1 c0]. simpl in *. subst H1. rewrite hlen. split; auto.
    apply wowns_append with (F := F) (H := H) (f := f1); auto.
    + intros l hl. apply nth_error_app1; auto.
    + apply prel_with_imm; auto.
  - (* accepts *)
    destruct (accepts_loop_spec k T p _ _ (choices T p) H ho) as [[ext e1] e2].
    destruct (accepts_loop impl_fixed k T H p (choices T p)) as [H1 acc]. simpl in *. subst H1 acc.
    rewrite (paccepts_eq k T pp p hs). split; auto.
    exists F. eapply wowns_frame; eauto. intros l hl. apply nth_error_app1. eapply wowns_bound; eauto.
  - (* resume_parse *)
    rewrite hsl, (lget_nth _ _ _ hlx), <- hs.
    set (rest := skipn (pp_pos pp) input).
    destruct (prel_valop H pp p f
                (hparse_from k T E H (p_ss p) (p_vs p) rest)
                (pparse_from k T E (p_ss p) (pp_ts pp) rest) hp) as (x & y & f2 & hp2 & s2 & [fl ff]).
    { intros fv0 h0. apply hparse_from_sim; auto. }
    destruct (hparse_from k T E H (p_ss p) (p_vs p) rest) as [[[H2 ss2] vs2] kd].
    destruct (pparse_from k T E (p_ss p) (pp_ts pp) rest) as [[qs2 ts2] qk].
    unproj. subst.
    set (n := pp_pos pp + cparse_cnt k T (p_ss p) rest).
    destruct (prel_lset H2 _ (with_state p qs2 vs2) f2 n hp2) as (hp3 & len3 & fr3).
    simpl in hp3, len3, fr3.
    destruct (d (lset H2 (p_lt p) n) _ _ _ hp3 s2) as (F'' & hw'' & _); eauto.
    split; [lia|]. intros l hl hn. rewrite fr3, ff; auto. intros ->. apply hn. simpl. auto.
Qed.

Lemma wrun_sim k T E input os : forall w pps F,
  wowns (w_heap w) pps (w_ps w) F -> Forall all_deep os ->
  (exists F', wowns (w_heap (fst (wrun impl_fixed k T E input w os))) (fst (prun k T E input pps os))
                    (w_ps (fst (wrun impl_fixed k T E input w os))) F') /\
  snd (wrun impl_fixed k T E input w os) = snd (prun k T E input pps os).
Proof.
  induction os as [|o os IH]; intros w pps F hw hd; simpl.
  - eauto.
  - inversion hd; subst.
    destruct (wstep_sim k T E input w pps o F hw H1) as [[F1 h1] h2].
    destruct (wstep impl_fixed k T E input w o) as [w1 ob]. destruct (pstep k T E input pps o) as [pps1 pob].
    simpl in *. subst pob.
    destruct (IH w1 pps1 F1 h1 H2) as [[F2 h3] h4].
    destruct (wrun impl_fixed k T E input w1 os) as [w2 obs]. destruct (prun k T E input pps1 os) as [pps2 pobs].
    simpl in *. subst. eauto.
Qed.

(* ------------------------------------------------------------------ own history of each fork *)
Definition hrel k T E input (pp : pparser) (h : lineage) : Prop :=
  pp_imm pp = fst h /\ (pp_ss pp, pp_ts pp, pp_pos pp) = preplay k T E input (snd h).

Lemma preplay_snoc k T E input ev e :
  preplay k T E input (ev ++ [e]) = preplay1 k T E input (preplay k T E input ev) e.
Proof. unfold preplay. rewrite fold_left_app. auto. Qed.

Lemma Forall2_nth {A B} (R : A -> B -> Prop) l1 l2 i x :
  Forall2 R l1 l2 -> nth_error l1 i = Some x -> exists y, nth_error l2 i = Some y /\ R x y.
Proof.
  intros h. revert i. induction h; intros [|i]; simpl; try discriminate.
  - intros e; inversion e; subst; eauto.
  - auto.
Qed.
Lemma Forall2_nth_none {A B} (R : A -> B -> Prop) l1 l2 i :
  Forall2 R l1 l2 -> nth_error l1 i = None -> nth_error l2 i = None.
Proof.
  intros h. revert i. induction h; intros [|i]; simpl; try discriminate; auto.
Qed.
Lemma Forall2_set_nth {A B} (R : A -> B -> Prop) l1 l2 i x y :
  Forall2 R l1 l2 -> R x y -> Forall2 R (set_nth l1 i x) (set_nth l2 i y).
Proof.
  intros h. revert i. induction h; intros [|i] hr; simpl; constructor; auto.
Qed.
Lemma Forall2_set_nth_r {A B} (R : A -> B -> Prop) l1 l2 i x y :
  Forall2 R l1 l2 -> nth_error l1 i = Some x -> R x y -> Forall2 R l1 (set_nth l2 i y).
Proof.
  intros h. revert i. induction h; intros [|i] hn hr; simpl in *; try discriminate; constructor; auto.
  - inversion hn; subst; auto.
Qed.
Lemma Forall2_snoc {A B} (R : A -> B -> Prop) l1 l2 x y :
  Forall2 R l1 l2 -> R x y -> Forall2 R (l1 ++ [x]) (l2 ++ [y]).
Proof. intros h hr. apply Forall2_app; auto. Qed.

Lemma pstep_lineage k T E input pps hs o :
  Forall2 (hrel k T E input) pps hs ->
  Forall2 (hrel k T E input) (fst (pstep k T E input pps o)) (lstep hs o).
Proof.
  intros hf. destruct o as [i ty id|i|i deep|i|i|i|i]; simpl;
    (destruct (nth_error pps i) as [pp|] eqn:En;
     [|rewrite ?(Forall2_nth_none _ _ _ _ hf En); auto]);
    try (destruct (Forall2_nth _ _ _ _ _ hf En) as ([imm ev] & a & b & c); rewrite a; simpl in b, c).
  - destruct (pifeed k T E (pp_ss pp) (pp_ts pp) ty id) as [[ss2 ts2] kd] eqn:Ef.
    rewrite b. destruct imm; simpl.
    + apply Forall2_snoc; auto. split; auto. simpl. rewrite preplay_snoc, <- c. simpl. rewrite Ef. auto.
    + apply Forall2_set_nth; auto. split; auto. simpl. rewrite preplay_snoc, <- c. simpl. rewrite Ef. auto.
  - rewrite b. destruct imm; simpl; auto.
    destruct (nth_error input (pp_pos pp)) as [[ty id]|] eqn:Ein.
    + destruct (pifeed k T E (pp_ss pp) (pp_ts pp) ty id) as [[ss2 ts2] kd] eqn:Ef. simpl.
      apply Forall2_set_nth; auto. split; auto. simpl. rewrite preplay_snoc, <- c. simpl. rewrite Ein, Ef. auto.
    + simpl. eapply Forall2_set_nth_r; eauto. split; auto. simpl.
      rewrite preplay_snoc, <- c. simpl. rewrite Ein. auto.
  - apply Forall2_snoc; auto. split; auto.
  - apply Forall2_snoc; auto. split; auto.
  - apply Forall2_snoc; auto. split; auto.
  - auto.
  - destruct (pparse_from k T E (pp_ss pp) (pp_ts pp) (skipn (pp_pos pp) input)) as [[ss2 ts2] kd] eqn:Ef. simpl.
    apply Forall2_set_nth; auto. split; auto. simpl. rewrite preplay_snoc, <- c. simpl. rewrite Ef. auto.
Qed.

Lemma prun_lineage k T E input os : forall pps hs,
  Forall2 (hrel k T E input) pps hs ->
  Forall2 (hrel k T E input) (fst (prun k T E input pps os)) (fold_left lstep os hs).
Proof.
  induction os as [|o os IH]; intros pps hs hf; simpl; auto.
  pose proof (pstep_lineage k T E input pps hs o hf) as h1.
  destruct (pstep k T E input pps o) as [pps1 ob]. simpl in h1.
  specialize (IH pps1 _ h1).
  destruct (prun k T E input pps1 os) as [pps2 obs]. simpl in *. auto.
Qed.

(* ================================================================== the theorems *)

(* reading every value of a parser's stack off the heap (trees with their metas) *)
Definition read_stack (H : heap) (p : parser) : list ptree := map (read (S (length H)) H) (p_vs p).

Lemma world0_owned T : wowns (w_heap (world0 T)) (pworld0 T) (w_ps (world0 T)) ([0] ++ []).
Proof.
  unfold world0, pworld0. cbn [w_heap w_ps].
  apply (wo_cons [CLex 0] _ [] _ [] [0] []); auto using disjoint_nil_r.
  - repeat split; simpl; auto. exists []. repeat split; auto. constructor.
  - constructor.
Qed.

Lemma lineage0 k T E input : Forall2 (hrel k T E input) (pworld0 T) [(false, [])].
Proof. constructor; auto. split; auto. Qed.

(* fork_separation: after any sequence of feed / step / copy / as_immutable / as_mutable / accepts /
   resume_parse operations in which every copy is deep, (1) every observation made on the way is the
   one made on immutable trees, (2) no two parsers reach a common child list, Meta object or lexer
   thread, and (3) each parser's stacks - trees *with their metas* - and the position of its lexer
   are exactly those of a fresh parser that went through that parser's own history, whatever was
   done to any other fork in between. *)
Theorem fork_separation k T E input os :
  Forall all_deep os ->
  let w := fst (wrun impl_fixed k T E input (world0 T) os) in
  snd (wrun impl_fixed k T E input (world0 T) os) = snd (prun k T E input (pworld0 T) os) /\
  exists pps F,
    wowns (w_heap w) pps (w_ps w) F /\
    forall j p, nth_error (w_ps w) j = Some p ->
      exists h, nth_error (lineages os) j = Some h /\
                p_imm p = fst h /\ p_sl p = p_lt p /\
                (p_ss p, read_stack (w_heap w) p, lget (w_heap w) (p_lt p)) = preplay k T E input (snd h).
Proof.
  intros hd w.
  destruct (wrun_sim k T E input os (world0 T) (pworld0 T) _ (world0_owned T) hd) as [[F hw] hobs].
  split; auto. fold w in hw.
  exists (fst (prun k T E input (pworld0 T) os)), F. split; auto.
  intros j p hj.
  destruct (wowns_set _ _ _ _ hw j p hj) as (pp & f & a & (hi & hs & hsl & hlx & fv & ef & hnf & ho) & c & _).
  pose proof (prun_lineage k T E input os _ _ (lineage0 k T E input)) as hf.
  destruct (Forall2_nth _ _ _ _ _ hf a) as (h & b & him & hst).
  exists h. split; auto. split; [congruence|]. split; auto.
  unfold read_stack. rewrite (reads_own _ _ _ _ ho).
  - rewrite hs, (lget_nth _ _ _ hlx). auto.
  - pose proof (owns_fp_le _ _ _ _ ho). lia.
Qed.

(* resume_parse() on any fork: it continues from the fork's own lexer position and behaves as
   parse_from_state on what that lexer still holds, started from the stacks of the fork's own history *)
Theorem fork_resume k T E input os j p h :
  Forall all_deep os ->
  let w := fst (wrun impl_fixed k T E input (world0 T) os) in
  nth_error (w_ps w) j = Some p -> nth_error (lineages os) j = Some h ->
  let '(ss, ts, pos) := preplay k T E input (snd h) in
  snd (wstep impl_fixed k T E input w (OResume j)) =
  ObsFeed j (qkd (pparse_from k T E ss ts (skipn pos input))) (qss (pparse_from k T E ss ts (skipn pos input))).
Proof.
  intros hd w hj hh.
  destruct (wrun_sim k T E input os (world0 T) (pworld0 T) _ (world0_owned T) hd) as [[F hw] _].
  fold w in hw.
  destruct (wstep_sim k T E input w _ (OResume j) F hw I) as [_ ->].
  destruct (wowns_set _ _ _ _ hw j p hj) as (pp & f & a & _).
  pose proof (prun_lineage k T E input os _ _ (lineage0 k T E input)) as hf.
  destruct (Forall2_nth _ _ _ _ _ hf a) as (h' & b & him & hst).
  unfold lineages in hh. rewrite hh in b. inversion b; subst h'.
  rewrite <- hst. simpl. rewrite a.
  destruct (pparse_from k T E (pp_ss pp) (pp_ts pp) (skipn (pp_pos pp) input)) as [[ss2 ts2] kd]. auto.
Qed.

(* trial_feed_pure: a feed with callbacks = {} only allocates; every existing list object, Meta object
   and lexer thread keeps its content (so accepts() cannot disturb the parser it is asked on, nor any other) *)
Theorem trial_feed_pure k T H ss vs ty id e :
  exists ext, rH (hfeed k T env_none H ss vs ty id e) = H ++ ext.
Proof. apply hfeed_pure. apply env_none_plain. Qed.

(* accepts_exact *)
Definition table_wf (T : table) : Prop :=
  forall s t, In t (terms T s) <-> action T s t <> None.

Lemma cfeed_ok_action k T s ss t e : kind_ok (snd (cfeed k T (s :: ss) t e)) = true -> action T s t <> None.
Proof. destruct k; simpl; [discriminate|]. destruct (action T s t); [discriminate|simpl; discriminate]. Qed.

Theorem accepts_exact k T E H p ts f t id :
  table_wf T -> owns H ts (p_vs p) f ->
  let c := copy_parser impl_fixed true H p in
  In t (snd (accepts_loop impl_fixed k T H p (choices T p))) <->
  kind_ok (rkd (hifeed k T E (fst c) (p_ss (snd c)) (p_vs (snd c)) t id)) = true.
Proof.
  intros hwf ho c.
  destruct (accepts_loop_spec k T p ts f (choices T p) H ho) as [_ ->].
  destruct (copy_parser_ext true H p ts f ho) as (ext & f' & a & c1 & d & e).
  fold c in c1. rewrite c1.
  pose proof (hfeed_ctrl T E k (fst c) (p_ss p) (p_vs (snd c)) t id (t =? END)) as hc.
  unfold hifeed.
  destruct (cfeed k T (p_ss p) t (t =? END)) as [ss2 kd] eqn:Ec.
  inversion hc as [[h1 h2]]. rewrite h2.
  rewrite filter_In. rewrite Ec. simpl. split; [tauto|].
  intros hk. split; auto. unfold choices.
  destruct (p_ss p) as [|s ss].
  - destruct k; simpl in Ec; inversion Ec; subst; discriminate.
  - apply hwf. apply (cfeed_ok_action k T s ss t (t =? END)). rewrite Ec. auto.
Qed.

(* feed_eq_parse: feeding the tokens one at a time and then $END is parse_from_state *)
Theorem feed_eq_parse k T E toks : forall H ss vs,
  Forall (fun t => fst t <> END) toks ->
  hfeed_all k T E H ss vs toks = hparse_from k T E H ss vs toks.
Proof.
  induction toks as [|[ty id] rest IH]; intros H ss vs hf; simpl; auto.
  rewrite hparse_from_cons.
  inversion hf; subst. simpl in H2. unfold hifeed at 1.
  destruct (Nat.eqb_spec ty END); [contradiction|].
  destruct (hfeed k T E H ss vs ty id false) as [[[H1 ss1] vs1] kd].
  destruct kd; auto.
Qed.

Lemma pfeed_false_not_result k T E : forall ss ts ty id, qkd (pfeed k T E ss ts ty id false) <> KResult.
Proof.
  induction k as [|k IH]; intros; simpl; try discriminate.
  destruct ss as [|s ss']; try discriminate.
  destruct (action T s ty) as [[s'|r]|]; try discriminate.
  destruct (skipn (rarity T r) (s :: ss')) as [|s0 ss0]; try discriminate.
  destruct (goto T s0 (rlhs T r)) as [s1|]; try discriminate.
  simpl. apply IH.
Qed.

(* ... and on immutable trees: a fork whose own history is "tokens, then $END" and whose parse
   succeeds ends with the stacks, hence the result tree and all its metas, of Lark.parse on those tokens *)
Lemma preplay_feeds k T E input toks : forall ss ts pos ss' ts',
  Forall (fun t => fst t <> END) toks ->
  pparse_from k T E ss ts toks = (ss', ts', KResult) ->
  fold_left (preplay1 k T E input) (map (fun t => EFeed (fst t) (snd t)) toks ++ [EFeed END 0]) (ss, ts, pos)
  = (ss', ts', pos).
Proof.
  induction toks as [|[ty id] rest IH]; intros ss ts pos ss' ts' hf hp; simpl in *.
  - unfold pifeed. simpl. rewrite pparse_from_nil in hp. rewrite hp. auto.
  - rewrite pparse_from_cons in hp.
    inversion hf; subst. simpl in H1. unfold pifeed.
    destruct (Nat.eqb_spec ty END); [contradiction|].
    pose proof (pfeed_false_not_result k T E ss ts ty id) as hnr.
    destruct (pfeed k T E ss ts ty id false) as [[ss1 ts1] kd].
    destruct kd; try discriminate; [apply IH; auto|]. elim hnr. reflexivity.
Qed.

Theorem fork_result_eq_parse k T E input toks ss ts :
  Forall (fun t => fst t <> END) toks ->
  pparse k T E toks = (ss, ts, KResult) ->
  preplay k T E input (map (fun t => EFeed (fst t) (snd t)) toks ++ [EFeed END 0]) = (ss, ts, 0).
Proof. intros. apply preplay_feeds; auto. Qed.

(* resume_eq_parse_rest *)
(* feeding a prefix while every token shifts *)
Definition hstep k T E (st : heap * list nat * list value * kind) (t : nat * nat) :=
  match st with
  | (H, ss, vs, KShift) => hfeed k T E H ss vs (fst t) (snd t) false
  | _ => st
  end.
Definition hfeeds k T E H ss vs pre := fold_left (hstep k T E) pre (H, ss, vs, KShift).

Lemma hstep_stop k T E pre : forall H ss vs kd, kd <> KShift ->
  fold_left (hstep k T E) pre (H, ss, vs, kd) = (H, ss, vs, kd).
Proof. induction pre; simpl; auto. intros. destruct kd; try congruence; apply IHpre; auto. Qed.

Lemma hparse_from_app k T E pre : forall H ss vs rest,
  hparse_from k T E H ss vs (pre ++ rest) =
  match hfeeds k T E H ss vs pre with
  | (H1, ss1, vs1, KShift) => hparse_from k T E H1 ss1 vs1 rest
  | r => r
  end.
Proof.
  unfold hfeeds. induction pre as [|[ty id] pre IH]; intros; simpl; auto.
  rewrite hparse_from_cons.
  destruct (hfeed k T E H ss vs ty id false) as [[[H1 ss1] vs1] kd].
  destruct kd; try (rewrite IH; auto; fail); rewrite hstep_stop; auto; discriminate.
Qed.

(* parse stops at the unexpected token with the parser state st_e exposed to the error handler;
   resume_parse() from st_e on the rest of the input is exactly "feed the rest one by one from
   st_e, then $END" - i.e. a parse of the remaining input from that configuration *)
Theorem resume_eq_parse_rest k T E pre bad rest H ss vs H1 ss1 vs1 He sse vse :
  Forall (fun t => fst t <> END) rest ->
  hfeeds k T E H ss vs pre = (H1, ss1, vs1, KShift) ->
  hfeed k T E H1 ss1 vs1 (fst bad) (snd bad) false = (He, sse, vse, KError) ->
  hparse_from k T E H ss vs (pre ++ bad :: rest) = (He, sse, vse, KError) /\
  hparse_from k T E He sse vse rest = hfeed_all k T E He sse vse rest.
Proof.
  intros hf h1 h2. split.
  - rewrite hparse_from_app. rewrite h1. destruct bad as [ty id]. rewrite hparse_from_cons. simpl in *. rewrite h2. auto.
  - symmetry. apply feed_eq_parse. auto.
Qed.

(* tables built from data list their terminals exactly where they have an action *)
Lemma assoc_in {A} k (l : list (nat * A)) : In k (map fst l) <-> assoc k l <> None.
Proof.
  induction l as [|[k' v] l IH]; simpl.
  - split; [tauto|congruence].
  - destruct (Nat.eqb_spec k' k).
    + split; [discriminate|auto].
    + rewrite <- IH. split; [intros [h|h]; [contradiction|auto]|auto].
Qed.

Lemma mk_table_wf acts gotos rules s0 e0 : table_wf (mk_table acts gotos rules s0 e0).
Proof.
  intros s t. simpl. destruct (assoc s acts) as [row|].
  - apply assoc_in.
  - simpl. split; [tauto|congruence].
Qed.
