(* C13 - the heap driver simulates the driver on immutable trees as long as no child list
   is shared (which deep copies guarantee); control never depends on values. *)
From Coq Require Import List Arith Bool Lia.
From LV Require Import Inter.Heap Inter.IDriver Inter.Heap_proofs.
Import ListNotations.

(* F' is inside F or new;   H' agrees with H outside F *)
Definition sub (F' F : list loc) (n : nat) : Prop := forall l, In l F' -> In l F \/ n <= l.
Definition frame (H H' : heap) (F : list loc) : Prop :=
  length H <= length H' /\ forall l, l < length H -> ~ In l F -> nth_error H' l = nth_error H l.

Lemma sub_refl F n : sub F F n.
Proof. intros l; auto. Qed.
Lemma frame_refl H F : frame H H F.
Proof. split; auto. Qed.
Lemma sub_trans F'' F' F n n' : sub F'' F' n' -> sub F' F n -> n <= n' -> sub F'' F n.
Proof. intros h1 h2 hn l hl. destruct (h1 l hl) as [h|h]; [auto|right; lia]. Qed.
Lemma frame_trans H H1 H2 F F1 :
  frame H H1 F -> frame H1 H2 F1 -> sub F1 F (length H) -> frame H H2 F.
Proof.
  intros [l1 f1] [l2 f2] hs. split; [lia|]. intros l hl hn.
  rewrite f2, f1; auto; [lia|]. intros hi. destruct (hs l hi); [auto|lia].
Qed.
Lemma frame_weaken H H' F G : frame H H' F -> (forall l, In l F -> In l G) -> frame H H' G.
Proof. intros [a b] h. split; auto. Qed.

Lemma owns_nones H n : owns H (repeat PNone n) (repeat VNone n) [].
Proof.
  induction n; simpl; [constructor|]. change (@nil loc) with (@nil loc ++ []).
  constructor; auto using disjoint_nil_l. constructor.
Qed.

Ltac mem :=
  try (let h := fresh in intros h; try subst);
  simpl in *; rewrite ?app_nil_r in *; repeat rewrite in_app_iff in *; simpl in *;
  intuition (subst; eauto; tauto).

(* filtered += xs  on the list object cur *)
Lemma ext_step H cur cvs acc Fc xt xv Fx :
  nth_error H cur = Some cvs -> owns H acc cvs Fc -> ~ In cur Fc ->
  owns H xt xv Fx -> disjoint (cur :: Fc) Fx ->
  let H' := hext H cur xv in
  nth_error H' cur = Some (cvs ++ xv) /\ owns H' (acc ++ xt) (cvs ++ xv) (Fc ++ Fx) /\
  ~ In cur (Fc ++ Fx) /\ length H' = length H /\
  (forall l, l <> cur -> nth_error H' l = nth_error H l).
Proof.
  intros hn ho hni hx hd. apply disjoint_cons_l in hd. destruct hd as [hcx hd].
  unfold hext. rewrite (hget_nth _ _ _ hn). cbn zeta.
  assert (hfr : forall l, l <> cur -> nth_error (hset H cur (cvs ++ xv)) l = nth_error H l).
  { intros. apply hset_other. auto. }
  repeat split; auto.
  - apply hset_same. eapply nth_error_lt; eauto.
  - apply owns_app; auto; eapply owns_frame; eauto; intros l hl; apply hfr; intros ->; auto.
  - intros hi. apply in_app_or in hi. tauto.
  - apply hset_length.
Qed.

Lemma hfilter_sim : forall args ds H cur cvs acc Fc ats Fa,
  nth_error H cur = Some cvs -> owns H acc cvs Fc -> ~ In cur Fc ->
  owns H ats args Fa -> disjoint (cur :: Fc) Fa ->
  exists cvs' Fc',
    nth_error (fst (hfilter H cur args ds)) (snd (hfilter H cur args ds)) = Some cvs' /\
    owns (fst (hfilter H cur args ds)) (pfilter acc ats ds) cvs' Fc' /\
    ~ In (snd (hfilter H cur args ds)) Fc' /\
    (forall l, In l (snd (hfilter H cur args ds) :: Fc') -> In l (cur :: Fc) \/ In l Fa) /\
    length (fst (hfilter H cur args ds)) = length H /\
    (forall l, ~ In l (cur :: Fc) -> ~ In l Fa -> nth_error (fst (hfilter H cur args ds)) l = nth_error H l).
Proof.
  induction args as [|c args IH]; intros ds H cur cvs acc Fc ats Fa hn ho hni ha hd.
  - inversion ha; subst. simpl. exists cvs, Fc. repeat split; auto.
  - inversion ha as [|t ats' c' args' f fs hoc hos hdf]; subst.
    destruct ds as [|d ds].
    { simpl. exists cvs, Fc. repeat split; auto. }
    apply disjoint_app_r in hd. destruct hd as [hd1 hd2].
    destruct d as [|nn|nn]; simpl.
    + (* skip *)
      destruct (IH ds H cur cvs acc Fc ats' fs hn ho hni hos hd2) as (cvs' & Fc' & a & b & c0 & d0 & e & g).
      exists cvs', Fc'. repeat split; auto.
      * intros l hl. destruct (d0 l hl); auto. right. apply in_or_app; auto.
      * intros l h1 h2. apply g; auto. intros hi; apply h2; apply in_or_app; auto.
    + (* keep *)
      destruct (ext_step H cur cvs acc Fc _ _ [] hn ho hni (owns_nones H nn) (disjoint_nil_r _))
        as (n1 & o1 & ni1 & len1 & fr1).
      set (H1 := hext H cur (repeat VNone nn)) in *.
      assert (hoc1 : own H1 t c f).
      { eapply own_frame; eauto. intros l hl. apply fr1. intros ->. apply (hd1 cur); simpl; auto. }
      assert (hd1' : disjoint (cur :: Fc ++ []) f).
      { rewrite app_nil_r. auto. }
      destruct (ext_step H1 cur _ _ _ _ _ f n1 o1 ni1 (owns_one _ _ _ _ hoc1) hd1')
        as (n2 & o2 & ni2 & len2 & fr2).
      set (H2 := hext H1 cur [c]) in *.
      assert (hos2 : owns H2 ats' args fs).
      { eapply owns_frame; eauto. intros l hl. rewrite fr2, fr1; auto; intros ->; apply (hd2 cur); simpl; auto. }
      assert (hd2' : disjoint (cur :: (Fc ++ []) ++ f) fs).
      { rewrite app_nil_r. apply disjoint_cons_l. apply disjoint_cons_l in hd2. destruct hd2.
        split; auto. apply disjoint_app_l. split; auto. }
      destruct (IH ds H2 cur _ _ _ ats' fs n2 o2 ni2 hos2 hd2') as (cvs' & Fc' & a & b & c0 & d0 & e & g).
      exists cvs', Fc'. rewrite <- app_assoc in b. repeat split; auto.
      * intros l hl. clear IH. destruct (d0 l hl) as [h|h]; mem.
      * lia.
      * intros l h1 h2. clear IH. rewrite g, fr2, fr1; auto; clear - h1 h2; mem.
    + (* expand *)
      destruct (ext_step H cur cvs acc Fc _ _ [] hn ho hni (owns_nones H nn) (disjoint_nil_r _))
        as (n1 & o1 & ni1 & len1 & fr1).
      set (H1 := hext H cur (repeat VNone nn)) in *.
      rewrite app_nil_r in *.
      assert (hos1 : owns H1 ats' args fs).
      { eapply owns_frame; eauto. intros l hl. rewrite fr1; auto; intros ->; apply (hd2 cur); simpl; auto. }
      inversion hoc as [a0 b0|hh|d0 lc lvs cts fc hnl hcs hnc]; subst.
      * (* a token: no children *)
        simpl. rewrite app_nil_r.
        destruct (IH ds H1 cur _ _ _ ats' fs n1 o1 ni1 hos1 hd2) as (cvs' & Fc' & a & b & c0 & d0 & e & g).
        exists cvs', Fc'. repeat split; auto.
        -- lia.
        -- intros l h1 h2. clear IH. rewrite g, fr1; auto; clear - h1 h2; mem.
      * simpl. rewrite app_nil_r.
        destruct (IH ds H1 cur _ _ _ ats' fs n1 o1 ni1 hos1 hd2) as (cvs' & Fc' & a & b & c0 & d0 & e & g).
        exists cvs', Fc'. repeat split; auto.
        -- lia.
        -- intros l h1 h2. clear IH. rewrite g, fr1; auto; clear - h1 h2; mem.
      * (* a tree *)
        assert (hlc : lc <> cur). { intros ->. apply (hd1 cur); simpl; auto. }
        assert (hnl1 : nth_error H1 lc = Some lvs). { rewrite fr1; auto. }
        assert (hcs1 : owns H1 cts lvs fc).
        { eapply owns_frame; eauto. intros l hl. apply fr1. intros ->. apply (hd1 cur); simpl; auto. }
        simpl pchildren.
        rewrite (hget_nth _ _ _ n1).
        destruct (cvs ++ repeat VNone nn) as [|x xs] eqn:Ecv.
        -- (* filtered is empty: alias the child's list *)
           assert (hacc : acc ++ repeat PNone nn = []).
           { apply owns_length in o1. destruct (acc ++ repeat PNone nn); auto; discriminate. }
           rewrite app_assoc, hacc. simpl app.
           assert (hdl : disjoint (lc :: fc) fs).
           { intros l h1 h2. apply (hdf l); auto. }
           destruct (IH ds H1 lc lvs cts fc ats' fs hnl1 hcs1 hnc hos1 hdl) as (cvs' & Fc' & a & b & c0 & d1 & e & g).
           exists cvs', Fc'. repeat split; auto.
           ++ intros l hl. clear IH. destruct (d1 l hl) as [h|h]; clear - h; mem.
           ++ lia.
           ++ intros l h1 h2. clear IH. rewrite g, fr1; auto; clear - h1 h2; mem.
        -- (* filtered += child.children *)
           rewrite (hget_nth _ _ _ hnl1).
           assert (hd3 : disjoint (cur :: Fc) fc).
           { intros l h1 h2. apply (hd1 l); simpl; auto. }
           rewrite <- Ecv in *.
           destruct (ext_step H1 cur _ _ _ _ _ fc n1 o1 ni1 hcs1 hd3) as (n2 & o2 & ni2 & len2 & fr2).
           set (H2 := hext H1 cur lvs) in *.
           assert (hos2 : owns H2 ats' args fs).
           { eapply owns_frame; eauto. intros l hl. rewrite fr2; auto; intros ->; apply (hd2 cur); simpl; auto. }
           assert (hd2' : disjoint (cur :: Fc ++ fc) fs).
           { apply disjoint_cons_l. apply disjoint_cons_l in hd2. destruct hd2.
             split; auto. apply disjoint_app_l. split; auto.
             intros l h1 h2. apply (hdf l); simpl; auto. }
           destruct (IH ds H2 cur _ _ _ ats' fs n2 o2 ni2 hos2 hd2') as (cvs' & Fc' & a & b & c0 & d1 & e & g).
           exists cvs', Fc'. rewrite <- app_assoc in b. repeat split; auto.
           ++ intros l hl. clear IH. destruct (d1 l hl) as [h|h]; clear - h; mem.
           ++ lia.
           ++ intros l h1 h2. clear IH. rewrite g, fr2, fr1; auto; clear - h1 h2; mem.
Qed.

(* ExpandSingleChild . Tree *)
Lemma hbuild_sim sh H l cvs acc Fc :
  nth_error H l = Some cvs -> owns H acc cvs Fc -> ~ In l Fc ->
  exists f, own H (pbuild sh acc) (hbuild sh H l) f /\ (forall x, In x f -> In x (l :: Fc)).
Proof.
  intros hn ho hni. unfold hbuild, pbuild. rewrite (hget_nth _ _ _ hn).
  assert (hnode : exists f, own H (PNode (cb_data sh) acc) (VTree (cb_data sh) l) f /\
                            (forall x, In x f -> In x (l :: Fc))).
  { exists (l :: Fc). split; auto. apply own_node with (vs := cvs); auto. }
  inversion ho as [|t ts v vs f fs h1 h2 h3]; subst; auto.
  inversion h2; subst; auto.
  destruct (cb_expand1 sh); auto.
  exists f. split; auto. intros x hx. right. apply in_or_app; auto.
Qed.

(* one callback: the result denotes what the callback chain computes on immutable trees,
   reaches only locations of its arguments or new ones, and writes only inside its arguments *)
Lemma hcb_sim sh H args ats Fa :
  owns H ats args Fa ->
  exists f, own (fst (hcb sh H args)) (pcb sh ats) (snd (hcb sh H args)) f /\
            sub f Fa (length H) /\ frame H (fst (hcb sh H args)) Fa.
Proof.
  intros ha. unfold hcb, pcb.
  destruct (cb_filter sh) as [[ds app]|].
  - unfold halloc.
    set (H0 := H ++ [[]]). set (l0 := length H).
    assert (hn0 : nth_error H0 l0 = Some []).
    { unfold H0, l0. rewrite nth_error_app2, Nat.sub_diag; auto. }
    assert (ha0 : owns H0 ats args Fa) by (apply owns_extend; auto).
    assert (hd0 : disjoint [l0] Fa).
    { intros x [<-|[]] hx. apply (owns_bound _ _ _ _ ha) in hx. unfold l0 in hx. lia. }
    destruct (hfilter_sim args ds H0 l0 [] [] [] ats Fa hn0 (owns_nil _) (fun x => x) ha0 hd0)
      as (cvs' & Fc' & a & b & c & d & e & g).
    destruct (hfilter H0 l0 args ds) as [H1 l] eqn:E. simpl in *.
    destruct (ext_step H1 l cvs' _ Fc' _ _ [] a b c (owns_nones H1 app) (disjoint_nil_r _))
      as (n2 & o2 & ni2 & len2 & fr2).
    set (H2 := hext H1 l (repeat VNone app)) in *.
    destruct (hbuild_sim sh H2 l _ _ _ n2 o2 ni2) as (f & hf & hsub).
    exists f. split; auto. split.
    + intros x hx. apply hsub in hx. rewrite app_nil_r in hx.
      destruct (d x hx) as [[<-|[]]|h]; auto.
    + split.
      * rewrite len2, e. unfold H0. rewrite app_length. lia.
      * intros x hx hnx.
        assert (x <> l).
        { intros ->. destruct (d l (or_introl eq_refl)) as [[h|[]]|h]; auto. unfold l0 in h. lia. }
        rewrite fr2, g; auto.
        -- unfold H0. apply nth_error_app1; auto.
        -- intros [h|[]]. unfold l0 in h. lia.
  - unfold halloc. set (H1 := H ++ [args]). set (l := length H). simpl.
    assert (hn : nth_error H1 l = Some args).
    { unfold H1, l. rewrite nth_error_app2, Nat.sub_diag; auto. }
    assert (ha1 : owns H1 ats args Fa) by (apply owns_extend; auto).
    assert (hni : ~ In l Fa).
    { intros hx. apply (owns_bound _ _ _ _ ha) in hx. unfold l in hx. lia. }
    destruct (hbuild_sim sh H1 l _ _ _ hn ha1 hni) as (f & hf & hsub).
    exists f. split; auto. split.
    + intros x hx. destruct (hsub x hx) as [<-|h]; auto.
    + split.
      * unfold H1. rewrite app_length. lia.
      * intros x hx _. unfold H1. apply nth_error_app1; auto.
Qed.

(* ------------------------------------------------------------------ feed_token *)
Definition rH (r : heap * list nat * list value * kind) := fst (fst (fst r)).
Definition rss (r : heap * list nat * list value * kind) := snd (fst (fst r)).
Definition rvs (r : heap * list nat * list value * kind) := snd (fst r).
Definition rkd (r : heap * list nat * list value * kind) := snd r.
Definition qss (r : list nat * list ptree * kind) := fst (fst r).
Definition qts (r : list nat * list ptree * kind) := snd (fst r).
Definition qkd (r : list nat * list ptree * kind) := snd r.

(* the simulation statement for one operation on one parser state *)
Definition sim_res (H : heap) (F : list loc)
           (r : heap * list nat * list value * kind) (q : list nat * list ptree * kind) : Prop :=
  rss r = qss q /\ rkd r = qkd q /\
  exists F', owns (rH r) (qts q) (rvs r) F' /\ sub F' F (length H) /\ frame H (rH r) F.

Lemma lastn_droplast {A} n (l : list A) : droplast n l ++ lastn n l = l.
Proof. unfold droplast, lastn. apply firstn_skipn. Qed.

Lemma hfeed_sim T cb k : forall H ss vs ts F ty id e,
  owns H ts vs F ->
  sim_res H F (hfeed k T cb H ss vs ty id e) (pfeed k T cb ss ts ty id e).
Proof.
  induction k as [|k IH]; intros H ss vs ts F ty id e ho.
  - simpl. repeat split; auto. exists F. auto using sub_refl, frame_refl.
  - simpl. destruct ss as [|s ss'].
    { repeat split; auto. exists F. auto using sub_refl, frame_refl. }
    destruct (action T s ty) as [[s'|r]|].
    + destruct e.
      * repeat split; auto. exists F. auto using sub_refl, frame_refl.
      * repeat split; auto. exists (F ++ []). repeat split; auto.
        -- apply owns_app; auto using disjoint_nil_r. apply owns_one. constructor.
        -- rewrite app_nil_r. apply sub_refl.
    + set (n := rarity T r).
      pose proof (owns_length _ _ _ _ ho) as hlen.
      destruct (owns_split _ _ _ _ ho (length vs - n)) as (F0 & Fa & -> & hd & h0 & ha).
      fold (droplast n vs) in h0. fold (lastn n vs) in ha.
      replace (firstn (length vs - n) ts) with (droplast n ts) in h0 by (unfold droplast; rewrite hlen; auto).
      replace (skipn (length vs - n) ts) with (lastn n ts) in ha by (unfold lastn; rewrite hlen; auto).
      destruct (hcb_sim (cb r) H _ _ _ ha) as (f & hv & hsub & hfr).
      destruct (hcb (cb r) H (lastn n vs)) as [H1 v] eqn:E. simpl in hv, hfr.
      assert (h01 : owns H1 (droplast n ts) (droplast n vs) F0).
      { pose proof hfr as [hfl hff]. apply (owns_frame _ _ _ _ h0). intros l hl. apply hff.
        - apply (owns_bound _ _ _ _ h0); auto.
        - intros hx. apply (hd l); auto. }
      assert (hsub0 : sub F0 (F0 ++ Fa) (length H)).
      { intros l hl. left. apply in_or_app; auto. }
      assert (hfr0 : frame H H1 (F0 ++ Fa)).
      { eapply frame_weaken; eauto. intros; apply in_or_app; auto. }
      assert (h1 : owns H1 (droplast n ts ++ [pcb (cb r) (lastn n ts)]) (droplast n vs ++ [v]) (F0 ++ f)).
      { apply owns_app; auto. apply owns_one; auto.
        intros l hl hf. destruct (hsub l hf) as [h|h]; [apply (hd l); auto|].
        apply (owns_bound _ _ _ _ h0) in hl. lia. }
      assert (hsub1 : sub (F0 ++ f) (F0 ++ Fa) (length H)).
      { intros l hl. apply in_app_or in hl. destruct hl as [hl|hl]; [left; apply in_or_app; auto|].
        destruct (hsub l hl); [left; apply in_or_app; auto|auto]. }
      destruct (skipn n (s :: ss')) as [|s0 ss0] eqn:Ess.
      { repeat split; auto. exists F0. auto. }
      destruct (goto T s0 (rlhs T r)) as [s1|].
      2:{ repeat split; auto. exists F0. auto. }
      destruct (e && (s1 =? end_state T)).
      { repeat split; auto. exists (F0 ++ f). auto. }
      destruct (IH H1 (s1 :: s0 :: ss0) _ _ _ ty id e h1) as (a & b & F' & o' & s' & f').
      repeat split; auto. exists F'. repeat split; auto.
      * eapply sub_trans; eauto. apply hfr0.
      * apply (proj1 (frame_trans _ _ _ _ _ hfr0 f' hsub1)).
      * apply (proj2 (frame_trans _ _ _ _ _ hfr0 f' hsub1)).
    + repeat split; auto. exists F. auto using sub_refl, frame_refl.
Qed.

Lemma hparse_from_sim T cb k toks : forall H ss vs ts F,
  owns H ts vs F ->
  sim_res H F (hparse_from k T cb H ss vs toks) (pparse_from k T cb ss ts toks).
Proof.
  induction toks as [|[ty id] rest IH]; intros H ss vs ts F ho; simpl.
  - apply hfeed_sim; auto.
  - pose proof (hfeed_sim T cb k H ss vs ts F ty id false ho) as hs.
    destruct (hfeed k T cb H ss vs ty id false) as [[[H1 ss1] vs1] kd1].
    destruct (pfeed k T cb ss ts ty id false) as [[qs1 ts1] qk1].
    destruct hs as (a & b & F' & o' & s' & f'). unfold rss, rkd, rH, rvs, qss, qkd, qts in *. simpl in *. subst.
    destruct qk1; try (repeat split; auto; exists F'; auto; fail).
    destruct (IH H1 qs1 vs1 ts1 F' o') as (a & b & F'' & o'' & s'' & f'').
    repeat split; auto. exists F''. repeat split; auto.
    + eapply sub_trans; eauto. apply f'.
    + apply (proj1 (frame_trans _ _ _ _ _ f' f'' s')).
    + apply (proj2 (frame_trans _ _ _ _ _ f' f'' s')).
Qed.

(* ------------------------------------------------------------------ control *)
Lemma hfeed_ctrl T cb k : forall H ss vs ty id e,
  (rss (hfeed k T cb H ss vs ty id e), rkd (hfeed k T cb H ss vs ty id e)) = cfeed k T ss ty e.
Proof.
  induction k as [|k IH]; intros; simpl; auto.
  destruct ss as [|s ss']; auto.
  destruct (action T s ty) as [[s'|r]|]; auto.
  - destruct e; auto.
  - destruct (hcb (cb r) H (lastn (rarity T r) vs)) as [H1 v].
    destruct (skipn (rarity T r) (s :: ss')) as [|s0 ss0]; auto.
    destruct (goto T s0 (rlhs T r)) as [s1|]; auto.
    destruct (e && (s1 =? end_state T)); auto.
Qed.

Lemma pfeed_ctrl T cb k : forall ss ts ty id e,
  (qss (pfeed k T cb ss ts ty id e), qkd (pfeed k T cb ss ts ty id e)) = cfeed k T ss ty e.
Proof.
  induction k as [|k IH]; intros; simpl; auto.
  destruct ss as [|s ss']; auto.
  destruct (action T s ty) as [[s'|r]|]; auto.
  - destruct e; auto.
  - destruct (skipn (rarity T r) (s :: ss')) as [|s0 ss0]; auto.
    destruct (goto T s0 (rlhs T r)) as [s1|]; auto.
    destruct (e && (s1 =? end_state T)); auto.
Qed.

(* ------------------------------------------------------------------ callback-free feeds write nothing *)
Lemma hfeed_pure T cb k : (forall r, cb_filter (cb r) = None) ->
  forall H ss vs ty id e, exists ext, rH (hfeed k T cb H ss vs ty id e) = H ++ ext.
Proof.
  intros hc. induction k as [|k IH]; intros; simpl.
  - exists []. unfold rH; simpl. rewrite app_nil_r; auto.
  - assert (h0 : exists ext, H = H ++ ext) by (exists []; rewrite app_nil_r; auto).
    destruct ss as [|s ss']; auto.
    destruct (action T s ty) as [[s'|r]|]; auto.
    + destruct e; auto.
    + unfold hcb. rewrite hc. unfold halloc.
      set (H1 := H ++ [lastn (rarity T r) vs]).
      assert (h1 : exists ext, H1 = H ++ ext) by (eexists; reflexivity).
      destruct (skipn (rarity T r) (s :: ss')) as [|s0 ss0]; auto.
      destruct (goto T s0 (rlhs T r)) as [s1|]; auto.
      destruct (e && (s1 =? end_state T)); auto.
      match goal with |- exists _, rH (hfeed k T cb H1 ?a ?b ty id e) = _ =>
        destruct (IH H1 a b ty id e) as [ext hx] end.
      rewrite hx. unfold H1. rewrite <- app_assoc. eauto.
Qed.

(* ------------------------------------------------------------------ several parsers on one heap *)
Definition prel (H : heap) (pp : pparser) (p : parser) (f : list loc) : Prop :=
  p_imm p = pp_imm pp /\ p_ss p = pp_ss pp /\ owns H (pp_ts pp) (p_vs p) f.

(* every parser denotes its immutable counterpart and no two parsers reach a common location *)
Inductive wowns (H : heap) : list pparser -> list parser -> list loc -> Prop :=
| wo_nil : wowns H [] [] []
| wo_cons pp pps p ps f fs :
    prel H pp p f -> wowns H pps ps fs -> disjoint f fs ->
    wowns H (pp :: pps) (p :: ps) (f ++ fs).

Lemma wowns_bound H pps ps F : wowns H pps ps F -> forall l, In l F -> l < length H.
Proof.
  induction 1 as [|pp pps p ps f fs [_ [_ ho]] hw IH hd]; simpl; [tauto|].
  intros l hl. apply in_app_or in hl. destruct hl; auto. eapply owns_bound; eauto.
Qed.

Lemma wowns_frame H pps ps F : wowns H pps ps F -> forall H',
  (forall l, In l F -> nth_error H' l = nth_error H l) -> wowns H' pps ps F.
Proof.
  induction 1 as [|pp pps p ps f fs [hi [hs ho]] hw IH hd]; intros H' hf; constructor; auto.
  - repeat split; auto. eapply owns_frame; eauto. intros; apply hf; apply in_or_app; auto.
  - apply IH. intros; apply hf; apply in_or_app; auto.
Qed.

Lemma wowns_length H pps ps F : wowns H pps ps F -> length pps = length ps.
Proof. induction 1; simpl; auto. Qed.

Lemma wowns_snoc H pps ps F : wowns H pps ps F -> forall pp p f,
  prel H pp p f -> disjoint F f -> wowns H (pps ++ [pp]) (ps ++ [p]) (F ++ f ++ []).
Proof.
  induction 1 as [|pp0 pps p0 ps f0 fs hp hw IH hd]; intros pp p f hpr hdj; simpl.
  - constructor; auto using disjoint_nil_r. constructor.
  - rewrite <- app_assoc. apply disjoint_app_l in hdj. destruct hdj.
    constructor; auto. rewrite app_nil_r. apply disjoint_app_r; auto.
Qed.

(* a new parser whose footprint is entirely new, in a heap that kept everything old *)
Lemma wowns_append H pps ps F H' pp p f :
  wowns H pps ps F -> (forall l, l < length H -> nth_error H' l = nth_error H l) ->
  prel H' pp p f -> fresh_above (length H) f ->
  exists F', wowns H' (pps ++ [pp]) (ps ++ [p]) F'.
Proof.
  intros hw hold hp hfr. exists (F ++ f ++ []).
  apply wowns_snoc; auto.
  - eapply wowns_frame; eauto. intros l hl. apply hold. eapply wowns_bound; eauto.
  - intros l h1 h2. apply (wowns_bound _ _ _ _ hw) in h1. apply hfr in h2. lia.
Qed.

(* replacing parser i by the outcome of an operation that stayed inside i's footprint *)
Lemma wowns_set H pps ps F : wowns H pps ps F -> forall i p, nth_error ps i = Some p ->
  exists pp f, nth_error pps i = Some pp /\ prel H pp p f /\ (forall x, In x f -> In x F) /\
    forall H' pp' p' f', prel H' pp' p' f' -> sub f' f (length H) -> frame H H' f ->
      exists F', wowns H' (set_nth pps i pp') (set_nth ps i p') F' /\ sub F' F (length H).
Proof.
  induction 1 as [|pp0 pps p0 ps f0 fs hp hw IH hd]; intros i p hn.
  - destruct i; discriminate.
  - destruct i as [|i]; simpl in hn.
    + inversion hn; subst p0. exists pp0, f0.
      split; [reflexivity|]. split; [exact hp|]. split; [intros; apply in_or_app; auto|].
      intros H' pp' p' f' hp' hs [hl hf]. exists (f' ++ fs). split.
      * simpl. constructor; auto.
        -- eapply wowns_frame; eauto. intros l hx. apply hf.
           ++ eapply wowns_bound; eauto.
           ++ intros h0. apply (hd l); auto.
        -- intros l h1 h2. destruct (hs l h1) as [h|h]; [apply (hd l); auto|].
           apply (wowns_bound _ _ _ _ hw) in h2. lia.
      * intros l hx. apply in_app_or in hx. destruct hx as [hx|hx].
        -- destruct (hs l hx); [left; apply in_or_app; auto|auto].
        -- left; apply in_or_app; auto.
    + destruct (IH i p hn) as (pp & f & a & b & c & d).
      exists pp, f.
      split; [exact a|]. split; [exact b|]. split; [intros; apply in_or_app; auto|].
      intros H' pp' p' f' hp' hs hfr.
      destruct (d H' pp' p' f' hp' hs hfr) as (F' & hw' & hs').
      exists (f0 ++ F'). split.
      * simpl. constructor; auto.
        -- destruct hp as [x [y z]]. repeat split; auto.
           eapply owns_frame; eauto. intros l hl. destruct hfr as [_ hf]. apply hf.
           ++ eapply owns_bound; eauto.
           ++ intros h0. apply (hd l); auto.
        -- intros l h1 h2. destruct (hs' l h2) as [h|h]; [apply (hd l); auto|].
           destruct hp as [_ [_ z]]. apply (owns_bound _ _ _ _ z) in h1. lia.
      * intros l hx. apply in_app_or in hx. destruct hx as [hx|hx].
        -- left; apply in_or_app; auto.
        -- destruct (hs' l hx); [left; apply in_or_app; auto|auto].
Qed.

Lemma wowns_none H pps ps F i : wowns H pps ps F -> nth_error ps i = None -> nth_error pps i = None.
Proof.
  intros hw hn. apply nth_error_None. apply nth_error_None in hn.
  rewrite (wowns_length _ _ _ _ hw). auto.
Qed.

(* ------------------------------------------------------------------ accepts *)
Lemma copy_parser_deep_spec H p ts f : owns H ts (p_vs p) f ->
  exists ext f', fst (copy_parser true H p) = H ++ ext /\
    p_imm (snd (copy_parser true H p)) = p_imm p /\ p_ss (snd (copy_parser true H p)) = p_ss p /\
    owns (H ++ ext) ts (p_vs (snd (copy_parser true H p))) f' /\ fresh_above (length H) f'.
Proof.
  intros ho. destruct (deepcopy_spec _ _ _ _ ho) as (ext & f' & a & b & c).
  unfold copy_parser. destruct (deepcopy H (p_vs p)) as [H1 vs1]. simpl in *. subst H1.
  exists ext, f'. auto.
Qed.

Lemma trial_spec k T H p t ts f : owns H ts (p_vs p) f ->
  (exists ext, fst (trial true k T H p t) = H ++ ext) /\
  snd (trial true k T H p t) = snd (cfeed k T (p_ss p) t (t =? END)).
Proof.
  intros ho. unfold trial. change (copy_parser false H p) with (H, p). cbv beta iota.
  assert (hh : exists ext ts' f', fst (if p_imm p then copy_parser true H p else (H, p)) = H ++ ext /\
            p_ss (snd (if p_imm p then copy_parser true H p else (H, p))) = p_ss p /\
            owns (H ++ ext) ts' (p_vs (snd (if p_imm p then copy_parser true H p else (H, p)))) f').
  { destruct (p_imm p).
    - destruct (copy_parser_deep_spec _ _ _ _ ho) as (ext & f' & a & b & c & d & e). exists ext, ts, f'. auto.
    - exists [], ts, f. simpl. rewrite app_nil_r. auto. }
  destruct hh as (ext & ts' & f' & a & b & c).
  destruct (if p_imm p then copy_parser true H p else (H, p)) as [H1 p1]. simpl in a, b, c. subst H1.
  unfold hifeed.
  pose proof (hfeed_ctrl T (fun _ => cb_none) k (H ++ ext) (p_ss p1) (p_vs p1) t 0 (t =? END)) as hc.
  destruct (hfeed_pure T (fun _ => cb_none) k (fun _ => eq_refl) (H ++ ext) (p_ss p1) (p_vs p1) t 0 (t =? END)) as [ext2 hx].
  destruct (hfeed k T (fun _ : nat => cb_none) (H ++ ext) (p_ss p1) (p_vs p1) t 0 (t =? END)) as [[[H2 ss2] vs2] kd].
  unfold rH, rss, rkd in *. simpl in *. subst H2. rewrite b in hc. rewrite <- hc. simpl.
  split; auto. rewrite <- app_assoc. eauto.
Qed.

Lemma accepts_loop_spec k T p ts f tl : forall H, owns H ts (p_vs p) f ->
  (exists ext, fst (accepts_loop true k T H p tl) = H ++ ext) /\
  snd (accepts_loop true k T H p tl) =
    filter (fun t => kind_ok (snd (cfeed k T (p_ss p) t (t =? END)))) tl.
Proof.
  induction tl as [|t tl IH]; intros H ho; simpl.
  - split; auto. exists []. rewrite app_nil_r; auto.
  - destruct (trial_spec k T H p t ts f ho) as [[e1 h1] h2].
    destruct (trial true k T H p t) as [H1 kd]. simpl in h1, h2. subst H1 kd.
    destruct (IH (H ++ e1) (owns_extend _ _ _ _ _ ho)) as [[e2 h3] h4].
    destruct (accepts_loop true k T (H ++ e1) p tl) as [H2 acc]. simpl in *. subst H2 acc.
    split; auto. rewrite <- app_assoc. eauto.
Qed.

(* ------------------------------------------------------------------ one operation on a world of forks *)
Definition all_deep (o : op) : Prop := match o with OCopy _ false => False | _ => True end.

Lemma paccepts_eq k T pp p : p_ss p = pp_ss pp ->
  filter (fun t => kind_ok (snd (cfeed k T (p_ss p) t (t =? END)))) (choices T p) = paccepts k T pp.
Proof. intros h. unfold paccepts, choices. rewrite h. auto. Qed.

(* appending the outcome of "deep copy, then an operation on the copy" *)
Lemma append_after_copy H pps ps F p ts f
      (op_h : heap -> parser -> heap * list nat * list value * kind)
      (op_p : list nat * list ptree * kind) imm :
  wowns H pps ps F -> owns H ts (p_vs p) f ->
  (forall H1 p1 f1, owns H1 ts (p_vs p1) f1 -> p_ss p1 = p_ss p -> sim_res H1 f1 (op_h H1 p1) op_p) ->
  let c := copy_parser true H p in
  let r := op_h (fst c) (snd c) in
  rss r = qss op_p /\ rkd r = qkd op_p /\
  exists F', wowns (rH r) (pps ++ [{| pp_imm := imm; pp_ss := qss op_p; pp_ts := qts op_p |}])
                   (ps ++ [{| p_imm := imm; p_ss := rss r; p_vs := rvs r |}]) F'.
Proof.
  intros hw ho hop c r.
  destruct (copy_parser_deep_spec _ _ _ _ ho) as (ext & f1 & a & b & c1 & d & e).
  fold c in a, b, c1, d.
  destruct (hop (fst c) (snd c) f1 ltac:(rewrite a; exact d) c1) as (x & y & F' & o' & s' & [fl ff]).
  fold r in x, y, o', fl, ff.
  split; auto. split; auto.
  rewrite a in *.
  apply wowns_append with (F := F) (H := H) (f := F'); auto.
  - intros l hl. rewrite ff.
    + apply nth_error_app1; auto.
    + rewrite app_length; lia.
    + intros hi. apply e in hi. lia.
  - repeat split; auto.
  - intros l hl. destruct (s' l hl) as [h|h]; [auto|]. rewrite app_length in h. lia.
Qed.

Lemma hparse_from_cons k T cb H ss vs ty id rest :
  hparse_from k T cb H ss vs ((ty, id) :: rest) =
  let '(H1, ss1, vs1, kd) := hfeed k T cb H ss vs ty id false in
  match kd with KShift => hparse_from k T cb H1 ss1 vs1 rest | _ => (H1, ss1, vs1, kd) end.
Proof. reflexivity. Qed.
Lemma hparse_from_nil k T cb H ss vs : hparse_from k T cb H ss vs [] = hfeed k T cb H ss vs END 0 true.
Proof. reflexivity. Qed.
Lemma pparse_from_cons k T cb ss ts ty id rest :
  pparse_from k T cb ss ts ((ty, id) :: rest) =
  let '(ss1, ts1, kd) := pfeed k T cb ss ts ty id false in
  match kd with KShift => pparse_from k T cb ss1 ts1 rest | _ => (ss1, ts1, kd) end.
Proof. reflexivity. Qed.
Lemma pparse_from_nil k T cb ss ts : pparse_from k T cb ss ts [] = pfeed k T cb ss ts END 0 true.
Proof. reflexivity. Qed.

Arguments copy_parser : simpl never.
Arguments hifeed : simpl never.
Arguments pifeed : simpl never.
Arguments accepts_loop : simpl never.
Arguments hparse_from : simpl never.
Arguments pparse_from : simpl never.

Lemma wstep_sim k T cb w pps o F :
  wowns (w_heap w) pps (w_ps w) F -> all_deep o ->
  (exists F', wowns (w_heap (fst (wstep true k T cb w o))) (fst (pstep k T cb pps o))
                    (w_ps (fst (wstep true k T cb w o))) F') /\
  snd (wstep true k T cb w o) = snd (pstep k T cb pps o).
Proof.
  intros hw hdeep. destruct w as [H ps]. simpl in hw.
  pose proof (wowns_length _ _ _ _ hw) as hlen.
  destruct o as [i ty id|i deep|i|i|i|i toks]; simpl.
  - (* feed *)
    destruct (nth_error ps i) as [p|] eqn:En.
    2:{ rewrite (wowns_none _ _ _ _ _ hw En). simpl. eauto. }
    destruct (wowns_set _ _ _ _ hw i p En) as (pp & f & a & (hi & hs & ho) & c & d).
    rewrite a. rewrite <- hi.
    destruct (p_imm p) eqn:Eimm.
    + pose proof (append_after_copy H pps ps F p (pp_ts pp) f
                   (fun H1 p1 => hifeed k T cb H1 (p_ss p1) (p_vs p1) ty id)
                   (pifeed k T cb (pp_ss pp) (pp_ts pp) ty id) true hw ho) as hh.
      simpl in hh.
      destruct hh as (x & y & F' & hw').
      { intros H1 p1 f1 h1 h2. rewrite h2, hs. apply hfeed_sim; auto. }
      destruct (copy_parser true H p) as [H1 c0]. simpl in *.
      destruct (hifeed k T cb H1 (p_ss c0) (p_vs c0) ty id) as [[[H2 ss2] vs2] kd].
      destruct (pifeed k T cb (pp_ss pp) (pp_ts pp) ty id) as [[qs2 ts2] qk].
      unfold rss, rkd, rH, rvs, qss, qkd, qts in *. simpl in *. subst. rewrite hlen. eauto.
    + pose proof (hfeed_sim T cb k H (p_ss p) (p_vs p) (pp_ts pp) f ty id (ty =? END) ho) as hh.
      unfold hifeed, pifeed. rewrite <- hs.
      destruct (hfeed k T cb H (p_ss p) (p_vs p) ty id (ty =? END)) as [[[H2 ss2] vs2] kd].
      destruct (pfeed k T cb (p_ss p) (pp_ts pp) ty id (ty =? END)) as [[qs2 ts2] qk].
      destruct hh as (x & y & F' & o' & s' & f').
      unfold rss, rkd, rH, rvs, qss, qkd, qts in *. simpl in *. subst.
      destruct (d H2 {| pp_imm := false; pp_ss := qs2; pp_ts := ts2 |}
                  {| p_imm := false; p_ss := qs2; p_vs := vs2 |} F') as (F'' & hw'' & _); auto.
      { repeat split; auto. }
      eauto.
  - (* copy *)
    destruct deep; [|contradiction].
    destruct (nth_error ps i) as [p|] eqn:En.
    2:{ rewrite (wowns_none _ _ _ _ _ hw En). simpl. eauto. }
    destruct (wowns_set _ _ _ _ hw i p En) as (pp & f & a & (hi & hs & ho) & c & d).
    rewrite a.
    destruct (copy_parser_deep_spec _ _ _ _ ho) as (ext & f1 & e1 & e2 & e3 & e4 & e5).
    destruct (copy_parser true H p) as [H1 c0]. simpl in *. subst H1. rewrite hlen. split; auto.
    apply wowns_append with (F := F) (H := H) (f := f1); auto.
    + intros l hl. apply nth_error_app1; auto.
    + repeat split; auto; congruence.
  - (* as_immutable *)
    destruct (nth_error ps i) as [p|] eqn:En.
    2:{ rewrite (wowns_none _ _ _ _ _ hw En). simpl. eauto. }
    destruct (wowns_set _ _ _ _ hw i p En) as (pp & f & a & (hi & hs & ho) & c & d).
    rewrite a.
    destruct (copy_parser_deep_spec _ _ _ _ ho) as (ext & f1 & e1 & e2 & e3 & e4 & e5).
    destruct (copy_parser true H p) as [H1 c0]. simpl in *. subst H1. rewrite hlen. split; auto.
    apply wowns_append with (F := F) (H := H) (f := f1); auto.
    + intros l hl. apply nth_error_app1; auto.
    + repeat split; auto; simpl; congruence.
  - (* as_mutable *)
    destruct (nth_error ps i) as [p|] eqn:En.
    2:{ rewrite (wowns_none _ _ _ _ _ hw En). simpl. eauto. }
    destruct (wowns_set _ _ _ _ hw i p En) as (pp & f & a & (hi & hs & ho) & c & d).
    rewrite a.
    destruct (copy_parser_deep_spec _ _ _ _ ho) as (ext & f1 & e1 & e2 & e3 & e4 & e5).
    destruct (copy_parser true H p) as [H1 c0]. simpl in *. subst H1. rewrite hlen. split; auto.
    apply wowns_append with (F := F) (H := H) (f := f1); auto.
    + intros l hl. apply nth_error_app1; auto.
    + repeat split; auto; simpl; congruence.
  - (* accepts *)
    destruct (nth_error ps i) as [p|] eqn:En.
    2:{ rewrite (wowns_none _ _ _ _ _ hw En). simpl. eauto. }
    destruct (wowns_set _ _ _ _ hw i p En) as (pp & f & a & (hi & hs & ho) & c & d).
    rewrite a.
    destruct (accepts_loop_spec k T p _ _ (choices T p) H ho) as [[ext e1] e2].
    destruct (accepts_loop true k T H p (choices T p)) as [H1 acc]. simpl in *. subst H1 acc.
    rewrite (paccepts_eq k T pp p hs). split; auto.
    exists F. eapply wowns_frame; eauto. intros l hl. apply nth_error_app1. eapply wowns_bound; eauto.
  - (* resume_parse *)
    destruct (nth_error ps i) as [p|] eqn:En.
    2:{ rewrite (wowns_none _ _ _ _ _ hw En). simpl. eauto. }
    destruct (wowns_set _ _ _ _ hw i p En) as (pp & f & a & (hi & hs & ho) & c & d).
    rewrite a.
    pose proof (hparse_from_sim T cb k toks H (p_ss p) (p_vs p) (pp_ts pp) f ho) as hh.
    rewrite <- hs.
    destruct (hparse_from k T cb H (p_ss p) (p_vs p) toks) as [[[H2 ss2] vs2] kd].
    destruct (pparse_from k T cb (p_ss p) (pp_ts pp) toks) as [[qs2 ts2] qk].
    destruct hh as (x & y & F' & o' & s' & f').
    unfold rss, rkd, rH, rvs, qss, qkd, qts in *. simpl in *. subst.
    destruct (d H2 {| pp_imm := pp_imm pp; pp_ss := qs2; pp_ts := ts2 |}
                {| p_imm := p_imm p; p_ss := qs2; p_vs := vs2 |} F') as (F'' & hw'' & _); auto.
    { repeat split; auto. }
    eauto.
Qed.

Lemma wrun_sim k T cb os : forall w pps F,
  wowns (w_heap w) pps (w_ps w) F -> Forall all_deep os ->
  (exists F', wowns (w_heap (fst (wrun true k T cb w os))) (fst (prun k T cb pps os))
                    (w_ps (fst (wrun true k T cb w os))) F') /\
  snd (wrun true k T cb w os) = snd (prun k T cb pps os).
Proof.
  induction os as [|o os IH]; intros w pps F hw hd; simpl.
  - eauto.
  - inversion hd; subst.
    destruct (wstep_sim k T cb w pps o F hw H1) as [[F1 h1] h2].
    destruct (wstep true k T cb w o) as [w1 ob]. destruct (pstep k T cb pps o) as [pps1 pob].
    simpl in *. subst pob.
    destruct (IH w1 pps1 F1 h1 H2) as [[F2 h3] h4].
    destruct (wrun true k T cb w1 os) as [w2 obs]. destruct (prun k T cb pps1 os) as [pps2 pobs].
    simpl in *. subst. eauto.
Qed.

(* ------------------------------------------------------------------ own history of each fork *)
Definition hrel k T cb (pp : pparser) (h : lineage) : Prop :=
  pp_imm pp = fst h /\ (pp_ss pp, pp_ts pp) = preplay k T cb (snd h).

Lemma preplay_snoc k T cb ev e : preplay k T cb (ev ++ [e]) = preplay1 k T cb (preplay k T cb ev) e.
Proof. unfold preplay. rewrite fold_left_app. auto. Qed.

Lemma Forall2_nth {A B} (R : A -> B -> Prop) l1 l2 i x :
  Forall2 R l1 l2 -> nth_error l1 i = Some x -> exists y, nth_error l2 i = Some y /\ R x y.
Proof.
  intros h. revert i. induction h; intros [|i]; simpl; try discriminate.
  - intros e; inversion e; subst; eauto.
  - auto.
Qed.
Lemma Forall2_nth_none {A B} (R : A -> B -> Prop) l1 l2 i :
  Forall2 R l1 l2 -> nth_error l1 i = None -> nth_error l2 i = None.
Proof.
  intros h. revert i. induction h; intros [|i]; simpl; try discriminate; auto.
Qed.
Lemma Forall2_set_nth {A B} (R : A -> B -> Prop) l1 l2 i x y :
  Forall2 R l1 l2 -> R x y -> Forall2 R (set_nth l1 i x) (set_nth l2 i y).
Proof.
  intros h. revert i. induction h; intros [|i] hr; simpl; constructor; auto.
Qed.
Lemma Forall2_snoc {A B} (R : A -> B -> Prop) l1 l2 x y :
  Forall2 R l1 l2 -> R x y -> Forall2 R (l1 ++ [x]) (l2 ++ [y]).
Proof. intros h hr. apply Forall2_app; auto. Qed.

Lemma pstep_lineage k T cb pps hs o :
  Forall2 (hrel k T cb) pps hs -> Forall2 (hrel k T cb) (fst (pstep k T cb pps o)) (lstep hs o).
Proof.
  intros hf. destruct o as [i ty id|i deep|i|i|i|i toks]; simpl.
  - destruct (nth_error pps i) as [pp|] eqn:En.
    2:{ rewrite (Forall2_nth_none _ _ _ _ hf En). auto. }
    destruct (Forall2_nth _ _ _ _ _ hf En) as ([imm ev] & a & b & c). rewrite a. simpl in b, c.
    destruct (pifeed k T cb (pp_ss pp) (pp_ts pp) ty id) as [[ss2 ts2] kd] eqn:E.
    rewrite b. destruct imm; simpl.
    + apply Forall2_snoc; auto. split; auto. simpl. rewrite preplay_snoc, <- c. simpl. rewrite E. auto.
    + apply Forall2_set_nth; auto. split; auto. simpl. rewrite preplay_snoc, <- c. simpl. rewrite E. auto.
  - destruct (nth_error pps i) as [pp|] eqn:En.
    2:{ rewrite (Forall2_nth_none _ _ _ _ hf En). auto. }
    destruct (Forall2_nth _ _ _ _ _ hf En) as (h & a & b). rewrite a. simpl.
    apply Forall2_snoc; auto.
  - destruct (nth_error pps i) as [pp|] eqn:En.
    2:{ rewrite (Forall2_nth_none _ _ _ _ hf En). auto. }
    destruct (Forall2_nth _ _ _ _ _ hf En) as ([imm ev] & a & b & c). rewrite a. simpl.
    apply Forall2_snoc; auto. split; auto.
  - destruct (nth_error pps i) as [pp|] eqn:En.
    2:{ rewrite (Forall2_nth_none _ _ _ _ hf En). auto. }
    destruct (Forall2_nth _ _ _ _ _ hf En) as ([imm ev] & a & b & c). rewrite a. simpl.
    apply Forall2_snoc; auto. split; auto.
  - destruct (nth_error pps i) as [pp|] eqn:En; auto.
  - destruct (nth_error pps i) as [pp|] eqn:En.
    2:{ rewrite (Forall2_nth_none _ _ _ _ hf En). auto. }
    destruct (Forall2_nth _ _ _ _ _ hf En) as ([imm ev] & a & b & c). rewrite a. simpl in b, c.
    destruct (pparse_from k T cb (pp_ss pp) (pp_ts pp) toks) as [[ss2 ts2] kd] eqn:E. simpl.
    apply Forall2_set_nth; auto. split; auto. simpl. rewrite preplay_snoc, <- c. simpl. rewrite E. auto.
Qed.

Lemma prun_lineage k T cb os : forall pps hs,
  Forall2 (hrel k T cb) pps hs ->
  Forall2 (hrel k T cb) (fst (prun k T cb pps os)) (fold_left lstep os hs).
Proof.
  induction os as [|o os IH]; intros pps hs hf; simpl; auto.
  pose proof (pstep_lineage k T cb pps hs o hf) as h1.
  destruct (pstep k T cb pps o) as [pps1 ob]. simpl in h1.
  specialize (IH pps1 _ h1).
  destruct (prun k T cb pps1 os) as [pps2 obs]. simpl in *. auto.
Qed.

(* ================================================================== the theorems *)

(* reading every value of a parser's stack off the heap *)
Definition read_stack (H : heap) (p : parser) : list ptree := map (read (S (length H)) H) (p_vs p).

(* fork_separation: after any sequence of feed / copy / as_immutable / as_mutable / accepts /
   resume operations in which every copy is deep, (1) every observation made on the way is the
   one made on immutable trees, (2) no two parsers reach a common child list, and (3) each
   parser's stacks are exactly those of a fresh parser that went through that parser's own
   history - whatever was done to any other fork in between. *)
Theorem fork_separation k T cb os :
  Forall all_deep os ->
  let w := fst (wrun true k T cb (world0 T) os) in
  snd (wrun true k T cb (world0 T) os) = snd (prun k T cb (pworld0 T) os) /\
  exists pps F,
    wowns (w_heap w) pps (w_ps w) F /\
    forall j p, nth_error (w_ps w) j = Some p ->
      exists h, nth_error (lineages os) j = Some h /\
                p_imm p = fst h /\
                (p_ss p, read_stack (w_heap w) p) = preplay k T cb (snd h).
Proof.
  intros hd w.
  assert (hw0 : wowns (w_heap (world0 T)) (pworld0 T) (w_ps (world0 T)) ([] ++ [])).
  { unfold world0, pworld0. cbn [w_heap w_ps].
    apply (wo_cons [] _ [] _ [] [] []); auto using disjoint_nil_r.
    - split; [reflexivity|]. split; [reflexivity|]. simpl. constructor.
    - constructor. }
  destruct (wrun_sim k T cb os (world0 T) (pworld0 T) _ hw0 hd) as [[F hw] hobs].
  split; auto. fold w in hw.
  exists (fst (prun k T cb (pworld0 T) os)), F. split; auto.
  intros j p hj.
  destruct (wowns_set _ _ _ _ hw j p hj) as (pp & f & a & (hi & hs & ho) & c & _).
  assert (hl : Forall2 (hrel k T cb) (pworld0 T) [(false, [])]).
  { constructor; auto. split; auto. }
  pose proof (prun_lineage k T cb os _ _ hl) as hf.
  destruct (Forall2_nth _ _ _ _ _ hf a) as (h & b & him & hst).
  exists h. split; auto. split; [congruence|].
  unfold read_stack. rewrite (reads_own _ _ _ _ ho).
  - rewrite hs. auto.
  - pose proof (owns_fp_le _ _ _ _ ho). lia.
Qed.

(* trial_feed_pure: a feed with callbacks = {} only allocates; every existing list object keeps
   its content (so accepts() cannot disturb the parser it is asked on, nor any other) *)
Theorem trial_feed_pure k T H ss vs ty id e :
  exists ext, rH (hfeed k T (fun _ => cb_none) H ss vs ty id e) = H ++ ext.
Proof. apply hfeed_pure. auto. Qed.

(* accepts_exact *)
Definition table_wf (T : table) : Prop :=
  forall s t, In t (terms T s) <-> action T s t <> None.

Lemma cfeed_ok_action k T s ss t e : kind_ok (snd (cfeed k T (s :: ss) t e)) = true -> action T s t <> None.
Proof. destruct k; simpl; [discriminate|]. destruct (action T s t); [discriminate|simpl; discriminate]. Qed.

Theorem accepts_exact k T cb H p ts f t id :
  table_wf T -> owns H ts (p_vs p) f ->
  let c := copy_parser true H p in
  In t (snd (accepts_loop true k T H p (choices T p))) <->
  kind_ok (rkd (hifeed k T cb (fst c) (p_ss (snd c)) (p_vs (snd c)) t id)) = true.
Proof.
  intros hwf ho c.
  destruct (accepts_loop_spec k T p ts f (choices T p) H ho) as [_ ->].
  destruct (copy_parser_deep_spec _ _ _ _ ho) as (ext & f' & a & b & c1 & d & e).
  fold c in c1. rewrite c1.
  pose proof (hfeed_ctrl T cb k (fst c) (p_ss p) (p_vs (snd c)) t id (t =? END)) as hc.
  unfold hifeed.
  destruct (cfeed k T (p_ss p) t (t =? END)) as [ss2 kd] eqn:E.
  inversion hc as [[h1 h2]]. rewrite h2.
  rewrite filter_In. rewrite E. simpl. split; [tauto|].
  intros hk. split; auto. unfold choices.
  destruct (p_ss p) as [|s ss].
  - destruct k; simpl in E; inversion E; subst; discriminate.
  - apply hwf. apply (cfeed_ok_action k T s ss t (t =? END)). rewrite E. auto.
Qed.

(* feed_eq_parse: feeding the tokens one at a time and then $END is parse_from_state *)
Theorem feed_eq_parse k T cb toks : forall H ss vs,
  Forall (fun t => fst t <> END) toks ->
  hfeed_all k T cb H ss vs toks = hparse_from k T cb H ss vs toks.
Proof.
  induction toks as [|[ty id] rest IH]; intros H ss vs hf; simpl; auto.
  rewrite hparse_from_cons.
  inversion hf; subst. simpl in H2. unfold hifeed at 1.
  destruct (Nat.eqb_spec ty END); [contradiction|].
  destruct (hfeed k T cb H ss vs ty id false) as [[[H1 ss1] vs1] kd].
  destruct kd; auto.
Qed.

(* ... and on immutable trees: a fork whose own history is "tokens, then $END" and whose parse
   succeeds ends with the stacks, hence the result, of Lark.parse on those tokens *)
Lemma pfeed_false_not_result k T cb : forall ss ts ty id, qkd (pfeed k T cb ss ts ty id false) <> KResult.
Proof.
  induction k as [|k IH]; intros; simpl; try discriminate.
  destruct ss as [|s ss']; try discriminate.
  destruct (action T s ty) as [[s'|r]|]; try discriminate.
  destruct (skipn (rarity T r) (s :: ss')) as [|s0 ss0]; try discriminate.
  destruct (goto T s0 (rlhs T r)) as [s1|]; try discriminate.
  simpl. apply IH.
Qed.

Lemma preplay_feeds k T cb toks : forall ss ts ss' ts',
  Forall (fun t => fst t <> END) toks ->
  pparse_from k T cb ss ts toks = (ss', ts', KResult) ->
  fold_left (preplay1 k T cb) (map (fun t => EFeed (fst t) (snd t)) toks ++ [EFeed END 0]) (ss, ts) = (ss', ts').
Proof.
  induction toks as [|[ty id] rest IH]; intros ss ts ss' ts' hf hp; simpl in *.
  - unfold pifeed. simpl. rewrite pparse_from_nil in hp. rewrite hp. auto.
  - rewrite pparse_from_cons in hp.
    inversion hf; subst. simpl in H1. unfold pifeed.
    destruct (Nat.eqb_spec ty END); [contradiction|].
    pose proof (pfeed_false_not_result k T cb ss ts ty id) as hnr.
    destruct (pfeed k T cb ss ts ty id false) as [[ss1 ts1] kd].
    destruct kd; try discriminate; [apply IH; auto|]. elim hnr. reflexivity.
Qed.

Theorem fork_result_eq_parse k T cb toks ss ts :
  Forall (fun t => fst t <> END) toks ->
  pparse k T cb toks = (ss, ts, KResult) ->
  preplay k T cb (map (fun t => EFeed (fst t) (snd t)) toks ++ [EFeed END 0]) = (ss, ts).
Proof. intros. apply preplay_feeds; auto. Qed.

(* resume_eq_parse_rest *)
(* feeding a prefix while every token shifts *)
Definition hstep k T cb (st : heap * list nat * list value * kind) (t : nat * nat) :=
  match st with
  | (H, ss, vs, KShift) => hfeed k T cb H ss vs (fst t) (snd t) false
  | _ => st
  end.
Definition hfeeds k T cb H ss vs pre := fold_left (hstep k T cb) pre (H, ss, vs, KShift).

Lemma hstep_stop k T cb pre : forall H ss vs kd, kd <> KShift ->
  fold_left (hstep k T cb) pre (H, ss, vs, kd) = (H, ss, vs, kd).
Proof. induction pre; simpl; auto. intros. destruct kd; try congruence; apply IHpre; auto. Qed.

Lemma hparse_from_app k T cb pre : forall H ss vs rest,
  hparse_from k T cb H ss vs (pre ++ rest) =
  match hfeeds k T cb H ss vs pre with
  | (H1, ss1, vs1, KShift) => hparse_from k T cb H1 ss1 vs1 rest
  | r => r
  end.
Proof.
  unfold hfeeds. induction pre as [|[ty id] pre IH]; intros; simpl; auto.
  rewrite hparse_from_cons.
  destruct (hfeed k T cb H ss vs ty id false) as [[[H1 ss1] vs1] kd].
  destruct kd; try (rewrite IH; auto; fail); rewrite hstep_stop; auto; discriminate.
Qed.

(* parse stops at the unexpected token with the parser state st_e exposed to the error handler;
   resume_parse() from st_e on the rest of the input is exactly "feed the rest one by one from
   st_e, then $END" - i.e. a parse of the remaining input from that configuration *)
Theorem resume_eq_parse_rest k T cb pre bad rest H ss vs H1 ss1 vs1 He sse vse :
  Forall (fun t => fst t <> END) rest ->
  hfeeds k T cb H ss vs pre = (H1, ss1, vs1, KShift) ->
  hfeed k T cb H1 ss1 vs1 (fst bad) (snd bad) false = (He, sse, vse, KError) ->
  hparse_from k T cb H ss vs (pre ++ bad :: rest) = (He, sse, vse, KError) /\
  hparse_from k T cb He sse vse rest = hfeed_all k T cb He sse vse rest.
Proof.
  intros hf h1 h2. split.
  - rewrite hparse_from_app. rewrite h1. destruct bad as [ty id]. rewrite hparse_from_cons. simpl in *. rewrite h2. auto.
  - symmetry. apply feed_eq_parse. auto.
Qed.

(* tables built from data list their terminals exactly where they have an action *)
Lemma assoc_in {A} k (l : list (nat * A)) : In k (map fst l) <-> assoc k l <> None.
Proof.
  induction l as [|[k' v] l IH]; simpl.
  - split; [tauto|congruence].
  - destruct (Nat.eqb_spec k' k).
    + split; [discriminate|auto].
    + rewrite <- IH. split; [intros [h|h]; [contradiction|auto]|auto].
Qed.

Lemma mk_table_wf acts gotos rules s0 e0 : table_wf (mk_table acts gotos rules s0 e0).
Proof.
  intros s t. simpl. destruct (assoc s acts) as [row|].
  - apply assoc_in.
  - simpl. split; [tauto|congruence].
Qed.
