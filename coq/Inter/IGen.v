(* Inter/IGen.v - the control part of ParserState.feed_token over IDriver's table, the value-stack
   slices, the `is_end` flag of InteractiveParser.feed_token and InteractiveParser.copy /
   ParserState.copy / LexerThread.__copy__ / LexerState.__copy__, all written over the definitions the
   translator REGENERATES from the source (Gen/LalrHoles.v, translator/gen_lalr.py).
   Inter/IGen_proofs.v proves them equal to the hand model Inter/IDriver.v.  Model only, no proofs. *)
From Coq Require Import List Arith Bool ZArith.
From LV Require Import Inter.Heap Inter.IDriver Gen.LalrHoles LR.DriverGen.
Import ListNotations.

Definition act_is_shift (a : act) : bool := match a with Shift _ => true | Reduce _ => false end.
(* `arg` as an integer: a state number, or -1 for a Rule object (a Rule never equals a state) *)
Definition act_arg_z (a : act) : Z := match a with Shift q => Z.of_nat q | Reduce _ => (-1)%Z end.

(* feed_token, control only; the state stack is in PYTHON order here (top last) *)
Fixpoint gcfeed (k : nat) (T : table) (ss : list nat) (ty : nat) (is_end : bool) : list nat * kind :=
  match k with
  | 0 => (ss, KFuel)
  | S k' =>
    let e := Z.of_nat (end_state T) in
    match py_last ss with
    | None => (ss, KStuck)
    | Some s =>
      match action T s ty with
      | None => (ss, KError)
      | Some a =>
        let sh := act_is_shift a in
        let arg := act_arg_z a in
        if negb (ft_arg_ok is_end sh arg e (Z.of_nat s)) then (ss, KStuck)
        else if ft_is_shift is_end sh arg e (Z.of_nat s) then
          match a with
          | Shift s' => if negb (ft_shift_ok is_end sh arg e (Z.of_nat s)) then (ss, KStuck)
                        else (ss ++ [s'], KShift)
          | Reduce _ => (ss, KStuck)
          end
        else
          match a with
          | Shift _ => (ss, KStuck)
          | Reduce r =>
            let size := Z.of_nat (rarity T r) in
            let ss0 := if ft_pop_guard is_end size e then py_del_from (ft_lo_del_states is_end size e) ss else ss in
            match py_last ss0 with
            | None => (ss0, KStuck)
            | Some s0 =>
              (* the goto part of the table only holds Shift entries (the export rejects anything else) *)
              match goto T s0 (rlhs T r) with
              | None => (ss0, KStuck)
              | Some s1 =>
                if negb (ft_goto_ok is_end true (Z.of_nat s1) e) then (ss0, KStuck)
                else if ft_accept is_end true (Z.of_nat s1) e then (ss0 ++ [s1], KResult)
                else gcfeed k' T (ss0 ++ [s1]) ty is_end
              end
            end
          end
      end
    end
  end.

(* s = value_stack[-size:] / del value_stack[-size:] under the `if size:` guard (value stack in Python order,
   as in IDriver) *)
Definition gvalues_popped {A} (is_end : bool) (n e : nat) (vs : list A) : list A :=
  let size := Z.of_nat n in
  if ft_pop_guard is_end size (Z.of_nat e) then py_from (ft_lo_values is_end size (Z.of_nat e)) vs else [].
Definition gvalues_left {A} (is_end : bool) (n e : nat) (vs : list A) : list A :=
  let size := Z.of_nat n in
  if ft_pop_guard is_end size (Z.of_nat e) then py_del_from (ft_lo_del_values is_end size (Z.of_nat e)) vs else vs.

(* the only shape of table on which IDriver.cfeed (which has no `assert arg != end_state`) and the code
   agree: no terminal is shifted INTO the end state (it is entered by the goto on the start symbol) *)
Definition no_end_shift (T : table) : Prop :=
  forall s t s', action T s t = Some (Shift s') -> s' <> end_state T.

Definition no_end_shift_b (acts : list (nat * list (nat * act))) (e0 : nat) : bool :=
  forallb (fun row : nat * list (nat * act) =>
             forallb (fun ent : nat * act => match snd ent with Shift s' => negb (s' =? e0) | Reduce _ => true end)
                     (snd row)) acts.

(* ---- copies ---- *)
Definition fresh (d : dup) : bool := match d with Shared => false | _ => true end.

(* InteractiveParser.copy(deepcopy_values=deep) from the regenerated field descriptors.
   None = a shape the heap model cannot express (a state stack, a value-stack list object or a lexer
   position shared between the copy and the original). *)
Definition gcopy_parser (copy_meta : bool) (deep : bool) (H : heap) (p : parser) : option (heap * parser) :=
  (* lexer_thread = copy(self.lexer_thread): LexerThread.__copy__ -> copy(self.state): LexerState.__copy__ -> copy(self.line_ctr) *)
  if negb (fresh ip_copy_lexer_thread && fresh lt_copy_state && fresh ls_copy_line_ctr) then None
  else if negb (fresh (ps_copy_state_stack deep)) then None
  else
    let (H0, lt) := halloc H (CLex (lget H (p_lt p))) in
    match ps_copy_value_stack deep with
    | Shared => None
    | Shallow => Some (H0, {| p_imm := p_imm p; p_ss := p_ss p; p_vs := p_vs p; p_lt := lt;
                              p_sl := if ip_copy_rebinds_state_lexer then lt
                                      else match ps_copy_lexer deep with Shared => p_sl p | _ => lt end |})
    | Deep => let (H1, vs1) := deepcopy copy_meta H0 (p_vs p) in
              Some (H1, {| p_imm := p_imm p; p_ss := p_ss p; p_vs := vs1; p_lt := lt;
                           p_sl := if ip_copy_rebinds_state_lexer then lt
                                   else match ps_copy_lexer deep with Shared => p_sl p | _ => lt end |})
    end.
