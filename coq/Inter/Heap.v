(* C13 - heap form of the LALR value stack (model only, no proofs).

   The Python objects that matter for aliasing between interactive-parser forks are
   - the *child lists* of Tree nodes: ChildFilterLALR re-uses the child list of an inlined
     `_rule` tree and extends it in place;
   - the *Meta objects* of Tree nodes: PropagatePositions writes res.meta in place, also when
     res is an existing child tree (an inlined `?rule`);
   - the *lexer threads*: a mutable position in the input that resume_parse()/iter_parse() advance.
   A heap is a list of such cells; a location is an index into it; allocation appends (so a
   location is never re-used). *)
From Coq Require Import List Arith Bool ZArith.
From LV Require Pos.MetaSpan.
Import ListNotations.

Definition loc := nat.
Definition trip := MetaSpan.trip.       (* (pos, line, column) *)
Definition meta := MetaSpan.meta.       (* start / end / container start / container end, each optional *)
Definition empty_meta : meta := MetaSpan.empty_meta.

(* A value on the value stack / inside a child list.
   VTok ty id   : a Token (immutable); ty = terminal number, id = identity of the token (its
                  positions are a function of the identity, see IDriver.cbenv)
   VNone        : the None placeholder of maybe_placeholders
   VTree d l m  : a Tree whose data is rule-name number d, whose `children` attribute is the list
                  object at location l and whose `_meta` is the Meta object at location m.
                  (With empty callbacks the bare list `s` is pushed; it is represented as VTree 0 l m.) *)
Inductive value := VTok (ty id : nat) | VNone | VTree (d : nat) (l m : loc).

(* Immutable trees: what a value denotes once the heap is read off (metas included). *)
Inductive ptree := PTok (ty id : nat) | PNone | PNode (d : nat) (mt : meta) (ch : list ptree).

Inductive cell :=
| CList (vs : list value)     (* a list object *)
| CMeta (mt : meta)           (* a Meta object *)
| CLex (pos : nat).           (* a LexerThread: how many tokens of the input it has yielded *)

Definition heap := list cell.

Definition hget (H : heap) (l : loc) : list value :=
  match nth_error H l with Some (CList vs) => vs | _ => [] end.
Definition mget (H : heap) (m : loc) : meta :=
  match nth_error H m with Some (CMeta mt) => mt | _ => empty_meta end.
Definition lget (H : heap) (l : loc) : nat :=
  match nth_error H l with Some (CLex n) => n | _ => 0 end.

Fixpoint hset (H : heap) (l : loc) (c : cell) : heap :=
  match H, l with
  | [], _ => []
  | _ :: r, 0 => c :: r
  | x :: r, S l' => x :: hset r l' c
  end.

(* list.__iadd__ / list.append on the list object at l (only a list object can be extended) *)
Definition hext (H : heap) (l : loc) (vs : list value) : heap :=
  match nth_error H l with Some (CList old) => hset H l (CList (old ++ vs)) | _ => H end.
(* attribute writes on the Meta object at m *)
Definition mset (H : heap) (m : loc) (mt : meta) : heap :=
  match nth_error H m with Some (CMeta _) => hset H m (CMeta mt) | _ => H end.
(* the lexer thread at l advances *)
Definition lset (H : heap) (l : loc) (n : nat) : heap :=
  match nth_error H l with Some (CLex _) => hset H l (CLex n) | _ => H end.

(* a new object *)
Definition halloc (H : heap) (c : cell) : heap * loc := (H ++ [c], length H).

(* read a value off the heap (fuel = nesting depth) *)
Fixpoint read (k : nat) (H : heap) (v : value) : ptree :=
  match v with
  | VTok a b => PTok a b
  | VNone => PNone
  | VTree d l m =>
      match k with
      | 0 => PNode d (mget H m) []
      | S k' => PNode d (mget H m) (map (read k' H) (hget H l))
      end
  end.

(* copy.deepcopy of one value: a fresh copy of everything reachable (tokens are immutable and
   stay; fuel = nesting depth).  Tree.__deepcopy__ is
       type(self)(self.data, deepcopy(self.children, memo), meta=deepcopy(self._meta, memo))
   [copy_meta = false] is the code before the repair F25 (meta=self._meta: the Meta object is
   shared between the copy and the original).
   This is the model's statement of what deepcopy does on a sharing-free value; see
   Heap_proofs.dcopy_spec_both for the property the proofs use. *)
Fixpoint dcopy (copy_meta : bool) (k : nat) (H : heap) (v : value) {struct k} : heap * value :=
  match v with
  | VTree d l m =>
      match k with
      | 0 => (H, v)
      | S k' =>
          let fix go (H : heap) (vs : list value) {struct vs} : heap * list value :=
            match vs with
            | [] => (H, [])
            | x :: xs =>
                let (H1, x') := dcopy copy_meta k' H x in
                let (H2, xs') := go H1 xs in (H2, x' :: xs')
            end in
          let (H1, vs') := go H (hget H l) in
          if copy_meta
          then (H1 ++ [CList vs'; CMeta (mget H1 m)], VTree d (length H1) (S (length H1)))
          else (H1 ++ [CList vs'], VTree d (length H1) m)
      end
  | _ => (H, v)
  end.

Fixpoint dcopys (copy_meta : bool) (k : nat) (H : heap) (vs : list value) : heap * list value :=
  match vs with
  | [] => (H, [])
  | x :: xs =>
      let (H1, x') := dcopy copy_meta k H x in
      let (H2, xs') := dcopys copy_meta k H1 xs in (H2, x' :: xs')
  end.

(* deepcopy(value_stack): the nesting depth of anything in H is below S (length H) *)
Definition deepcopy (copy_meta : bool) (H : heap) (vs : list value) : heap * list value :=
  dcopys copy_meta (S (length H)) H vs.

Definition lastn {A} (n : nat) (l : list A) : list A := skipn (length l - n) l.
Definition droplast {A} (n : nat) (l : list A) : list A := firstn (length l - n) l.
