(* C13 - heap form of the LALR value stack (model only, no proofs).

   Python objects that matter for aliasing between interactive-parser forks are the
   *child lists* of Tree nodes: ChildFilterLALR re-uses the child list of an inlined
   `_rule` tree and extends it in place.  A heap is a list of such child lists; a
   location is an index into it; allocation appends (so a location is never re-used). *)
From Coq Require Import List Arith Bool.
Import ListNotations.

Definition loc := nat.

(* A value on the value stack / inside a child list.
   VTok ty id : a Token (immutable); ty = terminal number, id = identity of the token
   VNone      : the None placeholder of maybe_placeholders
   VTree d l  : a Tree whose data is rule-name number d and whose `children` attribute
                is the list object at location l.  (With empty callbacks the bare list
                `s` is pushed; it is represented as VTree 0 l.) *)
Inductive value := VTok (ty id : nat) | VNone | VTree (d : nat) (l : loc).

(* Immutable trees: what a value denotes once the heap is read off. *)
Inductive ptree := PTok (ty id : nat) | PNone | PNode (d : nat) (ch : list ptree).

Definition heap := list (list value).

Definition hget (H : heap) (l : loc) : list value := nth l H [].

Fixpoint hset (H : heap) (l : loc) (vs : list value) : heap :=
  match H, l with
  | [], _ => []
  | _ :: r, 0 => vs :: r
  | x :: r, S l' => x :: hset r l' vs
  end.

(* list.__iadd__ / list.append on the list object at l *)
Definition hext (H : heap) (l : loc) (vs : list value) : heap := hset H l (hget H l ++ vs).

(* a new list object *)
Definition halloc (H : heap) (vs : list value) : heap * loc := (H ++ [vs], length H).

(* read a value off the heap (fuel = nesting depth) *)
Fixpoint read (k : nat) (H : heap) (v : value) : ptree :=
  match v with
  | VTok a b => PTok a b
  | VNone => PNone
  | VTree d l =>
      match k with
      | 0 => PNode d []
      | S k' => PNode d (map (read k' H) (hget H l))
      end
  end.

(* copy.deepcopy of one value: a fresh copy of everything reachable (tokens are immutable
   and stay; fuel = nesting depth).  This is the model's statement of what deepcopy does
   on a sharing-free value; see Heap_proofs.dcopy_spec for the property the proofs use. *)
Fixpoint dcopy (k : nat) (H : heap) (v : value) {struct k} : heap * value :=
  match v with
  | VTree d l =>
      match k with
      | 0 => (H, v)
      | S k' =>
          let fix go (H : heap) (vs : list value) {struct vs} : heap * list value :=
            match vs with
            | [] => (H, [])
            | x :: xs =>
                let (H1, x') := dcopy k' H x in
                let (H2, xs') := go H1 xs in (H2, x' :: xs')
            end in
          let (H1, vs') := go H (hget H l) in
          (H1 ++ [vs'], VTree d (length H1))
      end
  | _ => (H, v)
  end.

Fixpoint dcopys (k : nat) (H : heap) (vs : list value) : heap * list value :=
  match vs with
  | [] => (H, [])
  | x :: xs =>
      let (H1, x') := dcopy k H x in
      let (H2, xs') := dcopys k H1 xs in (H2, x' :: xs')
  end.

(* deepcopy(value_stack): the nesting depth of anything in H is below S (length H) *)
Definition deepcopy (H : heap) (vs : list value) : heap * list value :=
  dcopys (S (length H)) H vs.

Definition lastn {A} (n : nat) (l : list A) : list A := skipn (length l - n) l.
Definition droplast {A} (n : nat) (l : list A) : list A := firstn (length l - n) l.
