(* Comparison functions used by the generated correspondence cases for C13 (no proofs). *)
From Coq Require Import List Arith Bool.
From LV Require Import Inter.Heap Inter.IDriver Gen.InterHoles.
Import ListNotations.

Definition FUEL : nat := 200.

Definition kind_code (k : kind) : nat :=
  match k with KShift => 0 | KResult => 1 | KError => 2 | KStuck => 3 | KFuel => 4 end.

Fixpoint list_eqb {A} (eqb : A -> A -> bool) (a b : list A) : bool :=
  match a, b with
  | [], [] => true
  | x :: a', y :: b' => eqb x y && list_eqb eqb a' b'
  | _, _ => false
  end.

Fixpoint ptree_eqb (a b : ptree) : bool :=
  match a, b with
  | PTok x y, PTok x' y' => (x =? x') && (y =? y')
  | PNone, PNone => true
  | PNode d ch, PNode d' ch' =>
      (d =? d') &&
      (fix go (l l' : list ptree) : bool :=
         match l, l' with
         | [], [] => true
         | x :: r, y :: r' => ptree_eqb x y && go r r'
         | _, _ => false
         end) ch ch'
  | _, _ => false
  end.

(* what the harness recorded for one operation *)
Inductive eobs :=
| EFed (j kd : nat) (ss : list nat)   (* parser j was fed; outcome code; its state stack, top first *)
| ENew (j : nat)
| EAcc (l : list nat).                (* accepts(), in the order of choices() *)

Definition obs_eqb (o : obs) (e : eobs) : bool :=
  match o, e with
  | ObsFeed j kd ss, EFed j' kd' ss' => (j =? j') && (kind_code kd =? kd') && list_eqb Nat.eqb ss ss'
  | ObsNew j, ENew j' => j =? j'
  | ObsAccepts l, EAcc l' => list_eqb Nat.eqb l l'
  | _, _ => false
  end.

Fixpoint obss_eqb (os : list obs) (es : list eobs) : bool :=
  match os, es with
  | [], [] => true
  | o :: os', e :: es' => obs_eqb o e && obss_eqb os' es'
  | _, _ => false
  end.

(* at the end: for every parser the harness still holds, its state stack and the value stack
   read off as trees (None = the harness lost the object, e.g. an immutable feed that raised) *)
Definition final := option (list nat * list ptree).

Fixpoint finals_eqb (H : heap) (ps : list parser) (fs : list final) : bool :=
  match ps, fs with
  | [], [] => true
  | p :: ps', f :: fs' =>
      match f with
      | None => true
      | Some (ss, ts) =>
          list_eqb Nat.eqb (p_ss p) ss &&
          list_eqb ptree_eqb (map (read (S (length H)) H) (p_vs p)) ts
      end && finals_eqb H ps' fs'
  | _, _ => false
  end.

Definition icase :=
  (list (nat * list (nat * act)) * list (nat * list (nat * nat)) * list (nat * nat) * nat * nat *
   list cbdata * list op * list eobs * list final)%type.

Definition run_case (c : icase) : world * list obs :=
  let '(acts, gotos, rules, s0, e0, cbs, ops, _, _) := c in
  let T := mk_table acts gotos rules s0 e0 in
  wrun InterHoles.interactive_copy_default FUEL T (mk_cb rules cbs) (world0 T) ops.

Definition check_case (c : icase) : bool :=
  let '(acts, gotos, rules, s0, e0, cbs, ops, es, fs) := c in
  let '(w, os) := run_case c in
  cbs_wf rules cbs && obss_eqb os es && finals_eqb (w_heap w) (w_ps w) fs.

(* constructor with explicit argument types (keeps elaboration of the generated case files fast) *)
Definition mk_icase (acts : list (nat * list (nat * act))) (gotos : list (nat * list (nat * nat)))
           (rules : list (nat * nat)) (s0 e0 : nat) (cbs : list cbdata) (ops : list op)
           (es : list eobs) (fs : list final) : icase :=
  (acts, gotos, rules, s0, e0, cbs, ops, es, fs).
Definition mk_final (ss : list nat) (ts : list ptree) : final := Some (ss, ts).
Definition mk_cbdata (d : nat) (e1 : bool) (f : option (list (nat * bool * nat) * nat)) : cbdata := (d, e1, f).
