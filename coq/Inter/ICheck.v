(* Comparison functions used by the generated correspondence cases for C13 (no proofs). *)
From Coq Require Import List Arith Bool ZArith.
From LV Require Pos.MetaSpan.
From LV Require Import Inter.Heap Inter.IDriver Gen.InterHoles Inter.IGen.
Import ListNotations.

Definition FUEL : nat := 200.

(* the implementation as the translator found it *)
Definition impl_now : impl :=
  {| im_deep := InterHoles.interactive_copy_default;
     im_meta := InterHoles.tree_deepcopy_copies_meta;
     im_lex := InterHoles.copy_rebinds_state_lexer |}.

Definition kind_code (k : kind) : nat :=
  match k with KShift => 0 | KResult => 1 | KError => 2 | KStuck => 3 | KFuel => 4 end.

Fixpoint list_eqb {A} (eqb : A -> A -> bool) (a b : list A) : bool :=
  match a, b with
  | [], [] => true
  | x :: a', y :: b' => eqb x y && list_eqb eqb a' b'
  | _, _ => false
  end.

(* trees are compared with their metas (all twelve position attributes) *)
Fixpoint ptree_eqb (a b : ptree) : bool :=
  match a, b with
  | PTok x y, PTok x' y' => (x =? x') && (y =? y')
  | PNone, PNone => true
  | PNode d m ch, PNode d' m' ch' =>
      (d =? d') && MetaSpan.meta_eqb m m' &&
      (fix go (l l' : list ptree) : bool :=
         match l, l' with
         | [], [] => true
         | x :: r, y :: r' => ptree_eqb x y && go r r'
         | _, _ => false
         end) ch ch'
  | _, _ => false
  end.

(* what the harness recorded for one operation *)
Inductive eobs :=
| EFed (j kd : nat) (ss : list nat)   (* parser j was fed: outcome code; its state stack, top first *)
| ENew (j : nat)
| EAcc (l : list nat).                (* accepts(), in the order of choices() *)

Definition obs_eqb (o : obs) (e : eobs) : bool :=
  match o, e with
  | ObsFeed j kd ss, EFed j' kd' ss' => (j =? j') && (kind_code kd =? kd') && list_eqb Nat.eqb ss ss'
  | ObsNew j, ENew j' => j =? j'
  | ObsAccepts l, EAcc l' => list_eqb Nat.eqb l l'
  | _, _ => false
  end.

Fixpoint obss_eqb (os : list obs) (es : list eobs) : bool :=
  match os, es with
  | [], [] => true
  | o :: os', e :: es' => obs_eqb o e && obss_eqb os' es'
  | _, _ => false
  end.

(* at the end: for every parser the harness still holds, its state stack, the value stack read off
   as trees with metas, and the number of tokens its own lexer thread and the thread resume_parse()
   reads from have yielded (None = nothing recorded for that parser) *)
Definition final := option (list nat * list ptree * option (nat * nat)).

Fixpoint finals_eqb (H : heap) (ps : list parser) (fs : list final) : bool :=
  match ps, fs with
  | [], [] => true
  | p :: ps', f :: fs' =>
      match f with
      | None => true
      | Some (ss, ts, lx) =>
          list_eqb Nat.eqb (p_ss p) ss &&
          list_eqb ptree_eqb (map (read (S (length H)) H) (p_vs p)) ts &&
          match lx with
          | Some (lt, sl) => (lget H (p_lt p) =? lt) && (lget H (p_sl p) =? sl)
          | None => true     (* the harness had no handle on the lexer threads *)
          end
      end && finals_eqb H ps' fs'
  | _, _ => false
  end.

Definition trip2 := (trip * trip)%type.

Record icase := mk_icase {
  ic_acts : list (nat * list (nat * act));
  ic_gotos : list (nat * list (nat * nat));
  ic_rules : list (nat * nat);
  ic_s0 : nat; ic_e0 : nat;
  ic_cbs : list cbdata;
  ic_pp : bool;                          (* propagate_positions *)
  ic_tps : list (nat * trip2);           (* positions of the tokens, by identity *)
  ic_input : list (nat * nat);           (* tokens of the text given to parse_interactive *)
  ic_ops : list op;
  ic_obs : list eobs;
  ic_finals : list final }.

Definition run_case_with (I : impl) (c : icase) : world * list obs :=
  let T := mk_table (ic_acts c) (ic_gotos c) (ic_rules c) (ic_s0 c) (ic_e0 c) in
  wrun I FUEL T (mk_env (ic_rules c) (ic_cbs c) (ic_pp c) (ic_tps c)) (ic_input c) (world0 T) (ic_ops c).

Definition check_case_with (I : impl) (c : icase) : bool :=
  let '(w, os) := run_case_with I c in
  cbs_wf (ic_rules c) (ic_cbs c) && obss_eqb os (ic_obs c) && finals_eqb (w_heap w) (w_ps w) (ic_finals c) &&
  no_end_shift_b (ic_acts c) (ic_e0 c).   (* hypothesis of C13_feed_control_regenerated, on lark's own table *)

Definition check_case : icase -> bool := check_case_with impl_now.

Definition mk_final (ss : list nat) (ts : list ptree) (lx : option (nat * nat)) : final := Some (ss, ts, lx).
Definition mk_cbdata (d : nat) (e1 : bool) (f : option (list (nat * bool * nat) * nat)) : cbdata := (d, e1, f).
Definition mk_tp (id : nat) (s e : Z * Z * Z) : nat * trip2 := (id, (s, e)).
Definition mk_meta (a b c d : option (Z * Z * Z)) : meta := MetaSpan.mkMeta a b c d.
Definition mk_trip (a b c : Z) : Z * Z * Z := (a, b, c).
