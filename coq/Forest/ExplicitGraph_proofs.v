(* C04 layer B on cyclic forests - proofs about the walk of Forest/ExplicitGraph.v:
     gsym_unf        what the walk keeps is a pruned finite unfolding of the graph (also through the cache)
     unfn_wf         a pruned unfolding of a locally well-formed graph is a well-formed acyclic forest (root_okb), so the
                     theorems about acyclic forests (B_expand_exact, B_tree_tidy, the collapse theorems) apply to the result
     unfn_gder       every derivation of the pruned unfolding is a finite unfolding (derivation) of the graph
     gsym_total      the walk never runs out of its fuel |g| + 1: the path is duplicate-free *)
From Coq Require Import String Ascii Bool Arith List Lia.
From LV Require Import Base.Prelude Forest.ExplicitToTree Forest.ExplicitCheck Forest.ExplicitToTree_proofs
  Forest.ExplicitGraph Forest.ExplicitGraphCheck.
Import ListNotations.
Local Open Scope list_scope.

Lemma gmem_In x l : gmem x l = true <-> In x l.
Proof.
  induction l as [|y l IH]; simpl; [split; [discriminate|tauto]|].
  rewrite orb_true_iff, Nat.eqb_eq, IH. split; intros [H|H]; auto.
Qed.

Lemma cache_get_In n k c p : cache_get n k c = Some p -> In (n, k, p) c.
Proof.
  induction c as [|[[n' k'] p'] c IH]; simpl; [discriminate|].
  destruct (Nat.eqb_spec n n'); simpl; [destruct (Nat.eqb_spec k k'); simpl|]; auto.
  intros E; inversion E; subst; auto.
Qed.

(* ---- derivations of a graph: its finite unfoldings, as children sequences (the shape of ExplicitToTree.dn) ---- *)
Inductive gder (g : graph) : nat -> list dtree -> Prop :=
| gder_tok n ty v : nth_error g n = Some (GTok ty v) -> gder g n [DTok ty v]
| gder_sym n l fams gp dl dr : nth_error g n = Some (GSym l fams) -> In gp fams ->
    gder_opt g (gp_left gp) dl -> gder_opt g (gp_right gp) dr ->
    gder g n (match l with LSym _ => [DNode (gp_rule gp) (dl ++ dr)] | LInter _ _ => dl ++ dr end)
with gder_opt (g : graph) : option nat -> list dtree -> Prop :=
| gdo_none : gder_opt g None []
| gdo_some m ds : gder g m ds -> gder_opt g (Some m) ds.

(* ---- nd is a pruned unfolding of node n of the graph ---- *)
Definition optunf (U : nat -> node -> Prop) (o : option nat) (x : option node) : Prop :=
  match o, x with
  | None, None => True
  | Some m, Some nd => U m nd
  | _, _ => False
  end.

Section Unf.
  Variable g : graph.

  Fixpoint unfn (n : nat) (nd : node) : Prop :=
    match nd with
    | TokN ty v => nth_error g n = Some (GTok ty v)
    | SymN l ps =>
        exists fams, nth_error g n = Some (GSym l fams) /\ ps <> [] /\
          (fix go (ps : list packed) : Prop :=
             match ps with
             | [] => True
             | p :: r => (exists gp, In gp fams /\ unfp gp p) /\ go r
             end) ps
    end
  with unfp (gp : gpack) (p : packed) : Prop :=
    match p with
    | Pack r lf rt =>
        r = gp_rule gp /\
        match gp_left gp, lf with None, None => True | Some m, Some nd => unfn m nd | _, _ => False end /\
        match gp_right gp, rt with None, None => True | Some m, Some nd => unfn m nd | _, _ => False end
    end.

  Lemma unfn_SymN n l ps :
    unfn n (SymN l ps) <->
    exists fams, nth_error g n = Some (GSym l fams) /\ ps <> [] /\
                 Forall (fun p => exists gp, In gp fams /\ unfp gp p) ps.
  Proof.
    simpl. split; intros (fams & H1 & H2 & H3); exists fams; repeat split; auto; clear H2.
    - induction ps as [|p r IH]; constructor; [apply H3|apply IH; apply H3].
    - induction H3 as [|p r Hp Hr IH]; simpl; auto.
  Qed.

  Lemma unfp_Pack gp r lf rt :
    unfp gp (Pack r lf rt) <-> r = gp_rule gp /\ optunf unfn (gp_left gp) lf /\ optunf unfn (gp_right gp) rt.
  Proof. reflexivity. Qed.

  (* ---- the walk keeps pruned unfoldings ---- *)
  Definition cache_ok (c : gcache) : Prop :=
    forall n k p', In (n, k, p') c ->
      exists l fams gp, nth_error g n = Some (GSym l fams) /\ nth_error fams k = Some gp /\ unfp gp p'.

  Definition rec_ok (rec : gcache -> nat -> gres) : Prop :=
    forall c m o c', cache_ok c -> rec c m = Some (o, c') ->
      cache_ok c' /\ (forall nd, o = Some nd -> unfn m nd).

  Lemma gchild_ok rec path c o r c' :
    rec_ok rec -> cache_ok c -> gchild rec path c o = Some (r, c') ->
    cache_ok c' /\ (forall x, r = Some x -> optunf unfn o x).
  Proof.
    intros HR HC. unfold gchild. destruct o as [m|].
    - destruct (gmem m path).
      + intros E; inversion E; subst. split; auto. discriminate.
      + destruct (rec c m) as [[[nd|] c1]|] eqn:Er; try discriminate; intros E; inversion E; subst;
          destruct (HR _ _ _ _ HC Er) as (H1 & H2); split; auto; try discriminate.
        intros x Ex. inversion Ex; subst. simpl. auto.
    - intros E; inversion E; subst. split; auto. intros x Ex. inversion Ex; subst. exact I.
  Qed.

  Lemma gpacked_ok rec path c n k p l fams o c' :
    rec_ok rec -> cache_ok c -> nth_error g n = Some (GSym l fams) -> nth_error fams k = Some p ->
    gpacked rec path c n k p = Some (o, c') ->
    cache_ok c' /\ (forall p', o = Some p' -> unfp p p').
  Proof.
    intros HR HC Hn Hk. unfold gpacked. destruct (cache_get n k c) as [pc|] eqn:Ec.
    - intros E; inversion E; subst. split; auto. intros p' Ep; inversion Ep; subst.
      apply cache_get_In in Ec. destruct (HC _ _ _ Ec) as (l0 & fams0 & gp & H1 & H2 & H3).
      rewrite Hn in H1. inversion H1; subst. rewrite Hk in H2. inversion H2; subst. auto.
    - destruct (gchild rec path c (gp_left p)) as [[[lf|] c1]|] eqn:El; try discriminate.
      + destruct (gchild_ok _ _ _ _ _ _ HR HC El) as (HC1 & HL).
        destruct (gchild rec path c1 (gp_right p)) as [[[rt|] c2]|] eqn:Er; try discriminate.
        * destruct (gchild_ok _ _ _ _ _ _ HR HC1 Er) as (HC2 & HRt).
          intros E; inversion E; subst. split.
          -- intros n0 k0 p0 [E0|Hin]; [|apply HC2; auto]. inversion E0; subst.
             exists l, fams, p. repeat split; auto; [apply (HL lf eq_refl)|apply (HRt rt eq_refl)].
          -- intros p' Ep; inversion Ep; subst. apply unfp_Pack. repeat split; auto.
        * destruct (gchild_ok _ _ _ _ _ _ HR HC1 Er) as (HC2 & _).
          intros E; inversion E; subst. split; auto. discriminate.
      + destruct (gchild_ok _ _ _ _ _ _ HR HC El) as (HC1 & _).
        intros E; inversion E; subst. split; auto. discriminate.
  Qed.

  Lemma gfams_ok rec path n l fams : rec_ok rec -> nth_error g n = Some (GSym l fams) ->
    forall fs k c ps c', cache_ok c -> (forall j gp, nth_error fs j = Some gp -> nth_error fams (k + j) = Some gp) ->
      gfams rec path n k fs c = Some (ps, c') ->
      cache_ok c' /\ Forall (fun p => exists gp, In gp fams /\ unfp gp p) ps.
  Proof.
    intros HR Hn. induction fs as [|p r IH]; intros k c ps c' HC Hsuf; simpl.
    - intros E; inversion E; subst. split; auto.
    - destruct (gpacked rec path c n k p) as [[o c1]|] eqn:Ep; try discriminate.
      assert (Hk : nth_error fams k = Some p) by (rewrite <- (Nat.add_0_r k); apply Hsuf; reflexivity).
      destruct (gpacked_ok _ _ _ _ _ _ _ _ _ _ HR HC Hn Hk Ep) as (HC1 & Ho).
      destruct (gfams rec path n (S k) r c1) as [[ps1 c2]|] eqn:Er; try discriminate.
      destruct (IH (S k) c1 ps1 c2 HC1) as (HC2 & Hps); auto.
      { intros j gp Hj. replace (S k + j) with (k + S j) by lia. apply Hsuf. exact Hj. }
      intros E; inversion E; subst. split; auto.
      destruct o as [p'|]; auto. constructor; auto. exists p. split; [eapply nth_error_In; eauto|auto].
  Qed.

  Theorem gsym_unf fuel : forall path, rec_ok (gsym g fuel path).
  Proof.
    induction fuel as [|f IH]; intros path c n o c' HC; simpl; [discriminate|].
    destruct (nth_error g n) as [[ty v|l fams]|] eqn:En; try discriminate.
    - intros E; inversion E; subst. split; auto. intros nd End; inversion End; subst. exact En.
    - destruct (gfams (gsym g f (n :: path)) (n :: path) n 0 fams c) as [[ps c1]|] eqn:Ef; try discriminate.
      destruct (gfams_ok _ _ _ _ _ (IH (n :: path)) En fams 0 c ps c1 HC (fun j gp H => H) Ef) as (HC1 & Hps).
      destruct ps as [|p ps]; intros E; inversion E; subst; split; auto; try discriminate.
      intros nd End; inversion End; subst. apply unfn_SymN. exists fams. repeat split; auto. discriminate.
  Qed.

  Lemma cache_ok_nil : cache_ok [].
  Proof. intros n k p []. Qed.

  (* ---- a pruned unfolding of a locally well-formed graph is a well-formed forest ---- *)
  Hypothesis Hwf : gwfb g = true.

  Lemma gwf_node n nd : nth_error g n = Some nd -> gwfn g nd = true.
  Proof.
    intros H. unfold gwfb in Hwf. rewrite forallb_forall in Hwf. apply Hwf. eapply nth_error_In; eauto.
  Qed.

  Lemma unfn_sym_matches s m nd : unfn m nd -> gsym_matches s (nth_error g m) = true -> sym_matches s nd = true.
  Proof.
    destruct nd as [ty v|l ps].
    - simpl. intros ->. auto.
    - intros H. apply unfn_SymN in H. destruct H as (fams & -> & _). simpl. destruct l; auto.
  Qed.

  Definition Wn (nd : node) : Prop := forall n, unfn n nd -> wfnb nd = true.
  Definition Wp (p : packed) : Prop := forall l gp, gwfp g l gp = true -> unfp gp p -> wfpb l p = true.

  Lemma Wp_Pack r lf rt : optP Wn lf -> optP Wn rt -> Wp (Pack r lf rt).
  Proof.
    intros Hl Hr l gp Hg Hu. apply unfp_Pack in Hu. destruct Hu as (-> & Ul & Ur).
    unfold gwfp in Hg. simpl wfpb.
    apply andb_true_iff in Hg. destruct Hg as (Hg0 & Hg). rewrite Hg0. simpl.
    set (k := match l with LSym _ => length (x_exp (gp_rule gp)) | LInter _ k0 => k0 end) in *.
    destruct k as [|k'].
    - destruct (gp_left gp), (gp_right gp); try discriminate. destruct lf, rt; simpl in *; tauto.
    - apply andb_true_iff in Hg. destruct Hg as (Hrt & Hlf).
      destruct (gp_right gp) as [mr|]; [|discriminate]. destruct rt as [rn|]; [|destruct Ur]. simpl in Ur, Hr.
      rewrite (unfn_sym_matches _ _ _ Ur Hrt), (Hr _ Ur). simpl.
      destruct k' as [|k''].
      + destruct (gp_left gp); [discriminate|]. destruct lf; [destruct Ul|]. reflexivity.
      + destruct (gp_left gp) as [ml|]; [|discriminate]. destruct lf as [ln|]; [|destruct Ul]. simpl in Ul, Hl.
        rewrite (Hl _ Ul). destruct (nth_error g ml) as [[|[|r2 k2] fs]|] eqn:Eml; try discriminate.
        destruct ln as [ty v|l2 ps2].
        * simpl in Ul. congruence.
        * apply unfn_SymN in Ul. destruct Ul as (fams2 & E2 & _). rewrite Eml in E2. inversion E2; subst.
          rewrite Hlf. reflexivity.
  Qed.

  Lemma Wn_SymN l ps : Forall Wp ps -> Wn (SymN l ps).
  Proof.
    intros HQ n Hu. apply unfn_SymN in Hu. destruct Hu as (fams & En & Hne & Hps).
    rewrite wfnb_SymN. apply andb_true_iff. split; [destruct ps; [congruence|reflexivity]|].
    apply forallb_forall. intros p Hp. rewrite Forall_forall in HQ, Hps.
    destruct (Hps p Hp) as (gp & Hgp & Hup).
    apply (HQ p Hp l gp); auto.
    pose proof (gwf_node _ _ En) as Hn. simpl in Hn. apply andb_true_iff in Hn. destruct Hn as (_ & Hn).
    rewrite forallb_forall in Hn. auto.
  Qed.

  Theorem unfn_wf nd : Wn nd.
  Proof.
    apply (node_ind2 Wn Wp).
    - intros ty v n _. reflexivity.
    - apply Wn_SymN.
    - apply Wp_Pack.
  Qed.
End Unf.

(* ---- derivations of a pruned unfolding are derivations of the graph ---- *)
Section Der.
  Variable g : graph.

  Definition Dn (nd : node) : Prop := forall n, unfn g n nd -> forall ds, In ds (dn nd) -> gder g n ds.
  Definition Dp (p : packed) : Prop :=
    forall gp, unfp g gp p -> forall ds, In ds (dp p) ->
      exists dl dr, ds = dl ++ dr /\ gder_opt g (gp_left gp) dl /\ gder_opt g (gp_right gp) dr.

  Lemma Dp_Pack r lf rt : optP Dn lf -> optP Dn rt -> Dp (Pack r lf rt).
  Proof.
    intros Hl Hr gp Hu ds Hds. apply unfp_Pack in Hu. destruct Hu as (_ & Ul & Ur).
    rewrite dp_eq in Hds. apply In_app_product in Hds. destruct Hds as (x & y & -> & Hx & Hy).
    exists x, y. split; auto. split.
    - destruct (gp_left gp) as [m|], lf as [ln|]; simpl in Ul; try tauto.
      + constructor. apply (Hl m Ul); auto.
      + destruct Hx as [<-|[]]. constructor.
    - destruct (gp_right gp) as [m|], rt as [rn|]; simpl in Ur; try tauto.
      + constructor. apply (Hr m Ur); auto.
      + destruct Hy as [<-|[]]. constructor.
  Qed.

  Lemma Dn_SymN l ps : Forall Dp ps -> Dn (SymN l ps).
  Proof.
    intros HQ n Hu ds Hds. apply unfn_SymN in Hu. destruct Hu as (fams & En & _ & Hps).
    rewrite dn_SymN in Hds. apply in_flat_map in Hds. destruct Hds as (p & Hp & Hd).
    rewrite Forall_forall in HQ, Hps. destruct (Hps p Hp) as (gp & Hgp & Hup).
    assert (Er : prule p = gp_rule gp).
    { destruct p as [r0 lf0 rt0]. pose proof (proj1 (unfp_Pack g gp r0 lf0 rt0) Hup) as (E & _). exact E. }
    destruct l as [a|r k].
    - apply in_map_iff in Hd. destruct Hd as (ks & <- & Hks).
      destruct (HQ p Hp gp Hup ks Hks) as (dl & dr & -> & H1 & H2). rewrite Er.
      exact (gder_sym g n (LSym a) fams gp dl dr En Hgp H1 H2).
    - destruct (HQ p Hp gp Hup ds Hd) as (dl & dr & -> & H1 & H2).
      exact (gder_sym g n (LInter r k) fams gp dl dr En Hgp H1 H2).
  Qed.

  Theorem unfn_gder nd : Dn nd.
  Proof.
    apply (node_ind2 Dn Dp).
    - intros ty v n Hu ds [<-|[]]. simpl in Hu. constructor; auto.
    - apply Dn_SymN.
    - apply Dp_Pack.
  Qed.
End Der.

(* ---- the fuel suffices ---- *)
Section Fuel.
  Variable g : graph.
  Hypothesis Hwf : gwfb g = true.

  Definition in_range (o : option nat) : Prop := match o with Some m => m < length g | None => True end.

  Lemma gwf_children n l fams p : nth_error g n = Some (GSym l fams) -> In p fams ->
    in_range (gp_left p) /\ in_range (gp_right p).
  Proof.
    intros En Hp. pose proof (gwf_node g Hwf _ _ En) as Hn. simpl in Hn.
    apply andb_true_iff in Hn. destruct Hn as (_ & Hn). rewrite forallb_forall in Hn. specialize (Hn p Hp).
    unfold gwfp in Hn. apply andb_true_iff in Hn. destruct Hn as (_ & Hn).
    destruct (match l with LSym _ => length (x_exp (gp_rule p)) | LInter _ k => k end) as [|k'].
    - destruct (gp_left p), (gp_right p); try discriminate. simpl; auto.
    - apply andb_true_iff in Hn. destruct Hn as (Hr & Hl). split.
      + destruct (gp_left p) as [m|]; simpl; auto. destruct k'; [discriminate|].
        destruct (nth_error g m) eqn:E; [|discriminate]. apply nth_error_Some. congruence.
      + destruct (gp_right p) as [m|]; simpl; auto.
        destruct (nth_error g m) eqn:E; [|discriminate]. apply nth_error_Some. congruence.
  Qed.

  Definition rec_total (rec : gcache -> nat -> gres) (path : list nat) : Prop :=
    forall c m, m < length g -> ~ In m path -> rec c m <> None.

  Lemma gchild_total rec path c o : rec_total rec path -> in_range o -> gchild rec path c o <> None.
  Proof.
    intros HR Ho. unfold gchild. destruct o as [m|]; [|discriminate].
    destruct (gmem m path) eqn:Em; [discriminate|].
    assert (Hn : ~ In m path) by (intros H; apply gmem_In in H; congruence).
    specialize (HR c m Ho Hn). destruct (rec c m) as [[[nd|] c1]|]; try discriminate. congruence.
  Qed.

  Lemma gpacked_total rec path c n k p : rec_total rec path -> in_range (gp_left p) -> in_range (gp_right p) ->
    gpacked rec path c n k p <> None.
  Proof.
    intros HR Hl Hr. unfold gpacked. destruct (cache_get n k c); [discriminate|].
    pose proof (gchild_total rec path c _ HR Hl) as H1.
    destruct (gchild rec path c (gp_left p)) as [[[lf|] c1]|]; try discriminate; try congruence.
    pose proof (gchild_total rec path c1 _ HR Hr) as H2.
    destruct (gchild rec path c1 (gp_right p)) as [[[rt|] c2]|]; try discriminate; congruence.
  Qed.

  Lemma gfams_total rec path n : rec_total rec path ->
    forall fs k c, (forall p, In p fs -> in_range (gp_left p) /\ in_range (gp_right p)) ->
      gfams rec path n k fs c <> None.
  Proof.
    intros HR. induction fs as [|p r IH]; intros k c Hfs; simpl; [discriminate|].
    destruct (Hfs p (or_introl eq_refl)) as (Hl & Hr).
    pose proof (gpacked_total rec path c n k p HR Hl Hr) as H1.
    destruct (gpacked rec path c n k p) as [[o c1]|]; [|congruence].
    specialize (IH (S k) c1 (fun q Hq => Hfs q (or_intror Hq))).
    destruct (gfams rec path n (S k) r c1) as [[ps c2]|]; [discriminate|congruence].
  Qed.

  Lemma path_bound (path : list nat) : NoDup path -> (forall x, In x path -> x < length g) -> length path <= length g.
  Proof.
    intros Hnd Hb. rewrite <- (seq_length (length g) 0). apply NoDup_incl_length; auto.
    intros x Hx. apply in_seq. specialize (Hb x Hx). lia.
  Qed.

  Theorem gsym_total fuel : forall path, NoDup path -> (forall x, In x path -> x < length g) ->
    length g - length path <= fuel -> rec_total (gsym g fuel path) path.
  Proof.
    induction fuel as [|f IH]; intros path Hnd Hb Hf c n Hn Hnot.
    - exfalso. assert (H : length (n :: path) <= length g).
      { apply path_bound; [constructor; auto|]. intros x [<-|Hx]; auto. }
      simpl in H. lia.
    - simpl. destruct (nth_error g n) as [[ty v|l fams]|] eqn:En.
      + discriminate.
      + assert (Hnd' : NoDup (n :: path)) by (constructor; auto).
        assert (Hb' : forall x, In x (n :: path) -> x < length g) by (intros x [<-|Hx]; auto).
        assert (Hf' : length g - length (n :: path) <= f) by (simpl; lia).
        pose proof (gfams_total (gsym g f (n :: path)) (n :: path) n (IH _ Hnd' Hb' Hf') fams 0 c
                      (fun p Hp => gwf_children n l fams p En Hp)) as H.
        destruct (gfams (gsym g f (n :: path)) (n :: path) n 0 fams c) as [[[|p ps] c1]|]; try discriminate. congruence.
      + apply nth_error_None in En. lia.
  Qed.
End Fuel.

(* ---- the theorems about transform(root) ---- *)
Section Top.
  Variable g : graph.
  Hypothesis Hwf : gwfb g = true.

  Theorem gunfold_total root : root < length g -> gunfold g root <> None.
  Proof.
    intros Hr. unfold gunfold.
    pose proof (gsym_total g Hwf (S (length g)) [] (NoDup_nil _) (fun x H => match H with end) ltac:(simpl; lia) [] root Hr
                  (fun H => H)) as H.
    destruct (gsym g (S (length g)) [] [] root) as [[o c]|]; [discriminate|congruence].
  Qed.

  Theorem gunfold_unf root nd : gunfold g root = Some (Some nd) -> unfn g root nd.
  Proof.
    unfold gunfold. destruct (gsym g (S (length g)) [] [] root) as [[o c]|] eqn:E; [|discriminate].
    intros H; inversion H; subst.
    destruct (gsym_unf g _ _ _ _ _ _ (cache_ok_nil g) E) as (_ & H2). auto.
  Qed.

  (* the kept part of a cyclic forest is a well-formed acyclic forest whose derivations are derivations of the graph;
     hence the explicit tree expands exactly to the shapes of the derivations of the kept part, each of which is a
     finite unfolding of the forest lark transformed *)
  Theorem graph_explicit_sound root nd :
    groot_okb g root = true -> gunfold g root = Some (Some nd) ->
    root_okb nd = true
    /\ (forall t, In t (expand (to_tree_explicit nd)) <-> In t (map shape (derivs nd)))
    /\ (forall d, In d (derivs nd) -> gder g root [d]).
  Proof.
    intros Hroot Hu. pose proof (gunfold_unf _ _ Hu) as HU.
    assert (Hok : root_okb nd = true).
    { unfold groot_okb in Hroot. destruct (nth_error g root) as [[|[a|] fams]|] eqn:En; try discriminate.
      destruct nd as [ty v|l ps]; [simpl in HU; congruence|].
      pose proof HU as HU'. apply unfn_SymN in HU'. destruct HU' as (fams' & E' & _). rewrite En in E'. inversion E'; subst.
      simpl root_okb. apply (unfn_wf g Hwf _ _ HU). }
    split; auto. split; [apply B_expand_exact; auto|].
    intros d Hd. unfold derivs in Hd. apply in_concat in Hd. destruct Hd as (ds & Hds & Hin).
    pose proof (unfn_gder g nd root HU ds Hds) as Hg.
    destruct (root_NIF nd Hok) as (_ & (_ & _ & _ & Hs)). destruct (Hs ds Hds) as (d0 & ->).
    destruct Hin as [<-|[]]. exact Hg.
  Qed.
End Top.

(* ---- what is kept on a cyclic forest is NOT "the derivations without a repeated node", in either direction ----
   sder: the derivations of the graph in which no node occurs twice on a path from the root (what a walk that only
   refuses to re-enter a node on its path, without a cache, would keep).  Because the transformation of a packed node is
   cached under the path of its first visit and reused under other paths, the walk (a) loses such derivations and (b)
   keeps derivations that do pass twice through a node; which ones depends on the order of the packed children.
   Witness: the forests lark builds on "a" for
       start: a | x     a: x | A     x: y     y: a | A     A: "a"          (cx_g:  start(x(y(a))) is lost)
       start: x | a     (the same, alternatives of start swapped)          (cx_g2: start(a(x(y(a)))) is kept)
   exported by the harness (stream cyclic-corpus compares lark's trees with the model's on both). *)
Inductive sder (g : graph) : list nat -> nat -> list dtree -> Prop :=
| sder_tok path n ty v : nth_error g n = Some (GTok ty v) -> sder g path n [DTok ty v]
| sder_sym path n l fams gp dl dr : nth_error g n = Some (GSym l fams) -> ~ In n path -> In gp fams ->
    sder_opt g (n :: path) (gp_left gp) dl -> sder_opt g (n :: path) (gp_right gp) dr ->
    sder g path n (match l with LSym _ => [DNode (gp_rule gp) (dl ++ dr)] | LInter _ _ => dl ++ dr end)
with sder_opt (g : graph) : list nat -> option nat -> list dtree -> Prop :=
| sdo_none path : sder_opt g path None []
| sdo_some path m ds : sder g path m ds -> sder_opt g path (Some m) ds.

Local Open Scope string_scope.
Local Open Scope list_scope.
Definition cx_s (nm : string) : xrule := mkX nm nm false false false [mkSym "x" false false] [].
Definition cx_start_a := mkX "start" "start" false false false [mkSym "a" false false] [].
Definition cx_start_x := mkX "start" "start" false false false [mkSym "x" false false] [].
Definition cx_a_x := mkX "a" "a" false false false [mkSym "x" false false] [].
Definition cx_a_A := mkX "a" "a" false false false [mkSym "A" true false] [].
Definition cx_x_y := mkX "x" "x" false false false [mkSym "y" false false] [].
Definition cx_y_a := mkX "y" "y" false false false [mkSym "a" false false] [].
Definition cx_y_A := mkX "y" "y" false false false [mkSym "A" true false] [].

Definition cx_g : graph :=
  [GSym (LSym "start") [mkGP cx_start_a None (Some 1); mkGP cx_start_x None (Some 2)];
   GSym (LSym "a") [mkGP cx_a_x None (Some 2); mkGP cx_a_A None (Some 3)];
   GSym (LSym "x") [mkGP cx_x_y None (Some 4)];
   GTok "A" "a";
   GSym (LSym "y") [mkGP cx_y_a None (Some 1); mkGP cx_y_A None (Some 5)];
   GTok "A" "a"].
Definition cx_tree : tree :=
  Nd "_ambig" [Nd "start" [Nd "_ambig" [Nd "a" [Nd "x" [Nd "y" [Tk "A" "a"]]]; Nd "a" [Tk "A" "a"]]];
               Nd "start" [Nd "x" [Nd "y" [Tk "A" "a"]]]].
Definition cx_lost : dtree := DNode cx_start_x [DNode cx_x_y [DNode cx_y_a [DNode cx_a_A [DTok "A" "a"]]]].

Definition cx_g2 : graph :=
  [GSym (LSym "start") [mkGP cx_start_x None (Some 1); mkGP cx_start_a None (Some 2)];
   GSym (LSym "x") [mkGP cx_x_y None (Some 3)];
   GSym (LSym "a") [mkGP cx_a_x None (Some 1); mkGP cx_a_A None (Some 4)];
   GSym (LSym "y") [mkGP cx_y_a None (Some 2); mkGP cx_y_A None (Some 5)];
   GTok "A" "a";
   GTok "A" "a"].
Definition cx_tree2 : tree :=
  Nd "_ambig" [Nd "start" [Nd "x" [Nd "_ambig" [Nd "y" [Nd "a" [Tk "A" "a"]]; Nd "y" [Tk "A" "a"]]]];
               Nd "start" [Nd "_ambig" [Nd "a" [Nd "x" [Nd "_ambig" [Nd "y" [Nd "a" [Tk "A" "a"]]; Nd "y" [Tk "A" "a"]]]];
                                        Nd "a" [Tk "A" "a"]]]].
Definition cx_pumped : dtree :=
  DNode cx_start_a [DNode cx_a_x [DNode cx_x_y [DNode cx_y_a [DNode cx_a_A [DTok "A" "a"]]]]].

Lemma sder_unit g path n a fams gp m d :
  nth_error g n = Some (GSym (LSym a) fams) -> ~ In n path -> In gp fams -> gp_left gp = None -> gp_right gp = Some m ->
  sder g (n :: path) m [d] -> sder g path n [DNode (gp_rule gp) [d]].
Proof.
  intros En Hp Hg Hl Hr Hd.
  pose proof (sder_sym g path n (LSym a) fams gp [] [d] En Hp Hg) as H. rewrite Hl, Hr in H.
  apply H; constructor; auto.
Qed.

Lemma sder_unit_inv g path n a fams r ks :
  sder g path n [DNode r ks] -> nth_error g n = Some (GSym (LSym a) fams) ->
  (forall gp, In gp fams -> gp_left gp = None) ->
  ~ In n path /\ exists gp, In gp fams /\ gp_rule gp = r /\ sder_opt g (n :: path) (gp_right gp) ks.
Proof.
  intros Hs En Hleft. inversion Hs as [|? ? l fams0 gp dl dr E0 Hp Hg Hl Hr E1 E2 E3]. subst.
  rewrite En in E0. inversion E0; subst. split; auto.
  inversion E3; subst. rewrite (Hleft gp Hg) in Hl. inversion Hl; subst. exists gp. auto.
Qed.

Theorem cyclic_kept_is_order_dependent :
  (gwfb cx_g = true /\ groot_okb cx_g 0 = true /\
   exists nd, gunfold cx_g 0 = Some (Some nd) /\ to_tree_explicit nd = cx_tree /\ length (derivs nd) = 3 /\
              sder cx_g [] 0 [cx_lost] /\ ~ In cx_lost (derivs nd))
  /\
  (gwfb cx_g2 = true /\ groot_okb cx_g2 0 = true /\
   exists nd, gunfold cx_g2 0 = Some (Some nd) /\ to_tree_explicit nd = cx_tree2 /\ length (derivs nd) = 5 /\
              In cx_pumped (derivs nd) /\ ~ sder cx_g2 [] 0 [cx_pumped]).
Proof.
  split.
  - split; [vm_compute; reflexivity|]. split; [vm_compute; reflexivity|].
    eexists. split; [vm_compute; reflexivity|]. split; [vm_compute; reflexivity|]. split; [vm_compute; reflexivity|]. split.
    + unfold cx_lost.
      eapply (sder_unit cx_g [] 0 "start" _ (mkGP cx_start_x None (Some 2)) 2); try reflexivity; simpl; auto.
      eapply (sder_unit cx_g [0] 2 "x" _ (mkGP cx_x_y None (Some 4)) 4); try reflexivity; simpl; [intuition lia|auto|].
      eapply (sder_unit cx_g [2; 0] 4 "y" _ (mkGP cx_y_a None (Some 1)) 1); try reflexivity; simpl; [intuition lia|auto|].
      eapply (sder_unit cx_g [4; 2; 0] 1 "a" _ (mkGP cx_a_A None (Some 3)) 3); try reflexivity; simpl; [intuition lia|auto|].
      apply sder_tok. reflexivity.
    + vm_compute. intros H. repeat (destruct H as [H|H]; [discriminate H|]). exact H.
  - split; [vm_compute; reflexivity|]. split; [vm_compute; reflexivity|].
    eexists. split; [vm_compute; reflexivity|]. split; [vm_compute; reflexivity|]. split; [vm_compute; reflexivity|]. split.
    + vm_compute. tauto.
    + (* the tree passes through node 2 (a) twice *)
      intros H. unfold cx_pumped in H.
      pose proof (fun path n a fams r ks Hs En => sder_unit_inv cx_g2 path n a fams r ks Hs En) as Inv.
      destruct (Inv _ _ _ _ _ _ H eq_refl) as (_ & gp0 & Hg0 & E0 & R0); [simpl; intuition (subst; auto)|].
      simpl in Hg0. destruct Hg0 as [<-|[<-|[]]]; try discriminate E0. inversion R0 as [|? ? ? S1]; subst. clear H R0 E0.
      destruct (Inv _ _ _ _ _ _ S1 eq_refl) as (_ & gp1 & Hg1 & E1 & R1); [simpl; intuition (subst; auto)|].
      simpl in Hg1. destruct Hg1 as [<-|[<-|[]]]; try discriminate E1. inversion R1 as [|? ? ? S2]; subst. clear S1 R1 E1.
      destruct (Inv _ _ _ _ _ _ S2 eq_refl) as (_ & gp2 & Hg2 & E2 & R2); [simpl; intuition (subst; auto)|].
      simpl in Hg2. destruct Hg2 as [<-|[]]; try discriminate E2. inversion R2 as [|? ? ? S3]; subst. clear S2 R2 E2.
      destruct (Inv _ _ _ _ _ _ S3 eq_refl) as (_ & gp3 & Hg3 & E3 & R3); [simpl; intuition (subst; auto)|].
      simpl in Hg3. destruct Hg3 as [<-|[<-|[]]]; try discriminate E3. inversion R3 as [|? ? ? S4]; subst. clear S3 R3 E3.
      destruct (Inv _ _ _ _ _ _ S4 eq_refl) as (Hnot & _); [simpl; intuition (subst; auto)|].
      apply Hnot. simpl. auto.
Qed.
