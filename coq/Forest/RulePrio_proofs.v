(* C05: the priority a compiled alternative carries is the one declared for its definition (Grammar.compile step 4,
   regenerated into Gen/RulePriority.v), hence what Lark.__init__ loads under a mode is the mode's image of the
   declared priority - for every Rule object, also those with absent [..] placeholders that own a copied options object. *)
From Coq Require Import ZArith.
From LV Require Import Forest.Sppf Forest.Prio Gen.RulePriority.

Lemma compiled_priority_is_declared (m : pmode) (declared : option Z) (absent_placeholders : bool) :
  load_rprio m (compiled_priority declared absent_placeholders) = load_rprio m declared.
Proof. unfold compiled_priority. destruct absent_placeholders; reflexivity. Qed.
