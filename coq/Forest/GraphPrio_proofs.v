(* C05 on graph forests: for an acyclic label-keyed forest annotated with the priorities ForestSumVisitor leaves
   on the nodes, the tree kept by the resolve walk (children ordered by the regenerated PackedNode.sort_key) has
   the greatest total priority among all unfoldings the forest stores. *)
From Coq Require Import ZArith List Arith Bool Lia.
From LV Require Import Cfg.Grammar Forest.ExplicitBuild Forest.GraphResolve Forest.GraphResolve_proofs
  Gen.ForestSortKey Forest.Sppf Forest.Prio Forest.Prio_proofs.
Import ListNotations.
Local Open Scope Z_scope.

Section GraphPrio.
  Variable tok : Type.
  Variable teqb : tok -> tok -> bool.
  Hypothesis teqb_spec : forall a b, teqb a b = true <-> a = b.
  Variable fams : list (nlabel tok * family tok).

  Notation label := (nlabel tok).
  Notation F := (in_forest tok fams).
  Notation fams_of := (fams_of tok teqb fams).

  Variable rprio : rule -> Z.          (* rule.options.priority or 0 *)
  Variable rorder : rule -> Z.         (* rule.order *)
  Variable tprio : nat -> tok -> Z.    (* TokenNode.priority *)

  (* total priority of a derivation *)
  Fixpoint gprio (d : dt tok) : Z :=
    match d with
    | DL _ t x => tprio t x
    | DN _ r ks => rprio r + fold_right (fun k acc => gprio k + acc) 0 ks
    end.
  Definition gfprio (ds : list (dt tok)) : Z := fold_right (fun k acc => gprio k + acc) 0 ds.

  (* the priorities on the nodes after ForestSumVisitor: on an acyclic forest its single post-order walk leaves the
     unique solution of these equations (token: its own priority; packed node: rule priority - under a completed
     symbol only - plus its children; symbol node: the maximum of its packed children) *)
  Variable pr : label -> Z.
  Variable prf : label -> family tok -> Z.
  Definition is_sym (l : label) : bool := match l with NSym _ _ _ _ => true | _ => false end.
  Definition pro (o : option label) : Z := match o with None => 0 | Some l => pr l end.
  Hypothesis pr_tok : forall t x i j, pr (NTok tok t x i j) = tprio t x.
  Hypothesis prf_eq : forall lbl r l rt, F lbl (r, l, rt) ->
    prf lbl (r, l, rt) = (if is_sym lbl then rprio r else 0) + pro rt + pro l.
  Hypothesis pr_max : forall lbl, is_tok tok lbl = false -> fams_of lbl <> [] ->
    is_max (pr lbl) (map (prf lbl) (fams_of lbl)).

  (* token nodes have no packed children *)
  Hypothesis tok_no_family : forall t x i j f, ~ F (NTok tok t x i j) f.

  Definition fam_empty (fm : family tok) : bool :=
    match fm with (_, None, None) => true | _ => false end.
  Definition fkey (lbl : label) (fm : family tok) : key :=
    sort_key (fam_empty fm) (prf lbl fm) (rorder (fst (fst fm))).
  (* SymbolNode.children *)
  Definition order_key (lbl : label) (fs : list (family tok)) : list (family tok) :=
    map snd (ksort (map (fun fm => (fkey lbl fm, fm)) fs)).

  Lemma order_key_perm l fs f : In f (order_key l fs) <-> In f fs.
  Proof.
    unfold order_key. rewrite in_map_iff. split.
    - intros [[k y] [<- H]]. apply (proj1 (ksort_in _ _)) in H. apply in_map_iff in H.
      destruct H as [x [E Hx]]. cbn. congruence.
    - intros H. exists (fkey l f, f). split; [reflexivity|]. apply ksort_in. apply in_map_iff. eauto.
  Qed.

  Lemma order_key_hd l fs : hd_error (order_key l fs) = best_by (fkey l) fs.
  Proof.
    unfold order_key. rewrite hd_error_map, hd_ksort. rewrite (kbest_map (fkey l) (fun fm => fm)).
    destruct (best_by _ fs); reflexivity.
  Qed.

  Notation gres := (gres tok teqb fams order_key).

  Lemma gfprio_app a b : gfprio (a ++ b) = gfprio a + gfprio b.
  Proof. unfold gfprio. induction a as [|x a IH]; cbn [app fold_right]; [lia|]. rewrite IH. lia. Qed.

  Lemma gfprio_pack lbl r ds : gfprio (pack tok lbl r ds) = (if is_sym lbl then rprio r else 0) + gfprio ds.
  Proof. destruct lbl; cbn [pack is_sym]; unfold gfprio; cbn [fold_right gprio]; lia. Qed.

  Scheme den_mind' := Minimality for den Sort Prop
    with den_opt_mind' := Minimality for den_opt Sort Prop.
  Combined Scheme den_mutind' from den_mind', den_opt_mind'.

  (* every stored unfolding is bounded by the node's priority (cyclic or not) *)
  Lemma den_bounded : (forall l ds, den tok F l ds -> gfprio ds <= pr l) /\
                      (forall o ds, den_opt tok F o ds -> gfprio ds <= pro o).
  Proof.
    apply den_mutind'.
    - intros t x i j. rewrite pr_tok. unfold gfprio. cbn. lia.
    - intros lbl r l rt ds1 ds2 HF _ IH1 _ IH2. rewrite gfprio_pack, gfprio_app.
      assert (Hnt : fams_of lbl <> []).
      { intros E. assert (Hin : In (r, l, rt) (fams_of lbl)) by (apply (fams_of_in tok teqb teqb_spec); exact HF).
        rewrite E in Hin. destruct Hin. }
      destruct (is_tok tok lbl) eqn:Et.
      + (* a token label never owns families in forests the parser builds; the bound still follows from prf_eq
           only for non-token labels, so this case is excluded by the hypothesis below *)
        destruct lbl; try discriminate. exfalso. exact (tok_no_family _ _ _ _ _ HF).
      + destruct (pr_max lbl Et Hnt) as [_ Hub].
        specialize (Hub (prf lbl (r, l, rt))). rewrite (prf_eq _ _ _ _ HF) in Hub.
        assert (Hin : In ((if is_sym lbl then rprio r else 0) + pro rt + pro l) (map (prf lbl) (fams_of lbl))).
        { rewrite <- (prf_eq _ _ _ _ HF). apply in_map. apply (fams_of_in tok teqb teqb_spec). exact HF. }
        specialize (Hub Hin). lia.
    - unfold gfprio. cbn. lia.
    - intros l ds _ IH. exact IH.
  Qed.

  (* ---------------------------------------------------------------- acyclic forests: the optimum is attained *)
  Variable rank : label -> nat.
  Definition orank (o : option label) (n : nat) : Prop :=
    match o with None => True | Some c => (rank c < n)%nat end.
  (* acyclic: the children of a packed node rank below its parent *)
  Hypothesis ranked : forall lbl r l rt, F lbl (r, l, rt) -> orank l (rank lbl) /\ orank rt (rank lbl).
  (* every symbol node referred to has a packed child *)
  Definition oclosed (o : option label) : Prop :=
    match o with Some c => is_tok tok c = false -> fams_of c <> [] | None => True end.
  Hypothesis closed : forall lbl r l rt, F lbl (r, l, rt) -> oclosed l /\ oclosed rt.
  (* emptiness is uniform inside every node *)
  Hypothesis uniform : forall lbl f1 f2, F lbl f1 -> F lbl f2 -> fam_empty f1 = fam_empty f2.

  Definition heads' : list label := map fst fams.

  Lemma first_some_hd {A B} (f : A -> option B) l x : hd_error l = Some x -> f x <> None -> first_some f l = f x.
  Proof. destruct l as [|y r]; cbn; [discriminate|]. intros [= ->] H. destruct (f x); congruence. Qed.

  Lemma best_max lbl fm : best_by (fkey lbl) (fams_of lbl) = Some fm ->
    is_max (prf lbl fm) (map (prf lbl) (fams_of lbl)).
  Proof.
    intros Hb. pose proof (best_by_in _ _ _ Hb) as Hin. split; [apply in_map; exact Hin|].
    intros y Hy. apply in_map_iff in Hy. destruct Hy as [q [<- Hq]].
    pose proof (best_by_least _ _ _ q Hb Hq) as Hle. unfold fkey in Hle. apply sort_key_le in Hle.
    rewrite (uniform lbl fm q) in Hle by (apply (fams_of_in tok teqb teqb_spec); assumption).
    destruct Hle as [[H1 H2]|[_ H]]; [congruence|lia].
  Qed.

  Lemma graph_attained : forall n fuel lbl path,
    (rank lbl <= n)%nat -> (is_tok tok lbl = false -> fams_of lbl <> []) ->
    (forall q, In q path -> (rank lbl < rank q)%nat) ->
    NoDup path -> incl path heads' -> (List.length fams - List.length path < fuel)%nat ->
    exists ds, gres fuel path lbl = Some ds /\ gfprio ds = pr lbl.
  Proof.
    induction n as [n IHn] using lt_wf_ind. intros fuel lbl path Hrk Hne Hp Hnd Hincl Hf.
    destruct fuel as [|f]; [lia|].
    destruct (is_tok tok lbl) eqn:Et.
    { destruct lbl; try discriminate. exists [DL tok t x]. split; [reflexivity|]. rewrite pr_tok. unfold gfprio. cbn. lia. }
    rewrite (gres_nontok tok teqb fams order_key _ _ _ Et).
    assert (Hnp : ~ In lbl path) by (intros Hin; specialize (Hp _ Hin); lia).
    apply (lmem_not_in tok teqb teqb_spec) in Hnp. rewrite Hnp. apply (lmem_not_in tok teqb teqb_spec) in Hnp.
    specialize (Hne eq_refl).
    destruct (best_by (fkey lbl) (fams_of lbl)) as [fm|] eqn:Eb; [|apply best_by_none in Eb; congruence].
    pose proof (best_by_in _ _ _ Eb) as Hin. apply (fams_of_in tok teqb teqb_spec) in Hin.
    destruct fm as [[r l] rt].
    destruct (ranked _ _ _ _ Hin) as [Hrl Hrr]. destruct (closed _ _ _ _ Hin) as [Hcl Hcr].
    assert (Hhead : In lbl heads') by (unfold heads'; apply in_map_iff; exists (lbl, (r, l, rt)); auto).
    assert (Hnd' : NoDup (lbl :: path)) by (constructor; assumption).
    assert (Hincl' : incl (lbl :: path) heads') by (intros q [<-|Hq]; auto).
    assert (Hlen : (List.length (lbl :: path) <= List.length fams)%nat).
    { unfold heads' in Hincl'. rewrite <- (map_length fst fams). apply NoDup_incl_length; assumption. }
    cbn [List.length] in Hlen.
    assert (Hsub : forall o, orank o (rank lbl) -> oclosed o ->
                   exists ds, sub tok teqb fams order_key f (lbl :: path) o = Some ds /\ gfprio ds = pro o).
    { intros o Ho Hc. destruct o as [c|]; cbn [sub pro orank oclosed] in *.
      - apply (IHn (rank c)); try assumption; try lia.
        + intros q [<-|Hq]; [exact Ho|]. specialize (Hp _ Hq). lia.
        + cbn [List.length]. lia.
      - exists []. split; [reflexivity|]. unfold gfprio. cbn. lia. }
    destruct (Hsub l Hrl Hcl) as [d1 [E1 P1]]. destruct (Hsub rt Hrr Hcr) as [d2 [E2 P2]].
    assert (Htry : try_fam tok teqb fams order_key f path lbl (r, l, rt) = Some (pack tok lbl r (d1 ++ d2))).
    { unfold try_fam. rewrite E1, E2. reflexivity. }
    exists (pack tok lbl r (d1 ++ d2)). split.
    - rewrite (first_some_hd _ _ (r, l, rt)); [exact Htry| |congruence].
      rewrite order_key_hd. exact Eb.
    - rewrite gfprio_pack, gfprio_app, P1, P2.
      rewrite <- (is_max_eq _ _ (pr_max lbl Et Hne)), (is_max_eq _ _ (best_max _ _ Eb)).
      rewrite (prf_eq _ _ _ _ Hin). lia.
  Qed.

  (* C05 on acyclic graph forests: the resolve walk returns an unfolding of maximal total priority *)
  Theorem graph_resolve_optimal a i j :
    fams_of (NSym tok a i j) <> [] ->
    exists d, graph_resolve tok teqb fams order_key (NSym tok a i j) = Some d /\
              den tok F (NSym tok a i j) [d] /\
              gprio d = pr (NSym tok a i j) /\
              forall d', den tok F (NSym tok a i j) [d'] -> gprio d' <= gprio d.
  Proof.
    intros Hne.
    destruct (graph_attained (rank (NSym tok a i j)) (S (List.length fams)) (NSym tok a i j) []) as [ds [E P]];
      try (cbn [List.length]; lia); auto.
    - intros q [].
    - constructor.
    - intros q [].
    - pose proof (gres_sound tok teqb teqb_spec fams order_key order_key_perm _ _ _ _ E) as Hden.
      destruct (den_sym_single tok fams _ _ _ _ Hden) as [d ->].
      exists d. unfold graph_resolve. rewrite E. split; [reflexivity|]. split; [exact Hden|].
      assert (Hd : gprio d = pr (NSym tok a i j)) by (rewrite <- P; unfold gfprio; cbn; lia).
      split; [exact Hd|]. intros d' Hd'. pose proof (proj1 den_bounded _ _ Hd') as Hb.
      unfold gfprio in Hb. cbn in Hb. lia.
  Qed.
End GraphPrio.
